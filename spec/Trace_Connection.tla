-------------------------- MODULE Trace_Connection --------------------------
(* Trace validation (code -> spec) for Connection.tla.  Each recorded event    *)
(* names the operation the driver performed on the real objects, with its      *)
(* arguments, and carries the projected state of the real connection after it. *)
(* An event is accepted iff the corresponding specification action is enabled  *)
(* and produces exactly the logged post-state.                                 *)
EXTENDS Connection, TraceLib

VARIABLES tid, l
tvars == <<vars, tid, l>>

Tr == Traces[tid]
ToSet(s) == {s[i] : i \in 1..Len(s)}

Post(p) ==
    /\ inflight' = p.inflight
    /\ avail' = ToSet(p.avail)
    /\ orphans' = ToSet(p.orphans)
    /\ {<<i, reqs'[i]>> : i \in DOMAIN reqs'} = ToSet(p.reqs)
    /\ srv' = ToSet(p.srv)
    /\ \A r \in Reqs : st'[r] = p.st[r] /\ ph'[r] = p.ph[r] /\ rid'[r] = p.rid[r] /\ got'[r] = ToSet(p.got[r]) /\ errs'[r] = p.errs[r]
    /\ \A r \in Reqs : pages'[r] = p.pages[r] /\ cperr'[r] = p.cperr[r]
    /\ {<<i, cps'[i]>> : i \in DOMAIN cps'} = ToSet(p.cps)
    /\ defunct' = p.defunct
    /\ closed' = p.closed
    /\ writable' = p.writable

TraceInit == tid \in 1..NTraces /\ l = 1 /\ Init

TraceNext ==
    /\ l <= Len(Tr)
    /\ l' = l + 1
    /\ UNCHANGED tid
    /\ LET e == Tr[l] IN
       /\ \/ e.e = "Borrow"      /\ Borrow(e.r)
          \/ e.e = "Send"        /\ Send(e.r)
          \/ e.e = "Push"        /\ Push(e.r)
          \/ e.e = "TimeoutStale" /\ TimeoutStale(e.r)
          \/ e.e = "Respond"     /\ Respond(e.id, e.q)
          \/ e.e = "RespondCorrupt"    /\ RespondBad(e.id, e.q, "RespondCorrupt")
          \/ e.e = "RespondProtoError" /\ RespondBad(e.id, e.q, "RespondProtoError")
          \/ e.e = "Page"        /\ RespondPage(e.id, e.q, e.last)
          \/ e.e = "Timeout"     /\ Timeout(e.r)
          \/ e.e = "SocketError" /\ SocketError
          \/ e.e = "Close"       /\ Close
          \/ e.e = "SocketBusy"     /\ SetWritable(FALSE)
          \/ e.e = "SocketWritable" /\ SetWritable(TRUE)
       /\ Post(e.post)

TraceSpec == TraceInit /\ [][TraceNext]_tvars

Progress == RecordProgress(tid, l)
Done == PrintProgress
=============================================================================
