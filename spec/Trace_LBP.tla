----------------------------- MODULE Trace_LBP -----------------------------
(* Trace validation (code -> spec) for LBP.tla.  A trace is the history of   *)
(* calls made on one real policy object (Learn events: hosts recorded in the  *)
(* metadata before populate); the first event also carries the policy        *)
(* configuration.  Every event carries what                                   *)
(* the real object answered right after it: two consecutive query plans and  *)
(* distance() of every known host.  An event is accepted iff the             *)
(* corresponding specification action is enabled and the answers satisfy the *)
(* plan / distance constraints of the specification's post-state; the two    *)
(* plans must contain the same hosts (rotation changes the order only).      *)
EXTENDS LBP, TraceLib

VARIABLES tid, l
tvars == <<vars, tid, l>>

Tr == Traces[tid]
ToSet(s) == {s[i] : i \in 1..Len(s)}

PolOf(j) == [kind |-> j.kind, local |-> j.local, k |-> j.k, allowed |-> ToSet(j.allowed),
             target |-> j.target, cp |-> ToSet(j.cp)]

Obs(e) ==
    /\ PlanOK(e.plan1, exp')
    /\ PlanOK(e.plan2, exp')
    /\ ToSet(e.plan1) = ToSet(e.plan2)
    /\ DistOK([h \in H |-> e.dist[h]], e.plan1, exp', known', live')

TraceInit == /\ tid \in 1..NTraces
             /\ l = 1
             /\ InitWith(PolOf(Traces[tid][1].pol))

TraceNext ==
    /\ l <= Len(Tr)
    /\ l' = l + 1
    /\ UNCHANGED tid
    /\ LET e == Tr[l] IN
       /\ \/ e.e = "Learn"    /\ Learn(e.h, e.d, e.up)
          \/ e.e = "Populate" /\ Populate /\ ToSet(e.order) = known /\ Len(e.order) = Cardinality(known)
          \/ e.e = "Up"       /\ Up(e.h)
          \/ e.e = "Down"     /\ Down(e.h)
          \/ e.e = "Add"      /\ Add(e.h, e.d)
          \/ e.e = "Remove"   /\ Remove(e.h)
          \/ e.e = "Relocate" /\ Relocate(e.h, e.d)
       /\ populated' => Obs(e)

TraceSpec == TraceInit /\ [][TraceNext]_tvars

Progress == RecordProgress(tid, l)
Done == PrintProgress
=============================================================================
