---------------------------- MODULE Trace_CqlLex ----------------------------
(* Trace validation (code -> spec) for CqlLex.tla (C27).  One trace = the      *)
(* characters one driver function returned for one name / text:                *)
(*   {e: "begin", kind: "ident" | "str", want: [characters of the original]}   *)
(*   {e: "ch", ch: <character>, cp: <code point>, cls: <character class>}  ... *)
(*   {e: "end"}                                                                *)
(* Every character is pushed through the automaton of CqlLex.tla (Feed); the   *)
(* trace is accepted iff the automaton ends with exactly one token, of the     *)
(* wanted kind, whose value is the original.  The class the harness claims for *)
(* a character must be the class the specification gives it.                   *)
EXTENDS CqlLex, TraceLib

VARIABLES tid, l
tvars == <<vars, tid, l>>

Tr == Traces[tid]

TraceInit == tid \in 1..NTraces /\ l = 1 /\ n = <<>> /\ form = "trace" /\ bare = FALSE /\ Auto0

TraceNext ==
    /\ l <= Len(Tr)
    /\ l' = l + 1
    /\ UNCHANGED tid
    /\ LET e == Tr[l] IN
       \/ /\ e.e = "begin" /\ l = 1
          /\ e.kind \in {"ident", "str"}
          /\ n' = e.want /\ form' = e.kind
          /\ UNCHANGED <<pos, mode, cur, toks, done, bare>>
       \/ /\ e.e = "ch" /\ l > 1 /\ ~done
          /\ ClassOf(e.ch) = e.cls
          /\ (e.cp >= 128 => e.cls = "other")
          /\ Feed(e.ch)
          /\ UNCHANGED <<n, form, done, bare>>
       \/ /\ e.e = "end" /\ l > 1 /\ ~done
          /\ Finish
          /\ toks' = <<Tok(form, n)>>
          /\ UNCHANGED <<n, form, bare>>

TraceSpec == TraceInit /\ [][TraceNext]_tvars

Progress == RecordProgress(tid, l)
Done == PrintProgress
=============================================================================
