--------------------------- MODULE ControlRefresh ---------------------------
(* C42 - a node-list refresh makes the cluster metadata mirror system.local  *)
(* and system.peers(_v2).                                                     *)
(*                                                                            *)
(* Code anchors (cassandra/):                                                 *)
(*   cluster.py  ControlConnection._refresh_node_list_and_token_map           *)
(*               (:3861-3993; one Refresh action = one call), _is_valid_peer  *)
(*               and _update_location_info (:3995-4011), Cluster.add_host /   *)
(*               on_add / _finalize_add / remove_host / on_remove             *)
(*               (:2012-2127), ControlConnection.on_remove (:4242-4249)       *)
(*   metadata.py Metadata.rebuild_token_map / add_or_return_host /            *)
(*               remove_host (:274-337)                                       *)
(*                                                                            *)
(* Hosts are numbered: 0 is the control node (the host the control            *)
(* connection is open to, described by system.local), Peers are the others.   *)
(* A snapshot is what the two tables hold at the moment of the refresh:       *)
(*   local   the location and token set of the control node                   *)
(*   info    location and token set every peer *would* report                  *)
(*   shape   how each peer shows up in system.peers: not at all, one valid    *)
(*           row, one row lacking address / host_id / data_center / rack /    *)
(*           tokens, two valid rows (duplicate endpoint), or a valid and an   *)
(*           invalid row in either order                                      *)
(*   ctlDup  a valid peers row whose endpoint is the control node's (with      *)
(*           other data than system.local: the control node is described by   *)
(*           system.local)                                                    *)
(* The Refresh action processes the rows in table order exactly like the      *)
(* code (found set, add or update, removal pass); the properties below are    *)
(* stated declaratively on the snapshot, so TLC checks the loop against them. *)
(* The specification rebuilds the token map whenever membership or a token    *)
(* set changed (the behaviour C42 asks for); `ring` is the content of         *)
(* Metadata.token_map (token -> owner) as of the last rebuild.                *)
EXTENDS Naturals, Sequences, FiniteSets, TLC

CONSTANTS Peers,        \* peer host numbers, a set 1..N
          Locs,         \* locations (a dc/rack pair each)
          TokVs,        \* token-set variants a peer can own (subset of 1..5)
          LocalTokVs,   \* token-set variants the control node can own (subset of 1..3)
          Shapes,       \* row shapes to enumerate, subset of AllShapes
          LocalLocs,    \* locations the control node can report
          CtlDups,      \* {FALSE} or BOOLEAN
          Forces,       \* values of force_token_rebuild to enumerate
          SameAddr      \* peers that sit behind the control node's ADDRESS and are told apart by their native port
                        \* (system.peers_v2 native_port: port-mapped / single-machine clusters, SNI proxies)

AllShapes   == {"absent", "valid", "noaddr", "nohid", "nodc", "norack", "notok", "dup", "inv_valid", "valid_inv"}
ValidShapes == {"valid", "dup", "inv_valid", "valid_inv"}      \* shapes containing a valid row
Hosts       == Peers \cup {0}
ASSUME SameAddr \subseteq Peers

\* A host IS its endpoint = (address, native port).  Address 0 is the control node's; port 0 is the default port.
\* Hosts are identified by endpoint everywhere below (found set, known, removal pass): sharing an address with the
\* control node - or with anybody - gives a host no special standing.
Endpoint(h) == IF h \in SameAddr THEN [addr |-> 0, port |-> h] ELSE [addr |-> h, port |-> 0]
ASSUME \A g, h \in Hosts : Endpoint(g) = Endpoint(h) => g = h

\* the tokens of variant v on host h; variant 0 = nothing known yet.  Variant 3 = the host's own token moved.
\* Variants 4 and 5 (peers only) own the PREDECESSOR's primary token 16 * (h - 1): host h replaced host h - 1 and took
\* over exactly its token (4), or that token moved over to h (5).  With them two snapshots can have the same SET of
\* tokens and differ only in WHO owns a token.
Tok(h, v) == CASE v = 1 -> {16 * h}
               [] v = 2 -> {16 * h, 16 * h + 8}
               [] v = 3 -> {16 * h + 8}
               [] v = 4 /\ h >= 1 -> {16 * (h - 1)}
               [] v = 5 /\ h >= 1 -> {16 * (h - 1), 16 * h}
               [] OTHER -> {}

\* no token has two owners (a system table never says so)
Disjoint(k) == \A g, h \in DOMAIN k : g # h => Tok(g, k[g].tok) \cap Tok(h, k[h].tok) = {}

NoInfo   == [loc |-> "none", tok |-> 0]
Infos    == [loc : Locs, tok : TokVs]
DefInfo  == [loc |-> CHOOSE l \in Locs : TRUE, tok |-> CHOOSE v \in TokVs : TRUE]

\* rows of one peer, in table order; i = what a (valid) row of that peer says
Row(p, miss, i) == [ep |-> p, endpoint |-> Endpoint(p), miss |-> miss, info |-> i]
RowsOf(p, sh, i) == CASE sh = "absent"    -> <<>>
                      [] sh = "valid"     -> <<Row(p, "none", i)>>
                      [] sh = "noaddr"    -> <<Row(p, "address", i)>>
                      [] sh = "nohid"     -> <<Row(p, "host_id", i)>>
                      [] sh = "nodc"      -> <<Row(p, "data_center", i)>>
                      [] sh = "norack"    -> <<Row(p, "rack", i)>>
                      [] sh = "notok"     -> <<Row(p, "tokens", i)>>
                      [] sh = "dup"       -> <<Row(p, "none", i), Row(p, "none", i)>>
                      [] sh = "inv_valid" -> <<Row(p, "host_id", i), Row(p, "none", i)>>
                      [] sh = "valid_inv" -> <<Row(p, "none", i), Row(p, "rack", i)>>

\* a peers row that carries the control node's endpoint says something else than system.local (which is
\* authoritative for the control node) whenever the constants allow it
Other(X, x) == IF X \ {x} = {} THEN x ELSE CHOOSE y \in X \ {x} : TRUE
CtlDupInfo(l) == [loc |-> Other(Locs, l.loc), tok |-> Other(TokVs, l.tok)]

MaxOf(X) == CHOOSE x \in X : \A y \in X : y <= x
RECURSIVE PeerRows(_, _)
PeerRows(snap, n) == IF n = 0 THEN <<>>
                     ELSE PeerRows(snap, n - 1) \o (IF n \in Peers THEN RowsOf(n, snap.shape[n], snap.info[n]) ELSE <<>>)

\* system.peers as the driver reads it
Rows(snap) == (IF snap.ctlDup THEN <<Row(0, "none", CtlDupInfo(snap.local))>> ELSE <<>>)
              \o PeerRows(snap, IF Peers = {} THEN 0 ELSE MaxOf(Peers))

\* snapshots; the info of a peer without a valid row is irrelevant and fixed
Canonical(snap) == \A p \in Peers : snap.shape[p] \notin ValidShapes => snap.info[p] = DefInfo
Described(snap) == [h \in {0} \cup {p \in Peers : snap.shape[p] \in ValidShapes} |-> IF h = 0 THEN snap.local ELSE snap.info[h]]
Snapshots == {s \in [local : [loc : LocalLocs, tok : LocalTokVs], info : [Peers -> Infos],
                     shape : [Peers -> Shapes], ctlDup : CtlDups] : Canonical(s) /\ Disjoint(Described(s))}

RingOf(k) == LET toks == UNION {Tok(h, k[h].tok) : h \in DOMAIN k}
             IN [t \in toks |-> CHOOSE h \in DOMAIN k : t \in Tok(h, k[h].tok)]

VARIABLES known,     \* Metadata._hosts: host -> [loc, tok] (tok = the token set last reported for it)
          ring,      \* content of Metadata.token_map as of the last rebuild: token -> owner
          prev,      \* `known` before the last action
          added,     \* host -> number of on_add notifications during the last action
          removed,   \* host -> number of on_remove notifications during the last action
          moves,     \* {<<host, old loc, new loc>>}: policies told down(old location), up(new location)
          rebuilt,   \* the last action rebuilt the token map
          act        \* the last action and its arguments
vars == <<known, ring, prev, added, removed, moves, rebuilt, act>>

Zero == [h \in Hosts |-> 0]

\* before Cluster.connect(): the contact point is known by address only, no token map
Init == /\ known = (0 :> NoInfo)
        /\ ring = [t \in {} |-> 0]
        /\ prev = (0 :> NoInfo)
        /\ added = Zero /\ removed = Zero /\ moves = {} /\ rebuilt = FALSE
        /\ act = [name |-> "Init"]

\* the `for row in peers_result` loop body (:3945-3982)
RowStep(acc, r, snap) ==
    IF r.miss # "none" THEN acc                                   \* _is_valid_peer
    ELSE IF r.ep \in acc.found THEN acc                           \* "Found multiple hosts with the same endpoint"
    ELSE LET i == r.info IN
         IF r.ep \notin DOMAIN acc.k
         THEN [found |-> acc.found \cup {r.ep},
               k     |-> acc.k @@ (r.ep :> i),                    \* add_host(..., signal=True)
               adds  |-> [acc.adds EXCEPT ![r.ep] = @ + 1],
               moves |-> acc.moves]
         ELSE [found |-> acc.found \cup {r.ep},
               k     |-> [acc.k EXCEPT ![r.ep] = i],
               adds  |-> acc.adds,
               moves |-> IF acc.k[r.ep].loc # i.loc                \* _update_location_info
                         THEN acc.moves \cup {<<r.ep, acc.k[r.ep].loc, i.loc>>} ELSE acc.moves]

RECURSIVE FoldRows(_, _, _, _)
FoldRows(acc, rows, n, snap) == IF n > Len(rows) THEN acc ELSE FoldRows(RowStep(acc, rows[n], snap), rows, n + 1, snap)

\* everything one call computes, as a value (TLC evaluates it once per transition, see Refresh)
Post(k, rg, snap, force) ==
    LET acc0 == [found |-> {0},                                   \* found_hosts.add(connection.endpoint)
                 k     |-> [k EXCEPT ![0] = snap.local],
                 adds  |-> Zero,
                 moves |-> IF k[0].loc # snap.local.loc THEN {<<0, k[0].loc, snap.local.loc>>} ELSE {}]
        acc  == FoldRows(acc0, Rows(snap), 1, snap)
        gone == DOMAIN k \ acc.found                               \* removal pass (:3984-3988)
        k1   == [h \in acc.found |-> acc.k[h]]
        changed == \/ DOMAIN k1 # DOMAIN k
                   \/ \E h \in DOMAIN k1 \cap DOMAIN k : k1[h].tok # k[h].tok
        rb   == force \/ changed
    IN [known |-> k1, added |-> acc.adds, removed |-> [h \in Hosts |-> IF h \in gone THEN 1 ELSE 0],
        moves |-> acc.moves, rebuilt |-> rb, ring |-> IF rb THEN RingOf(k1) ELSE rg]

Refresh(snap, force) ==
    \E p \in {Post(known, ring, snap, force)} :
       /\ known' = p.known
       /\ prev' = known
       /\ added' = p.added
       /\ removed' = p.removed
       /\ moves' = p.moves
       /\ rebuilt' = p.rebuilt
       /\ ring' = p.ring
       /\ act' = [name |-> "Refresh", snap |-> snap, force |-> force, rows |-> Rows(snap)]

Next == \E snap \in Snapshots, force \in Forces : Refresh(snap, force)
Spec == Init /\ [][Next]_vars

\* Induction instead of depth: RingFresh /\ TypeOK is the inductive invariant.  InitAny starts from *any* metadata
\* state satisfying it (any set of known hosts containing the control node, any locations and token sets, token map
\* fresh); with NEXT NextOnce TLC then checks every (state before, snapshot) pair exactly once.  Together with
\* the run from Init (base case) this covers refresh sequences of every length over the enumerated hosts.
\* (no zero-arity definition of the set of all such states: TLC would enumerate it at start-up in every configuration)
KnownOver(D) == {k \in [D -> Infos \cup [loc : LocalLocs, tok : LocalTokVs]] :
                    /\ k[0].loc \in LocalLocs /\ k[0].tok \in LocalTokVs
                    /\ \A p \in D \ {0} : k[p] \in Infos
                    /\ Disjoint(k)}
InitAny == /\ \E X \in SUBSET Peers : known \in KnownOver(X \cup {0})
           /\ ring = RingOf(known)
           /\ prev = known
           /\ added = Zero /\ removed = Zero /\ moves = {} /\ rebuilt = FALSE
           /\ act = [name |-> "Any"]
InitBoth == Init \/ InitAny          \* base case and inductive step in one TLC run
NextOnce == act.name # "Refresh" /\ Next

-----------------------------------------------------------------------------
\* C42, stated on the snapshot
ValidDistinct(snap) == {p \in Peers : snap.shape[p] \in ValidShapes}
Refreshed == act.name = "Refresh"

TypeOK == /\ 0 \in DOMAIN known /\ DOMAIN known \subseteq Hosts
          /\ \A h \in Hosts : added[h] \in Nat /\ removed[h] \in Nat

\* known hosts = the control node plus every valid, distinct peer row, with what the tables say about them
Mirror == Refreshed =>
            /\ DOMAIN known = {0} \cup ValidDistinct(act.snap)
            /\ known[0] = act.snap.local
            /\ \A p \in ValidDistinct(act.snap) : known[p] = act.snap.info[p]

\* newly seen hosts are announced once, nothing else is announced
AddedOnce == \A h \in Hosts : added[h] = IF h \in DOMAIN known \ DOMAIN prev THEN 1 ELSE 0

\* vanished hosts are removed once - whatever address they have - nothing else is removed; the control node is never
\* removed
RemovedOnce == /\ \A h \in Hosts : removed[h] = IF h \in DOMAIN prev \ DOMAIN known THEN 1 ELSE 0
               /\ removed[0] = 0

\* dc/rack changes reach the policies: down at the old location, up at the new one
LocationReached == moves = {<<h, prev[h].loc, known[h].loc>> :
                                h \in {x \in DOMAIN prev \cap DOMAIN known : prev[x].loc # known[x].loc}}

MembershipOrTokensChanged == \/ DOMAIN known # DOMAIN prev
                             \/ \E h \in DOMAIN known \cap DOMAIN prev : known[h].tok # prev[h].tok
RebuiltWhenChanged == Refreshed /\ MembershipOrTokensChanged => rebuilt

TokensDisjoint == Disjoint(known)

\* hence the token map always describes the current ring: the same tokens AND the same owner for each
RingFresh == Refreshed => ring = RingOf(known)

\* vacuity witnesses (negated reachability; TLC must find them violated)
Witness_TokenOnlyChange == ~(/\ Refreshed /\ DOMAIN known = DOMAIN prev /\ Cardinality(DOMAIN known) >= 2
                             /\ \A h \in DOMAIN known : known[h].loc = prev[h].loc
                             /\ \E h \in DOMAIN known : known[h].tok # prev[h].tok)
Witness_Duplicate       == ~(Refreshed /\ \E p \in Peers : act.snap.shape[p] = "dup" /\ p \in DOMAIN known /\ added[p] = 1)
Witness_InvalidIgnored  == ~(Refreshed /\ \E p \in Peers : act.snap.shape[p] \in AllShapes \ (ValidShapes \cup {"absent"})
                                                            /\ p \in DOMAIN prev /\ removed[p] = 1)
Witness_Moved           == ~(Refreshed /\ \E m \in moves : m[1] # 0 /\ m[2] # "none")
Witness_AddAndRemove    == ~(Refreshed /\ (\E h \in Hosts : added[h] = 1) /\ (\E h \in Hosts : removed[h] = 1))
Witness_NoRebuild       == ~(Refreshed /\ ~rebuilt /\ prev[0].tok # 0)
Witness_OwnerOnlyChange == ~(/\ Refreshed /\ prev[0].tok # 0
                             /\ DOMAIN RingOf(prev) = DOMAIN ring /\ RingOf(prev) # ring)
Witness_SharedAddressRemoved == ~(Refreshed /\ \E h \in SameAddr : removed[h] = 1)

ASSUME TLCSet(2, {})
WitnessesHere == (IF ~Witness_TokenOnlyChange THEN {"Witness_TokenOnlyChange"} ELSE {})
            \cup (IF ~Witness_Duplicate THEN {"Witness_Duplicate"} ELSE {})
            \cup (IF ~Witness_InvalidIgnored THEN {"Witness_InvalidIgnored"} ELSE {})
            \cup (IF ~Witness_Moved THEN {"Witness_Moved"} ELSE {})
            \cup (IF ~Witness_AddAndRemove THEN {"Witness_AddAndRemove"} ELSE {})
            \cup (IF ~Witness_NoRebuild THEN {"Witness_NoRebuild"} ELSE {})
            \cup (IF ~Witness_OwnerOnlyChange THEN {"Witness_OwnerOnlyChange"} ELSE {})
            \cup (IF ~Witness_SharedAddressRemoved THEN {"Witness_SharedAddressRemoved"} ELSE {})
RecordWitnesses == TLCSet(2, TLCGet(2) \cup WitnessesHere)
PrintWitnesses == PrintT(<<"WITNESSES", TLCGet(2)>>)
=============================================================================
