---------------------------- MODULE Trace_Hosts ----------------------------
(* Trace validation (code -> spec) for Hosts.tla.  Each recorded event names    *)
(* the operation performed on the real Cluster (run this executor task, hand    *)
(* this scheduler entry over, push this event, break this connection, the next   *)
(* stretch of Cluster.shutdown, a request) and carries the state of the real     *)
(* objects after it, projected on the specification's variables.  An event is    *)
(* accepted iff the specification action is enabled and yields exactly the       *)
(* logged post-state.                                                            *)
(*                                                                               *)
(* Log format: functions over hosts / sessions are arrays in increasing order of *)
(* host / session; bags are arrays of task objects with a count field c.         *)
EXTENDS Hosts, TraceLib

VARIABLES tid, l
tvars == <<vars, tid, l>>

Tr == Traces[tid]
ToSet(s) == {s[i] : i \in 1..Len(s)}

SortedSeq(S) == LET it[X \in SUBSET S] == IF X = {} THEN <<>> ELSE <<Min(X)>> \o it[X \ {Min(X)}] IN it[S]
HS == SortedSeq(Objs)        \* Host objects (endpoints and, with "readd", their second incarnations)
AS == SortedSeq(AllHosts)
SS == SortedSeq(Sessions)

TaskOf(x) == T(x.k, x.s, x.h, x.kind, x.f1, x.f2, x.n)
BagIs(b, arr) == /\ DOMAIN b = {TaskOf(arr[i]) : i \in 1..Len(arr)}
                 /\ \A i \in 1..Len(arr) : b[TaskOf(arr[i])] = arr[i].c
SeqBag(s) == [x \in ToSet(s) |-> Cardinality({i \in 1..Len(s) : s[i] = x})]

Post(p) ==
    /\ \A i \in 1..Len(HS) : /\ known'[HS[i]] = p.known[i]
                             /\ removed'[HS[i]] = p.removed[i]
                             /\ up'[HS[i]] = p.up[i]
                             /\ handling'[HS[i]] = p.handling[i]
                             /\ recon'[HS[i]] = p.recon[i]
    /\ \A i \in 1..Len(SS) : \A j \in 1..Len(AS) : pools'[SS[i]][AS[j]] = p.pools[i][j]
    /\ DOMAIN grp' = {<<p.grp[i].h, p.grp[i].kind, p.grp[i].n>> : i \in 1..Len(p.grp)}
    /\ \A i \in 1..Len(p.grp) : LET g == grp'[<<p.grp[i].h, p.grp[i].kind, p.grp[i].n>>] IN
                                    g.left = ToSet(p.grp[i].left) /\ g.ok = p.grp[i].ok /\ g.open = p.grp[i].open
    /\ BagIs(exec', p.exec)
    /\ BagIs(sched', p.sched)
    /\ lbpLive' = ToSet(p.lbpLive)
    /\ phase' = p.phase
    /\ ctl' = p.ctl
    /\ ctlPend' = p.ctlPend
    /\ \A i \in 1..Len(SS) : req'[SS[i]] = p.req[i]
    /\ SeqBag(emL') = SeqBag(p.emL)
    /\ SeqBag(emP') = SeqBag(p.emP)
    /\ emC' = p.emC
    /\ NOpenOf(ctl', ctlPend', leaked', pools', exec') = p.nopen

TraceInit == tid \in 1..NTraces /\ l = 1 /\ Init

TraceNext ==
    /\ l <= Len(Tr)
    /\ l' = l + 1
    /\ UNCHANGED tid
    /\ LET e == Tr[l] IN
       /\ \/ e.e = "Exec"          /\ Exec(TaskOf(e.t))
          \/ e.e = "Fire"          /\ Fire(TaskOf(e.t))
          \/ e.e = "ConnFailure"   /\ ConnFailure(e.s, e.h)
          \/ e.e = "StatusEvent"   /\ StatusEvent(e.h, e.x)
          \/ e.e = "TopologyEvent" /\ TopologyEvent(e.h, e.x)
          \/ e.e = "SetMode"       /\ SetMode(e.h, e.x)
          \/ e.e = "CtlFail"       /\ CtlFail
          \/ e.e = "ShutdownA"     /\ ShutdownA
          \/ e.e = "ShutdownS"     /\ ShutdownS
          \/ e.e = "ShutdownE"     /\ ShutdownE
          \/ e.e = "Request"       /\ Request(e.s)
       /\ Post(e.post)

TraceSpec == TraceInit /\ [][TraceNext]_tvars

Progress == RecordProgress(tid, l)
Done == PrintProgress
=============================================================================
