------------------------------ MODULE PushQueue ------------------------------
(* Outgoing path of an event-loop reactor connection (C11).                   *)
(*                                                                            *)
(* Code anchors: cassandra/io/asyncioreactor.py AsyncioConnection.push /      *)
(* _push_msg / handle_write; cassandra/io/twistedreactor.py                   *)
(* TwistedConnection.push (reactor.callFromThread(transport.write, data)).    *)
(*                                                                            *)
(* Any thread may call push(message).  push cuts the message into chunks of   *)
(* out_buffer_size and hands ONE task to the loop (call_soon_threadsafe /     *)
(* callFromThread are FIFO).  The task, on the loop thread, puts all chunks   *)
(* of its message into the write queue contiguously (asyncio: under           *)
(* _write_queue_lock; twisted: one transport.write).  The writer drains the   *)
(* queue in order onto the socket.                                            *)
EXTENDS Naturals, Sequences, FiniteSets, TLC

CONSTANTS Threads,     \* pushing threads
          K,           \* messages pushed per thread
          MaxChunks    \* a message has 1..MaxChunks chunks

VARIABLES pushed,   \* pushed[t]: number of messages thread t has pushed so far
          ready,    \* FIFO of tasks handed to the loop: <<t, m, n>>
          queue,    \* write queue: sequence of chunks <<t, m, k, n>>
          wire      \* chunks written to the socket, in order
vars == <<pushed, ready, queue, wire>>

Chunks(t, m, n) == [k \in 1..n |-> <<t, m, k, n>>]

Init == /\ pushed = [t \in Threads |-> 0]
        /\ ready = <<>>
        /\ queue = <<>>
        /\ wire = <<>>

Push(t, n) == /\ pushed[t] < K
              /\ pushed' = [pushed EXCEPT ![t] = @ + 1]
              /\ ready' = Append(ready, <<t, pushed[t] + 1, n>>)
              /\ UNCHANGED <<queue, wire>>

RunTask == /\ ready # <<>>
           /\ LET x == Head(ready) IN queue' = queue \o Chunks(x[1], x[2], x[3])
           /\ ready' = Tail(ready)
           /\ UNCHANGED <<pushed, wire>>

Drain == /\ queue # <<>>
         /\ wire' = Append(wire, Head(queue))
         /\ queue' = Tail(queue)
         /\ UNCHANGED <<pushed, ready>>

Next == (\E t \in Threads, n \in 1..MaxChunks : Push(t, n)) \/ RunTask \/ Drain

Spec == Init /\ [][Next]_vars /\ WF_vars(RunTask) /\ WF_vars(Drain)

-----------------------------------------------------------------------------
\* C11: the socket byte stream is a concatenation of whole messages ...
Whole ==
    \A i \in 1..Len(wire) :
        LET c == wire[i] IN
        IF c[3] = 1
        THEN i = 1 \/ wire[i - 1][3] = wire[i - 1][4]                 \* previous chunk closed its message
        ELSE i > 1 /\ wire[i - 1] = <<c[1], c[2], c[3] - 1, c[4]>>      \* continues its own message

\* ... in an order consistent with each thread's push order, nothing duplicated
FirstChunks(t) == SelectSeq(wire, LAMBDA c : c[1] = t /\ c[3] = 1)
PerThreadOrder == \A t \in Threads : \A i \in 1..Len(FirstChunks(t)) : FirstChunks(t)[i][2] = i

\* ... and nothing truncated or lost once everything has been flushed
Flushed == ready = <<>> /\ queue = <<>>
Complete == Flushed =>
    \A t \in Threads : /\ Len(FirstChunks(t)) = pushed[t]
                       /\ \A i \in 1..Len(wire) : wire[i][3] = wire[i][4] \/ i < Len(wire)

\* O(1) forms of the same facts for long traces (every state is checked, so looking at the last chunk is enough)
WholeLast ==
    Len(wire) > 0 =>
        LET i == Len(wire)
            c == wire[i] IN
        IF c[3] = 1 THEN i = 1 \/ wire[i - 1][3] = wire[i - 1][4]
                    ELSE i > 1 /\ wire[i - 1] = <<c[1], c[2], c[3] - 1, c[4]>>
FlushedClosed == (Flushed /\ Len(wire) > 0) => wire[Len(wire)][3] = wire[Len(wire)][4]

EventuallyFlushed == <>[]Flushed      \* pushes are finite; the loop and the writer are fair

Witness_Interleaved == ~(\E i \in 1..Len(wire) : i > 1 /\ wire[i][1] # wire[i - 1][1])
Witness_MultiChunk == ~(\E i \in 1..Len(wire) : wire[i][3] > 1)
=============================================================================
