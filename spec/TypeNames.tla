------------------------------ MODULE TypeNames ------------------------------
(* C28.  Nested CQL types as trees and their two notations.                     *)
(*                                                                             *)
(*   tree      [k, a, nm, d]: kind, argument trees, UDT name, vector dimension  *)
(*   kinds     int text | list(T) set(T) map(T,T) | tuple(T+) udt(name; T+)     *)
(*             | frozen(T) | vector(T, d) | reversed(T) (outermost only)        *)
(*                                                                             *)
(*   CqlName(t)   the CQL type string as tokens: list<int>, map<int, text>,     *)
(*                frozen<tuple<int, text>>, frozen<"Kj">, vector<int, 2>;      *)
(*                a reversed type has the CQL name of its base type             *)
(*                (ReversedType.asCQL3Type; clustering order is not part of     *)
(*                the type in CQL).                                             *)
(*   CassName(t)  the marshal-class descriptor as tokens, in the dialect of     *)
(*                Cassandra 2.1 - 3.5 (the one schema tables carried and the    *)
(*                driver's schema parser reads): collections print              *)
(*                FrozenType(...) when frozen; tuples and UDTs are always       *)
(*                frozen and print WITHOUT a FrozenType wrapper, their CQL      *)
(*                name being frozen<tuple<..>> / frozen<name>; UDTs print       *)
(*                UserType(keyspace,hex(name),hex(field):type,...); vectors     *)
(*                VectorType(type , dimension) (Cassandra 5.0).                 *)
(*                Defined for the trees of CassOk: tuple / udt directly under   *)
(*                frozen, frozen only around list set map tuple udt.            *)
(*   StripFrozen(t) the tree without its frozen nodes.                          *)
(*                                                                             *)
(* TLC enumerates the trees (depth <= MaxDepth, frozen / reversed wrappers not  *)
(* counted); every state carries the token sequences so that the binding reads  *)
(* the specification's answers: lookup_casstype(CassName(t)) must print         *)
(* CqlName(t) and be the codec of t; python_to_cqltype(cqltype_to_python(s)) =  *)
(* s for s = CqlName(t); strip_frozen(s) = CqlName(StripFrozen(t)).             *)
(* Checked here on the specification itself: brackets balance, StripFrozen      *)
(* leaves no frozen and is idempotent, and on tokens it removes exactly each    *)
(* "frozen" "<" and the matching ">" (StripExact).                              *)
EXTENDS Naturals, Sequences, FiniteSets, TLC

CONSTANTS MaxDepth,     \* 1 = the two leaves
          Narrow        \* BOOLEAN: at the outermost level two-argument constructors take at least one leaf (quick tier)

Tr(k, a, nm, d) == [k |-> k, a |-> a, nm |-> nm, d |-> d]
Leaf(k)      == Tr(k, <<>>, "", 0)
Un(k, x)     == Tr(k, <<x>>, "", 0)
Bin(k, x, y) == Tr(k, <<x, y>>, "", 0)
Udt(nm, a)   == Tr("udt", a, nm, 0)
Vec(x, d)    == Tr("vector", <<x>>, "", d)

Leaves == {Leaf("int"), Leaf("text")}
Freezable == {"list", "set", "map", "tuple", "udt"}
Dims == {2}

\* UDTs: name -> field names.  "kj" has two fields, the others one.  All live in keyspace "ks" except those of
\* UdtKs below.
\* "Kj", "Big Type", "other-udt" and a"b need quoting in CQL (mixed case, space, dash, embedded double quote).
UdtFields == ("u" :> <<"f1">>) @@ ("kj" :> <<"f1", "F2">>) @@ ("Kj" :> <<"f1">>)
          @@ ("Big Type" :> <<"f1">>) @@ ("other-udt" :> <<"f1">>) @@ ("a\"b" :> <<"f1">>)
          @@ ("it's" :> <<"f1">>)                    \* an apostrophe is an ordinary character of a quoted identifier
          \* names that are ALSO plain-name tokens of descriptors (used in the parse histories only, see HTrees):
          \* a type called like its keyspace, a type called like the other types' keyspace, a type called like a
          \* marshal class, and a type living in a keyspace that is called like a marshal class
          @@ ("shop" :> <<"f1">>) @@ ("shopitem" :> <<"f1">>) @@ ("ks" :> <<"f1">>) @@ ("Int32Type" :> <<"f1">>)
          @@ ("inbuilt" :> <<"f1">>)
UdtNames  == DOMAIN UdtFields
\* keyspace of a user type
UdtKs == [nm \in UdtNames |-> IF nm \in {"shop", "shopitem"} THEN "shop" ELSE IF nm = "inbuilt" THEN "Int32Type" ELSE "ks"]
\* hex(ASCII) as Cassandra prints names inside UserType(...)
Hex == ("u" :> "75") @@ ("kj" :> "6b6a") @@ ("Kj" :> "4b6a") @@ ("f1" :> "6631") @@ ("F2" :> "4632")
    @@ ("Big Type" :> "4269672054797065") @@ ("other-udt" :> "6f746865722d756474") @@ ("a\"b" :> "612262")
    @@ ("it's" :> "69742773")
    @@ ("shop" :> "73686f70") @@ ("shopitem" :> "73686f706974656d") @@ ("ks" :> "6b73")
    @@ ("Int32Type" :> "496e74333254797065") @@ ("inbuilt" :> "696e6275696c74")
\* the name as a CQL identifier (ColumnIdentifier.maybeQuote, see CqlLex.tla: Quote doubles the double quote)
UdtCql == ("u" :> "u") @@ ("kj" :> "kj") @@ ("Kj" :> "\"Kj\"")
       @@ ("Big Type" :> "\"Big Type\"") @@ ("other-udt" :> "\"other-udt\"") @@ ("a\"b" :> "\"a\"\"b\"")
       @@ ("it's" :> "\"it's\"")
       @@ ("shop" :> "shop") @@ ("shopitem" :> "shopitem") @@ ("ks" :> "ks") @@ ("Int32Type" :> "\"Int32Type\"")
       @@ ("inbuilt" :> "inbuilt")

\* trees by depth.  NF(d): not rooted at frozen / reversed; All(d): with frozen roots
RECURSIVE NF(_)
Fr(S)  == {Un("frozen", x) : x \in {y \in S : y.k \in Freezable}}
All(d) == IF d = 0 THEN {} ELSE NF(d) \cup Fr(NF(d))
Pairs(S, narrow) == IF narrow THEN {p \in S \X S : p[1] \in Leaves \/ p[2] \in Leaves} ELSE S \X S
Build(S, narrow) ==
         Leaves
    \cup {Un("list", x) : x \in S} \cup {Un("set", x) : x \in S}
    \cup {Bin("map", p[1], p[2]) : p \in Pairs(S, narrow)}
    \cup {Un("tuple", x) : x \in S} \cup {Bin("tuple", p[1], p[2]) : p \in Pairs(S, narrow)}
    \cup {Udt("u", <<x>>) : x \in S} \cup {Udt("Kj", <<x>>) : x \in S}
    \cup {Udt("kj", <<p[1], p[2]>>) : p \in Pairs(S, narrow)}
    \cup {Vec(x, d) : x \in S, d \in Dims}
NF(d) == IF d <= 1 THEN Leaves ELSE Build(All(d - 1), Narrow /\ d = MaxDepth)

\* type strings with two and three QUOTED identifiers at different positions (map key / value, tuple members,
\* inside frozen<list<..>>), bare (CQL notation only) and frozen (both notations)
QNames == {"Kj", "Big Type", "other-udt", "a\"b"}
Q(nm)  == Udt(nm, <<Leaf("int")>>)
FQ(nm) == Un("frozen", Q(nm))
QTrees ==
         {Bin("map", Q(a), Q(b)) : a \in QNames, b \in QNames}
    \cup {Bin("map", FQ(a), FQ(b)) : a \in QNames, b \in QNames}
    \cup {Bin("map", Q(a), Un("frozen", Un("list", Q(b)))) : a \in QNames, b \in QNames}
    \cup {Bin("map", FQ(a), Un("frozen", Un("list", FQ(b)))) : a \in QNames, b \in QNames}
    \cup {Bin("tuple", Q(a), Q(b)) : a \in QNames, b \in QNames}
    \cup {Un("frozen", Bin("tuple", FQ(a), FQ(b))) : a \in QNames, b \in QNames}
    \cup {Tr("tuple", <<Q(a), Q(b), Q(c)>>, "", 0) : a \in QNames, b \in QNames, c \in QNames}
    \cup {Bin("map", Q(a), Un("frozen", Bin("tuple", Q(b), Q(c)))) : a \in QNames, b \in QNames, c \in QNames}
    \cup {Bin("map", FQ(a), Un("frozen", Bin("tuple", FQ(b), FQ(c)))) : a \in QNames, b \in QNames, c \in QNames}

\* a name with an apostrophe: as a column type and nested in a list, bare and frozen
ApTrees == {Q("it's"), FQ("it's"), Un("list", Q("it's")), Un("list", FQ("it's"))}

Trees == LET S == All(MaxDepth) IN S \cup {Un("reversed", x) : x \in S} \cup QTrees \cup ApTrees

RECURSIVE Depth(_)
Max(S) == CHOOSE m \in S : \A x \in S : x <= m
Depth(t) == IF t.k \in {"frozen", "reversed"} THEN Depth(t.a[1])
            ELSE IF Len(t.a) = 0 THEN 1
            ELSE 1 + Max({Depth(t.a[i]) : i \in 1..Len(t.a)})

-----------------------------------------------------------------------------
RECURSIVE Joined(_, _)
Joined(parts, sep) == IF Len(parts) = 0 THEN <<>>
                      ELSE IF Len(parts) = 1 THEN parts[1]
                      ELSE parts[1] \o <<sep>> \o Joined(Tail(parts), sep)

RECURSIVE CqlName(_), CassName(_), StripFrozen(_), CassOkIn(_, _), PyForm(_)

CqlHead == ("list" :> "list") @@ ("set" :> "set") @@ ("map" :> "map") @@ ("tuple" :> "tuple")
CqlName(t) ==
    CASE t.k \in {"int", "text"}    -> <<t.k>>
      [] t.k = "udt"                -> <<UdtCql[t.nm]>>
      [] t.k = "frozen"             -> <<"frozen", "<">> \o CqlName(t.a[1]) \o <<">">>
      [] t.k = "reversed"           -> CqlName(t.a[1])
      [] t.k = "vector"             -> <<"vector", "<">> \o CqlName(t.a[1]) \o <<", ", ToString(t.d), ">">>
      [] OTHER -> <<CqlHead[t.k], "<">> \o Joined([i \in 1..Len(t.a) |-> CqlName(t.a[i])], ", ") \o <<">">>

\* the nested list cqltype_to_python documents for a CQL type string: a type with parameters is its name followed
\* by ONE list holding the forms of its parameters side by side
\*   int -> <<"int">>     frozen<tuple<text, int>> -> <<"frozen", <<"tuple", <<"text", "int">>>>>>
RECURSIVE Flat(_)
Flat(parts) == IF Len(parts) = 0 THEN <<>> ELSE Head(parts) \o Flat(Tail(parts))
PyForm(t) ==
    CASE t.k \in {"int", "text"} -> <<t.k>>
      [] t.k = "udt"             -> <<UdtCql[t.nm]>>
      [] t.k = "reversed"        -> PyForm(t.a[1])
      [] t.k = "vector"          -> <<"vector", PyForm(t.a[1]) \o <<ToString(t.d)>>>>
      [] OTHER                   -> <<t.k, Flat([i \in 1..Len(t.a) |-> PyForm(t.a[i])])>>

\* class of the marshal package per kind
MarshalClass == ("int" :> "Int32Type") @@ ("text" :> "UTF8Type") @@ ("list" :> "ListType") @@ ("set" :> "SetType")
             @@ ("map" :> "MapType") @@ ("tuple" :> "TupleType") @@ ("udt" :> "UserType") @@ ("frozen" :> "FrozenType")
             @@ ("reversed" :> "ReversedType") @@ ("vector" :> "VectorType")
CassName(t) ==
    CASE t.k \in {"int", "text"} -> <<MarshalClass[t.k]>>
      [] t.k = "frozen" /\ t.a[1].k \in {"tuple", "udt"} -> CassName(t.a[1])            \* implicitly frozen
      [] t.k = "udt" ->
            <<"UserType", "(", UdtKs[t.nm], ",", Hex[t.nm], ",">>
            \o Joined([i \in 1..Len(t.a) |-> <<Hex[UdtFields[t.nm][i]], ":">> \o CassName(t.a[i])], ",") \o <<")">>
      [] t.k = "vector" -> <<"VectorType", "(">> \o CassName(t.a[1]) \o <<" , ", ToString(t.d), ")">>
      [] OTHER -> <<MarshalClass[t.k], "(">> \o Joined([i \in 1..Len(t.a) |-> CassName(t.a[i])], ",") \o <<")">>

\* the trees the descriptor dialect can express
CassOkIn(t, underFrozen) ==
    /\ t.k # "reversed"
    /\ t.k \in {"tuple", "udt"} => underFrozen
    /\ t.k = "frozen" => t.a[1].k \in Freezable
    /\ \A i \in 1..Len(t.a) : CassOkIn(t.a[i], t.k = "frozen")
CassOk(t) == IF t.k = "reversed" THEN CassOkIn(t.a[1], FALSE) ELSE CassOkIn(t, FALSE)

\* Value codec.  frozen and reversed say how a value is STORED and ORDERED, not how it is encoded: on every native
\* protocol version the wire form of a value of t is the wire form of the same value for ValueType(t), the tree
\* without these wrappers (so a top-level frozen / reversed collection has the 2-byte counts and lengths of
\* protocol v1 / v2 there, and the 4-byte ones from v3 on, exactly like the collection it wraps).
WireVersions == {1, 2, 3, 4}
RECURSIVE ValueType(_)
ValueType(t) == IF t.k \in {"frozen", "reversed"} THEN ValueType(t.a[1])
                ELSE [t EXCEPT !.a = [i \in 1..Len(t.a) |-> ValueType(t.a[i])]]

StripFrozen(t) == IF t.k = "frozen" THEN StripFrozen(t.a[1])
                  ELSE [t EXCEPT !.a = [i \in 1..Len(t.a) |-> StripFrozen(t.a[i])]]

-----------------------------------------------------------------------------
VARIABLES t,          \* the type tree
          cass,       \* CassName(t)
          cassok,     \* CassOk(t)
          cql,        \* CqlName(t)
          stripped,   \* CqlName(StripFrozen(t))
          py,         \* PyForm(t): the structure cqltype_to_python(CqlName(t)) must have
          plain,      \* CassName(ValueType(t)): the descriptor of the type whose value codec t has (all WireVersions)
          prev        \* parse history: the descriptors (token sequences) parsed BEFORE t's by the same process
vars == <<t, cass, cassok, cql, stripped, py, plain, prev>>

\* The answers are functions of the tree alone: whatever was parsed before, the descriptor of t denotes t.
Is(tt) == /\ t = tt /\ cass = CassName(tt) /\ cassok = CassOk(tt) /\ cql = CqlName(tt)
          /\ stripped = CqlName(StripFrozen(tt)) /\ py = PyForm(tt) /\ plain = CassName(ValueType(tt))

\* Parse histories.  A descriptor contains plain-name tokens (the keyspace of a UserType, class names) next to the
\* hex-encoded names.  HTrees are descriptors in which a user type's NAME equals such a token of another (or the
\* same) descriptor; every ordered pair <<first parsed, then parsed>> of them is a case, plus each of them alone.
HQ(nm, x) == Un("frozen", Udt(nm, <<x>>))
HTrees == { HQ("shop", Leaf("int")),                 \* shop.shop
            HQ("shopitem", Leaf("text")),            \* shop.shopitem: its keyspace token is the name of the type above
            HQ("ks", Leaf("int")),                   \* ks.ks
            Un("frozen", Udt("kj", <<Leaf("int"), Leaf("text")>>)),      \* an ordinary type of keyspace ks
            HQ("Int32Type", Leaf("text")),           \* ks."Int32Type"
            HQ("inbuilt", Leaf("int")),              \* "Int32Type".inbuilt
            Un("list", Leaf("int")),
            Bin("map", Leaf("int"), HQ("shop", Leaf("int"))),
            Un("frozen", Bin("tuple", HQ("shop", Leaf("int")), HQ("shop", Leaf("int")))),    \* twice in ONE descriptor
            Un("frozen", Bin("tuple", HQ("ks", Leaf("int")), Un("frozen", Udt("kj", <<Leaf("int"), Leaf("text")>>)))) }
Histories == {<<>>} \cup {<<CassName(p)>> : p \in HTrees}

Init == \/ prev = <<>> /\ \E tt \in Trees : Is(tt)
        \/ prev \in Histories /\ \E tt \in HTrees : Is(tt)
Next == UNCHANGED vars                       \* enumerator: the initial states are the cases

\* growing trees one constructor at a time (simulation of deeper trees in the thorough tier)
Small == All(2)
Grown(x) ==  {Un("list", x), Un("set", x), Un("tuple", x), Udt("u", <<x>>), Udt("Kj", <<x>>), Vec(x, 2)}
        \cup {Bin("map", x, y) : y \in Small} \cup {Bin("map", y, x) : y \in Small}
        \cup {Bin("tuple", x, y) : y \in Small} \cup {Udt("kj", <<y, x>>) : y \in Small}
        \cup (IF x.k \in Freezable THEN {Un("frozen", x)} ELSE {})
        \cup {Un("reversed", x)}
InitGrow == prev = <<>> /\ \E tt \in Small : Is(tt)
Grow == /\ t.k # "reversed"
        /\ \E tt \in Grown(t) : /\ Depth(tt) <= MaxDepth
                               /\ t' = tt /\ cass' = CassName(tt) /\ cassok' = CassOk(tt) /\ cql' = CqlName(tt)
                               /\ stripped' = CqlName(StripFrozen(tt)) /\ py' = PyForm(tt)
                               /\ plain' = CassName(ValueType(tt))
        /\ UNCHANGED prev

-----------------------------------------------------------------------------
\* checked on the specification
RECURSIVE BalancedFrom(_, _, _, _, _)
BalancedFrom(s, i, depth, open, close) ==
    IF i > Len(s) THEN depth = 0
    ELSE IF s[i] = open THEN BalancedFrom(s, i + 1, depth + 1, open, close)
    ELSE IF s[i] = close THEN depth > 0 /\ BalancedFrom(s, i + 1, depth - 1, open, close)
    ELSE BalancedFrom(s, i + 1, depth, open, close)
Balanced == BalancedFrom(cql, 1, 0, "<", ">") /\ BalancedFrom(cass, 1, 0, "(", ")") /\ BalancedFrom(stripped, 1, 0, "<", ">")

NoFrozenLeft == \A i \in 1..Len(stripped) : stripped[i] # "frozen"
StripIdem    == StripFrozen(StripFrozen(t)) = StripFrozen(t)

\* token-level definition of "removes exactly those wrappers": drop every "frozen", the "<" after it and
\* the ">" that closes it.  pend: the next "<" belongs to a frozen; stk: for each open "<", is it a frozen's
RECURSIVE Unfreeze(_, _, _, _)
Unfreeze(s, i, pend, stk) ==
    IF i > Len(s) THEN <<>>
    ELSE IF s[i] = "frozen" THEN Unfreeze(s, i + 1, TRUE, stk)
    ELSE IF s[i] = "<" THEN (IF pend THEN <<>> ELSE <<"<">>) \o Unfreeze(s, i + 1, FALSE, <<pend>> \o stk)
    ELSE IF s[i] = ">" THEN (IF Head(stk) THEN <<>> ELSE <<">">>) \o Unfreeze(s, i + 1, FALSE, Tail(stk))
    ELSE <<s[i]>> \o Unfreeze(s, i + 1, FALSE, stk)
StripExact == stripped = Unfreeze(cql, 1, FALSE, <<>>)
\* the same on descriptors: plain is cass without every FrozenType / ReversedType, its "(" and the matching ")"
RECURSIVE Unwrap(_, _, _, _)
Unwrap(s, i, pend, stk) ==
    IF i > Len(s) THEN <<>>
    ELSE IF s[i] \in {"FrozenType", "ReversedType"} THEN Unwrap(s, i + 1, TRUE, stk)
    ELSE IF s[i] = "(" THEN (IF pend THEN <<>> ELSE <<"(">>) \o Unwrap(s, i + 1, FALSE, <<pend>> \o stk)
    ELSE IF s[i] = ")" THEN (IF Head(stk) THEN <<>> ELSE <<")">>) \o Unwrap(s, i + 1, FALSE, Tail(stk))
    ELSE <<s[i]>> \o Unwrap(s, i + 1, FALSE, stk)
WrappersTransparent == plain = Unwrap(cass, 1, FALSE, <<>>) /\ ValueType(ValueType(t)) = ValueType(t)

DepthBound == t \in QTrees \/ Depth(t) <= MaxDepth
ReversedOutermostOnly == \A i \in 1..Len(cass) : cass[i] = "ReversedType" => i = 1

\* vacuity witnesses (must be VIOLATED)
Witness_FrozenInside == ~(cassok /\ t.k = "map" /\ t.a[2].k = "frozen" /\ t.a[2].a[1].k = "udt")
Witness_ReversedVector == ~(cassok /\ t.k = "reversed" /\ t.a[1].k = "vector")
Witness_NotCassOk == ~(~cassok /\ t.k = "tuple")
\* the specification's answers never depend on the history
HistoryIndependent == cass = CassName(t) /\ cql = CqlName(t) /\ cassok = CassOk(t)
Witness_NameIsLaterKeyspace == ~(prev = <<CassName(HQ("shop", Leaf("int")))>> /\ t = HQ("shopitem", Leaf("text")))
Witness_TopLevelFrozenCollection == ~(cassok /\ t.k = "reversed" /\ t.a[1].k = "frozen" /\ t.a[1].a[1].k = "map"
                                        /\ Len(cass) - Len(plain) = 6)
Witness_ThreeQuoted == ~(~cassok /\ t \in QTrees /\ t.k = "map" /\ Len(py[2]) = 3 /\ py[2][1] = "\"a\"\"b\""
                           /\ py[2][3] = <<"tuple", <<"\"Big Type\"", "\"other-udt\"">>>>)
Witness_StripChanges == ~(stripped # cql /\ Len(cql) - Len(stripped) >= 6)
=============================================================================
