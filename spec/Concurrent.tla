----------------------------- MODULE Concurrent -----------------------------
(* cassandra/concurrent.py: execute_concurrent (list results, generator        *)
(* results) and execute_concurrent_async (future), executing n statements with *)
(* at most c in flight.                                                        *)
(*                                                                            *)
(* Code anchors:                                                              *)
(*   _ConcurrentExecutor.execute          BeginSubmit .. EndSection            *)
(*   _execute_next / _execute             Start                                *)
(*   _put_result (List / Gen / Future)    Put  (+ FutCheck for the future)     *)
(*   ConcurrentExecutorListResults._results   Collect / Wake                   *)
(*   ConcurrentExecutorGenResults._results    Consume / GWake                  *)
(*   execute_concurrent_async             caller side of the future variant   *)
(*                                                                            *)
(* Threads and atomicity.  The caller thread runs the submission loop holding  *)
(* the executor's condition lock; completions arrive on another thread (the    *)
(* event loop) and run _put_result under the same lock; the caller waits on    *)
(* the condition.  One lock section = one maximal run of actions with          *)
(* holder # "none" (BeginSubmit/Complete .. EndSection); inside a section the  *)
(* steps are forced (pc).  A statement whose execute_async raises, or whose    *)
(* future is already complete when callbacks are attached, completes inside    *)
(* the section that started it ("sync"): Start(i) is immediately followed by   *)
(* Put(i), which may start the next statement, and so on (a chain).            *)
(*                                                                            *)
(* This module states the INTENDED behaviour where the code is suspected to    *)
(* deviate (the future is completed only if it is not completed yet: the       *)
(* guards futN = 0); everything else follows the code, including details the   *)
(* property does not constrain (submission continuing after a fail-fast        *)
(* failure, notifications).                                                    *)
EXTENDS Integers, Sequences, FiniteSets, TLC

CONSTANTS RecChoices, \* values of _ConcurrentExecutor.max_error_recursion (100 in the code; shrunk on the real class)
          MaxN,       \* statement counts 0..MaxN
          Variants,   \* subset of {"list", "gen", "future"}
          Behs        \* subset of {"raise", "done_ok", "done_err", "later_ok", "later_err"}

SyncBehs == {"raise", "done_ok", "done_err"}
OkBehs   == {"done_ok", "later_ok"}

VARIABLES n, c, failFast, variant, beh, rec,     \* the configuration (fixed by Init); rec = max_error_recursion
          depth,     \* _exec_depth: nesting of _execute in the current chain of synchronous completions
          deferred,  \* statements whose execute_async raised at the recursion limit: their result was handed to
                     \* session.submit(_put_result, exc, idx, False) and is delivered later by an executor thread
          next,      \* next statement to start (1..n+1); exec_count = next - 1
          running,   \* started, completing later, not completed yet
          res,       \* per statement: "none" / "ok" / "err"
          order,     \* completion order
          peak,      \* max number of statements in flight at once
          holder,    \* who holds the condition lock: "none" / "caller" / "loop"
          pc,        \* inside a section: "next" (call _execute_next), "put" (_put_result of cur), "ret"
          cur,       \* statement whose result is being put
          budget,    \* iterations left in the submission loop
          syncPut,   \* a sync completion happened in the current chain
          pendFut,   \* future variant: completing thread still has to run its second lock section
          pendRet,   \* list / generator: the completing thread has released the lock but its callback has not
                     \* returned yet (it has nothing left to do: LoopReturn) - the caller may run in between
          firstExc,  \* list/future: first failure seen in fail-fast mode (0 = none)
          notified,  \* the waiting caller has been notified
          phase,     \* caller: init, collect, waiting, returned, raised, gen, gwaiting, finished
          out,       \* results handed to the caller so far: sequence of [i, ok]
          raised,    \* statement whose exception was raised to the caller (0 = none)
          consumed,  \* generator: number of results taken from the heap
          futN,      \* how many times the async future was completed
          futVal,    \* "none" / "result" / "exc"
          futExc,    \* statement whose exception the future carries (0 = none)
          futOut,    \* the result list the future carries
          act

cfgvars == <<n, c, failFast, variant, beh, rec>>
vars == <<n, c, failFast, variant, beh, rec, depth, deferred, next, running, res, order, peak, holder, pc, cur, budget, syncPut, pendFut, pendRet,
          firstExc, notified, phase, out, raised, consumed, futN, futVal, futExc, futOut, act>>

A(name, i) == [name |-> name, i |-> i]
Stmts == 1..n
Max2(a, b) == IF a > b THEN a ELSE b
Completed == {i \in Stmts : res[i] # "none"}
AllDone == Cardinality(Completed) = next - 1       \* _current == _exec_count
ListLike == variant \in {"list", "future"}
ResultsInOrder == [i \in 1..Cardinality(Completed) |-> [i |-> i, ok |-> res[i] = "ok"]]

Init ==
    /\ n \in 0..MaxN
    /\ c \in 1..Max2(n, 1)
    /\ failFast \in BOOLEAN
    /\ variant \in Variants
    /\ beh \in [1..n -> Behs]
    /\ rec \in RecChoices
    /\ depth = 0 /\ deferred = {}
    /\ next = 1 /\ running = {} /\ res = [i \in 1..n |-> "none"] /\ order = <<>> /\ peak = 0
    /\ holder = "none" /\ pc = "idle" /\ cur = 0 /\ budget = 0 /\ syncPut = FALSE /\ pendFut = FALSE /\ pendRet = FALSE
    /\ firstExc = 0 /\ notified = FALSE /\ phase = "init" /\ out = <<>> /\ raised = 0 /\ consumed = 0
    /\ futN = 0 /\ futVal = "none" /\ futExc = 0 /\ futOut = <<>>
    /\ act = A("Init", 0)

-----------------------------------------------------------------------------
(* the future is completed (at most once: intended) *)
FutComplete ==
    IF futN = 0
    THEN /\ futN' = 1
         /\ IF failFast /\ firstExc # 0
            THEN futVal' = "exc" /\ futExc' = firstExc /\ UNCHANGED futOut
            ELSE futVal' = "result" /\ futOut' = ResultsInOrder /\ UNCHANGED futExc
    ELSE UNCHANGED <<futN, futVal, futExc, futOut>>

(* execute_concurrent([]) returns [] without creating an executor; the async variant still owes a future *)
EmptyCall ==
    /\ phase = "init" /\ n = 0
    /\ IF variant = "future"
       THEN phase' = "returned" /\ FutComplete
       ELSE phase' = (IF variant = "gen" THEN "finished" ELSE "returned") /\ UNCHANGED <<futN, futVal, futExc, futOut>>
    /\ act' = A("EmptyCall", 0)
    /\ UNCHANGED <<cfgvars, depth, deferred, next, running, res, order, peak, holder, pc, cur, budget, syncPut, pendFut, pendRet, firstExc,
                   notified, out, raised, consumed>>

(* _ConcurrentExecutor.execute: with self._condition: for n in range(concurrency): ... *)
BeginSubmit ==
    /\ phase = "init" /\ n > 0
    /\ holder = "none"
    /\ holder' = "caller" /\ pc' = "next" /\ budget' = c /\ syncPut' = FALSE /\ depth' = 0
    /\ phase' = "submitting"
    /\ act' = A("BeginSubmit", 0)
    /\ UNCHANGED <<cfgvars, deferred, next, running, res, order, peak, cur, pendFut, pendRet, firstExc, notified, out, raised, consumed,
                   futN, futVal, futExc, futOut>>

EndSectionVars ==
    /\ holder' = "none" /\ pc' = "idle" /\ cur' = 0 /\ budget' = 0 /\ syncPut' = FALSE

(* _execute_next: take the next statement, execute_async; nothing left -> falsy *)
Start ==
    /\ holder # "none" /\ pc = "next"
    /\ IF next > n
       THEN \* exhausted: the submission loop breaks; a _put_result goes on to its notify test
            /\ pc' = "ret"
            /\ budget' = 0
            /\ act' = A("Exhausted", 0)
            /\ UNCHANGED <<next, running, peak, cur, depth, deferred>>
       ELSE /\ next' = next + 1
            /\ peak' = Max2(peak, Cardinality(running) + 1)
            /\ depth' = depth + 1                      \* _execute: self._exec_depth += 1
            /\ IF beh[next] = "raise" /\ depth + 1 >= rec
               THEN \* recursion limit reached: the error result is handed to the session's executor; this chain ends
                    /\ deferred' = deferred \cup {next}
                    /\ pc' = "ret"
                    /\ act' = A("StartDeferred", next)
                    /\ UNCHANGED <<running, cur>>
               ELSE /\ act' = A("Start", next)
                    /\ UNCHANGED deferred
                    /\ IF beh[next] \in SyncBehs
                       THEN cur' = next /\ pc' = "put" /\ UNCHANGED running
                       ELSE running' = running \cup {next} /\ pc' = "ret" /\ UNCHANGED cur
            /\ UNCHANGED budget
    /\ UNCHANGED <<cfgvars, res, order, holder, syncPut, pendFut, pendRet, firstExc, notified, phase, out, raised, consumed,
                   futN, futVal, futExc, futOut>>

(* a statement that completes later: its callback runs _put_result on the completing thread *)
Complete(i) ==
    /\ i \in running
    /\ holder = "none" /\ ~pendFut /\ ~pendRet        \* one event-loop thread: its previous callback has returned
    /\ holder' = "loop" /\ pc' = "put" /\ cur' = i /\ syncPut' = FALSE /\ depth' = 0
    /\ running' = running \ {i}
    /\ act' = A("Complete", i)
    /\ UNCHANGED <<cfgvars, deferred, next, res, order, peak, budget, pendFut, pendRet, firstExc, notified, phase, out, raised, consumed,
                   futN, futVal, futExc, futOut>>

(* the executor runs a task queued by _execute at the recursion limit: _put_result(exc, idx, False) on its thread. *)
(* (modelled like a completion on the event-loop thread: one such callback at a time)                            *)
RunDeferred(i) ==
    /\ i \in deferred
    /\ holder = "none" /\ ~pendFut /\ ~pendRet
    /\ holder' = "loop" /\ pc' = "putd" /\ cur' = i /\ syncPut' = FALSE /\ depth' = 0
    /\ deferred' = deferred \ {i}
    /\ act' = A("RunDeferred", i)
    /\ UNCHANGED <<cfgvars, next, running, res, order, peak, budget, pendFut, pendRet, firstExc, notified, phase, out, raised,
                   consumed, futN, futVal, futExc, futOut>>

Waiting == phase \in {"waiting", "gwaiting"}

(* _put_result of statement cur *)
Put ==
    /\ holder # "none" /\ pc \in {"put", "putd"}
    /\ LET i == cur
           ok == beh[i] \in OkBehs IN
       /\ res' = [res EXCEPT ![i] = IF ok THEN "ok" ELSE "err"]
       /\ order' = Append(order, i)
       /\ syncPut' = (syncPut \/ (beh[i] \in SyncBehs /\ pc = "put"))     \* (a deferred put is the task's outermost frame)
       /\ act' = A("Put", i)
       /\ IF ListLike /\ ~ok /\ failFast
          THEN \* remember the first failure, wake the caller, start nothing
               /\ firstExc' = IF firstExc = 0 THEN i ELSE firstExc
               /\ notified' = (notified \/ Waiting)
               /\ pc' = "ret"
          ELSE /\ UNCHANGED firstExc
               /\ pc' = "next"
               /\ notified' = IF variant = "gen" THEN (notified \/ Waiting) ELSE notified
    /\ UNCHANGED <<cfgvars, depth, deferred, next, running, peak, holder, cur, budget, pendFut, pendRet, phase, out, raised, consumed,
                   futN, futVal, futExc, futOut>>

(* end of a chain: back in the submission loop, or at the end of the completing thread's section *)
Ret ==
    /\ holder # "none" /\ pc = "ret"
    /\ depth' = 0                                   \* the chain has unwound
    /\ LET allDone == AllDone
           \* list: "elif not self._execute_next() and self._current == self._exec_count: notify"
           note == IF ListLike /\ allDone /\ Waiting THEN TRUE ELSE notified IN
       /\ notified' = note
       /\ \* future variant: the sync _put_results of this chain test "all done" while unwinding
          IF variant = "future" /\ syncPut /\ allDone THEN FutComplete ELSE UNCHANGED <<futN, futVal, futExc, futOut>>
       /\ IF holder = "caller" /\ budget > 1
          THEN /\ budget' = budget - 1 /\ pc' = "next" /\ syncPut' = FALSE
               /\ UNCHANGED <<holder, cur, phase, pendFut, pendRet>>
          ELSE /\ EndSectionVars
               /\ phase' = IF holder = "caller" THEN (IF variant = "gen" THEN "gen" ELSE "collect") ELSE phase
               /\ pendFut' = (holder = "loop" /\ variant = "future")
               /\ pendRet' = (holder = "loop" /\ variant # "future")
    /\ act' = A("Ret", 0)
    /\ UNCHANGED <<cfgvars, deferred, next, running, res, order, peak, firstExc, out, raised, consumed>>

(* list / generator: after releasing the lock the completing thread's _put_result simply returns.  The step *)
(* is explicit so that the caller's actions are explored (and replayed) between the release and the return: *)
(* nothing the completing thread still does may matter (it must not start statements or touch the results). *)
LoopReturn ==
    /\ pendRet /\ holder = "none"
    /\ pendRet' = FALSE
    /\ act' = A("LoopReturn", 0)
    /\ UNCHANGED <<cfgvars, depth, deferred, next, running, res, order, peak, holder, pc, cur, budget, syncPut, pendFut, firstExc, notified,
                   phase, out, raised, consumed, futN, futVal, futExc, futOut>>

(* ConcurrentExecutorFutureResults._put_result, second lock section of a later completion *)
FutCheck ==
    /\ pendFut /\ holder = "none"
    /\ pendFut' = FALSE
    /\ IF AllDone THEN FutComplete ELSE UNCHANGED <<futN, futVal, futExc, futOut>>
    /\ act' = A("FutCheck", 0)
    /\ UNCHANGED <<cfgvars, depth, deferred, next, running, res, order, peak, holder, pc, cur, budget, syncPut, pendRet, firstExc, notified, phase,
                   out, raised, consumed>>

-----------------------------------------------------------------------------
(* ConcurrentExecutorListResults._results, and the caller side of execute_concurrent_async *)
ListOutcome ==
    IF failFast /\ firstExc # 0
    THEN /\ raised' = firstExc
         /\ UNCHANGED out
         /\ IF variant = "future"
            THEN phase' = "returned" /\ FutComplete          \* except Exception as e: future.set_exception(e)
            ELSE phase' = "raised" /\ UNCHANGED <<futN, futVal, futExc, futOut>>
    ELSE \* (future variant: the list is dropped; the future is completed by the _put_result that saw "all done")
         /\ out' = ResultsInOrder
         /\ phase' = "returned"
         /\ UNCHANGED <<raised, futN, futVal, futExc, futOut>>

Collect ==
    /\ phase = "collect" /\ holder = "none"
    /\ IF ~AllDone
       THEN /\ phase' = "waiting" /\ notified' = FALSE
            /\ UNCHANGED <<out, raised, futN, futVal, futExc, futOut>>
       ELSE ListOutcome /\ UNCHANGED notified
    /\ act' = A("Collect", 0)
    /\ UNCHANGED <<cfgvars, depth, deferred, next, running, res, order, peak, holder, pc, cur, budget, syncPut, pendFut, pendRet, firstExc, consumed>>

Wake ==
    /\ phase = "waiting" /\ notified /\ holder = "none"
    /\ IF (failFast /\ firstExc # 0) \/ AllDone
       THEN ListOutcome /\ UNCHANGED notified
       ELSE notified' = FALSE /\ UNCHANGED <<phase, out, raised, futN, futVal, futExc, futOut>>
    /\ act' = A("Wake", 0)
    /\ UNCHANGED <<cfgvars, depth, deferred, next, running, res, order, peak, holder, pc, cur, budget, syncPut, pendFut, pendRet, firstExc, consumed>>

(* ConcurrentExecutorGenResults._results: one next() of the consumer *)
GenStep ==
    IF consumed = next - 1
    THEN phase' = "finished" /\ UNCHANGED <<out, raised, consumed, notified>>
    ELSE LET i == consumed + 1 IN
         IF res[i] = "none"
         THEN phase' = "gwaiting" /\ notified' = FALSE /\ UNCHANGED <<out, raised, consumed>>
         ELSE IF failFast /\ res[i] = "err"
              THEN phase' = "raised" /\ raised' = i /\ UNCHANGED <<out, consumed, notified>>
              ELSE /\ out' = Append(out, [i |-> i, ok |-> res[i] = "ok"])
                   /\ consumed' = i
                   /\ phase' = "gen"
                   /\ UNCHANGED <<raised, notified>>

Consume ==
    /\ phase = "gen" /\ holder = "none"
    /\ GenStep
    /\ act' = A("Consume", 0)
    /\ UNCHANGED <<cfgvars, depth, deferred, next, running, res, order, peak, holder, pc, cur, budget, syncPut, pendFut, pendRet, firstExc,
                   futN, futVal, futExc, futOut>>

GWake ==
    /\ phase = "gwaiting" /\ notified /\ holder = "none"
    /\ GenStep
    /\ act' = A("GWake", 0)
    /\ UNCHANGED <<cfgvars, depth, deferred, next, running, res, order, peak, holder, pc, cur, budget, syncPut, pendFut, pendRet, firstExc,
                   futN, futVal, futExc, futOut>>

CallerDone == phase \in {"returned", "raised", "finished"}
Terminal == CallerDone /\ running = {} /\ deferred = {} /\ holder = "none" /\ ~pendFut /\ ~pendRet
Finish == Terminal /\ UNCHANGED vars

CompleteAny == \E i \in Stmts : Complete(i)
RunDeferredAny == \E i \in Stmts : RunDeferred(i)

Next == \/ EmptyCall \/ BeginSubmit \/ Start \/ Put \/ Ret \/ FutCheck \/ LoopReturn
        \/ CompleteAny \/ RunDeferredAny
        \/ Collect \/ Wake \/ Consume \/ GWake
        \/ Finish

Spec == Init /\ [][Next]_vars
FairSpec == Spec /\ WF_vars(Next)

-----------------------------------------------------------------------------
TypeOK ==
    /\ next \in 1..(n + 1)
    /\ running \subseteq Stmts /\ deferred \subseteq Stmts /\ depth \in 0..(n + 1)
    /\ futN \in Nat /\ peak \in Nat
    /\ holder \in {"none", "caller", "loop"}

\* at most c statements in flight, at any time
ConcurrencyBound == peak <= c /\ Cardinality(running) <= c

\* what the caller has been handed is one entry per statement, in input order
InOrder == \A k \in 1..Len(out) : out[k].i = k /\ out[k].ok = (beh[k] \in OkBehs)
\* a complete answer has exactly one entry per statement
OnePerStatement ==
    /\ (variant = "list" /\ phase = "returned") => Len(out) = n
    /\ (variant = "gen" /\ phase = "finished") => Len(out) = n
    /\ (variant = "future" /\ futVal = "result") => /\ Len(futOut) = n
                                                   /\ \A k \in 1..n : futOut[k].i = k /\ futOut[k].ok = (beh[k] \in OkBehs)
    /\ \A i \in Stmts : Cardinality({k \in 1..Len(order) : order[k] = i}) <= 1

\* every statement gets exactly one result, also when its error result travels through session.submit
EveryStatementAnswered ==
    /\ (Terminal /\ ~failFast) => \A i \in Stmts : res[i] # "none"
    /\ \A i \in deferred : res[i] = "none" /\ i < next /\ beh[i] = "raise"

Failed == {i \in Stmts : res[i] = "err"}
FirstFailedCompletion == IF \E k \in 1..Len(order) : res[order[k]] = "err"
                         THEN order[CHOOSE k \in 1..Len(order) : res[order[k]] = "err" /\ \A j \in 1..(k - 1) : res[order[j]] = "ok"]
                         ELSE 0
\* fail fast raises the first failure: in completion order for the list / future variants (the documentation:
\* "execution will stop after the first failed statement and the corresponding exception will be raised"),
\* in input order for the generator (results are handed out in input order)
FailFastFirst ==
    /\ raised # 0 => failFast
    /\ (raised # 0 /\ ListLike) => raised = FirstFailedCompletion
    /\ (raised # 0 /\ variant = "gen") => /\ res[raised] = "err"
                                          /\ \A j \in 1..(raised - 1) : res[j] = "ok"
                                          /\ Len(out) = raised - 1
    /\ (variant = "future" /\ futVal = "exc") => futExc = FirstFailedCompletion /\ failFast
    \* ... and a fail-fast call does not return normally once something failed before it collected
    /\ (variant = "list" /\ phase = "returned" /\ failFast) => Failed = {}
    /\ (variant = "gen" /\ phase = "finished" /\ failFast) => Failed = {}

\* the asynchronous variant's future completes exactly once
FutureAtMostOnce == futN <= 1 /\ (variant # "future" => futN = 0)
FutureCompleted == (variant = "future" /\ Terminal) => futN = 1

\* no lost wake-up: a state that is not Terminal always has a next step
NotStuck == ENABLED Next

\* termination: every behaviour reaches Terminal (checked as: no deadlock other than Terminal, plus <>Terminal)
Terminates == <>Terminal

\* vacuity witnesses (each must be violated = reachable)
Witness_SyncChain == ~(holder = "caller" /\ Len(order) >= 2 /\ phase = "submitting")
Witness_WaitAndWake == ~(act.name = "Wake" /\ phase = "raised")
Witness_FailFastWhileRunning == ~(phase = "raised" /\ running # {})
Witness_FutureByCaller == ~(variant = "future" /\ act.name \in {"Wake", "Collect"} /\ futVal = "exc" /\ running # {})
Witness_GenWaits == ~(phase = "gwaiting")
Witness_ConsumerBeforeLoopReturn == ~(pendRet /\ variant = "gen" /\ act.name \in {"GWake", "Consume"} /\ next <= n)
Witness_DeferredDelivered == ~(act.name = "Put" /\ pc = "next" /\ holder = "loop" /\ beh[act.i] = "raise" /\ rec <= n /\ next <= n)
Witness_FullConcurrency == ~(peak = c /\ c >= 2 /\ Cardinality(running) = c)
\* the same witnesses as stuttering probe actions: with NEXT NextW and -coverage, a non-zero count for W_x
\* shows x is reachable without a separate TLC run (NextW is used for nothing else)
W_SyncChain == ~Witness_SyncChain /\ UNCHANGED vars
W_WaitAndWake == ~Witness_WaitAndWake /\ UNCHANGED vars
W_FailFastWhileRunning == ~Witness_FailFastWhileRunning /\ UNCHANGED vars
W_FutureByCaller == ~Witness_FutureByCaller /\ UNCHANGED vars
W_GenWaits == ~Witness_GenWaits /\ UNCHANGED vars
W_FullConcurrency == ~Witness_FullConcurrency /\ UNCHANGED vars
W_DeferredDelivered == ~Witness_DeferredDelivered /\ UNCHANGED vars
W_ConsumerBeforeLoopReturn == ~Witness_ConsumerBeforeLoopReturn /\ UNCHANGED vars
NextW == Next \/ W_SyncChain \/ W_WaitAndWake \/ W_FailFastWhileRunning \/ W_FutureByCaller \/ W_GenWaits \/ W_FullConcurrency \/ W_ConsumerBeforeLoopReturn \/ W_DeferredDelivered
=============================================================================
