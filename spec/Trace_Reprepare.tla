--------------------------- MODULE Trace_Reprepare ---------------------------
(* Trace validation (code -> spec) for Reprepare.tla.  A trace is one real    *)
(* execution of a prepared statement against fake nodes under a random        *)
(* schedule of environment choices (answers, connection loss, pool shutdown,  *)
(* client timeout) and of the two executor hops.  The first event is Start    *)
(* and carries the configuration; every event carries the projected state of  *)
(* the real objects after it.  An event is accepted iff the specification     *)
(* action is enabled and produces exactly the logged post-state.              *)
EXTENDS Reprepare, TraceLib

VARIABLES tid, l
tvars == <<vars, tid, l>>

Tr == Traces[tid]
ToSet(s) == {s[i] : i \in 1..Len(s)}

Post(p) ==
    /\ plan' = p.plan
    /\ sent' = p.sent
    /\ srv' = ToSet(p.srv)
    /\ queue' = p.queue
    /\ final' = p.final
    /\ \A h \in HostSet : pool'[h] = p.pool[h]
    /\ timer' = p.timer
    /\ rid' = p.rid
    /\ lc' = p.lc

Req(h, kind) == CHOOSE r \in srv : r.h = h /\ r.kind = kind

TraceInit == tid \in 1..NTraces /\ l = 1 /\ InitWith(Tr[1].cfg)

TraceNext ==
    /\ l <= Len(Tr)
    /\ l' = l + 1
    /\ UNCHANGED tid
    /\ LET e == Tr[l] IN
       /\ \/ e.e = "Start" /\ Start
          \/ e.e = "SpecExec" /\ SpecExec
          \/ e.e = "AnsUnprepared" /\ (\E r \in srv : r.h = e.h /\ AnsUnprepared(r))
          \/ e.e = "AnsRows" /\ (\E r \in srv : r.h = e.h /\ AnsRows(r))
          \/ e.e = "AnsPrepare" /\ (\E r \in srv : r.h = e.h /\ AnsPrepare(r, e.resp))
          \/ e.e = "RunReprepare" /\ RunReprepare /\ act'.h = e.h
          \/ e.e = "RunAfter" /\ RunAfter /\ act'.h = e.h /\ act'.resp = e.resp
          \/ e.e = "ConnLost" /\ ConnLost(e.h)
          \/ e.e = "PoolDown" /\ PoolDown(e.h)
          \/ e.e = "Timeout" /\ Timeout
       /\ Post(e.post)

TraceSpec == TraceInit /\ [][TraceNext]_tvars

Progress == RecordProgress(tid, l)
Done == PrintProgress
=============================================================================
