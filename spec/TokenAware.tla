----------------------------- MODULE TokenAware -----------------------------
(* TokenAwarePolicy.make_query_plan for a statement with routing key and     *)
(* keyspace (C22), as a reference definition over its inputs:                *)
(*                                                                           *)
(*   reps    the replicas of the key, in the order Metadata.get_replicas     *)
(*           returns them (the replica list of a Placement.tla ring for the  *)
(*           key's position; checks/c22.py obtains it from a real Metadata   *)
(*           built from such a ring); when the keyspace's replication is     *)
(*           altered between two plans (Placement.tla AlterReplication) it   *)
(*           is the list under the CURRENT settings                          *)
(*   child   the wrapped policy's query plan (distinct hosts, none IGNORED)   *)
(*   up      Host.is_up of every host: "T" True, "F" False, "N" None          *)
(*   dist    the wrapped policy's distance() of every host                   *)
(*   shuffle TokenAwarePolicy.shuffle_replicas                               *)
(*   sks/qks the session's working keyspace and the keyspace the statement   *)
(*           names ("none", "a" with replicas reps, "b" with replicas reps2) *)
(*   hasKey  the statement carries a routing key                             *)
(*                                                                           *)
(*   TokenAwarePlan = the replicas that are up and LOCAL, in reps order (any *)
(*   order when shuffling), followed by the child plan minus those already   *)
(*   yielded, in the child's order.                                          *)
(*                                                                           *)
(* up is a free input also for hosts the child plan still lists: a wrapped   *)
(* policy may list a host whose is_up is not True (RoundRobinPolicy.populate *)
(* takes every known host; _update_location_info calls on_up for a host that *)
(* is down).                                                                 *)
(* Code anchors: cassandra/policies.py TokenAwarePolicy.make_query_plan      *)
(* 363-391, cassandra/metadata.py Metadata.get_replicas 303-314.             *)
(*                                                                           *)
(* Enumerator: every initial state is one input combination (irrelevant      *)
(* inputs fixed to a canonical value); there are no transitions.             *)
EXTENDS Naturals, Sequences, FiniteSets, TLC

CONSTANTS N,         \* hosts 1..N
          MaxReps,   \* at most this many replicas
          SessionKs, \* working keyspaces of the session to enumerate: subset of {"none", "a", "b"}
          StmtKs,    \* keyspaces the statement names: subset of {"none", "a", "b"}
          KeyChoices,\* subset of BOOLEAN: does the statement carry a routing key
          ShareAddr  \* subset of BOOLEAN: may several hosts have one IP address (a host is an endpoint = address + port:
                     \* nodes behind one proxy address, several nodes per machine with peers_v2 ports)

H == 1..N
Dist == {"LOCAL", "REMOTE", "IGNORED"}
UpVals == {"T", "F", "N"}

RangeOf(s) == {s[i] : i \in 1..Len(s)}
InSeq(s, x) == \E i \in 1..Len(s) : s[i] = x
NoDup(s) == \A i, j \in 1..Len(s) : i # j => s[i] # s[j]
DistinctSeqs(S, m) == UNION {{s \in [1..k -> S] : NoDup(s)} : k \in 0..m}

HeadOf(reps, up, dist) == LET Elig(r) == up[r] = "T" /\ dist[r] = "LOCAL" IN SelectSeq(reps, Elig)
TailOf(hd, child) == LET Fresh(h) == ~InSeq(hd, h) IN SelectSeq(child, Fresh)
TokenAwarePlan(reps, child, up, dist) == LET hd == HeadOf(reps, up, dist) IN hd \o TailOf(hd, child)

\* Which keyspace's replicas count (make_query_plan 363-367): the keyspace the STATEMENT names, and only when it
\* names none the session's working keyspace.  Keyspace "a" has the replica list reps, keyspace "b" (a keyspace
\* with other replication settings) the list reps2 for the same key.  Without routing key, or without any
\* keyspace, the child plan is used as it is.
EffectiveKs(sks, qks) == IF qks # "none" THEN qks ELSE sks
RepsIn(ks, ra, rb) == IF ks = "a" THEN ra ELSE IF ks = "b" THEN rb ELSE <<>>

VARIABLES reps, child, up, dist, shuffle, head, tail,
          reps2,     \* replicas of the same key in keyspace "b"
          sks, qks,  \* session's working keyspace / statement's keyspace
          hasKey,    \* the statement has a routing key
          addr       \* host -> IP address (hosts stay distinct: plans are made of hosts, not of addresses)
vars == <<reps, child, up, dist, shuffle, head, tail, reps2, sks, qks, hasKey, addr>>

Routed == hasKey /\ EffectiveKs(sks, qks) # "none"
EffReps == IF Routed THEN RepsIn(EffectiveKs(sks, qks), reps, reps2) ELSE <<>>

Init ==
    /\ sks \in SessionKs /\ qks \in StmtKs /\ hasKey \in KeyChoices
    /\ \E sh \in ShareAddr :
          addr \in IF sh THEN {f \in [H -> H] : \A h \in H : f[h] <= h /\ (f[h] = h \/ f[f[h]] = f[h])} \ {[h \in H |-> h]}
                   ELSE {[h \in H |-> h]}
    /\ reps \in DistinctSeqs(H, MaxReps)
    /\ reps2 \in (IF "b" \in SessionKs \cup StmtKs THEN DistinctSeqs(H, MaxReps) ELSE {<<>>})
    /\ up \in [H -> UpVals]
    /\ \A h \in H \ (RangeOf(reps) \cup RangeOf(reps2)) : up[h] = "T"   \* is_up of a non-replica is never read
    /\ dist \in [H -> Dist]
    /\ child \in DistinctSeqs(H, N)
    /\ \A h \in H : h \in RangeOf(child) => dist[h] # "IGNORED"       \* a plan never lists an ignored host
    /\ \A h \in H \ (RangeOf(reps) \cup RangeOf(reps2) \cup RangeOf(child)) : dist[h] = "IGNORED"   \* irrelevant: canonical value
    /\ shuffle \in BOOLEAN
    /\ head = HeadOf(EffReps, up, dist)
    /\ tail = TailOf(head, child)

Next == UNCHANGED vars
Spec == Init /\ [][Next]_vars

-----------------------------------------------------------------------------
plan == head \o tail

TypeOK == plan = TokenAwarePlan(EffReps, child, up, dist)
NoRepeat == NoDup(plan)
ChildCovered == RangeOf(child) \subseteq RangeOf(plan)
ExactHosts == RangeOf(plan) = RangeOf(child) \cup RangeOf(head)
HeadIsLiveLocalReplicas ==
    RangeOf(head) = {r \in RangeOf(EffReps) : up[r] = "T" /\ dist[r] = "LOCAL"}
HeadInRingOrder ==
    \A i, j \in 1..Len(head) : i < j =>
        \E a, b \in 1..Len(EffReps) : a < b /\ EffReps[a] = head[i] /\ EffReps[b] = head[j]
TailInChildOrder ==
    \A i, j \in 1..Len(tail) : i < j =>
        \E a, b \in 1..Len(child) : a < b /\ child[a] = tail[i] /\ child[b] = tail[j]

\* the statement's keyspace decides whenever it names one; the session's only otherwise; no key or no keyspace:
\* the wrapped policy's plan unchanged
StatementKeyspaceWins ==
    /\ (hasKey /\ qks # "none") => head = HeadOf(RepsIn(qks, reps, reps2), up, dist)
    /\ (hasKey /\ qks = "none" /\ sks # "none") => head = HeadOf(RepsIn(sks, reps, reps2), up, dist)
    /\ ~Routed => plan = child

\* vacuity witnesses (expected to be VIOLATED)
Witness_NonReplicaSharesAddressWithHead ==
    ~(\E r \in RangeOf(head), h \in RangeOf(tail) : addr[r] = addr[h])
Witness_StatementOverridesSession ==
    ~(hasKey /\ sks = "a" /\ qks = "b" /\ head # HeadOf(reps, up, dist))
Witness_SessionKeyspaceUsed == ~(hasKey /\ sks = "b" /\ qks = "none" /\ head # <<>>)
Witness_DownLocalReplicaInChild ==
    ~(Routed /\ \E r \in RangeOf(EffReps) : up[r] # "T" /\ dist[r] = "LOCAL" /\ r \in RangeOf(child))
Witness_RemoteReplicaInChild ==
    ~(Routed /\ \E r \in RangeOf(EffReps) : up[r] = "T" /\ dist[r] = "REMOTE" /\ r \in RangeOf(child))
Witness_TwoLiveLocalReplicas == ~(Len(head) >= 2 /\ shuffle)
=============================================================================
