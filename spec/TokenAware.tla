----------------------------- MODULE TokenAware -----------------------------
(* TokenAwarePolicy.make_query_plan for a statement with routing key and     *)
(* keyspace (C22), as a reference definition over its inputs:                *)
(*                                                                           *)
(*   reps    the replicas of the key, in the order Metadata.get_replicas     *)
(*           returns them (the replica list of a Placement.tla ring for the  *)
(*           key's position; checks/c22.py obtains it from a real Metadata   *)
(*           built from such a ring); when the keyspace's replication is     *)
(*           altered between two plans (Placement.tla AlterReplication) it   *)
(*           is the list under the CURRENT settings                          *)
(*   child   the wrapped policy's query plan (distinct hosts, none IGNORED)   *)
(*   up      Host.is_up of every host: "T" True, "F" False, "N" None          *)
(*   dist    the wrapped policy's distance() of every host                   *)
(*   shuffle TokenAwarePolicy.shuffle_replicas                               *)
(*                                                                           *)
(*   TokenAwarePlan = the replicas that are up and LOCAL, in reps order (any *)
(*   order when shuffling), followed by the child plan minus those already   *)
(*   yielded, in the child's order.                                          *)
(*                                                                           *)
(* up is a free input also for hosts the child plan still lists: a wrapped   *)
(* policy may list a host whose is_up is not True (RoundRobinPolicy.populate *)
(* takes every known host; _update_location_info calls on_up for a host that *)
(* is down).                                                                 *)
(* Code anchors: cassandra/policies.py TokenAwarePolicy.make_query_plan      *)
(* 363-391, cassandra/metadata.py Metadata.get_replicas 303-314.             *)
(*                                                                           *)
(* Enumerator: every initial state is one input combination (irrelevant      *)
(* inputs fixed to a canonical value); there are no transitions.             *)
EXTENDS Naturals, Sequences, FiniteSets, TLC

CONSTANTS N,         \* hosts 1..N
          MaxReps    \* at most this many replicas

H == 1..N
Dist == {"LOCAL", "REMOTE", "IGNORED"}
UpVals == {"T", "F", "N"}

RangeOf(s) == {s[i] : i \in 1..Len(s)}
InSeq(s, x) == \E i \in 1..Len(s) : s[i] = x
NoDup(s) == \A i, j \in 1..Len(s) : i # j => s[i] # s[j]
DistinctSeqs(S, m) == UNION {{s \in [1..k -> S] : NoDup(s)} : k \in 0..m}

HeadOf(reps, up, dist) == LET Elig(r) == up[r] = "T" /\ dist[r] = "LOCAL" IN SelectSeq(reps, Elig)
TailOf(hd, child) == LET Fresh(h) == ~InSeq(hd, h) IN SelectSeq(child, Fresh)
TokenAwarePlan(reps, child, up, dist) == LET hd == HeadOf(reps, up, dist) IN hd \o TailOf(hd, child)

VARIABLES reps, child, up, dist, shuffle, head, tail
vars == <<reps, child, up, dist, shuffle, head, tail>>

Init ==
    /\ reps \in DistinctSeqs(H, MaxReps)
    /\ up \in [H -> UpVals]
    /\ \A h \in H \ RangeOf(reps) : up[h] = "T"                       \* is_up of a non-replica is never read
    /\ dist \in [H -> Dist]
    /\ child \in DistinctSeqs(H, N)
    /\ \A h \in H : h \in RangeOf(child) => dist[h] # "IGNORED"       \* a plan never lists an ignored host
    /\ \A h \in H \ (RangeOf(reps) \cup RangeOf(child)) : dist[h] = "IGNORED"   \* irrelevant: canonical value
    /\ shuffle \in BOOLEAN
    /\ head = HeadOf(reps, up, dist)
    /\ tail = TailOf(head, child)

Next == UNCHANGED vars
Spec == Init /\ [][Next]_vars

-----------------------------------------------------------------------------
plan == head \o tail

TypeOK == plan = TokenAwarePlan(reps, child, up, dist)
NoRepeat == NoDup(plan)
ChildCovered == RangeOf(child) \subseteq RangeOf(plan)
ExactHosts == RangeOf(plan) = RangeOf(child) \cup RangeOf(head)
HeadIsLiveLocalReplicas ==
    RangeOf(head) = {r \in RangeOf(reps) : up[r] = "T" /\ dist[r] = "LOCAL"}
HeadInRingOrder ==
    \A i, j \in 1..Len(head) : i < j =>
        \E a, b \in 1..Len(reps) : a < b /\ reps[a] = head[i] /\ reps[b] = head[j]
TailInChildOrder ==
    \A i, j \in 1..Len(tail) : i < j =>
        \E a, b \in 1..Len(child) : a < b /\ child[a] = tail[i] /\ child[b] = tail[j]

\* vacuity witnesses (expected to be VIOLATED)
Witness_DownLocalReplicaInChild ==
    ~(\E r \in RangeOf(reps) : up[r] # "T" /\ dist[r] = "LOCAL" /\ r \in RangeOf(child))
Witness_RemoteReplicaInChild ==
    ~(\E r \in RangeOf(reps) : up[r] = "T" /\ dist[r] = "REMOTE" /\ r \in RangeOf(child))
Witness_TwoLiveLocalReplicas == ~(Len(head) >= 2 /\ shuffle)
=============================================================================
