---------------------------- MODULE Trace_PoolV12 ----------------------------
(* Trace validation (code -> spec) for PoolV12.tla; see Trace_Pool.tla.  Reqs must be 1..n. *)
EXTENDS PoolV12, TraceLib

VARIABLES tid, l
tvars == <<vars, tid, l>>

Tr == Traces[tid]
ToSet(s) == {s[i] : i \in 1..Len(s)}

Post(p) ==
    /\ \A c \in Conns : /\ inflight'[c] = p.inflight[c]
                        /\ reg'[c] = ToSet(p.reg[c])
                        /\ owed'[c] = ToSet(p.owed[c])
                        /\ closed'[c] = p.closed[c]
                        /\ defunct'[c] = p.defunct[c]
                        /\ signaled'[c] = p.signaled[c]
    /\ Len(pool'.conns) = Len(p.conns) /\ \A i \in 1..Len(p.conns) : pool'.conns[i] = p.conns[i]
    /\ pool'.trash = ToSet(p.trash)
    /\ pool'.shutdown = p.shutdown
    /\ ~pool'.shutdown => pool'.openCount = p.openCount
    /\ pool'.sched = p.sched
    /\ pool'.trashOk = p.trashOk
    /\ {t \in Tasks : pool'.tasks[t].ph = "queued"} = ToSet(p.queued)
    /\ pool'.ntasks = p.ntasks
    /\ opened' = p.opened
    /\ \A r \in Reqs : st'[r] = p.st[r] /\ on'[r] = p.on[r]

TraceInit == tid \in 1..NTraces /\ l = 1 /\ Init

TraceNext ==
    /\ l <= Len(Tr)
    /\ l' = l + 1
    /\ UNCHANGED tid
    /\ LET e == Tr[l] IN
       /\ \/ e.e = "BorrowStart"   /\ BorrowStart(e.r)
          \/ e.e = "BorrowTake"    /\ BorrowTake(e.r)
          \/ e.e = "Send"          /\ Send(e.r, e.f)
          \/ e.e = "Respond"       /\ Respond(e.c, e.r)
          \/ e.e = "ConnFails"     /\ ConnFails(e.c, e.f)
          \/ e.e = "ClockAdvance"  /\ ClockAdvance
          \/ e.e = "TaskCheck"     /\ TaskCheck(e.r)
          \/ e.e = "TaskOpen"      /\ TaskOpen(e.r, e.f)
          \/ e.e = "TaskPublish"   /\ TaskPublish(e.r)
          \/ e.e = "ShutdownMark"  /\ ShutdownMark
          \/ e.e = "ShutdownClose" /\ ShutdownClose
       /\ Post(e.post)

TraceSpec == TraceInit /\ [][TraceNext]_tvars

Progress == RecordProgress(tid, l)
Done == PrintProgress
=============================================================================
