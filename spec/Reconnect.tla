----------------------------- MODULE Reconnect -----------------------------
(* Reconnection schedules of the driver (cassandra/policies.py) as generator  *)
(* state machines.                                                            *)
(*                                                                            *)
(* Code anchors:                                                              *)
(*   policies.py  ConstantReconnectionPolicy.new_schedule                      *)
(*                ExponentialReconnectionPolicy.new_schedule / _add_jitter     *)
(*   pool.py      _ReconnectionHandler.start / run (consumes one delay before  *)
(*                each attempt; StopIteration = schedule exhausted = give up)  *)
(*                                                                            *)
(* A policy object is created from (policy, base, max, attempts).  Every call  *)
(* of new_schedule() (Sched: a host went down - again, or another host at the  *)
(* same time) hands out a NEW schedule with its own position; schedules of one *)
(* policy object are consumed interleaved and must not influence each other:   *)
(* each of them, on its own, produces items - Emit(s) (one delay) or Stop(s)   *)
(* (the iterator is exhausted) - as if it were the only one.                   *)
(*                                                                            *)
(* Numbers.  The specification is unit free.  `base` and `max` are naturals   *)
(* in some unit u (for the constant policy base = max = the fixed delay);      *)
(* delays are measured in u/100, so that the +/-15 % jitter band has integer   *)
(* end points:  85 * raw  and  115 * raw  with raw in u.  A real delay is a     *)
(* float; the trace pre-processor (harness/replay/reconnect.py) converts it    *)
(* to the exact rational q = delay * 100 / u and logs the enclosure            *)
(* dlo = floor(q), dhi = ceil(q) (equal when q is an integer).  Since the band *)
(* end points are integers,  Lo <= q <= Hi  <=>  Lo <= dlo /\ dhi <= Hi.        *)
(*                                                                            *)
(* Doubling without overflow.  raw(i) = min(base * 2^i, max).  The spec keeps  *)
(* k = min(i, cap) where cap is the first index with base * 2^cap >= max; k    *)
(* stops growing there, so base * 2^k < 2 * max always and 32-bit integers     *)
(* suffice for any number of items (IndexBounded, CappedIsExact).              *)
EXTENDS Integers, Sequences, TLC

CONSTANTS Delays,          \* model checking: values for base / max / constant delay (in u)
          AttemptChoices,  \* model checking: finite values for max_attempts (None is always added)
          Horizon,         \* model checking: bound on emitted for schedules that never end
          MaxSched,        \* model checking: schedules taken from one policy object
          MultiHorizon     \* model checking: bound on emitted once a second schedule exists

None == -1

VARIABLES policy,    \* "constant" | "exponential"
          base, max, \* parameters in u  (constant: base = max = delay)
          attempts,  \* max_attempts, None = -1
          ns,        \* number of schedules handed out by the policy object so far
          emitted,   \* per schedule: number of delays produced so far (= index i of the next one)
          k,         \* per schedule: capped doubling index: min(emitted, cap)
          stopped,   \* per schedule: the iterator raised StopIteration
          act        \* last action, with the schedule and the emitted delay

vars == <<policy, base, max, attempts, ns, emitted, k, stopped, act>>
Scheds == 1..ns

Min(a, b) == IF a < b THEN a ELSE b
Max2(a, b) == IF a > b THEN a ELSE b

RECURSIVE Pow2(_)
Pow2(n) == IF n = 0 THEN 1 ELSE 2 * Pow2(n - 1)

\* raw delay for a (capped) index kk, in u
Raw(kk) == Min(base * Pow2(kk), max)
\* doubling has reached the maximum at index kk: later indices give the same raw value
Capped(kk) == base = 0 \/ base * Pow2(kk) >= max

\* band of admissible delays for the next item, in u/100
Lo(s) == IF policy = "constant" THEN 100 * base ELSE Max2(100 * base, 85 * Raw(k[s]))
Hi(s) == IF policy = "constant" THEN 100 * base ELSE Min(100 * max, 115 * Raw(k[s]))

Act(name, s, dlo, dhi, i) == [name |-> name, s |-> s, dlo |-> dlo, dhi |-> dhi, i |-> i]

InitWith(p, b, m, a) ==
    /\ policy = p /\ base = b /\ max = m /\ attempts = a
    /\ ns = 0 /\ emitted = <<>> /\ k = <<>> /\ stopped = <<>>
    /\ act = Act("New", 0, 0, 0, 0)

Init ==
    \E p \in {"constant", "exponential"}, b \in Delays, m \in Delays, a \in AttemptChoices \cup {None} :
        /\ b <= m
        /\ p = "constant" => b = m
        /\ InitWith(p, b, m, a)

(* policy.new_schedule(): a fresh schedule, at its beginning, whatever the others did *)
Sched ==
    /\ ns' = ns + 1
    /\ emitted' = Append(emitted, 0) /\ k' = Append(k, 0) /\ stopped' = Append(stopped, FALSE)
    /\ act' = Act("Sched", ns + 1, 0, 0, 0)
    /\ UNCHANGED <<policy, base, max, attempts>>

(* next(schedule) returns a delay.  The delay is the rational enclosed by dlo..dhi. *)
(* Every item counts towards the attempt limit, whichever branch of the generator   *)
(* produced it (the regular one, the OverflowError handler at the first index whose *)
(* 2^i no longer fits a float, or the "overflowed" shortcut after it): a limit that *)
(* lies beyond that index still yields exactly `attempts` items.                    *)
Emit(s, dlo, dhi) ==
    /\ s \in Scheds
    /\ ~stopped[s]
    /\ attempts = None \/ emitted[s] < attempts
    /\ dhi - dlo \in {0, 1}
    /\ Lo(s) <= dlo /\ dhi <= Hi(s)
    /\ emitted' = [emitted EXCEPT ![s] = @ + 1]
    /\ k' = IF policy = "exponential" /\ ~Capped(k[s]) THEN [k EXCEPT ![s] = @ + 1] ELSE k
    /\ act' = Act("Emit", s, dlo, dhi, emitted[s])
    /\ UNCHANGED <<policy, base, max, attempts, ns, stopped>>

(* next(schedule) raises StopIteration: exactly when the attempt limit is used up;  *)
(* zero means immediately, None means never.                                        *)
Stop(s) ==
    /\ s \in Scheds
    /\ ~stopped[s]
    /\ attempts # None /\ emitted[s] = attempts
    /\ stopped' = [stopped EXCEPT ![s] = TRUE]
    /\ act' = Act("Stop", s, 0, 0, emitted[s])
    /\ UNCHANGED <<policy, base, max, attempts, ns, emitted, k>>

\* model checking explores the end points and the middle of every band
Choices(s) == {Lo(s), Hi(s), (Lo(s) + Hi(s)) \div 2}

SchedMC == ns < MaxSched /\ Sched
EmitAny == \E s \in Scheds : \E d \in Choices(s) : Emit(s, d, d)
StopAny == \E s \in Scheds : Stop(s)

Next == SchedMC \/ EmitAny \/ StopAny

Spec == Init /\ [][Next]_vars

\* one schedule is followed up to Horizon items, several interleaved ones up to MultiHorizon each
Bounded == \A s \in Scheds : emitted[s] <= (IF ns = 1 THEN Horizon ELSE MultiHorizon)

-----------------------------------------------------------------------------
TypeOK ==
    /\ policy \in {"constant", "exponential"}
    /\ base \in Nat /\ max \in Nat /\ base <= max
    /\ attempts \in Nat \cup {None}
    /\ ns \in Nat /\ DOMAIN emitted = Scheds /\ DOMAIN k = Scheds /\ DOMAIN stopped = Scheds

\* a limited schedule yields exactly `attempts` delays - every schedule of the policy object on its own, however many
\* others exist and whatever they have produced; an unlimited one never ends
Length == \A s \in Scheds :
    /\ attempts # None => emitted[s] <= attempts
    /\ stopped[s] => attempts # None /\ emitted[s] = attempts
NeverEndsWithoutLimit == attempts = None => \A s \in Scheds : ~stopped[s]
NotStuck == \A s \in Scheds : stopped[s] \/ ENABLED Emit(s, Lo(s), Lo(s)) \/ ENABLED Stop(s)
\* independence: what a schedule may do next depends on its own position only
Independent == \A s \in Scheds :
    /\ (attempts # None /\ emitted[s] < attempts) => ENABLED Emit(s, Lo(s), Lo(s))
    /\ (attempts # None /\ emitted[s] = attempts /\ ~stopped[s]) => ENABLED Stop(s)

\* constant: the fixed delay; exponential: between base and max
DelayBounds ==
    act.name = "Emit" =>
        IF policy = "constant" THEN act.dlo = 100 * base /\ act.dhi = 100 * base
        ELSE 100 * base <= act.dlo /\ act.dhi <= 100 * max

BandNonEmpty == \A s \in Scheds : Lo(s) <= Hi(s)

\* the index that is really used never runs past the cap: no overflow however long the schedule
IndexBounded == \A s \in Scheds :
    /\ k[s] <= emitted[s]
    /\ k[s] = 0 \/ base * Pow2(k[s] - 1) < max
    /\ policy = "constant" => k[s] = 0

\* (model checking only: small parameters) the capped index gives the same raw value as the true one,
\* and the delay follows the doubling curve within +/-15 % unless clamped
SafeIdx == 20
TrueRaw(i) == Min(base * Pow2(i), max)
CappedIsExact == \A s \in Scheds : (policy = "exponential" /\ emitted[s] <= SafeIdx) => Raw(k[s]) = TrueRaw(emitted[s])
FollowsCurve ==
    (act.name = "Emit" /\ policy = "exponential" /\ act.i <= SafeIdx) =>
        /\ act.dlo >= Max2(100 * base, 85 * TrueRaw(act.i))
        /\ act.dhi <= Min(100 * max, 115 * TrueRaw(act.i))

\* vacuity witnesses (each must be violated = reachable)
Witness_Saturated == ~(policy = "exponential" /\ base > 0 /\ \E s \in Scheds : k[s] < emitted[s])
Witness_ZeroAttempts == ~(\E s \in Scheds : stopped[s] /\ emitted[s] = 0)
Witness_ClampMax == ~(policy = "exponential" /\ \E s \in Scheds : 115 * Raw(k[s]) > 100 * max)
Witness_ClampBase == ~(policy = "exponential" /\ base > 0 /\ \E s \in Scheds : 85 * Raw(k[s]) < 100 * base)
Witness_LongUnlimited == ~(attempts = None /\ \E s \in Scheds : emitted[s] = Horizon)
\* a later schedule completes although an earlier one of the same policy object was (partly) consumed before
Witness_SecondScheduleComplete == ~(ns >= 2 /\ attempts # None /\ attempts >= 2 /\ stopped[2] /\ emitted[1] >= 1)
Witness_TwoSchedulesInterleaved == ~(ns >= 2 /\ act.name = "Emit" /\ act.s = 1 /\ emitted[2] >= 1 /\ ~stopped[2])
\* the same witnesses as stuttering probe actions: with NEXT NextW and -coverage, a non-zero count for W_x
\* shows x is reachable without a separate TLC run (NextW is used for nothing else)
W_Saturated == ~Witness_Saturated /\ UNCHANGED vars
W_ZeroAttempts == ~Witness_ZeroAttempts /\ UNCHANGED vars
W_ClampMax == ~Witness_ClampMax /\ UNCHANGED vars
W_ClampBase == ~Witness_ClampBase /\ UNCHANGED vars
W_LongUnlimited == ~Witness_LongUnlimited /\ UNCHANGED vars
W_SecondScheduleComplete == ~Witness_SecondScheduleComplete /\ UNCHANGED vars
W_TwoSchedulesInterleaved == ~Witness_TwoSchedulesInterleaved /\ UNCHANGED vars
NextW == Next \/ W_Saturated \/ W_ZeroAttempts \/ W_ClampMax \/ W_ClampBase \/ W_LongUnlimited
              \/ W_SecondScheduleComplete \/ W_TwoSchedulesInterleaved
=============================================================================
