----------------------------- MODULE Reconnect -----------------------------
(* Reconnection schedules of the driver (cassandra/policies.py) as generator  *)
(* state machines.                                                            *)
(*                                                                            *)
(* Code anchors:                                                              *)
(*   policies.py  ConstantReconnectionPolicy.new_schedule                      *)
(*                ExponentialReconnectionPolicy.new_schedule / _add_jitter     *)
(*   pool.py      _ReconnectionHandler.start / run (consumes one delay before  *)
(*                each attempt; StopIteration = schedule exhausted = give up)  *)
(*                                                                            *)
(* A schedule is created from (policy, base, max, attempts) and then only      *)
(* produces items: Emit (one delay) or Stop (the iterator is exhausted).       *)
(*                                                                            *)
(* Numbers.  The specification is unit free.  `base` and `max` are naturals   *)
(* in some unit u (for the constant policy base = max = the fixed delay);      *)
(* delays are measured in u/100, so that the +/-15 % jitter band has integer   *)
(* end points:  85 * raw  and  115 * raw  with raw in u.  A real delay is a     *)
(* float; the trace pre-processor (harness/replay/reconnect.py) converts it    *)
(* to the exact rational q = delay * 100 / u and logs the enclosure            *)
(* dlo = floor(q), dhi = ceil(q) (equal when q is an integer).  Since the band *)
(* end points are integers,  Lo <= q <= Hi  <=>  Lo <= dlo /\ dhi <= Hi.        *)
(*                                                                            *)
(* Doubling without overflow.  raw(i) = min(base * 2^i, max).  The spec keeps  *)
(* k = min(i, cap) where cap is the first index with base * 2^cap >= max; k    *)
(* stops growing there, so base * 2^k < 2 * max always and 32-bit integers     *)
(* suffice for any number of items (IndexBounded, CappedIsExact).              *)
EXTENDS Integers, TLC

CONSTANTS Delays,          \* model checking: values for base / max / constant delay (in u)
          AttemptChoices,  \* model checking: finite values for max_attempts (None is always added)
          Horizon          \* model checking: bound on emitted for schedules that never end

None == -1

VARIABLES policy,    \* "constant" | "exponential"
          base, max, \* parameters in u  (constant: base = max = delay)
          attempts,  \* max_attempts, None = -1
          emitted,   \* number of delays produced so far (= index i of the next one)
          k,         \* capped doubling index: min(emitted, cap)
          stopped,   \* the iterator raised StopIteration
          act        \* last action, with the emitted delay

vars == <<policy, base, max, attempts, emitted, k, stopped, act>>

Min(a, b) == IF a < b THEN a ELSE b
Max2(a, b) == IF a > b THEN a ELSE b

RECURSIVE Pow2(_)
Pow2(n) == IF n = 0 THEN 1 ELSE 2 * Pow2(n - 1)

\* raw delay for a (capped) index kk, in u
Raw(kk) == Min(base * Pow2(kk), max)
\* doubling has reached the maximum at index kk: later indices give the same raw value
Capped(kk) == base = 0 \/ base * Pow2(kk) >= max

\* band of admissible delays for the next item, in u/100
Lo == IF policy = "constant" THEN 100 * base ELSE Max2(100 * base, 85 * Raw(k))
Hi == IF policy = "constant" THEN 100 * base ELSE Min(100 * max, 115 * Raw(k))

InitWith(p, b, m, a) ==
    /\ policy = p /\ base = b /\ max = m /\ attempts = a
    /\ emitted = 0 /\ k = 0 /\ stopped = FALSE
    /\ act = [name |-> "New", dlo |-> 0, dhi |-> 0, i |-> 0]

Init ==
    \E p \in {"constant", "exponential"}, b \in Delays, m \in Delays, a \in AttemptChoices \cup {None} :
        /\ b <= m
        /\ p = "constant" => b = m
        /\ InitWith(p, b, m, a)

(* next(schedule) returns a delay.  The delay is the rational enclosed by dlo..dhi. *)
(* Every item counts towards the attempt limit, whichever branch of the generator   *)
(* produced it (the regular one, the OverflowError handler at the first index whose *)
(* 2^i no longer fits a float, or the "overflowed" shortcut after it): a limit that *)
(* lies beyond that index still yields exactly `attempts` items.                    *)
Emit(dlo, dhi) ==
    /\ ~stopped
    /\ attempts = None \/ emitted < attempts
    /\ dhi - dlo \in {0, 1}
    /\ Lo <= dlo /\ dhi <= Hi
    /\ emitted' = emitted + 1
    /\ k' = IF policy = "exponential" /\ ~Capped(k) THEN k + 1 ELSE k
    /\ act' = [name |-> "Emit", dlo |-> dlo, dhi |-> dhi, i |-> emitted]
    /\ UNCHANGED <<policy, base, max, attempts, stopped>>

(* next(schedule) raises StopIteration: exactly when the attempt limit is used up;  *)
(* zero means immediately, None means never.                                        *)
Stop ==
    /\ ~stopped
    /\ attempts # None /\ emitted = attempts
    /\ stopped' = TRUE
    /\ act' = [name |-> "Stop", dlo |-> 0, dhi |-> 0, i |-> emitted]
    /\ UNCHANGED <<policy, base, max, attempts, emitted, k>>

\* model checking explores the end points and the middle of every band
Choices == {Lo, Hi, (Lo + Hi) \div 2}

EmitAny == \E d \in Choices : Emit(d, d)

Next == EmitAny \/ Stop

Spec == Init /\ [][Next]_vars

Bounded == emitted <= Horizon

-----------------------------------------------------------------------------
TypeOK ==
    /\ policy \in {"constant", "exponential"}
    /\ base \in Nat /\ max \in Nat /\ base <= max
    /\ attempts \in Nat \cup {None}
    /\ emitted \in Nat /\ k \in Nat /\ stopped \in BOOLEAN

\* a limited schedule yields exactly `attempts` delays; an unlimited one never ends
Length ==
    /\ attempts # None => emitted <= attempts
    /\ stopped => attempts # None /\ emitted = attempts
NeverEndsWithoutLimit == attempts = None => ~stopped
NotStuck == stopped \/ ENABLED Emit(Lo, Lo) \/ ENABLED Stop

\* constant: the fixed delay; exponential: between base and max
DelayBounds ==
    act.name = "Emit" =>
        IF policy = "constant" THEN act.dlo = 100 * base /\ act.dhi = 100 * base
        ELSE 100 * base <= act.dlo /\ act.dhi <= 100 * max

BandNonEmpty == Lo <= Hi

\* the index that is really used never runs past the cap: no overflow however long the schedule
IndexBounded ==
    /\ k <= emitted
    /\ k = 0 \/ base * Pow2(k - 1) < max
    /\ policy = "constant" => k = 0

\* (model checking only: small parameters) the capped index gives the same raw value as the true one,
\* and the delay follows the doubling curve within +/-15 % unless clamped
SafeIdx == 20
TrueRaw(i) == Min(base * Pow2(i), max)
CappedIsExact == (policy = "exponential" /\ emitted <= SafeIdx) => Raw(k) = TrueRaw(emitted)
FollowsCurve ==
    (act.name = "Emit" /\ policy = "exponential" /\ act.i <= SafeIdx) =>
        /\ act.dlo >= Max2(100 * base, 85 * TrueRaw(act.i))
        /\ act.dhi <= Min(100 * max, 115 * TrueRaw(act.i))

\* vacuity witnesses (each must be violated = reachable)
Witness_Saturated == ~(policy = "exponential" /\ k < emitted /\ base > 0)
Witness_ZeroAttempts == ~(stopped /\ emitted = 0)
Witness_ClampMax == ~(policy = "exponential" /\ 115 * Raw(k) > 100 * max)
Witness_ClampBase == ~(policy = "exponential" /\ 85 * Raw(k) < 100 * base /\ base > 0)
Witness_LongUnlimited == ~(attempts = None /\ emitted = Horizon)
\* the same witnesses as stuttering probe actions: with NEXT NextW and -coverage, a non-zero count for W_x
\* shows x is reachable without a separate TLC run (NextW is used for nothing else)
W_Saturated == ~Witness_Saturated /\ UNCHANGED vars
W_ZeroAttempts == ~Witness_ZeroAttempts /\ UNCHANGED vars
W_ClampMax == ~Witness_ClampMax /\ UNCHANGED vars
W_ClampBase == ~Witness_ClampBase /\ UNCHANGED vars
W_LongUnlimited == ~Witness_LongUnlimited /\ UNCHANGED vars
NextW == Next \/ W_Saturated \/ W_ZeroAttempts \/ W_ClampMax \/ W_ClampBase \/ W_LongUnlimited
=============================================================================
