------------------------------ MODULE GraphSON ------------------------------
(* GraphSON 1.0 / 2.0 / 3.0 typed-JSON forms of the values the DSE graph       *)
(* serializers of the driver support (cassandra/datastax/graph/graphson.py),   *)
(* as a reference WRITER  Ser(ver, x), a reference READER  Rd(ver, shape, t)   *)
(* and the documented normalisation  Norm(x), over ABSTRACT JSON TREES.        *)
(*                                                                             *)
(* Sources (NOT the driver's code):                                            *)
(*   Apache TinkerPop "IO reference", GraphSON 1.0 / 2.0 / 3.0: the tags       *)
(*     g:Int32 g:Int64 g:Float g:Double g:UUID g:List g:Set g:Map (alternating *)
(*     key/value array), extended gx:BigInteger gx:BigDecimal gx:Int16         *)
(*     gx:ByteBuffer gx:Duration gx:InetAddress gx:Instant gx:LocalDate        *)
(*     gx:LocalTime; the textual payloads are what java.time / java.math       *)
(*     toString() produce and what their parse() accepts:                      *)
(*       Duration.toString  "PT8H6M12.345S", "PT-1.5S", "PT-0.5S", "PT0S"      *)
(*       LocalTime.toString "10:15", "10:15:30", fraction in 3 / 6 / 9 digits  *)
(*       Instant.toString   "2016-12-14T16:39:19.349Z" (seconds always)        *)
(*       LocalDate.toString "2016-01-01"                                       *)
(*       BigDecimal.toString = the to-scientific-string of the General Decimal *)
(*         Arithmetic specification (also Python's str(Decimal))               *)
(*     non-finite doubles are the strings "NaN" "Infinity" "-Infinity";        *)
(*   the driver documentation (docs/graph.rst, docs/classic_graph.rst "Graph   *)
(*     Types", the table at the top of graphson.py): the DSE tags dse:Blob     *)
(*     dse:Point dse:LineString dse:Polygon dse:Distance dse:Duration, which   *)
(*     Python class a graph type comes back as (blob -> bytearray, inet -> str,*)
(*     timestamp -> naive UTC datetime, ...), which container types exist in   *)
(*     which version (g:List/g:Set/g:Map: GraphSON 3 only), gx:BigDecimal as a *)
(*     string, RFC 4648 base64, RFC 4122 / RFC 5952 text of uuid / inet, OGC    *)
(*     well-known text of the geometric types.                                 *)
(*                                                                             *)
(* REPRESENTATION (TLC integers are 32 bit, TLC cannot look into a string):    *)
(*   text      = sequence of characters; a character is a 1-character string   *)
(*               or "U+XXXX" for a non-ASCII code point;                       *)
(*   integers  = sign + decimal digit sequence (any width): a JSON number IS a *)
(*               digit sequence, range classification is done on the digits;   *)
(*   decimals  = sign, coefficient digits, exponent;                           *)
(*   floats    = named atoms (TLA+ has no floating point): only the case       *)
(*               structure is specified (tag, number vs string payload, which  *)
(*               atoms a 32-bit g:Float can hold);                             *)
(*   temporal  = small integer fields (y, m, d, h, mi, s, nanos), durations as *)
(*               sign + days + seconds + nanos;                                *)
(*   geometry  = coordinates as decimal literals (sign, integer digits,        *)
(*               fraction digits).                                             *)
(* JSON tree nodes (first component = node kind):                              *)
(*   <<"s", text>>  <<"n", neg, digits>> (integer number)  <<"f", atom>>       *)
(*   (non-integer number)  <<"b", BOOLEAN>>  <<"a", items>>  <<"o", pairs>>    *)
(*   (pairs = sequence of <<key text, node>>)  and                             *)
(*   <<"t", tag, payload>> = the object {"@type": tag, "@value": payload}.     *)
(* Abstract values (first component = kind): see the section "values".        *)
(*                                                                             *)
(* A case = one TLC state (ver, val): tree = Ser(ver, val), alts = other forms *)
(* a conforming peer may write for the same value, norm = Norm(val).           *)
(* checks/c40.py evaluates every state on the real driver; Trace_GraphSON.tla  *)
(* lets TLC read what the real serializers wrote with Rd (code -> spec).       *)
EXTENDS Integers, Sequences, FiniteSets, TLC

CONSTANTS Versions,       \* subset of {1, 2, 3}
          Families,       \* subset of AllFamilies
          Rich            \* BOOLEAN: larger container alphabets / lengths (thorough tier)

Err(r)   == <<"ERR", r>>
IsErr(x) == x[1] = "ERR"
NA       == <<"NA">>          \* Ser: the version has no form for this value

-----------------------------------------------------------------------------
\* ------------------------------------------------------------------ characters and text
DigitCh == <<"0", "1", "2", "3", "4", "5", "6", "7", "8", "9">>
HexCh   == DigitCh \o <<"a", "b", "c", "d", "e", "f">>
HexUp   == DigitCh \o <<"A", "B", "C", "D", "E", "F">>
D(n)       == DigitCh[n + 1]
IsDigit(c) == \E i \in 1..10 : DigitCh[i] = c
DVal(c)    == CHOOSE i \in 0..9 : DigitCh[i + 1] = c
IsHex(c)   == \E i \in 1..16 : HexCh[i] = c \/ HexUp[i] = c
HVal(c)    == CHOOSE i \in 0..15 : HexCh[i + 1] = c \/ HexUp[i + 1] = c

Tup(f) == f \o <<>>                                   \* a function on 1..n as a plain tuple
RECURSIVE Cat(_)
Cat(ss) == IF Len(ss) = 0 THEN <<>> ELSE Head(ss) \o Cat(Tail(ss))
RECURSIVE Join(_, _)
Join(parts, sep) == IF Len(parts) = 0 THEN <<>>
                    ELSE IF Len(parts) = 1 THEN parts[1]
                    ELSE parts[1] \o sep \o Join(Tail(parts), sep)
Pos(t, c) == IF \E i \in 1..Len(t) : t[i] = c
             THEN CHOOSE i \in 1..Len(t) : t[i] = c /\ \A j \in 1..(i - 1) : t[j] # c
             ELSE 0
RECURSIVE Split(_, _)
Split(t, c) == LET p == Pos(t, c) IN
               IF p = 0 THEN <<t>> ELSE <<SubSeq(t, 1, p - 1)>> \o Split(SubSeq(t, p + 1, Len(t)), c)
From(t, i)  == SubSeq(t, i, Len(t))
StartsWith(t, pre) == Len(t) >= Len(pre) /\ SubSeq(t, 1, Len(pre)) = pre

Digs(t)      == Tup([i \in 1..Len(t) |-> DVal(t[i])])          \* digit characters -> digit values
Txt(d)       == Tup([i \in 1..Len(d) |-> D(d[i])])             \* digit values -> characters
AllDigits(t) == Len(t) > 0 /\ \A i \in 1..Len(t) : IsDigit(t[i])
NoneOrDigits(t) == \A i \in 1..Len(t) : IsDigit(t[i])
RECURSIVE NatStr(_)
NatStr(n) == IF n < 10 THEN <<D(n)>> ELSE NatStr(n \div 10) \o <<D(n % 10)>>
Pad(n, w) == LET s == NatStr(n) IN Tup([i \in 1..(w - Len(s)) |-> "0"]) \o s
RECURSIVE StrNat(_)                                            \* at most 9 digits
StrNat(t) == IF Len(t) = 0 THEN 0 ELSE StrNat(SubSeq(t, 1, Len(t) - 1)) * 10 + DVal(t[Len(t)])
RECURSIVE StripTZ(_)                                           \* works on characters and on digit values
StripTZ(t) == IF Len(t) > 0 /\ t[Len(t)] \in {"0"} THEN StripTZ(SubSeq(t, 1, Len(t) - 1)) ELSE t
RECURSIVE StripTZd(_)
StripTZd(d) == IF Len(d) > 0 /\ d[Len(d)] = 0 THEN StripTZd(SubSeq(d, 1, Len(d) - 1)) ELSE d
RECURSIVE StripLZd(_)                                          \* leading zeros, at least one digit stays
StripLZd(d) == IF Len(d) > 1 /\ d[1] = 0 THEN StripLZd(Tail(d)) ELSE d
Pow10(k) == CASE k = 0 -> 1 [] k = 1 -> 10 [] k = 2 -> 100 [] k = 3 -> 1000 [] k = 4 -> 10000 [] k = 5 -> 100000
              [] k = 6 -> 1000000 [] k = 7 -> 10000000 [] k = 8 -> 100000000 [] k = 9 -> 1000000000

\* fraction of a second, nanos in 0..999999999
Frac369(ns)  == IF ns % 1000000 = 0 THEN Pad(ns \div 1000000, 3)        \* java.time: "in groups of three"
                ELSE IF ns % 1000 = 0 THEN Pad(ns \div 1000, 6) ELSE Pad(ns, 9)
FracTrim(ns) == StripTZ(Pad(ns, 9))                                      \* Duration.toString: trailing zeros removed
FracOK(t)    == Len(t) \in 1..9 /\ AllDigits(t)
FracNs(t)    == StrNat(t) * Pow10(9 - Len(t))

-----------------------------------------------------------------------------
\* ------------------------------------------------------------------ integers of any width (digit sequences)
RECURSIVE LexLt(_, _)                                          \* equal lengths
LexLt(a, b) == IF Len(a) = 0 THEN FALSE ELSE IF a[1] # b[1] THEN a[1] < b[1] ELSE LexLt(Tail(a), Tail(b))
DigLt(a, b) == Len(a) < Len(b) \/ (Len(a) = Len(b) /\ LexLt(a, b))     \* no leading zeros
P15 == <<3, 2, 7, 6, 8>>
P31 == <<2, 1, 4, 7, 4, 8, 3, 6, 4, 8>>
P63 == <<9, 2, 2, 3, 3, 7, 2, 0, 3, 6, 8, 5, 4, 7, 7, 5, 8, 0, 8>>
\* -P <= x < P  for x = (neg, dig), P a power of two: the range of a two's complement field
Fits(neg, dig, P) == IF neg THEN ~DigLt(P, dig) ELSE DigLt(dig, P)
IntWF(neg, dig)   == /\ Len(dig) >= 1 /\ \A i \in 1..Len(dig) : dig[i] \in 0..9
                     /\ (Len(dig) > 1 => dig[1] # 0) /\ (dig = <<0>> => ~neg)
IntTag(neg, dig)  == IF Fits(neg, dig, P31) THEN "g:Int32" ELSE IF Fits(neg, dig, P63) THEN "g:Int64" ELSE "gx:BigInteger"
Num(neg, dig)     == <<"n", neg, dig>>
IntText(neg, dig) == (IF neg THEN <<"-">> ELSE <<>>) \o Txt(dig)
RECURSIVE DigVal(_)                                            \* for the agreement invariant: at most 9 digits
DigVal(d) == IF Len(d) = 0 THEN 0 ELSE DigVal(SubSeq(d, 1, Len(d) - 1)) * 10 + d[Len(d)]

-----------------------------------------------------------------------------
\* ------------------------------------------------------------------ decimals: to-scientific-string
\* x = (-1)^neg * coefficient(dig) * 10^exp.  BigDecimal.toString (scale = -exp), identical to Python's str(Decimal):
\* adjusted exponent = exp + (number of digits - 1); plain notation iff exp <= 0 and adjusted >= -6.
DecStr(neg, dig, exp) ==
    LET n   == Len(dig)
        adj == exp + n - 1
        sg  == IF neg THEN <<"-">> ELSE <<>>
        ds  == Txt(dig)
    IN IF exp <= 0 /\ adj >= -6
       THEN IF exp = 0 THEN sg \o ds
            ELSE LET il == n + exp IN                                   \* digits before the point
                 IF il > 0 THEN sg \o SubSeq(ds, 1, il) \o <<".">> \o SubSeq(ds, il + 1, n)
                 ELSE sg \o <<"0", ".">> \o Tup([i \in 1..(-il) |-> "0"]) \o ds
       ELSE sg \o <<ds[1]>> \o (IF n > 1 THEN <<".">> \o SubSeq(ds, 2, n) ELSE <<>>)
               \o <<"E">> \o (IF adj < 0 THEN <<"-">> ELSE <<"+">>) \o NatStr(IF adj < 0 THEN -adj ELSE adj)
\* numeric-string grammar:  [-+] digits [. digits] [(E|e) [-+] digits]  |  [-+] . digits ...
DecParse(t) ==
    LET sgn  == Len(t) > 0 /\ t[1] \in {"-", "+"}
        neg  == Len(t) > 0 /\ t[1] = "-"
        u    == IF sgn THEN Tail(t) ELSE t
        e    == IF Pos(u, "E") # 0 THEN Pos(u, "E") ELSE Pos(u, "e")
        mant == IF e = 0 THEN u ELSE SubSeq(u, 1, e - 1)
        ex   == IF e = 0 THEN <<>> ELSE From(u, e + 1)
        exs  == Len(ex) > 0 /\ ex[1] \in {"-", "+"}
        exd  == IF exs THEN Tail(ex) ELSE ex
        p    == Pos(mant, ".")
        ip   == IF p = 0 THEN mant ELSE SubSeq(mant, 1, p - 1)
        fp   == IF p = 0 THEN <<>> ELSE From(mant, p + 1)
    IN IF Len(ip) + Len(fp) > 0 /\ NoneOrDigits(ip) /\ NoneOrDigits(fp) /\ (e = 0 \/ (AllDigits(exd) /\ Len(exd) <= 9))
       THEN <<"dec", neg, StripLZd(Digs(ip \o fp)),
              (IF e = 0 THEN 0 ELSE IF ex[1] = "-" THEN -StrNat(exd) ELSE StrNat(exd)) - Len(fp)>>
       ELSE Err("decimal")

-----------------------------------------------------------------------------
\* ------------------------------------------------------------------ uuid (RFC 4122 text), base64 (RFC 4648), inet text
Lo4(n)     == n % 16
Hex2(b)    == <<HexCh[b \div 16 + 1], HexCh[Lo4(b) + 1]>>
UuidStr(b) == Cat([i \in 1..16 |-> (IF i \in {5, 7, 9, 11} THEN <<"-">> ELSE <<>>) \o Hex2(b[i])])
UuidParse(t) ==
    IF Len(t) = 36 /\ \A i \in 1..36 : IF i \in {9, 14, 19, 24} THEN t[i] = "-" ELSE IsHex(t[i])
    THEN LET h == SelectSeq(t, LAMBDA c : c # "-") IN
         <<"uuid", Tup([i \in 1..16 |-> HVal(h[2 * i - 1]) * 16 + HVal(h[2 * i])])>>
    ELSE Err("uuid")

B64Ch == <<"A", "B", "C", "D", "E", "F", "G", "H", "I", "J", "K", "L", "M", "N", "O", "P", "Q", "R", "S", "T", "U", "V", "W",
           "X", "Y", "Z", "a", "b", "c", "d", "e", "f", "g", "h", "i", "j", "k", "l", "m", "n", "o", "p", "q", "r", "s", "t",
           "u", "v", "w", "x", "y", "z", "0", "1", "2", "3", "4", "5", "6", "7", "8", "9", "+", "/">>
C64(n)    == B64Ch[n + 1]
Is64(c)   == \E i \in 1..64 : B64Ch[i] = c
V64(c)    == CHOOSE i \in 0..63 : B64Ch[i + 1] = c
RECURSIVE B64Enc(_)
B64Enc(b) ==
    IF Len(b) = 0 THEN <<>>
    ELSE IF Len(b) = 1 THEN <<C64(b[1] \div 4), C64((b[1] % 4) * 16), "=", "=">>
    ELSE IF Len(b) = 2 THEN <<C64(b[1] \div 4), C64((b[1] % 4) * 16 + b[2] \div 16), C64((b[2] % 16) * 4), "=">>
    ELSE <<C64(b[1] \div 4), C64((b[1] % 4) * 16 + b[2] \div 16), C64((b[2] % 16) * 4 + b[3] \div 64), C64(b[3] % 64)>>
         \o B64Enc(From(b, 4))
\* one group of four characters; padding only where RFC 4648 allows it and with zero spare bits
Quad(q, last) ==
    IF Is64(q[1]) /\ Is64(q[2]) /\ Is64(q[3]) /\ Is64(q[4])
    THEN <<TRUE, <<V64(q[1]) * 4 + V64(q[2]) \div 16, (V64(q[2]) % 16) * 16 + V64(q[3]) \div 4, (V64(q[3]) % 4) * 64 + V64(q[4])>>>>
    ELSE IF last /\ Is64(q[1]) /\ Is64(q[2]) /\ Is64(q[3]) /\ q[4] = "=" /\ V64(q[3]) % 4 = 0
    THEN <<TRUE, <<V64(q[1]) * 4 + V64(q[2]) \div 16, (V64(q[2]) % 16) * 16 + V64(q[3]) \div 4>>>>
    ELSE IF last /\ Is64(q[1]) /\ Is64(q[2]) /\ q[3] = "=" /\ q[4] = "=" /\ V64(q[2]) % 16 = 0
    THEN <<TRUE, <<V64(q[1]) * 4 + V64(q[2]) \div 16>>>>
    ELSE <<FALSE, <<>>>>
B64Dec(t) ==
    IF Len(t) % 4 # 0 THEN Err("base64")
    ELSE LET n  == Len(t) \div 4
             qs == [i \in 1..n |-> Quad(SubSeq(t, 4 * i - 3, 4 * i), i = n)]
         IN IF \A i \in 1..n : qs[i][1] THEN <<"blob", Cat([i \in 1..n |-> qs[i][2]])>> ELSE Err("base64")

\* inet: 4 bytes -> dotted decimal; 16 bytes -> RFC 5952 (lower-case hex groups without leading zeros, the longest run
\* of two or more zero groups - the first one when there is a tie - replaced by "::")
Inet4Str(b) == Join([i \in 1..4 |-> NatStr(b[i])], <<".">>)
RECURSIVE HexStr(_)
HexStr(n)   == IF n < 16 THEN <<HexCh[n + 1]>> ELSE HexStr(n \div 16) \o <<HexCh[Lo4(n) + 1]>>
Groups(b)   == [i \in 1..8 |-> b[2 * i - 1] * 256 + b[2 * i]]
RECURSIVE RunLen(_, _)
RunLen(g, i) == IF i > 8 THEN 0 ELSE IF g[i] # 0 THEN 0 ELSE 1 + RunLen(g, i + 1)
BestLen(g)   == CHOOSE n \in 0..8 : (\E i \in 1..8 : RunLen(g, i) = n) /\ \A i \in 1..8 : RunLen(g, i) <= n
BestStart(g) == CHOOSE i \in 1..8 : RunLen(g, i) = BestLen(g) /\ \A j \in 1..(i - 1) : RunLen(g, j) < BestLen(g)
Inet6Str(b)  == LET g == Groups(b) n == BestLen(g) IN
                IF n < 2 THEN Join([i \in 1..8 |-> HexStr(g[i])], <<":">>)
                ELSE LET s == BestStart(g) IN
                     Join([i \in 1..(s - 1) |-> HexStr(g[i])], <<":">>) \o <<":", ":">>
                     \o Join([i \in 1..(9 - s - n) |-> HexStr(g[s + n - 1 + i])], <<":">>)
InetStr(b)   == IF Len(b) = 4 THEN Inet4Str(b) ELSE Inet6Str(b)

-----------------------------------------------------------------------------
\* ------------------------------------------------------------------ dates, times, instants (ISO-8601 as java.time writes it)
DateStr(y, m, d) == Pad(y, 4) \o <<"-">> \o Pad(m, 2) \o <<"-">> \o Pad(d, 2)         \* years 0001..9999 only
DateParse(t) ==
    IF Len(t) = 10 /\ t[5] = "-" /\ t[8] = "-" /\ AllDigits(SubSeq(t, 1, 4)) /\ AllDigits(SubSeq(t, 6, 7)) /\ AllDigits(SubSeq(t, 9, 10))
    THEN LET y == StrNat(SubSeq(t, 1, 4)) m == StrNat(SubSeq(t, 6, 7)) d == StrNat(SubSeq(t, 9, 10)) IN
         IF y >= 1 /\ m \in 1..12 /\ d \in 1..31 THEN <<"date", y, m, d>> ELSE Err("date-range")
    ELSE Err("date")

HM(h, mi) == Pad(h, 2) \o <<":">> \o Pad(mi, 2)
\* LocalTime.toString: "HH:mm", seconds only when seconds or nanos are not zero, the fraction in 3, 6 or 9 digits
TimeStr(h, mi, s, ns) == HM(h, mi) \o (IF s = 0 /\ ns = 0 THEN <<>>
                                       ELSE <<":">> \o Pad(s, 2) \o (IF ns = 0 THEN <<>> ELSE <<".">> \o Frac369(ns)))
\* always with seconds (Instant.toString / ISO_INSTANT)
TimeSec(h, mi, s, ns) == HM(h, mi) \o <<":">> \o Pad(s, 2) \o (IF ns = 0 THEN <<>> ELSE <<".">> \o Frac369(ns))
\* all fields, microseconds (another ISO-8601 form of the same time; ns a multiple of 1000)
TimeFull(h, mi, s, ns) == HM(h, mi) \o <<":">> \o Pad(s, 2) \o <<".">> \o Pad(ns \div 1000, 6)
\* LocalTime.parse (ISO_LOCAL_TIME): HH:mm[:ss[.f{1,9}]]  ->  <<ok, h, mi, s, ns>>
TimeFields(t) ==
    LET bad == <<FALSE, 0, 0, 0, 0>> IN
    IF Len(t) < 5 \/ t[3] # ":" \/ ~AllDigits(SubSeq(t, 1, 2)) \/ ~AllDigits(SubSeq(t, 4, 5)) THEN bad
    ELSE LET h == StrNat(SubSeq(t, 1, 2)) mi == StrNat(SubSeq(t, 4, 5)) IN
         IF h > 23 \/ mi > 59 THEN bad
         ELSE IF Len(t) = 5 THEN <<TRUE, h, mi, 0, 0>>
         ELSE IF Len(t) < 8 \/ t[6] # ":" \/ ~AllDigits(SubSeq(t, 7, 8)) \/ StrNat(SubSeq(t, 7, 8)) > 59 THEN bad
         ELSE IF Len(t) = 8 THEN <<TRUE, h, mi, StrNat(SubSeq(t, 7, 8)), 0>>
         ELSE IF t[9] = "." /\ FracOK(From(t, 10)) THEN <<TRUE, h, mi, StrNat(SubSeq(t, 7, 8)), FracNs(From(t, 10))>>
         ELSE bad
TimeParse(t) == LET f == TimeFields(t) IN IF f[1] THEN <<"time", f[2], f[3], f[4], f[5]>> ELSE Err("time")

\* an instant: UTC calendar fields; Instant.toString = date "T" time-with-seconds "Z"
InstStr(y, mo, d, h, mi, s, ns)  == DateStr(y, mo, d) \o <<"T">> \o TimeSec(h, mi, s, ns) \o <<"Z">>
InstFull(y, mo, d, h, mi, s, ns) == DateStr(y, mo, d) \o <<"T">> \o TimeFull(h, mi, s, ns) \o <<"Z">>
InstParse(t) ==
    IF Len(t) >= 17 /\ t[11] = "T" /\ t[Len(t)] = "Z"
    THEN LET dt == DateParse(SubSeq(t, 1, 10)) f == TimeFields(SubSeq(t, 12, Len(t) - 1)) IN
         IF IsErr(dt) \/ ~f[1] THEN Err("instant")
         ELSE <<"inst", dt[2], dt[3], dt[4], f[2], f[3], f[4], f[5], FALSE, 0>>
    ELSE Err("instant")

-----------------------------------------------------------------------------
\* ------------------------------------------------------------------ durations (java.time.Duration)
\* value = (-1)^neg * (d days + s seconds + ns nanoseconds), 0 <= s < 86400, 0 <= ns < 10^9, neg only when not zero;
\* d <= 20000 so that every quantity below stays within TLC's integers.
\* Duration.toString: hours, minutes, seconds of the total, zero components omitted, every printed component carries
\* the sign, the fraction belongs to the seconds ("PT-0.5S"), trailing zeros of the fraction removed, zero = "PT0S";
\* never a days component.
DurStr(neg, d, s, ns) ==
    LET tot == d * 86400 + s
        H == tot \div 3600  M == (tot % 3600) \div 60  S == tot % 60
        sg == IF neg THEN <<"-">> ELSE <<>>
    IN <<"P", "T">>
       \o (IF H # 0 THEN sg \o NatStr(H) \o <<"H">> ELSE <<>>)
       \o (IF M # 0 THEN sg \o NatStr(M) \o <<"M">> ELSE <<>>)
       \o (IF S = 0 /\ ns = 0 THEN (IF H = 0 /\ M = 0 THEN <<"0", "S">> ELSE <<>>)
           ELSE sg \o NatStr(S) \o (IF ns = 0 THEN <<>> ELSE <<".">> \o FracTrim(ns)) \o <<"S">>)
\* the layout the driver documents ("P{days}DT{hours}H{minutes}M{seconds}S", e.g. 'P42DT10H5M37S'): all four
\* components, also valid for Duration.parse; the sign in front of the whole
DurLayout(neg, d, s, ns) ==
    (IF neg THEN <<"-">> ELSE <<>>) \o <<"P">> \o NatStr(d) \o <<"D", "T">> \o NatStr(s \div 3600) \o <<"H">>
    \o NatStr((s % 3600) \div 60) \o <<"M">> \o NatStr(s % 60) \o (IF ns = 0 THEN <<>> ELSE <<".">> \o FracTrim(ns)) \o <<"S">>

\* Duration.parse:  [-+]P[[-+]nD][T[[-+]nH][[-+]nM][[-+]n[.f{0,9}]S]]   (at least one component; after T at least one)
\* signed integer of at most 9 digits -> <<ok, sign, magnitude>>
SInt(t) == LET sgn == Len(t) > 0 /\ t[1] \in {"-", "+"}
               u   == IF sgn THEN Tail(t) ELSE t IN
           IF AllDigits(u) /\ Len(u) <= 9 THEN <<TRUE, IF sgn /\ t[1] = "-" THEN -1 ELSE 1, StrNat(u)>> ELSE <<FALSE, 1, 0>>
\* one optional component ending with the designator c at the front of t -> <<ok, present, text of the number, rest>>
Comp(t, c) == LET p == Pos(t, c) IN IF p = 0 THEN <<TRUE, FALSE, <<>>, t>> ELSE <<p > 1, TRUE, SubSeq(t, 1, p - 1), From(t, p + 1)>>
DurParse(t) ==
    LET lsgn == Len(t) > 0 /\ t[1] \in {"-", "+"}
        lneg == Len(t) > 0 /\ t[1] = "-"
        u    == IF lsgn THEN Tail(t) ELSE t
    IN IF Len(u) < 3 \/ u[1] # "P" THEN Err("duration")
       ELSE
       LET body == Tail(u)
           tp   == Pos(body, "T")
           dpt  == IF tp = 0 THEN body ELSE SubSeq(body, 1, tp - 1)
           tpt  == IF tp = 0 THEN <<>> ELSE From(body, tp + 1)
           cd   == Comp(dpt, "D")
           ch   == Comp(tpt, "H")
           cm   == Comp(ch[4], "M")
           cs   == Comp(cm[4], "S")
           dv   == IF cd[2] THEN SInt(cd[3]) ELSE <<TRUE, 1, 0>>
           hv   == IF ch[2] THEN SInt(ch[3]) ELSE <<TRUE, 1, 0>>
           mv   == IF cm[2] THEN SInt(cm[3]) ELSE <<TRUE, 1, 0>>
           sp   == Pos(cs[3], ".")
           st   == IF sp = 0 THEN cs[3] ELSE SubSeq(cs[3], 1, sp - 1)
           ft   == IF sp = 0 THEN <<>> ELSE From(cs[3], sp + 1)
           sv   == IF cs[2] THEN SInt(st) ELSE <<TRUE, 1, 0>>
           ok   == /\ cd[1] /\ ch[1] /\ cm[1] /\ cs[1] /\ dv[1] /\ hv[1] /\ mv[1] /\ sv[1]
                   /\ cd[4] = <<>> /\ cs[4] = <<>>
                   /\ (cd[2] \/ ch[2] \/ cm[2] \/ cs[2])
                   /\ (tp # 0 => (ch[2] \/ cm[2] \/ cs[2]))
                   /\ Len(ft) <= 9 /\ NoneOrDigits(ft)
                   /\ dv[3] <= 20000 /\ hv[3] <= 490000 /\ dv[3] * 24 + hv[3] <= 490000          \* TLC's integers
                   /\ mv[3] <= 1000000 /\ sv[3] <= 100000000
       IN IF ~ok THEN Err("duration")
          ELSE LET flip == IF lneg THEN -1 ELSE 1
                   S0 == flip * (dv[2] * dv[3] * 86400 + hv[2] * hv[3] * 3600 + mv[2] * mv[3] * 60 + sv[2] * sv[3])
                   N0 == flip * sv[2] * (IF Len(ft) = 0 THEN 0 ELSE FracNs(ft))
                   \* seconds and nanos of one sign
                   S1 == IF S0 > 0 /\ N0 < 0 THEN S0 - 1 ELSE IF S0 < 0 /\ N0 > 0 THEN S0 + 1 ELSE S0
                   N1 == IF S0 > 0 /\ N0 < 0 THEN N0 + 1000000000 ELSE IF S0 < 0 /\ N0 > 0 THEN N0 - 1000000000 ELSE N0
                   neg == S1 < 0 \/ N1 < 0
                   Sa == IF S1 < 0 THEN -S1 ELSE S1
                   Na == IF N1 < 0 THEN -N1 ELSE N1
               IN <<"dur", neg, Sa \div 86400, Sa % 86400, Na>>

-----------------------------------------------------------------------------
\* ------------------------------------------------------------------ geometric types: OGC well-known text
\* coordinate = <<neg, integer digits, fraction digits>>; without fraction digits it is written as an integer
Sp == <<" ">>
CoordStr(c) == (IF c[1] THEN <<"-">> ELSE <<>>) \o Txt(c[2]) \o (IF Len(c[3]) > 0 THEN <<".">> \o Txt(c[3]) ELSE <<>>)
PtStr(p)    == CoordStr(p[1]) \o Sp \o CoordStr(p[2])
PtsStr(ps)  == <<"(">> \o Join([i \in 1..Len(ps) |-> PtStr(ps[i])], <<",", " ">>) \o <<")">>
KwPoint == <<"P", "O", "I", "N", "T">>
KwLine  == <<"L", "I", "N", "E", "S", "T", "R", "I", "N", "G">>
KwPoly  == <<"P", "O", "L", "Y", "G", "O", "N">>
KwDist  == <<"D", "I", "S", "T", "A", "N", "C", "E">>
KwEmpty == <<"E", "M", "P", "T", "Y">>
PointWkt(x)   == KwPoint \o Sp \o <<"(">> \o PtStr(<<x[2], x[3]>>) \o <<")">>
LineWkt(x)    == KwLine \o Sp \o (IF Len(x[2]) = 0 THEN KwEmpty ELSE PtsStr(x[2]))
PolyWkt(x)    == KwPoly \o Sp \o (IF Len(x[2]) = 0 THEN KwEmpty
                                  ELSE <<"(">> \o Join([i \in 1..Len(x[2]) |-> PtsStr(x[2][i])], <<",", " ">>) \o <<")">>)
DistWkt(x)    == KwDist \o Sp \o <<"(", "(">> \o PtStr(<<x[2], x[3]>>) \o <<")", " ">> \o CoordStr(x[4]) \o <<")">>
\* the number a coordinate denotes, in one form: no trailing zeros in the fraction, an integer has the fraction <<0>>
NormC(c) == LET f == StripTZd(c[3]) IN <<c[1], c[2], IF Len(f) = 0 THEN <<0>> ELSE f>>
CoordParse(t) ==                                   \* -> <<ok, coordinate>>
    LET neg == Len(t) > 0 /\ t[1] = "-"
        u   == IF neg THEN Tail(t) ELSE t
        p   == Pos(u, ".")
        ip  == IF p = 0 THEN u ELSE SubSeq(u, 1, p - 1)
        fp  == IF p = 0 THEN <<>> ELSE From(u, p + 1)
    IN IF AllDigits(ip) /\ NoneOrDigits(fp) /\ (p = 0 \/ Len(fp) > 0)
       THEN <<TRUE, NormC(<<neg, StripLZd(Digs(ip)), Digs(fp)>>)>> ELSE <<FALSE, <<>>>>
RECURSIVE LTrim(_)
LTrim(t) == IF Len(t) > 0 /\ t[1] = " " THEN LTrim(Tail(t)) ELSE t
PtParse(t) == LET w == Split(LTrim(t), " ") IN                   \* "x y" -> <<ok, <<cx, cy>>>>
              IF Len(w) # 2 THEN <<FALSE, <<>>>>
              ELSE LET a == CoordParse(w[1]) b == CoordParse(w[2]) IN
                   IF a[1] /\ b[1] THEN <<TRUE, <<a[2], b[2]>>>> ELSE <<FALSE, <<>>>>
PtsParse(t) == LET w == Split(t, ",") ps == [i \in 1..Len(w) |-> PtParse(w[i])] IN     \* "x y, x y" (no parentheses)
               IF \A i \in 1..Len(w) : ps[i][1] THEN <<TRUE, Tup([i \in 1..Len(w) |-> ps[i][2]])>> ELSE <<FALSE, <<>>>>
Body(t, kw) == From(t, Len(kw) + 2)                              \* after "KEYWORD "
Parens(t)   == Len(t) >= 2 /\ t[1] = "(" /\ t[Len(t)] = ")"
Inner(t)    == SubSeq(t, 2, Len(t) - 1)
PointParse(t) ==
    IF StartsWith(t, KwPoint \o Sp) /\ Parens(Body(t, KwPoint))
    THEN LET p == PtParse(Inner(Body(t, KwPoint))) IN IF p[1] THEN <<"point", p[2][1], p[2][2]>> ELSE Err("wkt-point")
    ELSE Err("wkt-point")
LineParse(t) ==
    IF ~StartsWith(t, KwLine \o Sp) THEN Err("wkt-linestring")
    ELSE LET b == Body(t, KwLine) IN
         IF b = KwEmpty THEN <<"line", <<>>>>
         ELSE IF Parens(b) THEN (LET ps == PtsParse(Inner(b)) IN IF ps[1] THEN <<"line", ps[2]>> ELSE Err("wkt-linestring"))
         ELSE Err("wkt-linestring")
\* "(x y, x y), (x y, x y)": every ring ends with ")"; what precedes its "(" is ", " or nothing
RingTexts(t) == LET w == Split(t, ")") IN                        \* last part is empty
                [i \in 1..(Len(w) - 1) |-> LET q == Pos(w[i], "(") IN <<q # 0, IF q = 0 THEN <<>> ELSE From(w[i], q + 1)>>]
PolyParse(t) ==
    IF ~StartsWith(t, KwPoly \o Sp) THEN Err("wkt-polygon")
    ELSE LET b == Body(t, KwPoly) IN
         IF b = KwEmpty THEN <<"poly", <<>>>>
         ELSE IF Parens(b) /\ Len(b) > 4
         THEN LET rt == IF Split(Inner(b), ")")[Len(Split(Inner(b), ")"))] = <<>> THEN RingTexts(Inner(b)) ELSE <<>>
                  rs == [i \in 1..Len(rt) |-> IF rt[i][1] THEN PtsParse(rt[i][2]) ELSE <<FALSE, <<>>>>] IN
              IF Len(rt) >= 1 /\ \A i \in 1..Len(rt) : rs[i][1]
              THEN <<"poly", Tup([i \in 1..Len(rt) |-> rs[i][2]])>> ELSE Err("wkt-polygon")
         ELSE Err("wkt-polygon")
DistParse(t) ==                                                  \* "DISTANCE ((x y) r)"
    IF StartsWith(t, KwDist \o Sp) /\ Parens(Body(t, KwDist))
    THEN LET b == Inner(Body(t, KwDist)) q == Pos(b, ")") IN
         IF q > 2 /\ b[1] = "("
         THEN LET p == PtParse(SubSeq(b, 2, q - 1)) r == CoordParse(LTrim(From(b, q + 1))) IN
              IF p[1] /\ r[1] THEN <<"dist", p[2][1], p[2][2], r[2]>> ELSE Err("wkt-distance")
         ELSE Err("wkt-distance")
    ELSE Err("wkt-distance")

-----------------------------------------------------------------------------
\* ------------------------------------------------------------------ values
\* <<"int", hint, neg, dig>>      hint: "none" | "smallint" | "int" | "bigint"  (the driver's to_smallint / to_int /
\*                                to_bigint wrappers: a Python int carries no width; GraphSON 3 only)
\* <<"float", hint, atom>>        hint: "none" | "float" | "double"             (to_float / to_double)
\* <<"dec", neg, dig, exp>>       <<"text", chars>>      <<"bool", b>>
\* <<"uuid", 16 bytes>>           <<"blob", bytes>>      <<"inet", 4 or 16 bytes>>
\* <<"date", y, m, d>>            <<"time", h, mi, s, ns>>
\* <<"inst", y, mo, d, h, mi, s, ns, aware, off>>   wall-clock reading; aware: read at UTC offset off (minutes)
\* <<"dur", neg, d, s, ns>>       (java.time.Duration / timedelta)
\* <<"dsedur", months, days, nanos>>   each <<neg, dig>>  (CQL duration; Core graphs / GraphSON 3 only)
\* <<"point", cx, cy>>  <<"line", points>>  <<"poly", rings>>  <<"dist", cx, cy, radius>>
\* <<"list", items>>    <<"set", items>> (pairwise different)    <<"map", <<key, value>> pairs>> (keys different)
Kind(x) == x[1]
Scalars == {"int", "float", "dec", "text", "bool", "uuid", "blob", "inet", "date", "time", "inst", "dur", "dsedur",
            "point", "line", "poly", "dist"}

FloatAtoms == {"0.0", "-0.0", "1.0", "1.5", "-2.5", "0.1", "1e300", "5e-324", "f32max", "nan", "inf", "-inf"}
NonFinite(a) == a \in {"nan", "inf", "-inf"}
F32(a) == a \in {"0.0", "-0.0", "1.0", "1.5", "-2.5", "f32max", "nan", "inf", "-inf"}      \* exactly a binary32 value
NonFiniteText(a) == CASE a = "nan" -> <<"N", "a", "N">>
                      [] a = "inf" -> <<"I", "n", "f", "i", "n", "i", "t", "y">>
                      [] a = "-inf" -> <<"-", "I", "n", "f", "i", "n", "i", "t", "y">>
FloatNode(a) == IF NonFinite(a) THEN <<"s", NonFiniteText(a)>> ELSE <<"f", a>>
FloatOf(n) ==                                     \* payload node -> atom or "" (not a float payload)
    IF n[1] = "f" THEN (IF NonFinite(n[2]) THEN "" ELSE n[2])        \* JSON has no NaN / Infinity number token
    ELSE IF n[1] = "s" THEN (IF n[2] = NonFiniteText("nan") THEN "nan" ELSE IF n[2] = NonFiniteText("inf") THEN "inf"
                             ELSE IF n[2] = NonFiniteText("-inf") THEN "-inf" ELSE "")
    ELSE ""

Typed(tag, payload) == <<"t", tag, payload>>
Str(t) == <<"s", t>>

\* ------------------------------------------------------------------ normalisation ("an equal value")
\* What the documentation says comes back: the same value, except
\*   - the width hint of a number is not part of the value (int / float);
\*   - inet comes back as the text of the address (str);
\*   - an aware wall-clock reading comes back as the naive UTC reading of the same instant (only readings whose UTC
\*     reading falls on the same day are enumerated: no calendar arithmetic here);
\*   - coordinates come back as floating point numbers (1 and 1.0 are the same coordinate);
\*   - blob comes back as bytearray whatever bytes-like class was given, a set as a set (order is not part of it), a
\*     map as a dict (the harness compares classes; nothing to do on the abstract value).
\* A decimal keeps its coefficient AND exponent (1.50 stays 1.50), text / uuid / date / time / durations are unchanged.
RECURSIVE Norm(_)
NormPts(ps) == Tup([i \in 1..Len(ps) |-> <<NormC(ps[i][1]), NormC(ps[i][2])>>])
Norm(x) ==
    CASE Kind(x) = "int"   -> <<"int", "none", x[3], x[4]>>
      [] Kind(x) = "float" -> <<"float", "none", x[3]>>
      [] Kind(x) = "inet"  -> <<"text", InetStr(x[2])>>
      [] Kind(x) = "inst"  -> IF x[9] THEN LET m == x[5] * 60 + x[6] - x[10] IN
                                           <<"inst", x[2], x[3], x[4], m \div 60, m % 60, x[7], x[8], FALSE, 0>>
                              ELSE x
      [] Kind(x) = "point" -> <<"point", NormC(x[2]), NormC(x[3])>>
      [] Kind(x) = "line"  -> <<"line", NormPts(x[2])>>
      [] Kind(x) = "poly"  -> <<"poly", Tup([i \in 1..Len(x[2]) |-> NormPts(x[2][i])])>>
      [] Kind(x) = "dist"  -> <<"dist", NormC(x[2]), NormC(x[3]), NormC(x[4])>>
      [] Kind(x) \in {"list", "set"} -> <<Kind(x), Tup([i \in 1..Len(x[2]) |-> Norm(x[2][i])])>>
      [] Kind(x) = "map"   -> <<"map", Tup([i \in 1..Len(x[2]) |-> <<Norm(x[2][i][1]), Norm(x[2][i][2])>>])>>
      [] OTHER -> x

\* equality of values: the order of a set and of the entries of a map (a dict) is not part of the value
RECURSIVE Same(_, _)
Same(a, b) ==
    IF a[1] # b[1] THEN FALSE
    ELSE CASE a[1] = "list" -> Len(a[2]) = Len(b[2]) /\ \A i \in 1..Len(a[2]) : Same(a[2][i], b[2][i])
           [] a[1] = "set"  -> Len(a[2]) = Len(b[2]) /\ \A i \in 1..Len(a[2]) : \E j \in 1..Len(b[2]) : Same(a[2][i], b[2][j])
           [] a[1] = "map"  -> Len(a[2]) = Len(b[2]) /\ \A i \in 1..Len(a[2]) : \E j \in 1..Len(b[2]) :
                                   Same(a[2][i][1], b[2][j][1]) /\ Same(a[2][i][2], b[2][j][2])
           [] OTHER -> a = b

\* the type skeleton a GraphSON 1 reader needs (GraphSON 1 carries no types: the reader knows the schema)
RECURSIVE Shape(_)
Shape(x) == CASE Kind(x) \in {"list", "set"} -> <<Kind(x), Tup([i \in 1..Len(x[2]) |-> Shape(x[2][i])])>>
              [] Kind(x) = "map" -> <<"map", Tup([i \in 1..Len(x[2]) |-> <<Shape(x[2][i][1]), Shape(x[2][i][2])>>])>>
              [] OTHER -> <<Kind(x)>>

-----------------------------------------------------------------------------
\* ------------------------------------------------------------------ the writer
\* textual payload of a scalar whose GraphSON form is a string, and its tag in GraphSON 2 / 3
ScalarText(x) ==
    CASE Kind(x) = "dec"   -> DecStr(x[2], x[3], x[4])
      [] Kind(x) = "uuid"  -> UuidStr(x[2])
      [] Kind(x) = "blob"  -> B64Enc(x[2])
      [] Kind(x) = "inet"  -> InetStr(x[2])
      [] Kind(x) = "date"  -> DateStr(x[2], x[3], x[4])
      [] Kind(x) = "time"  -> TimeStr(x[2], x[3], x[4], x[5])
      [] Kind(x) = "inst"  -> LET u == Norm(x) IN InstStr(u[2], u[3], u[4], u[5], u[6], u[7], u[8])
      [] Kind(x) = "dur"   -> DurStr(x[2], x[3], x[4], x[5])
      [] Kind(x) = "point" -> PointWkt(x)
      [] Kind(x) = "line"  -> LineWkt(x)
      [] Kind(x) = "poly"  -> PolyWkt(x)
      [] Kind(x) = "dist"  -> DistWkt(x)
TextTag(k) == CASE k = "dec" -> "gx:BigDecimal" [] k = "uuid" -> "g:UUID" [] k = "blob" -> "gx:ByteBuffer"
                [] k = "inet" -> "gx:InetAddress" [] k = "date" -> "gx:LocalDate" [] k = "time" -> "gx:LocalTime"
                [] k = "inst" -> "gx:Instant" [] k = "dur" -> "gx:Duration" [] k = "point" -> "dse:Point"
                [] k = "line" -> "dse:LineString" [] k = "poly" -> "dse:Polygon" [] k = "dist" -> "dse:Distance"
TextKinds == {"dec", "uuid", "blob", "inet", "date", "time", "inst", "dur", "point", "line", "poly", "dist"}
HintTag(h) == CASE h = "smallint" -> "gx:Int16" [] h = "int" -> "g:Int32" [] h = "bigint" -> "g:Int64"
                [] h = "float" -> "g:Float" [] h = "double" -> "g:Double"
HintFits(x) == CASE Kind(x) = "int" /\ x[2] = "smallint" -> Fits(x[3], x[4], P15)
                 [] Kind(x) = "int" /\ x[2] = "int"      -> Fits(x[3], x[4], P31)
                 [] Kind(x) = "int" /\ x[2] = "bigint"   -> Fits(x[3], x[4], P63)
                 [] Kind(x) = "float" /\ x[2] = "float"  -> F32(x[3])
                 [] OTHER -> TRUE
IntNode(p) == Num(p[1], p[2])

RECURSIVE Ser(_, _)
SerAll(v, xs) == Tup([i \in 1..Len(xs) |-> Ser(v, xs[i])])
AnyNA(ts)     == \E i \in 1..Len(ts) : ts[i] = NA
IsText(x)     == Kind(x) = "text"
Ser(v, x) ==
    CASE Kind(x) = "text" -> Str(x[2])                                     \* a JSON string in every version
      [] Kind(x) = "bool" -> <<"b", x[2]>>                                 \* a JSON boolean in every version
      [] Kind(x) = "int"  ->
            IF v = 1 THEN (IF x[2] = "none" THEN Num(x[3], x[4]) ELSE NA)   \* GraphSON 1: a bare JSON number
            ELSE IF x[2] = "none" THEN Typed(IntTag(x[3], x[4]), Num(x[3], x[4]))
            ELSE IF v = 3 /\ HintFits(x) THEN Typed(HintTag(x[2]), Num(x[3], x[4])) ELSE NA
      [] Kind(x) = "float" ->
            IF v = 1 THEN (IF x[2] = "none" THEN FloatNode(x[3]) ELSE NA)
            ELSE IF x[2] = "none" THEN Typed("g:Double", FloatNode(x[3]))   \* a Python float is a binary64
            ELSE IF v = 3 /\ HintFits(x) THEN Typed(HintTag(x[2]), FloatNode(x[3])) ELSE NA
      [] Kind(x) \in TextKinds -> IF v = 1 THEN Str(ScalarText(x)) ELSE Typed(TextTag(Kind(x)), Str(ScalarText(x)))
      [] Kind(x) = "dsedur" ->                                              \* "DSE Duration | N/A | dse:Duration"
            IF v = 3 THEN Typed("dse:Duration", <<"o", <<<<<<"m", "o", "n", "t", "h", "s">>, IntNode(x[2])>>,
                                                          <<<<"d", "a", "y", "s">>, IntNode(x[3])>>,
                                                          <<<<"n", "a", "n", "o", "s">>, IntNode(x[4])>>>>>>)
            ELSE NA
      [] Kind(x) = "list" ->                                                \* GraphSON 1 / 2: a plain JSON array
            LET ts == SerAll(v, x[2]) IN
            IF AnyNA(ts) THEN NA ELSE IF v = 3 THEN Typed("g:List", <<"a", ts>>) ELSE <<"a", ts>>
      [] Kind(x) = "set" ->                                                 \* only GraphSON 3 can say "set"
            LET ts == SerAll(v, x[2]) IN
            IF AnyNA(ts) \/ v # 3 THEN NA ELSE Typed("g:Set", <<"a", ts>>)
      [] Kind(x) = "map" ->
            LET ks == SerAll(v, [i \in 1..Len(x[2]) |-> x[2][i][1]])
                vs == SerAll(v, [i \in 1..Len(x[2]) |-> x[2][i][2]]) IN
            IF AnyNA(ks) \/ AnyNA(vs) THEN NA
            ELSE IF v = 3 THEN Typed("g:Map", <<"a", Cat([i \in 1..Len(x[2]) |-> <<ks[i], vs[i]>>])>>)   \* k1, v1, k2, v2, ...
            ELSE IF \A i \in 1..Len(x[2]) : IsText(x[2][i][1])              \* a JSON object: the keys are strings
                 THEN <<"o", Tup([i \in 1..Len(x[2]) |-> <<x[2][i][1][2], vs[i]>>])>>
                 ELSE NA

\* other forms of the same value that a conforming peer may write and a reader has to read (scalars only)
TypedOrPlain(v, k, t) == IF v = 1 THEN Str(t) ELSE Typed(TextTag(k), Str(t))
Alts(v, x) ==
    CASE Kind(x) = "int" /\ v >= 2 /\ x[2] = "none" ->
            <<Typed("gx:BigInteger", Num(x[3], x[4]))>> \o (IF Fits(x[3], x[4], P15) THEN <<Typed("gx:Int16", Num(x[3], x[4]))>> ELSE <<>>)
                \o (IF Fits(x[3], x[4], P63) THEN <<Typed("g:Int64", Num(x[3], x[4]))>> ELSE <<>>)
      [] Kind(x) = "float" /\ v >= 2 /\ x[2] = "none" /\ F32(x[3]) -> <<Typed("g:Float", FloatNode(x[3]))>>
      [] Kind(x) = "dec" /\ v >= 2 /\ x[4] = 0 /\ ~(x[2] /\ x[3] = <<0>>) -> <<Typed("gx:BigDecimal", Num(x[2], x[3]))>>    \* TinkerPop writes a number
      [] Kind(x) = "blob" /\ v >= 2 -> <<Typed("dse:Blob", Str(B64Enc(x[2])))>>
      [] Kind(x) = "uuid" -> <<TypedOrPlain(v, "uuid", [i \in 1..36 |-> LET c == UuidStr(x[2])[i] IN
                                                         IF \E j \in 11..16 : HexCh[j] = c THEN HexUp[CHOOSE j \in 11..16 : HexCh[j] = c] ELSE c])>>
      [] Kind(x) = "time" /\ x[5] % 1000 = 0 -> <<TypedOrPlain(v, "time", TimeFull(x[2], x[3], x[4], x[5]))>>
      [] Kind(x) = "inst" /\ x[8] % 1000 = 0 -> LET u == Norm(x) IN <<TypedOrPlain(v, "inst", InstFull(u[2], u[3], u[4], u[5], u[6], u[7], u[8]))>>
      [] Kind(x) = "dur" -> <<TypedOrPlain(v, "dur", DurLayout(x[2], x[3], x[4], x[5]))>>
      [] Kind(x) = "dsedur" /\ v = 3 ->
            <<Typed("dse:Duration", <<"o", <<<<<<"m", "o", "n", "t", "h", "s">>, Typed("g:Int32", IntNode(x[2]))>>,
                                             <<<<"d", "a", "y", "s">>, Typed("g:Int32", IntNode(x[3]))>>,
                                             <<<<"n", "a", "n", "o", "s">>, Typed("g:Int64", IntNode(x[4]))>>>>>>)>>
      [] OTHER -> <<>>

-----------------------------------------------------------------------------
\* ------------------------------------------------------------------ the reader
ParseText(k, t) ==
    CASE k = "dec" -> DecParse(t) [] k = "uuid" -> UuidParse(t) [] k = "blob" -> B64Dec(t) [] k = "inet" -> <<"text", t>>
      [] k = "date" -> DateParse(t) [] k = "time" -> TimeParse(t) [] k = "inst" -> InstParse(t) [] k = "dur" -> DurParse(t)
      [] k = "point" -> PointParse(t) [] k = "line" -> LineParse(t) [] k = "poly" -> PolyParse(t) [] k = "dist" -> DistParse(t)
TagKind(tag) ==
    CASE tag = "gx:BigDecimal" -> "dec" [] tag = "g:UUID" -> "uuid" [] tag \in {"gx:ByteBuffer", "dse:Blob"} -> "blob"
      [] tag = "gx:InetAddress" -> "inet" [] tag = "gx:LocalDate" -> "date" [] tag = "gx:LocalTime" -> "time"
      [] tag = "gx:Instant" -> "inst" [] tag = "gx:Duration" -> "dur" [] tag = "dse:Point" -> "point"
      [] tag = "dse:LineString" -> "line" [] tag = "dse:Polygon" -> "poly" [] tag = "dse:Distance" -> "dist"
      [] OTHER -> ""
IntRange(tag) == CASE tag = "gx:Int16" -> P15 [] tag = "g:Int32" -> P31 [] tag = "g:Int64" -> P63
IsNode(n)  == Len(n) >= 2 /\ n[1] \in {"s", "n", "f", "b", "a", "o", "t"}
FieldOf(o, key) == IF \E i \in 1..Len(o[2]) : o[2][i][1] = key THEN (CHOOSE i \in 1..Len(o[2]) : o[2][i][1] = key) ELSE 0

RECURSIVE Rd(_, _, _)
RdAll(v, shs, ts) == Tup([i \in 1..Len(ts) |-> Rd(v, IF i <= Len(shs) THEN shs[i] ELSE <<"?">>, ts[i])])
AnyErr(xs)  == \E i \in 1..Len(xs) : IsErr(xs[i])
Distinct(xs) == \A i, j \in 1..Len(xs) : i # j => xs[i] # xs[j]
\* an integer field of dse:Duration: a bare number or a typed one
RdIntField(v, n) == LET r == Rd(v, <<"int">>, n) IN IF ~IsErr(r) /\ r[1] = "int" THEN <<TRUE, <<r[3], r[4]>>>> ELSE <<FALSE, <<>>>>
\* GraphSON 2 / 3: a node says what it is (sh is not consulted)
RdTyped(v, t) ==
    LET tag == t[2] p == t[3] IN
    CASE tag \in {"gx:Int16", "g:Int32", "g:Int64"} ->
            IF p[1] = "n" THEN (IF Fits(p[2], p[3], IntRange(tag)) THEN <<"int", "none", p[2], p[3]>> ELSE Err("int-range:" \o tag))
            ELSE Err("payload:" \o tag)
      [] tag = "gx:BigInteger" -> IF p[1] = "n" THEN <<"int", "none", p[2], p[3]>> ELSE Err("payload:" \o tag)
      [] tag \in {"g:Double", "g:Float"} ->
            LET a == FloatOf(p) IN
            IF a = "" THEN Err("payload:" \o tag)
            ELSE IF tag = "g:Float" /\ ~F32(a) THEN Err("float32-range") ELSE <<"float", "none", a>>
      [] tag = "gx:BigDecimal" /\ p[1] = "n" -> <<"dec", p[2], p[3], 0>>
      [] TagKind(tag) # "" -> IF p[1] = "s" THEN ParseText(TagKind(tag), p[2]) ELSE Err("payload:" \o tag)
      [] tag = "dse:Duration" /\ v = 3 ->
            IF p[1] # "o" THEN Err("payload:" \o tag)
            ELSE LET im == FieldOf(p, <<"m", "o", "n", "t", "h", "s">>) id == FieldOf(p, <<"d", "a", "y", "s">>)
                     in == FieldOf(p, <<"n", "a", "n", "o", "s">>) IN
                 IF im = 0 \/ id = 0 \/ in = 0 THEN Err("dse-duration-fields")
                 ELSE LET m == RdIntField(v, p[2][im][2]) d == RdIntField(v, p[2][id][2]) n == RdIntField(v, p[2][in][2]) IN
                      IF m[1] /\ d[1] /\ n[1] THEN <<"dsedur", m[2], d[2], n[2]>> ELSE Err("dse-duration-fields")
      [] tag \in {"g:List", "g:Set"} /\ v = 3 ->
            IF p[1] # "a" THEN Err("payload:" \o tag)
            ELSE LET xs == RdAll(v, <<>>, p[2]) IN
                 IF AnyErr(xs) THEN Err("element")
                 ELSE IF tag = "g:List" THEN <<"list", xs>>
                 ELSE IF Distinct(xs) THEN <<"set", xs>> ELSE Err("set-duplicates")
      [] tag = "g:Map" /\ v = 3 ->
            IF p[1] # "a" \/ Len(p[2]) % 2 # 0 THEN Err("payload:" \o tag)
            ELSE LET xs == RdAll(v, <<>>, p[2]) IN
                 IF AnyErr(xs) THEN Err("element")
                 ELSE LET ps == Tup([i \in 1..(Len(xs) \div 2) |-> <<xs[2 * i - 1], xs[2 * i]>>]) IN
                      IF Distinct([i \in 1..Len(ps) |-> ps[i][1]]) THEN <<"map", ps>> ELSE Err("map-duplicate-keys")
      [] OTHER -> Err("tag:" \o tag)
Rd(v, sh, t) ==
    IF v >= 2 THEN
        CASE t[1] = "t" -> RdTyped(v, t)
          [] t[1] = "s" -> <<"text", t[2]>>
          [] t[1] = "b" -> <<"bool", t[2]>>
          [] t[1] = "n" -> <<"int", "none", t[2], t[3]>>           \* an untyped number (e.g. a dse:Duration field)
          [] t[1] = "f" -> <<"float", "none", t[2]>>
          [] t[1] = "a" -> LET xs == RdAll(v, <<>>, t[2]) IN IF AnyErr(xs) THEN Err("element") ELSE <<"list", xs>>
          [] t[1] = "o" -> LET xs == RdAll(v, <<>>, [i \in 1..Len(t[2]) |-> t[2][i][2]]) IN
                           IF AnyErr(xs) THEN Err("element")
                           ELSE <<"map", Tup([i \in 1..Len(xs) |-> <<<<"text", t[2][i][1]>>, xs[i]>>])>>
          [] OTHER -> Err("node")
    ELSE
        \* GraphSON 1: read as the type the schema says
        LET k == sh[1] IN
        CASE t[1] = "t" -> Err("typed-node-in-graphson1")
          [] k = "text"  -> IF t[1] = "s" THEN <<"text", t[2]>> ELSE Err("not-a-string")
          [] k = "bool"  -> IF t[1] = "b" THEN <<"bool", t[2]>> ELSE Err("not-a-boolean")
          [] k = "int"   -> IF t[1] = "n" THEN <<"int", "none", t[2], t[3]>> ELSE Err("not-a-number")
          [] k = "float" -> LET a == FloatOf(t) IN IF a = "" THEN Err("not-a-number") ELSE <<"float", "none", a>>
          [] k \in TextKinds -> IF t[1] = "s" THEN ParseText(k, t[2]) ELSE Err("not-a-string")
          [] k = "list"  -> IF t[1] # "a" \/ Len(t[2]) # Len(sh[2]) THEN Err("not-an-array")
                            ELSE LET xs == RdAll(v, sh[2], t[2]) IN IF AnyErr(xs) THEN Err("element") ELSE <<"list", xs>>
          [] k = "map"   -> IF t[1] # "o" \/ Len(t[2]) # Len(sh[2]) THEN Err("not-an-object")
                            ELSE LET xs == RdAll(v, [i \in 1..Len(sh[2]) |-> sh[2][i][2]], [i \in 1..Len(t[2]) |-> t[2][i][2]]) IN
                                 IF AnyErr(xs) THEN Err("element")
                                 ELSE <<"map", Tup([i \in 1..Len(xs) |-> <<<<"text", t[2][i][1]>>, xs[i]>>])>>
          [] OTHER -> Err("no-graphson1-form")

-----------------------------------------------------------------------------
\* ------------------------------------------------------------------ boundary alphabets
I(neg, dig) == <<"int", "none", neg, dig>>
M31 == <<2, 1, 4, 7, 4, 8, 3, 6, 4, 7>>        \* 2^31 - 1
Q31 == <<2, 1, 4, 7, 4, 8, 3, 6, 4, 9>>        \* 2^31 + 1
M32 == <<4, 2, 9, 4, 9, 6, 7, 2, 9, 5>>        \* 2^32 - 1
P32 == <<4, 2, 9, 4, 9, 6, 7, 2, 9, 6>>        \* 2^32
M63 == <<9, 2, 2, 3, 3, 7, 2, 0, 3, 6, 8, 5, 4, 7, 7, 5, 8, 0, 7>>      \* 2^63 - 1
Q63 == <<9, 2, 2, 3, 3, 7, 2, 0, 3, 6, 8, 5, 4, 7, 7, 5, 8, 0, 9>>      \* 2^63 + 1
P64 == <<1, 8, 4, 4, 6, 7, 4, 4, 0, 7, 3, 7, 0, 9, 5, 5, 1, 6, 1, 6>>   \* 2^64
Big30 == <<1, 2, 3, 4, 5, 6, 7, 8, 9, 0, 1, 2, 3, 4, 5, 6, 7, 8, 9, 0, 1, 2, 3, 4, 5, 6, 7, 8, 9, 0>>
IntMags == {<<0>>, <<1>>, <<4, 2>>, <<3, 2, 7, 6, 7>>, P15, <<3, 2, 7, 6, 9>>, <<9, 9, 9, 9, 9, 9, 9, 9, 9>>,
            M31, P31, Q31, M32, P32, M63, P63, Q63, P64, Big30}
IntVals == {I(n, m) : n \in BOOLEAN, m \in IntMags} \ {I(TRUE, <<0>>)}
HintedInts == {<<"int", h, x[3], x[4]>> : h \in {"smallint", "int", "bigint"},
                                          x \in {y \in IntVals : y[4] \in {<<1>>, <<4, 2>>, <<3, 2, 7, 6, 7>>, P15, M31, P31, M63, P63}}}
FloatVals == {<<"float", "none", a>> : a \in FloatAtoms}
             \cup {<<"float", h, a>> : h \in {"float", "double"}, a \in {"1.5", "0.1", "f32max", "1e300", "nan", "-inf"}}
Dec(neg, dig, exp) == <<"dec", neg, dig, exp>>
DecVals == {Dec(FALSE, <<0>>, 0), Dec(TRUE, <<0>>, 0), Dec(FALSE, <<0>>, -2), Dec(FALSE, <<0>>, 3),
            Dec(FALSE, <<1, 5, 0>>, -2), Dec(TRUE, <<1, 5, 0>>, -2), Dec(FALSE, <<1>>, 2), Dec(FALSE, <<1, 2>>, 2),
            Dec(FALSE, <<1>>, -6), Dec(FALSE, <<1>>, -7), Dec(TRUE, <<1, 2>>, -8), Dec(FALSE, <<1, 2, 3, 4, 5, 6, 7>>, -6),
            Dec(FALSE, <<1, 2, 3, 4, 5, 6, 7>>, -7), Dec(FALSE, <<1, 2, 3, 4, 5, 6, 7>>, -13), Dec(TRUE, <<1>>, -3),
            Dec(FALSE, <<4, 2>>, 0), Dec(FALSE, <<1, 0, 0>>, 0), Dec(FALSE, <<1>>, 10), Dec(FALSE, Big30, -9),
            Dec(TRUE, Big30, 0), Dec(FALSE, Big30, -35), Dec(FALSE, <<9>>, 999), Dec(FALSE, <<9>>, -999)}
T(chars) == <<"text", chars>>
TextVals == {T(<<>>), T(<<"a">>), T(<<"a", "b">>), T(<<"a", "\"", "b">>), T(<<"U+00E9", "U+20AC", "U+1F600">>),
             T(<<"\\", "/">>), T(<<"1">>), T(<<"@", "t", "y", "p", "e">>), T(<<"N", "a", "N">>)}
BoolVals == {<<"bool", TRUE>>, <<"bool", FALSE>>}
Uuid0  == Tup([i \in 1..16 |-> 0])
UuidF  == Tup([i \in 1..16 |-> 255])
Uuid1  == <<200, 0, 1, 2, 3, 4, 17, 238, 190, 86, 2, 66, 172, 18, 0, 2>>
Uuid4  == <<18, 52, 86, 120, 154, 188, 78, 240, 129, 35, 69, 103, 137, 171, 205, 239>>
UuidVals == {<<"uuid", b>> : b \in {Uuid0, UuidF, Uuid1, Uuid4}}
BlobVals == {<<"blob", b>> : b \in {<<>>, <<0>>, <<255>>, <<0, 255>>, <<1, 2, 3>>, <<251, 255, 191>>, <<97, 98, 99, 100>>,
                                     <<0, 0, 0, 0, 0>>, Tup([i \in 1..16 |-> 16 * i - 1])}}
Ip6(a, b, c, d, e, f, g, h) == <<a \div 256, a % 256, b \div 256, b % 256, c \div 256, c % 256, d \div 256, d % 256,
                                 e \div 256, e % 256, f \div 256, f % 256, g \div 256, g % 256, h \div 256, h % 256>>
InetVals == {<<"inet", b>> : b \in {<<127, 0, 0, 1>>, <<0, 0, 0, 0>>, <<255, 255, 255, 255>>, <<10, 1, 20, 200>>,
                                     Ip6(8193, 3512, 0, 0, 0, 0, 0, 1),          \* 2001:db8::1
                                     Ip6(0, 0, 0, 0, 0, 0, 0, 0),                \* ::
                                     Ip6(0, 0, 0, 0, 0, 0, 0, 1),                \* ::1
                                     Ip6(8193, 3512, 0, 0, 1, 0, 0, 1),          \* two runs of equal length: the first one
                                     Ip6(8193, 0, 0, 1, 0, 0, 0, 1),             \* the longer one
                                     Ip6(8193, 3512, 0, 1, 1, 1, 1, 1),          \* a single zero group is not shortened
                                     Ip6(65535, 65535, 65535, 65535, 65535, 65535, 65535, 65535),
                                     Ip6(1, 0, 0, 0, 0, 0, 0, 0),                \* 1::
                                     Ip6(4660, 171, 10, 1, 2, 3, 4, 43981)}}     \* leading zeros dropped, lower case
DateVals == {<<"date", y, m, d>> : <<y, m, d>> \in {<<1, 1, 1>>, <<9999, 12, 31>>, <<2018, 11, 20>>, <<2020, 2, 29>>,
                                                     <<1970, 1, 1>>, <<999, 1, 1>>, <<1969, 12, 31>>, <<10, 10, 10>>}}
TimeVals == {<<"time", f[1], f[2], f[3], f[4]>> : f \in {<<0, 0, 0, 0>>, <<23, 59, 59, 999999000>>, <<1, 2, 3, 500000000>>,
                                                          <<1, 2, 3, 1000>>, <<12, 30, 0, 0>>, <<12, 30, 45, 0>>, <<0, 0, 0, 123000000>>,
                                                          <<10, 15, 30, 120000000>>, <<0, 0, 1, 0>>, <<9, 5, 0, 7000>>}}
Inst(y, mo, d, h, mi, s, ns) == <<"inst", y, mo, d, h, mi, s, ns, FALSE, 0>>
InstVals == {Inst(1970, 1, 1, 0, 0, 0, 0), Inst(2017, 6, 26, 8, 27, 5, 0), Inst(2017, 6, 26, 8, 27, 5, 123000000),
             Inst(2017, 6, 26, 8, 27, 5, 123456000), Inst(1, 1, 1, 0, 0, 0, 0), Inst(9999, 12, 31, 23, 59, 59, 999999000),
             Inst(1969, 12, 31, 23, 59, 59, 999999000), Inst(999, 1, 1, 0, 0, 0, 1000), Inst(2016, 12, 14, 16, 39, 0, 0),
             Inst(2020, 2, 29, 12, 0, 0, 500000000)}
            \cup {<<"inst", 2017, 6, 26, 8, 27, 5, ns, TRUE, off>> : ns \in {0, 123000000}, off \in {0, 330, -300, 60}}
Dur(neg, d, s, ns) == <<"dur", neg, d, s, ns>>
DurMags == {<<0, 1, 0>>, <<0, 1, 500000000>>, <<0, 0, 500000000>>, <<0, 0, 1000>>, <<0, 0, 99000>>, <<0, 0, 100000>>,
            <<0, 0, 999999000>>, <<0, 59, 999999000>>, <<0, 60, 0>>, <<0, 61, 0>>, <<0, 3600, 0>>, <<0, 3661, 1000>>,
            <<0, 86399, 0>>, <<1, 0, 0>>, <<1, 0, 1000>>, <<1, 7321, 0>>, <<2, 14400, 0>>, <<42, 36337, 0>>,
            <<20000, 86399, 999999000>>, <<0, 29172, 345000000>>, <<0, 0, 120000000>>, <<0, 3, 100000000>>}
DurVals == {Dur(FALSE, 0, 0, 0)} \cup {Dur(n, m[1], m[2], m[3]) : n \in BOOLEAN, m \in DurMags}
W(neg, dig) == <<neg, dig>>
DseDurVals == {<<"dsedur", W(FALSE, <<0>>), W(FALSE, <<0>>), W(FALSE, <<0>>)>>,
               <<"dsedur", W(FALSE, <<1>>), W(FALSE, <<2>>), W(FALSE, <<3>>)>>,
               <<"dsedur", W(TRUE, <<1>>), W(TRUE, <<2>>), W(TRUE, <<3>>)>>,
               <<"dsedur", W(FALSE, M31), W(FALSE, M31), W(FALSE, M63)>>,
               <<"dsedur", W(TRUE, P31), W(TRUE, P31), W(TRUE, P63)>>,
               <<"dsedur", W(FALSE, <<1, 2>>), W(FALSE, <<3, 0>>), W(FALSE, <<1, 5, 0, 0, 0, 0, 0, 0, 0, 0>>)>>,
               <<"dsedur", W(FALSE, <<0>>), W(FALSE, <<0>>), W(TRUE, <<5, 0, 0, 0, 0, 0, 0, 0, 0>>)>>}
Cd(neg, i, f) == <<neg, i, f>>
C1 == Cd(FALSE, <<1>>, <<0>>)      C2 == Cd(FALSE, <<2>>, <<0>>)     C0 == Cd(FALSE, <<0>>, <<0>>)
C10 == Cd(FALSE, <<1, 0>>, <<0>>)  Cn == Cd(TRUE, <<1>>, <<5>>)      Cf == Cd(FALSE, <<0>>, <<0, 0, 1>>)
Ci30 == Cd(FALSE, <<3, 0>>, <<>>)  Ci10 == Cd(FALSE, <<1, 0>>, <<>>) Ci40 == Cd(FALSE, <<4, 0>>, <<>>)
Cbig == Cd(TRUE, <<1, 2, 3, 4, 5, 6>>, <<7, 8, 9, 0, 1, 2, 5>>)
Ring0 == <<<<C0, C0>>, <<C10, C0>>, <<C10, C10>>, <<C0, C0>>>>
Hole0 == <<<<C1, C1>>, <<C2, C1>>, <<C2, C2>>, <<C1, C1>>>>
GeoVals == {<<"point", C1, C2>>, <<"point", Ci30, Ci10>>, <<"point", Cn, Cf>>, <<"point", Cbig, C0>>, <<"point", C0, Cn>>,
            <<"line", <<>>>>, <<"line", <<<<C1, C2>>, <<C10, Cn>>>>>>, <<"line", <<<<Ci30, Ci10>>, <<Ci10, Ci30>>, <<Ci40, Ci40>>>>>>,
            <<"poly", <<>>>>, <<"poly", <<Ring0>>>>, <<"poly", <<Ring0, Hole0>>>>,
            <<"poly", <<<<<<Ci30, Ci10>>, <<Ci40, Ci40>>, <<Ci10, Ci30>>, <<Ci30, Ci10>>>>>>>>,
            <<"dist", C1, C2, Cd(FALSE, <<3>>, <<0>>)>>, <<"dist", Cn, Cf, Cd(FALSE, <<0>>, <<5>>)>>}

\* ------------------------------------------------------------------ containers over a small element alphabet
\* elements (as a sequence, so that sets can be enumerated as index subsets)
\* (no two of them are equal as Python objects: a Python set / dict merges 1, 1.0, True and Decimal('1'))
ElemSeq == <<I(FALSE, <<1>>), T(<<"a">>), I(FALSE, P32), <<"float", "none", "-2.5">>, <<"bool", FALSE>>,
             Dec(FALSE, <<1, 5, 0>>, -2), <<"uuid", Uuid4>>, Dur(FALSE, 0, 1, 500000000)>>
           \o (IF Rich THEN <<<<"date", 2018, 11, 20>>, <<"blob", <<0, 255>>>>, <<"point", C1, C2>>, I(TRUE, P63), T(<<>>),
                              <<"inet", <<127, 0, 0, 1>>>>, Inst(2017, 6, 26, 8, 27, 5, 123000000), <<"time", 1, 2, 3, 500000000>>>>
               ELSE <<>>)
KeySeq  == <<T(<<"a">>), T(<<"b">>), I(FALSE, <<1>>), <<"uuid", Uuid4>>>>
           \o (IF Rich THEN <<T(<<>>), I(FALSE, P32), <<"date", 2018, 11, 20>>, Dec(FALSE, <<1, 5, 0>>, -2), <<"bool", FALSE>>>> ELSE <<>>)
\* a few containers of every kind around one blob and one negative duration (kept out of the big alphabets)
Blob1   == <<"blob", <<0, 255>>>>
NegDur1 == Dur(TRUE, 0, 1, 500000000)
Special == {<<"list", <<Blob1>>>>, <<"list", <<T(<<"a">>), Blob1>>>>, <<"list", <<NegDur1>>>>,
            <<"set", <<Blob1>>>>, <<"set", <<I(FALSE, <<1>>), Blob1>>>>, <<"set", <<NegDur1>>>>,
            <<"map", <<<<Blob1, T(<<"a">>)>>>>>>, <<"map", <<<<T(<<"a">>), Blob1>>>>>>, <<"map", <<<<T(<<"a">>), I(FALSE, <<1>>)>>, <<Blob1, Blob1>>>>>>,
            <<"map", <<<<T(<<"a">>), NegDur1>>>>>>, <<"map", <<<<NegDur1, T(<<"a">>)>>>>>>,
            <<"list", <<<<"set", <<Blob1>>>>>>>>, <<"map", <<<<T(<<"a">>), <<"map", <<<<Blob1, I(FALSE, <<1>>)>>>>>>>>>>>>}
MaxLen  == IF Rich THEN 3 ELSE 2
\* all sequences of length 0..n over the elements of the sequence s
SeqsOver(s, n) == UNION {{Tup([i \in 1..k |-> s[f[i]]]) : f \in [1..k -> 1..Len(s)]} : k \in 0..n}
\* all strictly increasing index choices: every subset of at most n elements, once
SubsOver(s, n) == UNION {{Tup([i \in 1..k |-> s[f[i]]]) : f \in {g \in [1..k -> 1..Len(s)] : \A i \in 1..(k - 1) : g[i] < g[i + 1]}} : k \in 0..n}
\* maps: different keys (as key-index choices without repetition, order matters: a dict keeps insertion order)
MapsOver(ks, vs, n) == UNION {{Tup([i \in 1..k |-> <<ks[f[i]], vs[g[i]]>>]) :
                                  f \in {h \in [1..k -> 1..Len(ks)] : \A i, j \in 1..k : i # j => h[i] # h[j]}, g \in [1..k -> 1..Len(vs)]} : k \in 0..n}
List1 == {<<"list", s>> : s \in SeqsOver(ElemSeq, 2) \cup (IF Rich THEN SeqsOver(SubSeq(ElemSeq, 1, 8), 3) ELSE {})}
Set1  == {<<"set", s>> : s \in SubsOver(SelectSeq(ElemSeq, LAMBDA e : Kind(e) # "blob"), MaxLen)}
Map1  == {<<"map", s>> : s \in MapsOver(KeySeq, ElemSeq, 1) \cup MapsOver(KeySeq, SubSeq(ElemSeq, 1, 8), 2)}
\* depth 2: containers of containers (a Python set / dict key cannot hold a list, set or dict: inner containers appear
\* as list elements and as map values only)
InnerSeq == <<<<"list", <<>>>>, <<"list", <<I(FALSE, <<1>>), T(<<"a">>)>>>>, <<"set", <<I(FALSE, <<1>>)>>>>, <<"set", <<>>>>,
              <<"map", <<>>>>, <<"map", <<<<T(<<"a">>), <<"float", "none", "-2.5">>>>>>>>, <<"map", <<<<I(FALSE, <<1>>), T(<<"a">>)>>>>>>,
              I(FALSE, <<1>>), T(<<"a">>)>>
            \o (IF Rich THEN <<<<"list", <<Dur(FALSE, 0, 1, 500000000), <<"uuid", Uuid4>>>>>>, <<"set", <<T(<<"a">>), T(<<"b">>)>>>>,
                               <<"map", <<<<T(<<"a">>), I(FALSE, P32)>>, <<T(<<"b">>), Dec(FALSE, <<1, 5, 0>>, -2)>>>>>>,
                               <<"list", <<<<"bool", TRUE>>>>>>>> ELSE <<>>)
HasInner(s) == \E i \in 1..Len(s) : Kind(s[i]) \in {"list", "set", "map"}
Nest2 == {<<"list", s>> : s \in {q \in SeqsOver(InnerSeq, MaxLen) : HasInner(q)}}
         \cup {<<"map", s>> : s \in {q \in MapsOver(SubSeq(KeySeq, 1, 4), InnerSeq, 2) : HasInner([i \in 1..Len(q) |-> q[i][2]])}}

\* GraphSON 1 / 2 have no form for a map with a key that is not text (a JSON object has string keys): one such entry,
\* at the top level, is enough to show it - the combinations are enumerated for GraphSON 3 only
RECURSIVE SumSeq(_)
SumSeq(q) == IF Len(q) = 0 THEN 0 ELSE q[1] + SumSeq(Tail(q))
RECURSIVE OddKeys(_)
OddKeys(x) == CASE Kind(x) \in {"list", "set"} -> SumSeq([i \in 1..Len(x[2]) |-> OddKeys(x[2][i])])
                [] Kind(x) = "map" -> SumSeq([i \in 1..Len(x[2]) |-> (IF IsText(x[2][i][1]) THEN 0 ELSE 1) + OddKeys(x[2][i][2])])
                [] OTHER -> 0
Keep(v, x) == v = 3 \/ OddKeys(x) = 0 \/ (Kind(x) = "map" /\ Len(x[2]) = 1 /\ Kind(x[2][1][2]) \notin {"list", "set", "map"})

AllFamilies == {"int", "float", "dec", "text", "bool", "uuid", "blob", "inet", "date", "time", "inst", "dur", "dsedur", "geo",
                "list", "set", "map", "nest2"}
ValsOf(f) == CASE f = "int" -> IntVals \cup HintedInts [] f = "float" -> FloatVals [] f = "dec" -> DecVals
               [] f = "text" -> TextVals [] f = "bool" -> BoolVals [] f = "uuid" -> UuidVals [] f = "blob" -> BlobVals
               [] f = "inet" -> InetVals [] f = "date" -> DateVals [] f = "time" -> TimeVals [] f = "inst" -> InstVals
               [] f = "dur" -> DurVals [] f = "dsedur" -> DseDurVals [] f = "geo" -> GeoVals
               [] f = "list" -> List1 \cup {x \in Special : Kind(x) = "list" /\ ~HasInner(x[2])}
               [] f = "set" -> Set1 \cup {x \in Special : Kind(x) = "set"}
               [] f = "map" -> Map1 \cup {x \in Special : Kind(x) = "map" /\ ~HasInner([i \in 1..Len(x[2]) |-> x[2][i][2]])}
               [] f = "nest2" -> Nest2 \cup {x \in Special : Kind(x) = "list" /\ HasInner(x[2])}
                                       \cup {x \in Special : Kind(x) = "map" /\ HasInner([i \in 1..Len(x[2]) |-> x[2][i][2]])}

-----------------------------------------------------------------------------
VARIABLES fam, ver, val, tree, alts, norm, expect
vars == <<fam, ver, val, tree, alts, norm, expect>>

Init == /\ fam \in Families
        /\ ver \in Versions /\ val = <<>> /\ tree = <<>> /\ alts = <<>> /\ norm = <<>> /\ expect = "seed"

\* expect = "ok": the version has a form for the value; "na": it has none (documented: no GraphSON 1 / 2 form for sets,
\* CQL durations, typed-number wrappers, maps with keys that are not text; a hint that does not fit the value)
Case == /\ expect = "seed"
        /\ \E x \in ValsOf(fam) :
              LET v == ver t == Ser(ver, x) IN
              /\ Keep(v, x)
              /\ ver' = v /\ val' = x
              /\ tree' = t
              /\ alts' = IF t = NA THEN <<>> ELSE Alts(v, x)
              /\ norm' = Norm(x)
              /\ expect' = IF t = NA THEN "na" ELSE "ok"
              /\ UNCHANGED fam
Next == Case
Spec == Init /\ [][Next]_vars

-----------------------------------------------------------------------------
\* ------------------------------------------------------------------ invariants on the specification itself
RECURSIVE WF(_)
WF(n) == /\ IsNode(n)
         /\ CASE n[1] = "s" -> TRUE
              [] n[1] = "n" -> IntWF(n[2], n[3])
              [] n[1] = "f" -> n[2] \in FloatAtoms /\ ~NonFinite(n[2])
              [] n[1] = "b" -> n[2] \in BOOLEAN
              [] n[1] = "a" -> \A i \in 1..Len(n[2]) : WF(n[2][i])
              [] n[1] = "o" -> \A i \in 1..Len(n[2]) : WF(n[2][i][2])
              [] n[1] = "t" -> WF(n[3])
TypeOK == /\ expect \in {"seed", "ok", "na"}
          /\ expect = "ok" => WF(tree) /\ \A i \in 1..Len(alts) : WF(alts[i])

\* C40 on the reference definitions: reading what is written gives an equal value (up to Norm) - in every version,
\* for the canonical form and for every alternative form
RoundTrip == expect = "ok" => Rd(ver, Shape(val), tree) = norm
AltsRead  == expect = "ok" => \A i \in 1..Len(alts) : Rd(ver, Shape(val), alts[i]) = norm
NormIdempotent == expect # "seed" => Norm(norm) = norm
\* GraphSON 3 always has a form, except for a hint that does not fit
V3Total == expect = "na" /\ ver = 3 => Kind(val) \in {"int", "float"} /\ ~HintFits(val)

\* which nodes a version uses
RECURSIVE Nodes(_)
Nodes(n) == {n} \cup (CASE n[1] = "a" -> UNION {Nodes(n[2][i]) : i \in 1..Len(n[2])}
                        [] n[1] = "o" -> UNION {Nodes(n[2][i][2]) : i \in 1..Len(n[2])}
                        [] n[1] = "t" -> Nodes(n[3])
                        [] OTHER -> {})
Tags(n) == {m[2] : m \in {q \in Nodes(n) : q[1] = "t"}}
VersionForms == expect = "ok" =>
    /\ ver = 1 => Tags(tree) = {}                                                     \* GraphSON 1 is untyped
    /\ ver = 2 => Tags(tree) \cap {"g:List", "g:Set", "g:Map", "dse:Duration"} = {}   \* plain arrays / objects
    /\ ver = 3 => \A m \in Nodes(tree) : m[1] = "a" => \E q \in Nodes(tree) : q[1] = "t" /\ q[3] = m   \* no bare array
    /\ ver = 3 => \A m \in Nodes(tree) : m[1] = "o" => \E q \in Nodes(tree) : q[1] = "t" /\ q[2] = "dse:Duration" /\ q[3] = m
\* numbers are JSON numbers, everything else that is typed carries a string (or the dse:Duration object)
PayloadKinds == expect = "ok" => \A m \in Nodes(tree) : m[1] = "t" =>
    CASE m[2] \in {"g:Int32", "g:Int64", "gx:Int16", "gx:BigInteger"} -> m[3][1] = "n"
      [] m[2] \in {"g:Double", "g:Float"} -> m[3][1] = "f" \/ (m[3][1] = "s" /\ FloatOf(m[3]) # "")
      [] m[2] \in {"g:List", "g:Set", "g:Map"} -> m[3][1] = "a"
      [] m[2] = "dse:Duration" -> m[3][1] = "o"
      [] OTHER -> m[3][1] = "s"
\* the tag of an integer is the narrowest of Int32 / Int64 / BigInteger that holds it; below 10^9 the digit-wise
\* comparison is the arithmetic one
IntTagRule == expect = "ok" /\ ver >= 2 /\ Kind(val) = "int" /\ val[2] = "none" =>
    /\ tree[2] = "g:Int32" <=> Fits(val[3], val[4], P31)
    /\ tree[2] = "gx:BigInteger" <=> ~Fits(val[3], val[4], P63)
    /\ Len(val[4]) <= 9 => (tree[2] = "g:Int32" /\ DigVal(val[4]) <= 999999999)
    /\ IntText(val[3], val[4]) = IntText(tree[3][2], tree[3][3])
\* shapes of the textual payloads
Payload == IF ver = 1 THEN tree[2] ELSE tree[3][2]
TextShapes == expect = "ok" =>
    /\ Kind(val) = "blob" => Len(Payload) % 4 = 0 /\ Len(Payload) = 4 * ((Len(val[2]) + 2) \div 3)
    /\ Kind(val) = "uuid" => Len(Payload) = 36
    /\ Kind(val) = "date" => Len(Payload) = 10
    /\ Kind(val) = "time" => Len(Payload) \in {5, 8, 12, 15, 18}
    /\ Kind(val) = "inst" => Len(Payload) \in {20, 24, 27, 30} /\ Payload[Len(Payload)] = "Z"
    /\ Kind(val) = "dur"  => /\ SubSeq(Payload, 1, 2) = <<"P", "T">> /\ Pos(Payload, "D") = 0
                             /\ (Pos(Payload, ".") # 0 => Payload[Len(Payload) - 1] # "0")        \* no trailing zero
                             /\ (Pos(Payload, "-") # 0 <=> val[2])                                \* the sign is written
    /\ Kind(val) = "dec"  => (Pos(Payload, "E") # 0 <=> (val[4] > 0 \/ val[4] + Len(val[3]) - 1 < -6))
    /\ Kind(val) = "inet" /\ Len(val[2]) = 16 => ~(\E i \in 1..(Len(Payload) - 2) : SubSeq(Payload, i, i + 2) = <<":", ":", ":">>)
\* g:Map: alternating keys and values
MapAlternates == expect = "ok" /\ ver = 3 /\ Kind(val) = "map" => Len(tree[3][2]) = 2 * Len(val[2])

\* ------------------------------------------------------------------ vacuity witnesses (TLC must VIOLATE each)
Witness_NegSubSecond  == ~(expect = "ok" /\ Kind(val) = "dur" /\ val[2] /\ val[3] = 0 /\ val[4] = 0 /\ ver = 2
                           /\ Payload = <<"P", "T", "-", "0", ".", "5", "S">>)
Witness_NegDuration   == ~(expect = "ok" /\ Kind(val) = "dur" /\ val[2] /\ val[3] > 0)
Witness_Int64         == ~(expect = "ok" /\ ver = 3 /\ Kind(val) = "int" /\ tree[2] = "g:Int64" /\ val[4] = P31 /\ ~val[3])
Witness_BigInteger    == ~(expect = "ok" /\ ver = 2 /\ Kind(val) = "int" /\ tree[2] = "gx:BigInteger" /\ val[3])
Witness_DecExponent   == ~(expect = "ok" /\ Kind(val) = "dec" /\ ver = 3 /\ Pos(Payload, "E") # 0 /\ Pos(Payload, ".") # 0)
Witness_NonFinite     == ~(expect = "ok" /\ Kind(val) = "float" /\ ver = 3 /\ tree[3][1] = "s")
Witness_Padding2      == ~(expect = "ok" /\ Kind(val) = "blob" /\ ver = 2 /\ Len(Payload) >= 4 /\ SubSeq(Payload, Len(Payload) - 1, Len(Payload)) = <<"=", "=">>)
Witness_Inet6Compress == ~(expect = "ok" /\ Kind(val) = "inet" /\ Len(val[2]) = 16 /\ Payload = <<"2", "0", "0", "1", ":", "d", "b", "8", ":", ":", "1">>)
Witness_AwareInstant  == ~(expect = "ok" /\ Kind(val) = "inst" /\ val[9] /\ val[10] = 330 /\ norm[5] = 2 /\ norm[6] = 57)
Witness_Depth2        == ~(expect = "ok" /\ ver = 3 /\ Kind(val) = "list" /\ \E i \in 1..Len(val[2]) : Kind(val[2][i]) = "map" /\ Len(val[2][i][2]) > 0)
Witness_NoForm        == ~(expect = "na" /\ ver = 2 /\ Kind(val) = "set")
Witness_ObjectMap     == ~(expect = "ok" /\ ver = 2 /\ Kind(val) = "map" /\ tree[1] = "o" /\ Len(tree[2]) = 2)
Witness_PolygonHole   == ~(expect = "ok" /\ Kind(val) = "poly" /\ Len(val[2]) = 2)
Witnesses == <<"Witness_NegSubSecond", "Witness_NegDuration", "Witness_Int64", "Witness_BigInteger", "Witness_DecExponent",
               "Witness_NonFinite", "Witness_Padding2", "Witness_Inet6Compress", "Witness_AwareInstant", "Witness_Depth2",
               "Witness_NoForm", "Witness_ObjectMap", "Witness_PolygonHole">>
=============================================================================
