---------------------------- MODULE WireRequests ----------------------------
(* C03 - request frames of the CQL native protocol, as a reference ENCODER.    *)
(*                                                                             *)
(* Written from native_protocol_v1.spec .. native_protocol_v5.spec (sections   *)
(* "2. Frame header", "4.1 Requests"); the DSE_V1/DSE_V2 extensions are taken   *)
(* from what the driver documents about them (cassandra.ProtocolVersion and    *)
(* the flag constants in cassandra/protocol.py) because their documents are    *)
(* not public - agreement on DSE-only fields is therefore weaker evidence.     *)
(*                                                                             *)
(* One TLC state = one case: (message kind, protocol version, frame options,   *)
(* message options) together with                                              *)
(*   expect = "frame"  : the version can carry everything requested; `alts` is *)
(*                       the set of conforming frames (more than one only when *)
(*                       a map may be written in any order, or a flag is       *)
(*                       ignored by that version);                             *)
(*   expect = "reject" : something requested has no place in that version's    *)
(*                       layout and the request is one the session layer can   *)
(*                       make or one the property names -> the encoder must    *)
(*                       refuse (never drop the option silently);              *)
(*   expect = "open"   : cannot be carried, but the session layer never asks   *)
(*                       for it and the property does not name it -> the       *)
(*                       outcome is recorded, not judged.                      *)
(* checks/c03.py builds the same message object for every state, calls the     *)
(* real ProtocolHandler.encode_message and compares (spec -> code).            *)
(*                                                                             *)
(* Code anchors: cassandra/protocol.py _ProtocolHandler.encode_message /       *)
(* _write_header, _QueryMessage._write_query_params, QueryMessage,             *)
(* ExecuteMessage, PrepareMessage, BatchMessage, StartupMessage,               *)
(* CredentialsMessage, AuthResponseMessage, OptionsMessage, RegisterMessage,   *)
(* ReviseRequestMessage; session-layer restrictions: cassandra/cluster.py      *)
(* Session._create_response_future, cassandra/query.py BoundStatement.bind.    *)
EXTENDS WirePrims

CONSTANTS Families,      \* message kinds enumerated by this run
          FullValues,    \* TRUE : every optional field ranges over unset + its whole alphabet, independently
                         \* FALSE: set/unset lattice; the alphabet element is picked by the case's `var`
          FullFrame,     \* kinds enumerated with the full lattice of frame options; the others with a pairwise-covering subset
          VarSet,        \* variants enumerated: 1, 2 = first / second element of every alphabet, 3 = the edge values
          Small          \* TRUE : EXECUTE value lists and BATCH shapes restricted to two each (quick tier)

Kinds == {"STARTUP", "OPTIONS", "AUTH_RESPONSE", "CREDENTIALS", "QUERY", "PREPARE", "EXECUTE", "BATCH",
          "REGISTER", "REVISE_REQUEST"}

Opcode(k) == CASE k = "STARTUP" -> 1 [] k = "CREDENTIALS" -> 4 [] k = "OPTIONS" -> 5 [] k = "QUERY" -> 7
               [] k = "PREPARE" -> 9 [] k = "EXECUTE" -> 10 [] k = "REGISTER" -> 11 [] k = "BATCH" -> 13
               [] k = "AUTH_RESPONSE" -> 15 [] k = "REVISE_REQUEST" -> 255       \* 0xFF, DSE

-----------------------------------------------------------------------------
\* Value alphabets (2-3 elements each)
A_query   == << <<113>>, <<115, 195, 169, 108, 32, 226, 130, 172>> >>       \* "q", "sél €" (2- and 3-byte UTF-8)
A_cl      == <<1, 4, 0>>                                                     \* ONE, QUORUM, ANY (numeric 0)
A_serial  == <<8, 9>>                                                        \* SERIAL, LOCAL_SERIAL
A_page    == <<1, 5000>>
A_pstate  == << <<1>>, <<0, 255>>, <<>> >>                                   \* ... and a zero-length one
A_ts      == << <<0, 0, 0, 1>>, <<5, 44849, 32768, 1>>, <<0, 0, 0, 0>> >>    \* 1 ; 0x0005AF3180000001 (needs the high limb) ; 0
A_ks      == << <<107, 115>>, <<75, 83, 50>>, <<>> >>                        \* "ks", "KS2", "" (recorded only, see EmptyKeyspace)
A_cont    == << [unit |-> "ROWS",  max_pages |-> 0, pps |-> 0, queue |-> 4],
                [unit |-> "BYTES", max_pages |-> 3, pps |-> 7, queue |-> 2] >>
A_payload == << << <<<<107>>, V(<<1, 2>>)>> >>,                              \* {"k": 0x0102}
                << <<<<97>>, V(<<>>)>>, <<<<98>>, V(<<0, 255>>)>> >> >>      \* {"a": empty, "b": 0x00FF}
A_id      == << <<1, 2, 3, 4>>, <<0, 255, 16, 32, 48, 64, 80, 96, 112, 128, 144, 160, 176, 192, 208, 224>> >>
A_rmid    == << <<9, 9>>, <<255, 0, 1>> >>
A_values  == << <<>>,
                << V(<<0, 0, 0, 5>>) >>,
                << Null >>,
                << Unset >>,
                << V(<<97>>), Null, V(<<>>), Unset, V(<<0, 255>>) >> >>
A_token   == << <<>>, <<0, 117, 0, 112, 255>> >>

\* Variant 3 is the EDGE variant: every value that is "set" although it is zero / empty (timestamp 0, consistency ANY = 0,
\* empty keyspace string, zero-length paging state) - a presence flag must follow "is set", not "is non-zero".
\* Not in the alphabets, on purpose: page size 0 (documented as "no paging"), serial consistency 0 (only SERIAL and
\* LOCAL_SERIAL are legal there).
At(A, v) == A[IF v <= Len(A) THEN v ELSE 1]
Ix(A)    == IF FullValues THEN 0..Len(A) ELSE 0..1
Idx      == Ix(A_serial)
Vars == VarSet
Pick(A, i, var) == IF i = 0 THEN None ELSE Some(IF FullValues THEN A[i] ELSE At(A, var))

\* ---- frame options: tracing, custom payload, compression, beta flag, stream id
FrameIdx(k) == IF k \in FullFrame
            THEN {<<t, p, cz, b>> : t \in BOOLEAN, p \in Ix(A_payload), cz \in BOOLEAN, b \in BOOLEAN}
            ELSE {<<FALSE, 0, FALSE, FALSE>>, <<TRUE, 1, FALSE, FALSE>>, <<FALSE, 0, TRUE, TRUE>>,
                  <<TRUE, 0, TRUE, FALSE>>, <<FALSE, 1, FALSE, TRUE>>, <<TRUE, 1, TRUE, TRUE>>}
FrameOpt(pv, var, x) ==
    [tracing |-> x[1], payload |-> Pick(A_payload, x[2], var), compress |-> x[3], beta |-> x[4],
     stream |-> IF var = 1 THEN 1 ELSE IF pv >= 3 THEN 300 ELSE 127]

\* ---- message options per kind
\* QUERY and EXECUTE share <query_parameters>; one record shape for both
Params(var, values, skip, is, ip, ips, it, ik, ic) ==
    [cl |-> At(A_cl, var), values |-> values, skip |-> skip,
     serial |-> Pick(A_serial, is, var), page |-> Pick(A_page, ip, var), pstate |-> Pick(A_pstate, ips, var),
     ts |-> Pick(A_ts, it, var), ks |-> Pick(A_ks, ik, var), cont |-> Pick(A_cont, ic, var)]

QueryCases(var) ==       \* the session layer never attaches values to a QUERY (parameters are interpolated)
    {[query |-> At(A_query, var)] @@ Params(var, None, FALSE, is, ip, ips, it, ik, ic) :
        is \in Ix(A_serial), ip \in Ix(A_page), ips \in Ix(A_pstate), it \in Ix(A_ts), ik \in Ix(A_ks), ic \in Ix(A_cont)}

ExecuteCases(pv, var) == \* ExecuteMessage has no keyspace; the metadata id is what the PREPARED result of that version gave
    {[id |-> At(A_id, var), rmid |-> IF HasResultMetadataId(pv) THEN Some(At(A_rmid, var)) ELSE None]
        @@ Params(var, Some(A_values[iv]), sk, is, ip, ips, it, 0, ic) :
        iv \in (IF Small THEN {1, 5} ELSE 1..5), sk \in BOOLEAN,
        is \in Ix(A_serial), ip \in Ix(A_page), ips \in Ix(A_pstate), it \in Ix(A_ts), ic \in Ix(A_cont)}

PrepareCases(var) == {[query |-> At(A_query, var), ks |-> Pick(A_ks, ik, var)] : ik \in Ix(A_ks)}

\* BATCH: <query_i> = <kind><string_or_id><n><value_1>...<value_n>
BQ(prep, q, params) == [prepared |-> prep, q |-> q, params |-> params]
A_batch == << <<>>,
              << BQ(FALSE, A_query[1], <<>>) >>,
              << BQ(TRUE, A_id[1], <<V(<<0, 0, 0, 5>>), Null>>) >>,
              << BQ(FALSE, A_query[2], <<V(<<97>>)>>), BQ(TRUE, A_id[2], <<Unset, V(<<>>)>>) >> >>
BatchCases(var) ==
    {[btype |-> bt, queries |-> A_batch[iq], cl |-> At(A_cl, var),
      serial |-> Pick(A_serial, is, var), ts |-> Pick(A_ts, it, var), ks |-> Pick(A_ks, ik, var)] :
        bt \in (IF Small THEN {var % 2, 2} ELSE 0..2), iq \in (IF Small THEN {3, 4} ELSE 1..4),
        is \in Ix(A_serial), it \in Ix(A_ts), ik \in Ix(A_ks)}

S_TOPOLOGY == <<84, 79, 80, 79, 76, 79, 71, 89, 95, 67, 72, 65, 78, 71, 69>>      \* "TOPOLOGY_CHANGE"
S_STATUS   == <<83, 84, 65, 84, 85, 83, 95, 67, 72, 65, 78, 71, 69>>              \* "STATUS_CHANGE"
S_SCHEMA   == <<83, 67, 72, 69, 77, 65, 95, 67, 72, 65, 78, 71, 69>>              \* "SCHEMA_CHANGE"
RegisterCases == {[events |-> e] : e \in {<<>>, <<S_STATUS>>, <<S_TOPOLOGY, S_STATUS, S_SCHEMA>>, <<S_SCHEMA, S_TOPOLOGY>>}}

S_CQL_VERSION == <<67, 81, 76, 95, 86, 69, 82, 83, 73, 79, 78>>                  \* "CQL_VERSION"
S_COMPRESSION == <<67, 79, 77, 80, 82, 69, 83, 83, 73, 79, 78>>                  \* "COMPRESSION"
S_NO_COMPACT  == <<78, 79, 95, 67, 79, 77, 80, 65, 67, 84>>                      \* "NO_COMPACT"
S_lz4 == <<108, 122, 52>>   S_true == <<116, 114, 117, 101>>
A_cqlv == << <<51, 46, 48, 46, 48>>, <<51, 46, 52, 46, 53>> >>                   \* "3.0.0", "3.4.5"
StartupCases(var) ==     \* options = the STARTUP string map without CQL_VERSION (the message adds it)
    {[cqlversion |-> At(A_cqlv, var), options |-> m] :
        m \in {<<>>, << <<S_COMPRESSION, S_lz4>> >>, << <<S_NO_COMPACT, S_true>>, <<S_COMPRESSION, S_lz4>> >>}}

S_username == <<117, 115, 101, 114, 110, 97, 109, 101>>   S_password == <<112, 97, 115, 115, 119, 111, 114, 100>>
CredentialsCases(var) ==
    {[creds |-> m] : m \in {<<>>, << <<S_username, At(A_query, var)>>, <<S_password, <<112, 119>>>> >>}}

AuthResponseCases(var) == {[token |-> At(A_token, var)]}
OptionsCases == {[none |-> TRUE]}
\* REVISE_REQUEST (DSE continuous paging): <op_type><op_id>[<next_pages>]; 1 = cancel, 2 = backpressure
ReviseCases(var) == {[op |-> op, id |-> IF var = 1 THEN 1 ELSE 300, next |-> IF var = 1 THEN 1 ELSE 5] : op \in {1, 2}}

Cases(k, pv, var) ==
    CASE k = "QUERY" -> QueryCases(var)        [] k = "EXECUTE" -> ExecuteCases(pv, var)
      [] k = "PREPARE" -> PrepareCases(var)    [] k = "BATCH" -> BatchCases(var)
      [] k = "REGISTER" -> RegisterCases       [] k = "STARTUP" -> StartupCases(var)
      [] k = "CREDENTIALS" -> CredentialsCases(var) [] k = "AUTH_RESPONSE" -> AuthResponseCases(var)
      [] k = "OPTIONS" -> OptionsCases         [] k = "REVISE_REQUEST" -> ReviseCases(var)

-----------------------------------------------------------------------------
\* What a version can carry (the documents), what must be refused, what is out of scope
HasUnset(vals) == \E i \in 1..Len(vals) : vals[i] = Unset
BatchHasUnset(qs) == \E i \in 1..Len(qs) : HasUnset(qs[i].params)

\* Requested things that have no place in the layout of (kind, pv), as <<name, must>> pairs; must = the
\* property names it (keyspace, custom payload, continuous paging, v1 serial consistency / paging), or the driver
\* documents the refusal (CREDENTIALS after v1, backpressure before DSE_V2), or the session layer can ask for it
\* at that version (serial consistency of a v2 BATCH: Session passes Statement.serial_consistency_level through).
Why(cond, name, must) == IF cond THEN {<<name, must>>} ELSE {}
\* An empty keyspace NAME is not a request the property speaks about: it is no legal CQL identifier, the session layer
\* maps a falsy keyspace to "none", and the documents do not say what an empty <keyspace> would mean.  Such cases are
\* enumerated (the edge variant) but their outcome is recorded, not judged, on every version.
EmptyKeyspace(o) == Why(o.ks = Some(<<>>), "empty_keyspace", FALSE)
Obstacles(k, pv, fo, o) ==
    Why(IsSome(fo.payload) /\ pv < 4, "custom_payload", TRUE)
  \cup
    (CASE k \in {"QUERY", "EXECUTE"} ->
            Why(IsSome(o.serial) /\ pv < 2, "serial_consistency", TRUE)
       \cup Why(IsSome(o.page) /\ pv < 2, "page_size", TRUE)
       \cup Why(IsSome(o.pstate) /\ pv < 2, "paging_state", The(o.pstate) # <<>>)   \* a zero-length state asks for nothing
       \cup Why(IsSome(o.ks) /\ ~HasKeyspace(pv), "keyspace", The(o.ks) # <<>>)
       \cup EmptyKeyspace(o)
       \cup Why(IsSome(o.cont) /\ ~HasContPaging(pv), "continuous_paging", TRUE)
       \cup Why(IsSome(o.ts) /\ pv < 3, "timestamp", FALSE)              \* Session: only when pv >= 3
       \cup Why(o.skip /\ pv < 2, "skip_metadata", FALSE)                \* v1 PREPARED has no result metadata
       \cup Why(IsSome(o.values) /\ HasUnset(The(o.values)) /\ pv < 4, "unset_value", FALSE)   \* BoundStatement.bind refuses
       [] k = "BATCH" ->
            Why(pv < 2, "batch_message", FALSE)                          \* Session refuses BatchStatement on v1
       \cup Why(IsSome(o.serial) /\ pv < 3, "serial_consistency", pv = 2)
       \cup Why(IsSome(o.ks) /\ ~HasKeyspace(pv), "keyspace", The(o.ks) # <<>>)
       \cup EmptyKeyspace(o)
       \cup Why(IsSome(o.ts) /\ pv < 3, "timestamp", FALSE)
       \cup Why(BatchHasUnset(o.queries) /\ pv < 4, "unset_value", FALSE)
       [] k = "PREPARE" -> Why(IsSome(o.ks) /\ ~HasKeyspace(pv), "keyspace", The(o.ks) # <<>>) \cup EmptyKeyspace(o)
       [] k = "CREDENTIALS" -> Why(pv > 1, "credentials_message", TRUE)  \* removed in v2 (SASL)
       [] k = "AUTH_RESPONSE" -> Why(pv < 2, "auth_response_message", FALSE)
       [] k = "REVISE_REQUEST" ->
            Why(~IsDse(pv), "revise_request_message", FALSE)             \* only sent inside a DSE continuous paging session
       \cup Why(o.op = 2 /\ ~HasNextPages(pv), "backpressure", TRUE)
       [] OTHER -> {})

Carries(k, pv, fo, o) == Obstacles(k, pv, fo, o) = {}
Expect(k, pv, fo, o) ==
    IF Carries(k, pv, fo, o) THEN "frame"
    ELSE IF \E w \in Obstacles(k, pv, fo, o) : w[2] THEN "reject" ELSE "open"

-----------------------------------------------------------------------------
\* Layout.  A frame is a sequence of named parts [n |-> name, a |-> set of admissible encodings].
P(name, bytes)   == [n |-> name, a |-> {bytes}]
PA(name, alts)   == [n |-> name, a |-> alts]
OptP(m, name, bytes) == IF IsSome(m) THEN <<P(name, bytes)>> ELSE <<>>

\* <flags> of <query_parameters>: 0x01 values, 0x02 skip_metadata, 0x04 page_size, 0x08 with_paging_state,
\* 0x10 with_serial_consistency, 0x20 with_default_timestamp (v3+), 0x40 with_names_for_values (never used by the driver),
\* 0x80 with_keyspace (v5); DSE: 0x80000000 continuous paging options, 0x40000000 page size in bytes
ParamFlagsLo(o) == (IF IsSome(o.values) THEN 1 ELSE 0) + (IF o.skip THEN 2 ELSE 0) + (IF IsSome(o.page) THEN 4 ELSE 0)
                 + (IF IsSome(o.pstate) THEN 8 ELSE 0) + (IF IsSome(o.serial) THEN 16 ELSE 0)
                 + (IF IsSome(o.ts) THEN 32 ELSE 0) + (IF IsSome(o.ks) THEN 128 ELSE 0)
ParamFlagsHi(o) == IF IsSome(o.cont) THEN 32768 + (IF The(o.cont).unit = "BYTES" THEN 16384 ELSE 0) ELSE 0
FlagWord(pv, hi, lo) == IF IntFlags(pv) THEN Word32(hi, lo) ELSE Byte(lo)      \* [byte] before v5, [int] from v5 / DSE
Values(vals) == Short(Len(vals)) \o Cat(Map(Bytes, vals))
ContOptions(pv, c) == I32(c.max_pages) \o I32(c.pps) \o (IF HasNextPages(pv) THEN I32(c.queue) ELSE <<>>)

\* <consistency><flags>[<n><value_1>...<value_n>][<result_page_size>][<paging_state>][<serial_consistency>]
\* [<timestamp>][<keyspace>][<continuous paging options>]          (v2: up to serial; v3: + timestamp; v5: + keyspace)
ParamParts(pv, o) ==
       << P("params.consistency", Consistency(o.cl)),
          P("params.flags", FlagWord(pv, ParamFlagsHi(o), ParamFlagsLo(o))) >>
    \o OptP(o.values, "params.values", Values(The(o.values)))
    \o OptP(o.page, "params.page_size", I32(The(o.page)))
    \o OptP(o.pstate, "params.paging_state", Bytes(V(The(o.pstate))))
    \o OptP(o.serial, "params.serial_consistency", Consistency(The(o.serial)))
    \o OptP(o.ts, "params.timestamp", LongL(The(o.ts)))
    \o OptP(o.ks, "params.keyspace", String(The(o.ks)))
    \o OptP(o.cont, "params.continuous_paging", ContOptions(pv, The(o.cont)))

BatchQuery(q) == (IF q.prepared THEN Byte(1) \o ShortBytes(q.q) ELSE Byte(0) \o LongString(q.q)) \o Values(q.params)
BatchFlagsLo(o) == (IF IsSome(o.serial) THEN 16 ELSE 0) + (IF IsSome(o.ts) THEN 32 ELSE 0) + (IF IsSome(o.ks) THEN 128 ELSE 0)

BodyParts(k, pv, o) ==
    CASE k = "QUERY" ->           \* v1: <query><consistency>; v2+: <query><query_parameters>
            IF pv = 1 THEN << P("query", LongString(o.query)), P("consistency", Consistency(o.cl)) >>
            ELSE << P("query", LongString(o.query)) >> \o ParamParts(pv, o)
      [] k = "EXECUTE" ->         \* v1: <id><n><value_1>...<value_n><consistency>; v2+: <id>[<result_metadata_id>]<query_parameters>
            IF pv = 1 THEN << P("id", ShortBytes(o.id)), P("values", Values(The(o.values))),
                              P("consistency", Consistency(o.cl)) >>
            ELSE << P("id", ShortBytes(o.id)) >> \o OptP(o.rmid, "result_metadata_id", ShortBytes(The(o.rmid)))
                 \o ParamParts(pv, o)
      [] k = "PREPARE" ->         \* <query>; v5: <query><flags>[<keyspace>], flags [int], 0x01 with_keyspace
            << P("query", LongString(o.query)) >>
            \o (IF HasKeyspace(pv)
                THEN << P("prepare.flags", Word32(0, IF IsSome(o.ks) THEN 1 ELSE 0)) >>
                     \o OptP(o.ks, "prepare.keyspace", String(The(o.ks)))
                ELSE <<>>)
      [] k = "BATCH" ->           \* v2: <type><n><query_1>...<query_n><consistency>
                                  \* v3+: ...<consistency><flags>[<serial_consistency>][<timestamp>][<keyspace>] (flags [int], keyspace: v5)
            << P("batch.type", Byte(o.btype)), P("batch.count", Short(Len(o.queries))),
               P("batch.queries", Cat(Map(BatchQuery, o.queries))), P("batch.consistency", Consistency(o.cl)) >>
            \o (IF pv >= 3
                THEN << P("batch.flags", FlagWord(pv, 0, BatchFlagsLo(o))) >>
                     \o OptP(o.serial, "batch.serial_consistency", Consistency(The(o.serial)))
                     \o OptP(o.ts, "batch.timestamp", LongL(The(o.ts)))
                     \o OptP(o.ks, "batch.keyspace", String(The(o.ks)))
                ELSE <<>>)
      [] k = "REGISTER" -> << P("events", StringList(o.events)) >>
      [] k = "STARTUP" ->         \* [string map]; CQL_VERSION is mandatory; entries in any order
            << PA("options", {StringMap(m) : m \in Orders(o.options \o << <<S_CQL_VERSION, o.cqlversion>> >>)}) >>
      [] k = "CREDENTIALS" -> << PA("credentials", {StringMap(m) : m \in Orders(o.creds)}) >>
      [] k = "AUTH_RESPONSE" -> << P("token", Bytes(V(o.token))) >>
      [] k = "OPTIONS" -> <<>>
      [] k = "REVISE_REQUEST" ->
            << P("op_type", I32(o.op)), P("op_id", I32(o.id)) >> \o (IF o.op = 2 THEN << P("next_pages", I32(o.next)) >> ELSE <<>>)

\* custom payload: [bytes map] first in the body (v4 spec 2.2: flag 0x04)
PayloadParts(fo) == IF IsSome(fo.payload) THEN << PA("custom_payload", {BytesMap(m) : m \in Orders(The(fo.payload))}) >> ELSE <<>>

RECURSIVE Prod(_)                 \* all concatenations choosing one encoding per part
Prod(ps) == IF Len(ps) = 0 THEN {<<>>} ELSE {x \o y : x \in Head(ps).a, y \in Prod(Tail(ps))}

\* Compression is an opaque function of the body; the harness installs exactly this one as `compressor`.
Comp(b)   == <<192, 222>> \o b
Decomp(b) == SubSeq(b, 3, Len(b))

\* header: <version><flags><stream><opcode><length>; stream is [byte] in v1/v2, [short] from v3
\* flags: 0x01 compression, 0x02 tracing, 0x04 custom payload (v4+), 0x10 use beta (v5 spec; earlier documents: "unused and ignored")
HeaderFlags(fo, compressed, beta) == (IF compressed THEN 1 ELSE 0) + (IF fo.tracing THEN 2 ELSE 0)
                                   + (IF IsSome(fo.payload) THEN 4 ELSE 0) + (IF beta THEN 16 ELSE 0)
Header(pv, flags, stream, opcode, len) ==
    <<pv, flags>> \o (IF pv >= 3 THEN Short(stream) ELSE Byte(stream)) \o <<opcode>> \o I32(len)

\* The compression flag says whether THIS frame's body is compressed: with compression negotiated a sender
\* compresses every non-empty body; for an empty body both forms are conforming.  v5 framing compresses
\* segments, never frame bodies.
CompChoices(pv, fo, bodyparts) ==
    IF ~fo.compress \/ ModernFraming(pv) THEN {FALSE}
    ELSE IF Len(bodyparts) = 0 THEN {TRUE, FALSE} ELSE {TRUE}
\* The beta flag is defined by v5 (and required for v6); versions whose document does not define it ignore it.
BetaChoices(pv, fo) == IF fo.beta THEN (IF V5Like(pv) THEN {TRUE} ELSE {TRUE, FALSE}) ELSE {FALSE}

AllParts(k, pv, fo, o) == PayloadParts(fo) \o BodyParts(k, pv, o)
\* Skip_metadata (0x02) is an optimisation hint the property does not name: drivers may decline to ask the server
\* to leave out metadata (stale-metadata hazard before v5, CASSANDRA-10786).  A frame without the flag is accepted
\* for a request with skip_meta; which form the driver sends is recorded by the check, not judged.
\* A zero-length paging state is a legal [bytes] but no server hands one out; a driver may treat it as "no paging
\* state".  Both forms are accepted and the one sent is recorded, not judged.
SkipVariants(k, o) ==
    LET a == IF k = "EXECUTE" /\ o.skip THEN {o, [o EXCEPT !.skip = FALSE]} ELSE {o} IN
    IF k \in {"QUERY", "EXECUTE"} /\ o.pstate = Some(<<>>) THEN a \cup {[x EXCEPT !.pstate = None] : x \in a} ELSE a
Frames(k, pv, fo, parts) ==
    UNION { UNION { { Header(pv, HeaderFlags(fo, cz, bt), fo.stream, Opcode(k), Len(IF cz THEN Comp(b) ELSE b))
                      \o (IF cz THEN Comp(b) ELSE b) : b \in Prod(parts) }
                    : cz \in CompChoices(pv, fo, parts) }
            : bt \in BetaChoices(pv, fo) }

\* names and lengths of the body parts (for pointing at the first deviating field); same for every alternative
Layout(pv, fo, parts) ==
    LET One(p) == <<p.n, Len(CHOOSE x \in p.a : TRUE)>> IN
    (IF fo.compress /\ ~ModernFraming(pv) /\ Len(parts) > 0 THEN << <<"compression", 2>> >> ELSE <<>>) \o Map(One, parts)

-----------------------------------------------------------------------------
\* Specification-level PARSER: reads a frame of (kind, pv) back into the option records.
RdValues(b, p) == LET n == RdShort(b, p) IN RdMany(RdValue, b, n.p, n.v)
RdFlagWord(pv, b, p) == IF IntFlags(pv) THEN RdWord32(b, p) ELSE LET x == RdByte(b, p) IN R(<<0, x.v>>, x.p)

RdParams(pv, b, p) ==
    LET cl  == RdShort(b, p)
        fl  == RdFlagWord(pv, b, cl.p)
        lo  == fl.v[2]   hi == fl.v[1]
        vs  == IF Bit(lo, 1) THEN LET x == RdValues(b, fl.p) IN R(Some(x.v), x.p) ELSE R(None, fl.p)
        pg  == IF Bit(lo, 4) THEN LET x == RdInt(b, vs.p) IN R(Some(x.v), x.p) ELSE R(None, vs.p)
        ps  == IF Bit(lo, 8) THEN LET x == RdValue(b, pg.p) IN R(Some(x.v[2]), x.p) ELSE R(None, pg.p)
        sr  == IF Bit(lo, 16) THEN LET x == RdShort(b, ps.p) IN R(Some(x.v), x.p) ELSE R(None, ps.p)
        ts  == IF Bit(lo, 32) THEN LET x == RdLong16(b, sr.p) IN R(Some(x.v), x.p) ELSE R(None, sr.p)
        ks  == IF Bit(lo, 128) THEN LET x == RdString(b, ts.p) IN R(Some(x.v), x.p) ELSE R(None, ts.p)
        ct  == IF Bit(hi, 32768)
               THEN LET mp == RdInt(b, ks.p)  pps == RdInt(b, mp.p)
                        qs == IF HasNextPages(pv) THEN RdInt(b, pps.p) ELSE R(-1, pps.p) IN
                    R(Some([unit |-> IF Bit(hi, 16384) THEN "BYTES" ELSE "ROWS", max_pages |-> mp.v, pps |-> pps.v,
                            queue |-> qs.v]), qs.p)
               ELSE R(None, ks.p)
    IN R([cl |-> cl.v, values |-> vs.v, skip |-> Bit(lo, 2), serial |-> sr.v, page |-> pg.v, pstate |-> ps.v,
          ts |-> ts.v, ks |-> ks.v, cont |-> ct.v], ct.p)

RdBatchQuery(b, p) ==
    LET kd == RdByte(b, p)
        q  == IF kd.v = 1 THEN RdString(b, kd.p) ELSE RdLongString(b, kd.p)
        vs == RdValues(b, q.p) IN
    R(BQ(kd.v = 1, q.v, vs.v), vs.p)

\* body -> [o |-> option record, p |-> position after the last byte read]
ParseBody(k, pv, b) ==
    CASE k = "QUERY" ->
            LET q == RdLongString(b, 1) IN
            IF pv = 1 THEN LET cl == RdShort(b, q.p) IN
                           R([query |-> q.v, cl |-> cl.v, values |-> None, skip |-> FALSE, serial |-> None, page |-> None,
                              pstate |-> None, ts |-> None, ks |-> None, cont |-> None], cl.p)
            ELSE LET pr == RdParams(pv, b, q.p) IN R([query |-> q.v] @@ pr.v, pr.p)
      [] k = "EXECUTE" ->
            LET id == RdString(b, 1) IN
            IF pv = 1 THEN LET vs == RdValues(b, id.p)  cl == RdShort(b, vs.p) IN
                           R([id |-> id.v, rmid |-> None, cl |-> cl.v, values |-> Some(vs.v), skip |-> FALSE, serial |-> None,
                              page |-> None, pstate |-> None, ts |-> None, ks |-> None, cont |-> None], cl.p)
            ELSE LET rm == IF HasResultMetadataId(pv) THEN LET x == RdString(b, id.p) IN R(Some(x.v), x.p) ELSE R(None, id.p)
                     pr == RdParams(pv, b, rm.p) IN
                 R([id |-> id.v, rmid |-> rm.v] @@ pr.v, pr.p)
      [] k = "PREPARE" ->
            LET q == RdLongString(b, 1) IN
            IF HasKeyspace(pv)
            THEN LET fl == RdWord32(b, q.p)
                     ks == IF Bit(fl.v[2], 1) THEN LET x == RdString(b, fl.p) IN R(Some(x.v), x.p) ELSE R(None, fl.p) IN
                 R([query |-> q.v, ks |-> ks.v], ks.p)
            ELSE R([query |-> q.v, ks |-> None], q.p)
      [] k = "BATCH" ->
            LET bt == RdByte(b, 1)  n == RdShort(b, bt.p)  qs == RdMany(RdBatchQuery, b, n.p, n.v)  cl == RdShort(b, qs.p) IN
            IF pv >= 3
            THEN LET fl == RdFlagWord(pv, b, cl.p)  lo == fl.v[2]
                     sr == IF Bit(lo, 16) THEN LET x == RdShort(b, fl.p) IN R(Some(x.v), x.p) ELSE R(None, fl.p)
                     ts == IF Bit(lo, 32) THEN LET x == RdLong16(b, sr.p) IN R(Some(x.v), x.p) ELSE R(None, sr.p)
                     ks == IF Bit(lo, 128) THEN LET x == RdString(b, ts.p) IN R(Some(x.v), x.p) ELSE R(None, ts.p) IN
                 R([btype |-> bt.v, queries |-> qs.v, cl |-> cl.v, serial |-> sr.v, ts |-> ts.v, ks |-> ks.v], ks.p)
            ELSE R([btype |-> bt.v, queries |-> qs.v, cl |-> cl.v, serial |-> None, ts |-> None, ks |-> None], cl.p)
      [] k = "REGISTER" -> LET l == RdStringList(b, 1) IN R([events |-> l.v], l.p)
      [] k = "STARTUP" -> LET m == RdStringMap(b, 1) IN R([map |-> AsSet(m.v)], m.p)
      [] k = "CREDENTIALS" -> LET m == RdStringMap(b, 1) IN R([map |-> AsSet(m.v)], m.p)
      [] k = "AUTH_RESPONSE" -> LET t == RdValue(b, 1) IN R([token |-> t.v[2]], t.p)
      [] k = "OPTIONS" -> R([none |-> TRUE], 1)
      [] k = "REVISE_REQUEST" ->
            LET op == RdInt(b, 1)  id == RdInt(b, op.p)
                nx == IF op.v = 2 THEN RdInt(b, id.p) ELSE R(-1, id.p) IN
            R([op |-> op.v, id |-> id.v, next |-> nx.v], nx.p)

\* what the parser is expected to return for the requested options (fields a version does not transmit are normalised)
Requested(k, pv, o) ==
    CASE k = "STARTUP" -> [map |-> AsSet(o.options) \cup {<<S_CQL_VERSION, o.cqlversion>>}]
      [] k = "CREDENTIALS" -> [map |-> AsSet(o.creds)]
      [] k = "REVISE_REQUEST" -> [o EXCEPT !.next = IF o.op = 2 THEN o.next ELSE -1]
      [] k \in {"QUERY", "EXECUTE"} ->
            IF IsSome(o.cont) /\ ~HasNextPages(pv) THEN [o EXCEPT !.cont = Some([The(o.cont) EXCEPT !.queue = -1])] ELSE o
      [] OTHER -> o

ParseFrame(k, pv, f) ==
    LET hl   == HeaderLen(pv)
        strm == IF pv >= 3 THEN RdShort(f, 3).v ELSE f[3]
        len  == RdInt(f, hl - 3).v
        raw  == SubSeq(f, hl + 1, Len(f))
        cz   == Bit(f[2], 1)
        body == IF cz THEN Decomp(raw) ELSE raw
        pl   == IF Bit(f[2], 4) THEN LET m == RdBytesMap(body, 1) IN R(Some(AsSet(m.v)), m.p) ELSE R(None, 1)
        msg  == SubSeq(body, pl.p, Len(body))
        pb   == ParseBody(k, pv, msg) IN
    [version |-> f[1], tracing |-> Bit(f[2], 2), compressed |-> cz, beta |-> Bit(f[2], 16), payload |-> pl.v,
     stream |-> strm, opcode |-> f[hl - 4], length |-> len, rawlen |-> Len(raw), o |-> pb.v,
     consumed |-> pb.p = Len(msg) + 1]

-----------------------------------------------------------------------------
VARIABLES c,        \* the case: [kind, pv, var, fo, o]   (a seed: [kind, pv, var, fx])
          expect,   \* "frame" | "reject" | "open"         (a seed: "seed")
          reasons,  \* Obstacles(...): set of <<name, must>>
          alts,     \* conforming frames (empty unless expect = "frame")
          layout    \* <<part name, length>> of the body parts
vars == <<c, expect, reasons, alts, layout>>

\* Two steps, only so that TLC's workers share the enumeration: an initial "seed" state per
\* (kind, version, variant, frame options); its successors are the cases.  Seeds are not cases.
\* versions of the session-layer sequences ("SESSION", below)
SessVersions == IF Small THEN {4, 5} ELSE {4, 5, DSE1, DSE2}          \* custom payloads: v4+
Init == \E k \in Families : \E pv \in Versions, var \in Vars, x \in FrameIdx(k) :
            /\ (k = "SESSION" => pv \in SessVersions /\ var = (CHOOSE v \in Vars : TRUE) /\ x = <<FALSE, 0, FALSE, FALSE>>)
            /\ c = [kind |-> k, pv |-> pv, var |-> var, fx |-> x]
            /\ expect = "seed" /\ reasons = {} /\ alts = {} /\ layout = <<>>

Single ==
        /\ expect = "seed" /\ c.kind # "SESSION"
        /\ \E o \in Cases(c.kind, c.pv, c.var) :
             LET k  == c.kind   pv == c.pv
                 fo == FrameOpt(pv, c.var, c.fx)
                 ob == Obstacles(k, pv, fo, o)
                 e  == IF ob = {} THEN "frame" ELSE IF \E w \in ob : w[2] THEN "reject" ELSE "open"
                 parts == AllParts(k, pv, fo, o) IN
             /\ c' = [kind |-> k, pv |-> pv, var |-> c.var, fo |-> fo, o |-> o]
             /\ expect' = e
             /\ reasons' = ob
             /\ alts' = IF e = "frame"
                        THEN UNION {Frames(k, pv, fo, AllParts(k, pv, fo, ov)) : ov \in SkipVariants(k, o)}
                        ELSE {}
             /\ layout' = IF e = "frame" THEN Layout(pv, fo, parts) ELSE <<>>
\* ---- SEQUENCES through the session layer ("SESSION" in Families)
\* One statement object (SimpleStatement / BoundStatement of one PreparedStatement / BatchStatement) that has a custom
\* payload of its OWN is executed several times, each time with a per-call payload (Session.execute(...,
\* custom_payload=)).  Session._create_response_future builds the message and merges
\*     message.update_custom_payload(statement.custom_payload); message.update_custom_payload(per-call payload)
\* (cassandra/cluster.py, cassandra/protocol.py _MessageType.update_custom_payload).  Every frame must carry exactly
\* the statement's own entries overridden / extended by THIS call's entries - whatever earlier calls passed.
\* The statement's own payload is a constant of the behaviour: no step changes it.
OwnPayloads  == << <<>>, << <<<<107>>, V(<<1, 2>>)>> >>, << <<<<97>>, V(<<>>)>>, <<<<98>>, V(<<0, 255>>)>> >> >>   \* none, {k}, {a, b}
CallPayloads == << <<>>, << <<<<120>>, V(<<7>>)>> >>, << <<<<97>>, V(<<9, 9>>)>>, <<<<121>>, Null>> >> >>          \* none, {x}, {a (clashes), y: null}
MergeP(own, call) == SelectSeq(own, LAMBDA e : \A j \in 1..Len(call) : call[j][1] # e[1]) \o call      \* dict.update
NCalls == 3
\* what the session layer puts into the message for a statement with consistency ONE and fetch size 5000 and nothing else
SessKind(stmt) == CASE stmt = "simple" -> "QUERY" [] stmt = "bound" -> "EXECUTE" [] stmt = "batch" -> "BATCH"
SessO(stmt, pv) ==
    LET pr == Params(1, None, FALSE, 0, 0, 0, 0, 0, 0) IN
    CASE stmt = "simple" -> [query |-> A_query[1]] @@ [pr EXCEPT !.page = Some(5000)]
      [] stmt = "bound"  -> [id |-> A_id[1], rmid |-> IF HasResultMetadataId(pv) THEN Some(A_rmid[1]) ELSE None]
                            @@ [pr EXCEPT !.page = Some(5000), !.values = Some(<<>>)]
      [] stmt = "batch"  -> [btype |-> 0, queries |-> << BQ(FALSE, A_query[1], <<>>) >>, cl |-> 1,
                             serial |-> None, ts |-> None, ks |-> None]
SessStep(stmt, own, calls, pos) ==
    LET k  == SessKind(stmt)   pv == c.pv
        pl == MergeP(OwnPayloads[own + 1], CallPayloads[calls[pos] + 1])
        fo == [tracing |-> FALSE, payload |-> IF pl = <<>> THEN None ELSE Some(pl), compress |-> FALSE, beta |-> FALSE, stream |-> 1]
        o  == SessO(stmt, pv)
        parts == AllParts(k, pv, fo, o) IN
    /\ c' = [kind |-> k, pv |-> pv, var |-> c.var, fo |-> fo, o |-> o,
             seq |-> [stmt |-> stmt, own |-> own, calls |-> calls, pos |-> pos,
                      ownp |-> OwnPayloads[own + 1], callp |-> CallPayloads[calls[pos] + 1]]]
    /\ expect' = "frame" /\ reasons' = {}
    /\ alts' = Frames(k, pv, fo, parts)
    /\ layout' = Layout(pv, fo, parts)
InSequence == expect # "seed" /\ "seq" \in DOMAIN c
Session ==
    \/ /\ expect = "seed" /\ c.kind = "SESSION"
       /\ \E stmt \in {"simple", "bound", "batch"}, own \in 0..2, calls \in [1..NCalls -> 0..2] : SessStep(stmt, own, calls, 1)
    \/ /\ InSequence /\ c.seq.pos < NCalls
       /\ SessStep(c.seq.stmt, c.seq.own, c.seq.calls, c.seq.pos + 1)

Next == Single \/ Session
Spec == Init /\ [][Next]_vars
IsCase == expect # "seed"

-----------------------------------------------------------------------------
\* Invariants on the specification itself
TypeOK == /\ expect \in {"seed", "frame", "reject", "open"}
          /\ (expect = "frame") = (alts # {})
          /\ \A f \in alts : \A i \in 1..Len(f) : f[i] \in 0..255

\* header length field = number of body bytes; header size 8 (v1/v2) or 9 (v3+); version byte has the request direction
LengthConsistent ==
    \A f \in alts : LET h == ParseFrame(c.kind, c.pv, f) IN
        /\ h.length = h.rawlen
        /\ h.version = c.pv /\ h.version < 128
        /\ h.opcode = Opcode(c.kind)
        /\ h.stream = c.fo.stream

\* "an independent specification parser reads back exactly the fields that were requested"
\* (Skip_metadata and a zero-length paging state may be left out, never invented - see SkipVariants)
SameFields(k, parsed, req) ==
    IF k \in {"QUERY", "EXECUTE"}
    THEN LET N(r) == [r EXCEPT !.skip = FALSE, !.pstate = IF r.pstate = Some(<<>>) THEN None ELSE r.pstate] IN
         N(parsed) = N(req) /\ (parsed.skip => req.skip) /\ (IsSome(parsed.pstate) => parsed.pstate = req.pstate)
    ELSE parsed = req
RoundTrip ==
    \A f \in alts : LET h == ParseFrame(c.kind, c.pv, f) IN
        /\ h.consumed                                          \* no byte left over
        /\ SameFields(c.kind, h.o, Requested(c.kind, c.pv, c.o))
        /\ h.tracing = c.fo.tracing
        /\ h.payload = (IF IsSome(c.fo.payload) THEN Some(AsSet(The(c.fo.payload))) ELSE None)
        /\ (V5Like(c.pv) => h.beta = c.fo.beta) /\ (h.beta => c.fo.beta)
        /\ (h.compressed => c.fo.compress /\ ~ModernFraming(c.pv))
        /\ (c.fo.compress /\ ~ModernFraming(c.pv) /\ h.rawlen > 0 => h.compressed)

\* Where the standard only ever adds to a layout, what one version carries the next one carries too
\* (CREDENTIALS is the one removal: v1 only; the same from DSE_V1 to DSE_V2).
CarriesMonotone ==
    IsCase =>
    /\ (c.pv \in 1..5 /\ c.kind # "CREDENTIALS" /\ Carries(c.kind, c.pv, c.fo, c.o) => Carries(c.kind, c.pv + 1, c.fo, c.o))
    /\ (c.pv = DSE1 /\ Carries(c.kind, DSE1, c.fo, c.o) => Carries(c.kind, DSE2, c.fo, c.o))

\* A "reject" always has a reason the property / driver documentation / session layer vouches for
RejectJustified  == IsCase => ((expect = "reject") = (\E w \in reasons : w[2]))
OpenIsOutOfScope == expect = "open" => reasons # {} /\ \A w \in reasons : ~w[2]

\* vacuity witnesses (expected to be VIOLATED)
Witness_Reject       == ~(expect = "reject")
Witness_Open         == ~(expect = "open")
Witness_Alternatives == ~(Cardinality(alts) > 1)
\* in a sequence the payload of a frame is a function of the statement's own payload and of this call's only
SequencePayloadOK == InSequence =>
    c.fo.payload = (LET pl == MergeP(c.seq.ownp, c.seq.callp) IN IF pl = <<>> THEN None ELSE Some(pl))
Witness_Sequence     == ~(InSequence /\ c.seq.pos = NCalls /\ c.seq.own = 2 /\ c.seq.calls[1] = 2 /\ c.seq.calls[3] = 0)
Witness_IntFlags     == ~(expect = "frame" /\ c.kind \in {"QUERY", "EXECUTE", "BATCH"} /\ IntFlags(c.pv))
=============================================================================
