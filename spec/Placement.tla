----------------------------- MODULE Placement -----------------------------
(* Cassandra's replica placement, written from Cassandra's side.             *)
(*                                                                           *)
(* A ring is a sequence of tokens in increasing order; ring[i] is the host   *)
(* owning the i-th token.  Hosts 1..n carry a datacenter dc[h] and a rack    *)
(* rack[h] (racks are named per datacenter, as in Cassandra).                *)
(*                                                                           *)
(*   SimpleStrategy.calculateNaturalReplicas: walk the ring clockwise from   *)
(*   the range's token and collect distinct endpoints until rf of them (or   *)
(*   every endpoint) are collected.                                          *)
(*                                                                           *)
(*   NetworkTopologyStrategy.calculateNaturalEndpoints: one walk, one        *)
(*   "DatacenterEndpoints" accumulator per datacenter with rf > 0 and at     *)
(*   least one node: rfLeft = min(rf, nodes in dc), acceptableRackRepeats =  *)
(*   rf - racks in dc.  An endpoint of a rack not yet seen is accepted; an   *)
(*   endpoint of a rack already seen is accepted only while rack repeats     *)
(*   remain (NTSModern, Cassandra >= 3).  The older formulation (Cassandra   *)
(*   <= 2.x, the one the python driver imitates) skips endpoints of a rack   *)
(*   already seen, remembers them (as a set, in order), and once every rack  *)
(*   of the dc is represented fills up with the remembered endpoints in      *)
(*   order (NTSClassic).  Both are written down; TLC checks that they choose *)
(*   the same *set* for every instance (ClassicEqualsModern).                *)
(*                                                                           *)
(*   Lookup: a key's token belongs to the range ending at the first ring     *)
(*   token >= it, wrapping around to the first token of the ring.            *)
(*                                                                           *)
(* Code anchors (driver side, what this is compared with):                   *)
(*   cassandra/metadata.py SimpleStrategy.make_token_replica_map  531-543    *)
(*   cassandra/metadata.py NetworkTopologyStrategy.make_token_replica_map    *)
(*                                                            581-656        *)
(*   cassandra/metadata.py TokenMap.get_replicas 1765-1783,                  *)
(*   Metadata.rebuild_token_map 274-301, Metadata.get_replicas 303-314       *)
(*                                                                           *)
(* The module is an *instance generator*: a behaviour appends tokens to the  *)
(* ring (introducing hosts, datacenters and racks in canonical order of      *)
(* first appearance, which removes the name symmetries), then Finish picks   *)
(* the replication settings and computes the expected replica set for every  *)
(* ring position and for every key position.  The "done" states are the      *)
(* instances; checks/c26.py evaluates every one of them on the real          *)
(* Metadata/TokenMap/ReplicationStrategy objects.  AlterReplication then     *)
(* changes the settings of the same keyspace (up to MaxAlters times): a done *)
(* state with Len(hist) > 1 is a history "settings installed, replicas       *)
(* looked up, settings altered, ..." whose expectations are those of the     *)
(* last settings (C26 on get_replicas, C22 on token-aware plans).  MoveHost  *)
(* changes a host's datacenter/rack (up to MaxMoves times) the same way.     *)
EXTENDS Naturals, Sequences, FiniteSets, TLC

CONSTANTS MaxHosts,     \* hosts are 1..n, n <= MaxHosts
          MaxDCs,       \* datacenters are 1..MaxDCs
          MaxRacks,     \* racks per datacenter are 1..MaxRacks
          MaxRing,      \* number of tokens in the ring
          MaxRF,        \* SimpleStrategy rf in 1..MaxRF, NTS rf per dc in 0..MaxRF
          Lens,         \* ring lengths generated (subset of 1..MaxRing)
          MaxAlters,    \* how many times the keyspace's replication settings are altered afterwards
          MaxMoves,     \* how many times a host changes datacenter/rack (same address, same tokens) afterwards
          MaxOps,       \* alterations + moves together
          ZeroStyles    \* how an NTS datacenter with rf 0 is written: subset of {"omitted", "explicit"}

Min(a, b) == IF a < b THEN a ELSE b

-----------------------------------------------------------------------------
(* Pure definitions over (ring, dc, rack)                                    *)

\* k-th position clockwise from position i (k = 0 is i itself)
Pos(L, i, k) == ((i - 1 + k) % L) + 1

HostsOf(ring) == {ring[i] : i \in 1..Len(ring)}
NodesIn(ring, dc, d) == {h \in HostsOf(ring) : dc[h] = d}
RacksIn(ring, dc, rack, d) == {rack[h] : h \in NodesIn(ring, dc, d)}

\* ---- SimpleStrategy
RECURSIVE SimpleWalk(_, _, _, _, _)
SimpleWalk(ring, i, k, acc, rf) ==
    IF k = Len(ring) \/ Cardinality(acc) = rf THEN acc
    ELSE SimpleWalk(ring, i, k + 1, acc \cup {ring[Pos(Len(ring), i, k)]}, rf)

SimpleReplicas(ring, i, rf) == SimpleWalk(ring, i, 0, {}, rf)

\* ---- NetworkTopologyStrategy, Cassandra >= 3 (DatacenterEndpoints.addEndpointAndCheckIfDone)
RECURSIVE ModernWalk(_, _, _, _, _, _, _)
ModernWalk(ring, dc, rack, d, i, k, st) ==
    IF k = Len(ring) \/ st.left = 0 THEN st.acc
    ELSE LET h == ring[Pos(Len(ring), i, k)] IN
         IF dc[h] # d \/ h \in st.acc
         THEN ModernWalk(ring, dc, rack, d, i, k + 1, st)
         ELSE IF rack[h] \notin st.racks
         THEN ModernWalk(ring, dc, rack, d, i, k + 1,
                         [st EXCEPT !.acc = @ \cup {h}, !.racks = @ \cup {rack[h]}, !.left = @ - 1])
         ELSE IF st.repeats > 0
         THEN ModernWalk(ring, dc, rack, d, i, k + 1,
                         [st EXCEPT !.acc = @ \cup {h}, !.repeats = @ - 1, !.left = @ - 1])
         ELSE ModernWalk(ring, dc, rack, d, i, k + 1, st)

ModernDc(ring, dc, rack, d, i, rf) ==
    LET nodes == Cardinality(NodesIn(ring, dc, d))
        racks == Cardinality(RacksIn(ring, dc, rack, d))
    IN IF rf = 0 \/ nodes = 0 THEN {}
       ELSE ModernWalk(ring, dc, rack, d, i, 0,
                       [acc |-> {}, racks |-> {}, left |-> Min(rf, nodes),
                        repeats |-> IF rf > racks THEN rf - racks ELSE 0])

NTSModern(ring, dc, rack, i, rfs) ==
    UNION {ModernDc(ring, dc, rack, d, i, rfs[d]) : d \in DOMAIN rfs}

\* ---- NetworkTopologyStrategy, Cassandra <= 2.x (skippedDcEndpoints is a LinkedHashSet)
InSeq(s, x) == \E j \in 1..Len(s) : s[j] = x

RECURSIVE Fill(_, _, _)
Fill(acc, skipped, target) ==          \* append remembered endpoints in order while room remains
    IF skipped = <<>> \/ Cardinality(acc) >= target THEN acc
    ELSE Fill(acc \cup {Head(skipped)}, Tail(skipped), target)

RECURSIVE ClassicWalk(_, _, _, _, _, _, _, _, _)
ClassicWalk(ring, dc, rack, d, i, k, st, allRacks, target) ==
    IF k = Len(ring) \/ Cardinality(st.acc) >= target THEN st.acc
    ELSE LET h == ring[Pos(Len(ring), i, k)] IN
         IF dc[h] # d \/ h \in st.acc
         THEN ClassicWalk(ring, dc, rack, d, i, k + 1, st, allRacks, target)
         ELSE IF rack[h] \in st.racks /\ st.racks # allRacks
         THEN ClassicWalk(ring, dc, rack, d, i, k + 1,
                          [st EXCEPT !.skipped = IF InSeq(@, h) THEN @ ELSE Append(@, h)],
                          allRacks, target)
         ELSE LET racks2 == st.racks \cup {rack[h]}
                  acc2   == st.acc \cup {h}
              IN IF racks2 = allRacks
                 THEN ClassicWalk(ring, dc, rack, d, i, k + 1,
                                  [acc |-> Fill(acc2, st.skipped, target), racks |-> racks2, skipped |-> <<>>],
                                  allRacks, target)
                 ELSE ClassicWalk(ring, dc, rack, d, i, k + 1,
                                  [acc |-> acc2, racks |-> racks2, skipped |-> st.skipped],
                                  allRacks, target)

ClassicDc(ring, dc, rack, d, i, rf) ==
    LET nodes == Cardinality(NodesIn(ring, dc, d))
    IN IF rf = 0 \/ nodes = 0 THEN {}
       ELSE ClassicWalk(ring, dc, rack, d, i, 0, [acc |-> {}, racks |-> {}, skipped |-> <<>>],
                        RacksIn(ring, dc, rack, d), Min(rf, nodes))

NTSClassic(ring, dc, rack, i, rfs) ==
    UNION {ClassicDc(ring, dc, rack, d, i, rfs[d]) : d \in DOMAIN rfs}

\* ---- Lookup.  Token of ring position i is 2*i; keys are 1..2L+1 (even = exactly a token,
\* odd = strictly between two tokens / before the first / after the last).
Lookup(L, key) ==
    IF \E i \in 1..L : 2 * i >= key
    THEN CHOOSE i \in 1..L : 2 * i >= key /\ \A j \in 1..L : 2 * j >= key => i <= j
    ELSE 1

-----------------------------------------------------------------------------
VARIABLES len,        \* ring length this behaviour builds
          ring,       \* sequence of owners
          dc, rack,   \* host -> datacenter / rack (sequences indexed by host)
          phase,      \* "build" | "done"
          strat,      \* [kind |-> "none"] | [kind |-> "Simple", rf |-> n] | [kind |-> "NTS", rfs |-> <<..>>]
          expected,   \* ring position -> replica set          (valid when done)
          byKey,      \* key position 1..2L+1 -> replica set   (valid when done)
          hist,       \* every replication setting the keyspace has had, oldest first (strat is the last one)
          dc0, rack0, \* the hosts' locations when the ring was first built (dc, rack are the current ones)
          log         \* what happened since, in order: [op |-> "alter", s] and [op |-> "move", h, d, r]
vars == <<len, ring, dc, rack, phase, strat, expected, byKey, hist, dc0, rack0, log>>

NHosts == Len(dc)
UsedDCs == {dc[h] : h \in 1..NHosts}
UsedRacks(d) == {rack[h] : h \in {x \in 1..NHosts : dc[x] = d}}

Init == /\ len \in Lens
        /\ ring = <<>> /\ dc = <<>> /\ rack = <<>>
        /\ phase = "build"
        /\ strat = [kind |-> "none"]
        /\ expected = <<>> /\ byKey = <<>> /\ hist = <<>>
        /\ dc0 = <<>> /\ rack0 = <<>> /\ log = <<>>

\* a token owned by a host already in the ring
OldToken(h) ==
    /\ phase = "build" /\ Len(ring) < len
    /\ h \in 1..NHosts
    /\ ring' = Append(ring, h)
    /\ UNCHANGED <<len, dc, rack, phase, strat, expected, byKey, hist, dc0, rack0, log>>

\* a token owned by a new host; datacenters and racks are introduced in order of first appearance
NewToken(d, r) ==
    /\ phase = "build" /\ Len(ring) < len
    /\ NHosts < MaxHosts
    /\ d \in 1..Min(MaxDCs, Cardinality(UsedDCs) + 1)
    /\ r \in 1..Min(MaxRacks, Cardinality(UsedRacks(d)) + 1)
    /\ ring' = Append(ring, NHosts + 1)
    /\ dc' = Append(dc, d)
    /\ rack' = Append(rack, r)
    /\ UNCHANGED <<len, phase, strat, expected, byKey, hist, dc0, rack0, log>>

\* An NTS datacenter with replication factor 0 holds no replica, whether the options leave it out or list it
\* with '0' (zero = "explicit": {'dc1': '2', 'dc2': '0'}) - also when that datacenter has hosts and tokens.
Strategies ==
    {[kind |-> "Simple", rf |-> n] : n \in 1..MaxRF}
      \cup ({[kind |-> "NTS", rfs |-> f, zero |-> z] :
                f \in {g \in [1..MaxDCs -> 0..MaxRF] : \E d \in 1..MaxDCs : g[d] > 0},
                z \in ZeroStyles}
            \ {[kind |-> "NTS", rfs |-> f, zero |-> "explicit"] : f \in [1..MaxDCs -> 1..MaxRF]})   \* nothing to write

ReplicasIn(s, i, dcs, racks) ==
    IF s.kind = "Simple" THEN SimpleReplicas(ring, i, s.rf)
    ELSE NTSModern(ring, dcs, racks, i, s.rfs)
ReplicasAt(s, i) == ReplicasIn(s, i, dc, rack)

Finish(s) ==
    /\ phase = "build" /\ Len(ring) = len
    /\ s \in Strategies
    /\ phase' = "done"
    /\ strat' = s
    /\ expected' = [i \in 1..len |-> ReplicasAt(s, i)]
    /\ byKey' = [k \in 1..(2 * len + 1) |-> expected'[Lookup(len, k)]]
    /\ hist' = <<s>>
    /\ dc0' = dc /\ rack0' = rack /\ log' = <<>>
    /\ UNCHANGED <<len, ring, dc, rack>>

\* ALTER KEYSPACE ... WITH replication = s: a keyspace schema refresh installs new settings while the driver
\* has already answered (and cached) replica lookups for the old ones.  From then on the replicas of every
\* range are the ones Cassandra's placement gives for the CURRENT settings; nothing of the old ones survives.
\* (driver side: Metadata._update_keyspace / _rebuild_all -> _keyspace_updated -> TokenMap.rebuild_keyspace,
\* cassandra/metadata.py 163-194, 253-259, 1740-1753)
AlterReplication(s) ==
    /\ phase = "done" /\ Len(hist) <= MaxAlters /\ Len(log) < MaxOps
    /\ s \in Strategies /\ s # strat
    /\ strat' = s
    /\ expected' = [i \in 1..len |-> ReplicasAt(s, i)]
    /\ byKey' = [k \in 1..(2 * len + 1) |-> expected'[Lookup(len, k)]]
    /\ hist' = Append(hist, s)
    /\ log' = Append(log, [op |-> "alter", s |-> s])
    /\ UNCHANGED <<len, ring, dc, rack, phase, dc0, rack0>>

\* A node is moved to another rack / datacenter (re-provisioned under the same address, snitch change): the next
\* node-list refresh reports it there, with the same tokens.  From then on placement is computed with the CURRENT
\* locations, also for ranges whose replicas were looked up (and cached) before.
\* (driver side: ControlConnection._refresh_node_list_and_token_map -> _update_location_info ->
\* should_rebuild_token_map -> Metadata.rebuild_token_map: new TokenMap, empty replica cache;
\* cassandra/cluster.py 3881-4033, cassandra/metadata.py 274-301)
NumMoves == Cardinality({j \in 1..Len(log) : log[j].op = "move"})
MoveHost(h, d, r) ==
    /\ phase = "done" /\ NumMoves < MaxMoves /\ Len(log) < MaxOps
    /\ h \in 1..NHosts /\ d \in 1..MaxDCs /\ r \in 1..MaxRacks
    /\ <<d, r>> # <<dc[h], rack[h]>>
    /\ dc' = [dc EXCEPT ![h] = d]
    /\ rack' = [rack EXCEPT ![h] = r]
    /\ expected' = [i \in 1..len |-> ReplicasIn(strat, i, dc', rack')]
    /\ byKey' = [k \in 1..(2 * len + 1) |-> expected'[Lookup(len, k)]]
    /\ log' = Append(log, [op |-> "move", h |-> h, d |-> d, r |-> r])
    /\ UNCHANGED <<len, ring, phase, strat, hist, dc0, rack0>>

Next == \/ \E h \in 1..MaxHosts : OldToken(h)
        \/ \E d \in 1..MaxDCs, r \in 1..MaxRacks : NewToken(d, r)
        \/ \E s \in Strategies : Finish(s)
        \/ \E s \in Strategies : AlterReplication(s)
        \/ \E h \in 1..MaxHosts, d \in 1..MaxDCs, r \in 1..MaxRacks : MoveHost(h, d, r)

Spec == Init /\ [][Next]_vars

-----------------------------------------------------------------------------
(* Sanity of the reference definition itself (C26 spec-level invariants)     *)
Done == phase = "done"
L == Len(ring)

TypeOK == /\ Len(dc) = Len(rack)
          /\ HostsOf(ring) = 1..NHosts
          /\ Done => Len(expected) = L /\ Len(byKey) = 2 * L + 1

\* SimpleStrategy: exactly min(rf, nodes) replicas, the owner of the range first
SimpleCount ==
    Done /\ strat.kind = "Simple" =>
        \A i \in 1..L : /\ Cardinality(expected[i]) = Min(strat.rf, NHosts)
                        /\ ring[i] \in expected[i]

\* NTS: per datacenter exactly min(rf, nodes in dc) replicas, all of them in that datacenter
NTSCountPerDc ==
    Done /\ strat.kind = "NTS" =>
        \A i \in 1..L : \A d \in 1..MaxDCs :
            Cardinality({h \in expected[i] : dc[h] = d}) =
                Min(strat.rfs[d], Cardinality(NodesIn(ring, dc, d)))

\* NTS: as many distinct racks as possible: min(rf, racks in dc, ...) racks are represented
NTSRackDiversity ==
    Done /\ strat.kind = "NTS" =>
        \A i \in 1..L : \A d \in 1..MaxDCs :
            LET got == {rack[h] : h \in {x \in expected[i] : dc[x] = d}} IN
            Cardinality(got) = Min(strat.rfs[d], Cardinality(RacksIn(ring, dc, rack, d)))

\* The two formulations of Cassandra's NTS choose the same set (so either may serve as the oracle)
ClassicEqualsModern ==
    Done /\ strat.kind = "NTS" =>
        \A i \in 1..L : NTSClassic(ring, dc, rack, i, strat.rfs) = expected[i]

\* Lookup: exact token -> that position; between -> next position; after the last -> wraps to 1
LookupOK ==
    Done => /\ \A i \in 1..L : byKey[2 * i] = expected[i] /\ byKey[2 * i - 1] = expected[i]
            /\ byKey[2 * L + 1] = expected[1]

\* replicas depend on the current settings and the current host locations only, whatever they were before
CurrentSettingsOnly ==
    Done => /\ hist # <<>> /\ strat = hist[Len(hist)]
            /\ expected = [i \in 1..L |-> ReplicasAt(strat, i)]

\* vacuity witnesses (expected to be VIOLATED)
Witness_MoveChangesReplicas ==
    ~(Done /\ NumMoves > 0 /\ hist = <<strat>> /\ \E i \in 1..L : ReplicasIn(strat, i, dc0, rack0) # expected[i])
Witness_AlterChangesReplicas ==
    ~(Done /\ Len(hist) >= 2 /\ \E i \in 1..L : ReplicasAt(hist[Len(hist) - 1], i) # expected[i])
Witness_AlterSimpleToNTS ==
    ~(Done /\ Len(hist) >= 2 /\ hist[Len(hist) - 1].kind = "Simple" /\ strat.kind = "NTS")
Witness_AlterNTSToNTS ==
    ~(Done /\ Len(hist) >= 2 /\ hist[Len(hist) - 1].kind = "NTS" /\ strat.kind = "NTS")
Witness_RackRepeatConsecutive ==   \* a host with two tokens in an already represented rack, NTS with rf > racks
    ~(Done /\ strat.kind = "NTS" /\ \E i \in 1..L, j \in 1..L : i < j /\ ring[i] = ring[j]
           /\ \E d \in 1..MaxDCs : strat.rfs[d] > Cardinality(RacksIn(ring, dc, rack, d))
                                   /\ Cardinality(RacksIn(ring, dc, rack, d)) > 1)
Witness_SimpleWraps == ~(Done /\ strat.kind = "Simple" /\ L > 1 /\ ring[1] \in expected[L] /\ ring[1] # ring[L])
Witness_DcWithoutRf == ~(Done /\ strat.kind = "NTS" /\ \E d \in UsedDCs : strat.rfs[d] = 0)
=============================================================================
