----------------------------- MODULE Trace_Pool -----------------------------
(* Trace validation (code -> spec) for Pool.tla.  Each recorded event names    *)
(* the step the harness let the real pool / connections / futures take, with   *)
(* its arguments, and carries the projected state of the real objects after    *)
(* it.  An event is accepted iff the corresponding specification action is     *)
(* enabled and produces exactly the logged post-state.  Reqs must be 1..n.     *)
EXTENDS Pool, TraceLib

VARIABLES tid, l
tvars == <<vars, tid, l>>

Tr == Traces[tid]
ToSet(s) == {s[i] : i \in 1..Len(s)}

(* p.win: the event lies inside a running shutdown() - C12 does not fix at which step it empties _trash /      *)
(* _connection nor the order of its closes, so only the flag and what other threads see is compared there; the *)
(* event that ends shutdown() is compared in full again.                                                        *)
Full(p) ==
    /\ \A c \in Conns : /\ c # p.late => inflight'[c] = p.inflight[c]    \* in flux inside process_msg (see Pool.tla, LateStart)
                        /\ c # p.late => orph'[c] = ToSet(p.orph[c])
                        /\ reg'[c] = ToSet(p.reg[c])
                        /\ owed'[c] = ToSet(p.owed[c])
                        /\ thr'[c] = p.thr[c]
                        /\ closed'[c] = p.closed[c]
                        /\ defunct'[c] = p.defunct[c]
                        /\ signaled'[c] = p.signaled[c]
    /\ cur' = p.cur
    /\ trash' = ToSet(p.trash)
    /\ \A r \in Reqs : st'[r] = p.st[r]

Post(p) ==
    /\ late' = p.late
    /\ IF p.win THEN TRUE ELSE Full(p)
    /\ replacing' = p.replacing
    /\ shutdown' = p.shutdown
    /\ (rep'.ph = "queued") = (p.queued = 1)
    /\ opened' = p.opened
    /\ \A r \in Reqs : on'[r] = p.on[r]

TraceInit == tid \in 1..NTraces /\ l = 1 /\ Init

TraceNext ==
    /\ l <= Len(Tr)
    /\ l' = l + 1
    /\ UNCHANGED tid
    /\ LET e == Tr[l] IN
       /\ \/ e.e = "BorrowStart"        /\ BorrowStart(e.r)
          \/ e.e = "BorrowMark"         /\ BorrowMark(e.r)
          \/ e.e = "BorrowTake"         /\ BorrowTake(e.r)
          \/ e.e = "Send"               /\ Send(e.r, e.f)
          \/ e.e = "Respond"            /\ Respond(e.c, e.r)
          \/ e.e = "LateStart"          /\ LateStart(e.c, e.r)
          \/ e.e = "LateFinish"         /\ LateFinish
          \/ e.e = "Timeout"            /\ Timeout(e.r)
          \/ e.e = "ConnFails"          /\ ConnFails(e.c, e.f)
          \/ e.e = "ReplaceCheck"       /\ ReplaceCheck
          \/ e.e = "ReplaceOpen"        /\ ReplaceOpen(e.f)
          \/ e.e = "ReplaceUse"         /\ ReplaceUse
          \/ e.e = "ReplacePublish"     /\ ReplacePublish
          \/ e.e = "ReplaceRetire"      /\ ReplaceRetire
          \/ e.e = "ShutdownMark"       /\ ShutdownMark
          \/ e.e = "ShutdownCloseCur"   /\ ShutdownCloseCur
          \/ e.e = "ShutdownCloseTrash" /\ ShutdownCloseTrash
       /\ Post(e.post)

TraceSpec == TraceInit /\ [][TraceNext]_tvars

Progress == RecordProgress(tid, l)
Done == PrintProgress
=============================================================================
