-------------------------- MODULE SessionKeyspace --------------------------
(* Switching the session keyspace (a USE statement answered with              *)
(* SET_KEYSPACE): the fan-out of Session._set_keyspace_for_all_pools over the *)
(* session's pools and its completion.                                        *)
(*                                                                            *)
(* Code anchors (cassandra/):                                                 *)
(*   cluster.py  ResponseFuture._set_result 4722-4734 (SET_KEYSPACE result),  *)
(*               Session._set_keyspace_for_all_pools 3434-3459,               *)
(*               ResponseFuture._set_keyspace_completed 4867-4872             *)
(*   pool.py     HostConnection._set_keyspace_for_all_conns 551-561,          *)
(*               _replace 511-514 (a new connection gets pool._keyspace)      *)
(*   connection.py  Connection.set_keyspace_async 1532-1582                   *)
(*                                                                            *)
(* A configuration (chosen in Init) gives every pool a state - it has a       *)
(* connection, it has none at the moment (_connection is None while being     *)
(* replaced), it is shut down - and the outcome of the USE on its connection: *)
(* ok, invalid (InvalidRequest), srverr (another error message: the           *)
(* connection is defuncted), died (the connection fails while the USE is      *)
(* outstanding).  Start is the whole callback of the loop thread that handles *)
(* the SET_KEYSPACE result; PoolFinish(p) the callback handling pool p's      *)
(* answer, in any order.  Afterwards pools that lost their connection get a   *)
(* new one (Reconnect) and a connection is borrowed from every pool.          *)
(*                                                                            *)
(* The module states what C20 requires (INTENDED below); the pinned code      *)
(* differs in four places, which the replay reports.                          *)
EXTENDS Integers, FiniteSets, TLC

CONSTANTS NPools
Pools == 1..NPools

VARIABLES pstate,      \* per pool: conn, noconn, shutdown
          outcome,     \* per pool with a connection: ok, invalid, srverr, died
          phase,       \* idle, switching, done
          asked,       \* pools whose connection has a USE outstanding
          remaining,   \* pools the completion still waits for
          errs,        \* pools that reported an error
          completions, \* how often the USE future was completed
          result,      \* none, ok, error
          connks,      \* per pool: keyspace selected on its current connection: old, new; none = no live connection
          poolks,      \* per pool: the keyspace the pool gives to connections it opens (pool._keyspace)
          borrowed,    \* per pool: keyspace of the connection borrowed after the switch; "-" not yet, none = borrow failed
          rph,         \* per pool without connection: where its _replace task is: queued, open (past the shutdown check),
                       \* use (connected), publish (keyspace selected on the new connection), done; "none" for the others
          newks,       \* per pool: keyspace selected on the replacement connection that is not published yet ("-" if none)
          act
vars == <<pstate, outcome, phase, asked, remaining, errs, completions, result, connks, poolks, borrowed, rph, newks, act>>

A(name, p) == [name |-> name, p |-> p]
HasConn(p) == pstate[p] = "conn"

Init ==
    /\ pstate \in [Pools -> {"conn", "noconn", "shutdown"}]
    /\ \E p \in Pools : HasConn(p)                         \* somebody executes the USE statement
    /\ outcome \in [Pools -> {"ok", "invalid", "srverr", "died"}]
    /\ \A p \in Pools : ~HasConn(p) => outcome[p] = "ok"
    /\ phase = "idle" /\ asked = {} /\ remaining = {} /\ errs = {}
    /\ completions = 0 /\ result = "none"
    /\ connks = [p \in Pools |-> IF HasConn(p) THEN "old" ELSE "none"]
    /\ poolks = [p \in Pools |-> "old"]
    /\ borrowed = [p \in Pools |-> "-"]
    /\ rph \in [Pools -> {"none", "queued", "open", "use", "publish"}]      \* the switch may find the replacement anywhere
    /\ \A p \in Pools : rph[p] = "none" <=> pstate[p] # "noconn"
    /\ newks = [p \in Pools |-> IF rph[p] = "publish" THEN "old" ELSE "-"]
    /\ act = A("Init", 0)

(* INTENDED (C20): a pool that is shut down or has no connection at the       *)
(* moment does not hold the switch up (the pinned code never calls back for   *)
(* it, so the switch never completes), and it records the keyspace for the    *)
(* connection it opens next (the pinned code returns before doing so).        *)
Start ==
    /\ phase = "idle"
    /\ phase' = "switching"
    /\ asked' = {p \in Pools : HasConn(p)}
    /\ remaining' = {p \in Pools : HasConn(p)}
    /\ poolks' = [p \in Pools |-> IF pstate[p] = "shutdown" THEN poolks[p] ELSE "new"]
    /\ act' = A("Start", 0)
    /\ UNCHANGED <<pstate, outcome, errs, completions, result, connks, borrowed, rph, newks>>

(* INTENDED (C20): the completion reports every error collected (the pinned   *)
(* code passes the last pool's errors only), and a connection that died with  *)
(* the USE outstanding counts as an error (the pinned code passes None).      *)
PoolFinish(p) ==
    /\ phase = "switching" /\ p \in asked
    /\ asked' = asked \ {p}
    /\ remaining' = remaining \ {p}
    /\ errs' = IF outcome[p] = "ok" THEN errs ELSE errs \cup {p}
    /\ connks' = [connks EXCEPT ![p] = CASE outcome[p] = "ok" -> "new"
                                          [] outcome[p] = "invalid" -> "old"
                                          [] OTHER -> "none"]
    /\ IF remaining' = {}
       THEN /\ completions' = completions + 1
            /\ result' = IF errs' = {} THEN "ok" ELSE "error"
            /\ phase' = "done"
       ELSE UNCHANGED <<completions, result, phase>>
    /\ act' = A("PoolFinish", p)
    /\ UNCHANGED <<pstate, outcome, poolks, borrowed, rph, newks>>

(* the pool's _replace task opens a new connection and selects pool._keyspace on it *)
Reconnect(p) ==
    /\ phase = "done" /\ pstate[p] = "conn" /\ connks[p] = "none" /\ borrowed[p] = "-"
    /\ \A q \in Pools : q < p => borrowed[q] # "-"
    /\ connks' = [connks EXCEPT ![p] = poolks[p]]
    /\ act' = A("Reconnect", p)
    /\ UNCHANGED <<pstate, outcome, phase, asked, remaining, errs, completions, result, poolks, borrowed, rph, newks>>

(* The _replace task of a pool that had no connection when the switch began, step by step (pool.py 504-520): *)
(* the shutdown check, connection_factory, set_keyspace_blocking(self._keyspace), the publication.           *)
(* They interleave freely with the answers of the other pools.                                               *)
RStep(p, from, to, nk, ck) ==
    /\ phase # "idle" /\ rph[p] = from
    /\ rph' = [rph EXCEPT ![p] = to]
    /\ newks' = [newks EXCEPT ![p] = nk]
    /\ connks' = [connks EXCEPT ![p] = ck]
    /\ UNCHANGED <<pstate, outcome, phase, asked, remaining, errs, completions, result, poolks, borrowed>>
RCheck(p) == RStep(p, "queued", "open", newks[p], connks[p]) /\ act' = A("RCheck", p)
ROpen(p)  == RStep(p, "open", "use", newks[p], connks[p]) /\ act' = A("ROpen", p)
(* the keyspace is read from the pool when the USE is issued, not earlier *)
RUse(p)   == RStep(p, "use", "publish", poolks[p], connks[p]) /\ act' = A("RUse", p)
(* INTENDED (C20): the connection that becomes the pool's connection has the keyspace the pool recorded, also  *)
(* when a switch was recorded after the USE above (the pinned code publishes it on the keyspace of that USE).  *)
RPublish(p) == RStep(p, "publish", "done", "-", poolks[p]) /\ act' = A("RPublish", p)

Borrow(p) ==
    /\ phase = "done" /\ borrowed[p] = "-"
    /\ \A q \in Pools : q < p => borrowed[q] # "-"
    /\ pstate[p] = "shutdown" \/ connks[p] # "none"
    /\ borrowed' = [borrowed EXCEPT ![p] = IF pstate[p] = "shutdown" THEN "none" ELSE connks[p]]
    /\ act' = A("Borrow", p)
    /\ UNCHANGED <<pstate, outcome, phase, asked, remaining, errs, completions, result, connks, poolks, rph, newks>>

Next == Start \/ \E p \in Pools : PoolFinish(p) \/ Reconnect(p) \/ Borrow(p) \/ RCheck(p) \/ ROpen(p) \/ RUse(p) \/ RPublish(p)

Spec == Init /\ [][Next]_vars

-----------------------------------------------------------------------------
(* C20 *)
CompletesOnce == completions <= 1 /\ (phase = "done" <=> completions = 1)
(* "the switch always completes": whatever is still awaited is an answer the nodes owe, and once none is owed it is complete *)
AlwaysCompletes == /\ remaining = asked
                   /\ phase = "switching" => asked # {}
ErrorIffSomePoolFailed ==
    phase = "done" => (result = "ok" <=> \A p \in Pools : HasConn(p) => outcome[p] = "ok")
KeyspaceEverywhereAfterSuccess ==
    result = "ok" => \A p \in Pools : borrowed[p] \in {"-", "none", "new"}
    \* none only for a pool that is shut down
NoneOnlyWhenShutdown == \A p \in Pools : borrowed[p] = "none" => pstate[p] = "shutdown"

(* vacuity witnesses (each must be violated = reachable) *)
Witness_SuccessWithPoolWithoutConnection == ~(result = "ok" /\ \E p \in Pools : pstate[p] = "noconn" /\ borrowed[p] = "new")
Witness_ErrorThenOkLast == ~(act.name = "PoolFinish" /\ phase = "done" /\ result = "error" /\ outcome[act.p] = "ok")
Witness_DiedOnly == ~(phase = "done" /\ result = "error" /\ \A p \in Pools : HasConn(p) => outcome[p] \in {"ok", "died"})
Witness_SwitchBetweenUseAndPublish == ~(\E p \in Pools : rph[p] = "publish" /\ newks[p] = "old" /\ poolks[p] = "new")
Witness_SwitchWhileConnecting == ~(\E p \in Pools : rph[p] = "use" /\ poolks[p] = "new")
Witness_AllBorrowedAfterSuccess == ~(result = "ok" /\ \A p \in Pools : borrowed[p] # "-")
=============================================================================
