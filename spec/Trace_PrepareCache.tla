------------------------- MODULE Trace_PrepareCache -------------------------
(* Trace validation (code -> spec) for PrepareCache.tla.  Each recorded event *)
(* names the operation performed on the real simulated cluster with its       *)
(* arguments and what was observed, and carries the projected state after it: *)
(* Host.is_up per host, the prepared set of every node, the keys of           *)
(* Cluster._prepared_statements with the statement cached under each.  An     *)
(* event is accepted iff the specification action is enabled and produces     *)
(* exactly the logged observation and post-state.  Hosts must be 0..N-1.      *)
EXTENDS PrepareCache, TraceLib

VARIABLES tid, l
tvars == <<vars, tid, l>>

Tr == Traces[tid]
ToSet(s) == {s[i] : i \in 1..Len(s)}

Post(p) ==
    /\ \A h \in Hosts : up'[h] = p.up[h + 1]
    /\ \A h \in Hosts : srv'[h] = ToSet(p.srv[h + 1])
    /\ {<<i, cache'[i]>> : i \in DOMAIN cache'} = ToSet(p.cache)

Obs(e) ==
    /\ e.e = "Prepare" => act'.coord = e.coord /\ act'.id = e.id
    /\ e.e = "Execute" => act'.unprepared = e.unprepared /\ act'.rows = e.rows
    /\ e.e = "HostUp"  => act'.prepares = ToSet(e.prepares)

TraceInit == tid \in 1..NTraces /\ l = 1 /\ Init

TraceNext ==
    /\ l <= Len(Tr)
    /\ l' = l + 1
    /\ UNCHANGED tid
    /\ LET e == Tr[l] IN
       /\ \/ e.e = "Prepare"  /\ Prepare(e.s)
          \/ e.e = "Execute"  /\ Execute(e.s, e.h)
          \/ e.e = "Drop"     /\ Drop(e.s)
          \/ e.e = "HostDown" /\ HostDown(e.h)
          \/ e.e = "HostUp"   /\ HostUp(e.h)
          \/ e.e = "Evict"    /\ Evict(e.h)
       /\ Obs(e)
       /\ Post(e.post)

TraceSpec == TraceInit /\ [][TraceNext]_tvars

Progress == RecordProgress(tid, l)
Done == PrintProgress
=============================================================================
