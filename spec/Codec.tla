------------------------------- MODULE Codec -------------------------------
(* Wire format of CQL *values* (the [bytes] of a bound value / a result cell)  *)
(* as a reference ENCODER, a reference DECODER and the documented              *)
(* normalisation, written from the definitions of Cassandra's serializers and  *)
(* of the native protocol documents - NOT from the driver's code:              *)
(*   native_protocol_v2.spec / v3 / v4 / v5, section "Data type serialization  *)
(*     formats" (v2: collection sizes and element lengths are [short]; v3+:    *)
(*     [int], an element is a [bytes], a negative length denotes null);        *)
(*   org.apache.cassandra.serializers: BooleanSerializer, ByteSerializer,      *)
(*     ShortSerializer, Int32Serializer, LongSerializer, TimestampSerializer   *)
(*     (ms since epoch), TimeSerializer (ns of day), SimpleDateSerializer      *)
(*     (unsigned days, epoch = 2^31), IntegerSerializer (= Java                *)
(*     BigInteger.toByteArray: minimal two's complement), DecimalSerializer    *)
(*     ([int] scale ++ unscaled varint), DurationSerializer (three signed      *)
(*     vints), UTF8/Ascii/BytesSerializer (the bytes), UUID/TimeUUID (16       *)
(*     bytes), InetAddressSerializer (4 or 16 bytes), CollectionSerializer     *)
(*     .pack/writeValue (List/Set/MapSerializer), TupleType.buildValue /       *)
(*     TupleType.split (a value shorter than the type: remaining = null; also  *)
(*     UserType), VectorType.FixedLengthSerializer / VariableLengthSerializer  *)
(*     (elements concatenated; a variable-width element is preceded by its     *)
(*     size as an unsigned vint);                                              *)
(*   org.apache.cassandra.utils.vint.VIntCoding: unsigned vint = value big     *)
(*     endian in the fewest 1..9 bytes, the number of extra bytes unary coded  *)
(*     in the leading 1-bits of the first byte; signed vint = zig-zag first.   *)
(*                                                                             *)
(* BOUNDS (TLC integers are 32 bit): numbers stay within -2^31 .. 2^31-1 and   *)
(* 64-bit fields carry sign-extended 32-bit values; vint operands stay below   *)
(* 2^30 in magnitude (zig-zag doubles them), which reaches the 1..5 byte       *)
(* forms.  float/double, textual forms of inet/uuid, UTF-8 validity and        *)
(* calendar arithmetic are not expressible here: text is given as the bytes of *)
(* its encoding, uuid/inet as opaque byte strings.                             *)
(*                                                                             *)
(* A case = one TLC state (ty, pv, val) with enc = Enc(ty, val, pv), img = the *)
(* encodings Cassandra may produce for the same value, norm = Norm(ty, val).   *)
(* checks/c01.py, c02.py, c07.py evaluate every state on the real driver.      *)
EXTENDS WirePrims

CONSTANTS PVs,            \* protocol versions enumerated (the composite layer only distinguishes < 3 and >= 3)
          Families,       \* subset of {"scalar","list","set","map","tuple","udt","vector","nest2","nest3","range","tz","wide","inettext","big"}
          TopScalars,     \* scalar types enumerated alone, with their full boundary alphabet
          ElemScalars,    \* element types of depth-1 lists / sets
          KeyScalars, ValScalars,   \* depth-1 maps
          FieldScalars,   \* depth-1 tuples / UDTs
          VecScalars,     \* depth-1 vectors
          B0, B1, B2, B3, \* per nesting level 0..3+: a collection holds up to L elements, L the largest of 1..3 with |alphabet|^L <= B
          Rich            \* BOOLEAN: larger alphabets below the top level

-----------------------------------------------------------------------------
\* ------------------------------------------------------------------ types
\* A type is a tagged tuple: <<name>> for a scalar, <<"list", t>>, <<"set", t>>, <<"map", k, v>>,
\* <<"tuple", <<t1..tn>>>>, <<"udt", <<t1..tn>>>> (field names are f1..fn in the harness), <<"vector", t, n>>.
Sc(n)         == <<n>>
ListOf(t)     == <<"list", t>>
SetOf(t)      == <<"set", t>>
MapOf(k, v)   == <<"map", k, v>>
TupleOf(ts)   == <<"tuple", ts>>
UdtOf(ts)     == <<"udt", ts>>
VecOf(t, n)   == <<"vector", t, n>>
IsScalar(t)   == Len(t) = 1
Kind(t)       == t[1]

IntLike   == {"tinyint", "smallint", "int", "bigint", "counter", "timestamp", "time", "varint", "date"}
ByteLike  == {"ascii", "text", "blob", "uuid", "timeuuid", "inet"}
AllScalars == IntLike \cup ByteLike \cup {"boolean", "decimal", "duration"}

Pow(b, e) == IF e = 0 THEN 1 ELSE IF e = 1 THEN b ELSE IF e = 2 THEN b * b ELSE b * b * b     \* e <= 3
Min(a, b) == IF a < b THEN a ELSE b
Max3(pv)  == IF pv >= 3 THEN pv ELSE 3       \* "collections inside are always in the v3 format" (frozen values are stored so)

\* Serialized width of a type when Cassandra treats it as fixed-length inside a vector (AbstractType.valueLengthIfFixed),
\* 0 = variable.  tinyint/smallint/date/time differ between Cassandra releases and are kept out of VecScalars.
RECURSIVE Fixed(_)
Fixed(t) == CASE IsScalar(t) -> (CASE Kind(t) = "boolean" -> 1
                                   [] Kind(t) = "int" -> 4
                                   [] Kind(t) \in {"bigint", "timestamp"} -> 8
                                   [] Kind(t) \in {"uuid", "timeuuid"} -> 16
                                   [] OTHER -> 0)
              [] Kind(t) = "vector" -> Fixed(t[2]) * t[3]
              [] OTHER -> 0

-----------------------------------------------------------------------------
\* ------------------------------------------------------------------ numbers
MinInt == (-2147483647) - 1
RECURSIVE BitLen(_)
BitLen(m) == IF m = 0 THEN 0 ELSE 1 + BitLen(m \div 2)                  \* m >= 0
\* java.math.BigInteger.bitLength: "the number of bits in the minimal two's-complement representation, excluding a sign bit"
BigBitLength(n) == IF n >= 0 THEN BitLen(n) ELSE BitLen(-(n + 1))
\* BigInteger.toByteArray: "the minimum number of bytes required to represent this BigInteger, including at least one sign
\* bit, which is (ceil((this.bitLength() + 1)/8))", big endian two's complement
VarLen(n) == BigBitLength(n) \div 8 + 1
VarInt(n) == LET b == I32(n) IN SubSeq(b, 5 - VarLen(n), 4)

\* VIntCoding.computeUnsignedVIntSize / writeUnsignedVInt for 0 <= u < 2^31
USize(u) == IF u < 128 THEN 1 ELSE IF u < 16384 THEN 2 ELSE IF u < 2097152 THEN 3 ELSE IF u < 268435456 THEN 4 ELSE 5
Marker(extra) == CASE extra = 0 -> 0 [] extra = 1 -> 128 [] extra = 2 -> 192 [] extra = 3 -> 224 [] extra = 4 -> 240
UVInt(u) == LET k == USize(u) b == U31(u) IN
            IF k = 5 THEN <<Marker(4)>> \o b
            ELSE LET body == SubSeq(b, 5 - k, 4) IN <<body[1] + Marker(k - 1)>> \o Tail(body)
\* VIntCoding.encodeZigZag64: (n << 1) ^ (n >> 63); |n| < 2^30 here
ZigZag(n) == IF n >= 0 THEN 2 * n ELSE 2 * (-(n + 1)) + 1
VInt(n)   == UVInt(ZigZag(n))

FlipTop(b) == <<(b[1] + 128) % 256>> \o Tail(b)

EncScalar(n, x) ==
    CASE n = "boolean"  -> <<IF x THEN 1 ELSE 0>>
      [] n = "tinyint"  -> <<IF x >= 0 THEN x ELSE 256 + x>>
      [] n = "smallint" -> Short(IF x >= 0 THEN x ELSE 65536 + x)
      [] n = "int"      -> I32(x)
      [] n \in {"bigint", "counter", "timestamp", "time"} -> LongS(x)
      [] n = "varint"   -> VarInt(x)
      [] n = "decimal"  -> I32(x[1]) \o VarInt(x[2])                    \* x = <<scale, unscaled>>
      [] n = "date"     -> FlipTop(I32(x))                              \* unsigned (days + 2^31)
      [] n = "duration" -> VInt(x[1]) \o VInt(x[2]) \o VInt(x[3])       \* x = <<months, days, nanoseconds>>
      [] n \in ByteLike -> x

\* ------------------------------------------------------------------ composite grammar (encoder)
CLen(pv, n) == IF pv >= 3 THEN I32(n) ELSE Short(n)         \* collection size / element length; n = -1 only for pv >= 3

RECURSIVE Enc(_, _, _)
\* element of a collection: an option, <<>> = null
Elem(t, ov, pv)  == IF ov = None THEN CLen(pv, -1)
                    ELSE LET b == Enc(t, ov[1], Max3(pv)) IN CLen(pv, Len(b)) \o b
\* component of a tuple / field of a UDT: always [int] length, nested format >= 3
Field(t, ov, pv) == IF ov = None THEN I32(-1)
                    ELSE LET b == Enc(t, ov[1], Max3(pv)) IN I32(Len(b)) \o b
VecElem(t, x, pv) == LET b == Enc(t, x, Max3(pv)) IN IF Fixed(t) # 0 THEN b ELSE UVInt(Len(b)) \o b
Enc(t, v, pv) ==
    CASE IsScalar(t) -> EncScalar(Kind(t), v)
      [] Kind(t) \in {"list", "set"} -> CLen(pv, Len(v)) \o Cat([i \in 1..Len(v) |-> Elem(t[2], v[i], pv)])
      [] Kind(t) = "map"    -> CLen(pv, Len(v)) \o
                               Cat([i \in 1..Len(v) |-> Elem(t[2], v[i][1], pv) \o Elem(t[3], v[i][2], pv)])
      [] Kind(t) \in {"tuple", "udt"} -> Cat([i \in 1..Len(v) |-> Field(t[2][i], v[i], pv)])
      [] Kind(t) = "vector" -> Cat([i \in 1..t[3] |-> VecElem(t[2], v[i], pv)])

\* A UDT value written before ALTER TYPE ... ADD has fewer fields than the type: Cassandra returns it as it was
\* written (TupleType.split: "if (!input.hasRemaining()) return Arrays.copyOfRange(components, 0, i)").  All encodings
\* of the same value: any number of trailing null fields may be absent.
LastSet(v) == IF \E i \in 1..Len(v) : v[i] # None THEN CHOOSE i \in 1..Len(v) : v[i] # None /\ \A j \in (i + 1)..Len(v) : v[j] = None
              ELSE 0
Image(t, v, pv) ==
    IF ~IsScalar(t) /\ Kind(t) = "udt"
    THEN {Cat([i \in 1..k |-> Field(t[2][i], v[i], pv)]) : k \in (IF LastSet(v) = 0 THEN 1 ELSE LastSet(v))..Len(v)}
    ELSE {Enc(t, v, pv)}

-----------------------------------------------------------------------------
\* ------------------------------------------------------------------ normalisation on decode
\* order of decoded values (Python's order on the decoded objects): numbers numerically, FALSE < TRUE, byte strings /
\* text lexicographically by byte (= by code point for UTF-8), sequences lexicographically.  Only null-free values are
\* ever ordered (set elements).
RECURSIVE LexLess(_, _)
LexLess(a, b) == IF Len(b) = 0 THEN FALSE
                 ELSE IF Len(a) = 0 THEN TRUE
                 ELSE IF a[1] # b[1] THEN a[1] < b[1]
                 ELSE LexLess(Tail(a), Tail(b))
RECURSIVE Less(_, _, _)
RECURSIVE SeqLess(_, _, _, _)
SeqLess(ts, a, b, same) ==     \* same = TRUE: all elements have type ts; otherwise ts is the sequence of component types
    IF Len(b) = 0 THEN FALSE
    ELSE IF Len(a) = 0 THEN TRUE
    ELSE LET t == IF same THEN ts ELSE Head(ts) rest == IF same THEN ts ELSE Tail(ts) IN
         IF Less(t, a[1][1], b[1][1]) THEN TRUE
         ELSE IF Less(t, b[1][1], a[1][1]) THEN FALSE
         ELSE SeqLess(rest, Tail(a), Tail(b), same)
Less(t, a, b) ==
    CASE IsScalar(t) /\ Kind(t) \in IntLike   -> a < b
      [] IsScalar(t) /\ Kind(t) = "boolean"   -> a = FALSE /\ b = TRUE
      [] IsScalar(t) /\ Kind(t) \in ByteLike  -> LexLess(a, b)
      [] ~IsScalar(t) /\ Kind(t) = "list"     -> SeqLess(t[2], a, b, TRUE)
      [] ~IsScalar(t) /\ Kind(t) \in {"tuple", "udt"} -> SeqLess(t[2], a, b, FALSE)

RECURSIVE Insert(_, _, _)
Insert(t, s, ox) == IF Len(s) = 0 THEN <<ox>>
                    ELSE IF Less(t, ox[1], s[1][1]) THEN <<ox>> \o s
                    ELSE <<s[1]>> \o Insert(t, Tail(s), ox)
RECURSIVE Sorted(_, _)
Sorted(t, s) == IF Len(s) = 0 THEN <<>> ELSE Insert(t, Sorted(t, Tail(s)), s[1])

RECURSIVE Norm(_, _)
NormOpt(t, ov) == IF ov = None THEN None ELSE Some(Norm(t, ov[1]))
Norm(t, v) ==
    CASE IsScalar(t) -> v
      [] Kind(t) = "list"   -> [i \in 1..Len(v) |-> NormOpt(t[2], v[i])]
      [] Kind(t) = "set"    -> Sorted(t[2], [i \in 1..Len(v) |-> NormOpt(t[2], v[i])])      \* sets come back sorted
      [] Kind(t) = "map"    -> [i \in 1..Len(v) |-> <<NormOpt(t[2], v[i][1]), NormOpt(t[3], v[i][2])>>]   \* wire order kept
      [] Kind(t) \in {"tuple", "udt"} -> [i \in 1..Len(v) |-> NormOpt(t[2][i], v[i])]
      [] Kind(t) = "vector" -> [i \in 1..Len(v) |-> Norm(t[2], v[i])]

-----------------------------------------------------------------------------
\* ------------------------------------------------------------------ decoder (specification level, independent walk)
\* two's complement, big endian, of 1..4 bytes
RECURSIVE Unsigned(_)
Unsigned(b) == IF Len(b) = 0 THEN 0 ELSE Unsigned(SubSeq(b, 1, Len(b) - 1)) * 256 + b[Len(b)]
Compl(b)    == [i \in 1..Len(b) |-> 255 - b[i]]
Signed(b)   == IF b[1] < 128 THEN Unsigned(b) ELSE -Unsigned(Compl(b)) - 1
SignExt(b)  == \A i \in 1..4 : b[i] = (IF b[5] < 128 THEN 0 ELSE 255)         \* an 8-byte field holding a 32-bit value

LeadingOnes(x) == IF x < 128 THEN 0 ELSE IF x < 192 THEN 1 ELSE IF x < 224 THEN 2 ELSE IF x < 240 THEN 3
                  ELSE IF x < 248 THEN 4 ELSE IF x < 252 THEN 5 ELSE IF x < 254 THEN 6 ELSE IF x < 255 THEN 7 ELSE 8
\* VIntCoding.readUnsignedVInt at position p
RdUVInt(b, p) == LET e == LeadingOnes(b[p]) first == b[p] - Marker(e) rest == Unsigned(SubSeq(b, p + 1, p + e)) IN
                 R(IF e = 4 THEN rest ELSE first * Pow(256, e) + rest, p + 1 + e)      \* e = 4: first = 0 below 2^31
UnZig(z)      == IF z % 2 = 0 THEN z \div 2 ELSE -((z - 1) \div 2) - 1
RdVInt(b, p)  == LET u == RdUVInt(b, p) IN R(UnZig(u.v), u.p)

DecScalar(n, b) ==
    CASE n = "boolean"  -> b[1] # 0
      [] n \in {"tinyint", "smallint", "int", "varint"} -> Signed(b)
      [] n \in {"bigint", "counter", "timestamp", "time"} -> Signed(SubSeq(b, 5, 8))
      [] n = "decimal"  -> <<Signed(SubSeq(b, 1, 4)), Signed(SubSeq(b, 5, Len(b)))>>
      [] n = "date"     -> Signed(FlipTop(b))
      [] n = "duration" -> LET m == RdVInt(b, 1) d == RdVInt(b, m.p) ns == RdVInt(b, d.p) IN <<m.v, d.v, ns.v>>
      [] n \in ByteLike -> b

RdCLen(b, p, pv) == IF pv >= 3 THEN RdInt(b, p) ELSE RdShort(b, p)
RECURSIVE Dec(_, _, _)
RdOpt(t, b, p, pv, wide) ==          \* a [bytes] / [short bytes] element at p -> option
    LET n == IF wide THEN RdInt(b, p) ELSE RdCLen(b, p, pv) IN
    IF n.v < 0 THEN R(None, n.p) ELSE R(Some(Dec(t, SubSeq(b, n.p, n.p + n.v - 1), Max3(pv))), n.p + n.v)
RECURSIVE RdElems(_, _, _, _, _)
RdElems(t, b, p, n, pv) ==
    IF n = 0 THEN R(<<>>, p)
    ELSE LET x == RdOpt(t, b, p, pv, FALSE) rest == RdElems(t, b, x.p, n - 1, pv) IN R(<<x.v>> \o rest.v, rest.p)
RECURSIVE RdPairs(_, _, _, _, _, _)
RdPairs(kt, vt, b, p, n, pv) ==
    IF n = 0 THEN R(<<>>, p)
    ELSE LET k == RdOpt(kt, b, p, pv, FALSE) x == RdOpt(vt, b, k.p, pv, FALSE) rest == RdPairs(kt, vt, b, x.p, n - 1, pv) IN
         R(<<<<k.v, x.v>>>> \o rest.v, rest.p)
RECURSIVE RdFields(_, _, _, _)
RdFields(ts, b, p, pv) ==            \* components present in the bytes; the rest of the type is null
    IF Len(ts) = 0 THEN R(<<>>, p)
    ELSE IF p > Len(b) THEN R([i \in 1..Len(ts) |-> None], p)
    ELSE LET x == RdOpt(Head(ts), b, p, pv, TRUE) rest == RdFields(Tail(ts), b, x.p, pv) IN R(<<x.v>> \o rest.v, rest.p)
RECURSIVE RdVec(_, _, _, _, _)
RdVec(t, b, p, n, pv) ==
    IF n = 0 THEN R(<<>>, p)
    ELSE LET w == Fixed(t)
             sz == IF w # 0 THEN R(w, p) ELSE RdUVInt(b, p)
             x == Dec(t, SubSeq(b, sz.p, sz.p + sz.v - 1), Max3(pv))
             rest == RdVec(t, b, sz.p + sz.v, n - 1, pv) IN
         R(<<x>> \o rest.v, rest.p)
\* Parse = [v |-> decoded and normalised value, p |-> position after the last byte read]
Parse(t, b, pv) ==
    CASE IsScalar(t) -> R(DecScalar(Kind(t), b), Len(b) + 1)
      [] Kind(t) = "list" -> LET n == RdCLen(b, 1, pv) IN RdElems(t[2], b, n.p, n.v, pv)
      [] Kind(t) = "set"  -> LET n == RdCLen(b, 1, pv) r == RdElems(t[2], b, n.p, n.v, pv) IN R(Sorted(t[2], r.v), r.p)
      [] Kind(t) = "map"  -> LET n == RdCLen(b, 1, pv) IN RdPairs(t[2], t[3], b, n.p, n.v, pv)
      [] Kind(t) \in {"tuple", "udt"} -> RdFields(t[2], b, 1, pv)
      [] Kind(t) = "vector" -> RdVec(t[2], b, 1, t[3], pv)
Dec(t, b, pv) == Parse(t, b, pv).v

-----------------------------------------------------------------------------
\* ------------------------------------------------------------------ value alphabets
B7 == 128   B15 == 32768   B23 == 8388608   MaxI == 2147483647
Around(p) == {p - 1, p, p + 1, 1 - p, -p, (-p) - 1}          \* both sides of a two's complement byte boundary
VarintFull == {0, 1, -1, 2, -2, 255, 256, -255, -256, -257, 65535, 65536, -65536, -65537, 16777215, 16777216, -16777216,
               -16777217, MaxI, MaxI - 1, MinInt, MinInt + 1}
              \cup Around(B7) \cup Around(B15) \cup Around(B23)
VintEdges == {0, 1, -1, 63, 64, -64, -65, 8191, 8192, -8192, -8193, 1048575, 1048576, -1048576, -1048577,
              134217727, 134217728, -134217728, -134217729, 1073741823, -1073741823}
UVals(n)  == {x \in VintEdges : IF n = 1 THEN x >= 0 ELSE x <= 0}
DurationFull == UNION {{<<x, 0, 0>>, <<0, x, 0>>, <<0, 0, x>>} : x \in VintEdges}
                \cup {<<1, 2, 3>>, <<-1, -2, -3>>, <<64, 8192, 134217728>>, <<-65, -8193, -134217729>>,
                      <<1073741823, 1073741823, 1073741823>>, <<-1073741823, -1073741823, -1073741823>>, <<12, 30, 1000000000>>}
Txt == [empty |-> <<>>, a |-> <<97>>, ab |-> <<97, 98>>, b |-> <<98>>, two |-> <<195, 169>>, three |-> <<226, 130, 172>>,
        four |-> <<240, 159, 152, 128>>, nul |-> <<97, 0, 98>>, mix |-> <<122, 195, 169, 226, 130, 172, 240, 159, 152, 128>>,
        del |-> <<127>>]
Tup(f) == f \o <<>>                       \* a function on 1..n as a plain tuple
Uuid0  == Tup([i \in 1..16 |-> 0])
UuidN  == Tup([i \in 1..16 |-> i - 1])
UuidF  == Tup([i \in 1..16 |-> 255])
Uuid1  == <<200, 0, 1, 2, 3, 4, 17, 238, 190, 86, 2, 66, 172, 18, 0, 2>>            \* a version-1 (time) uuid
Uuid4  == <<18, 52, 86, 120, 154, 188, 78, 240, 129, 35, 69, 103, 137, 171, 205, 239>> \* a version-4 uuid
Ip6(lasthi, last) == Tup([i \in 1..16 |-> IF i = 16 THEN last ELSE IF i = 15 THEN lasthi ELSE IF i = 1 THEN 32 ELSE IF i = 2 THEN 1
                                          ELSE IF i = 3 THEN 13 ELSE IF i = 4 THEN 184 ELSE 0])

\* 16-byte addresses that carry an IPv4 address in their last 32 bits: IPv4-mapped ::ffff:a.b.c.d, IPv4-compatible
\* ::a.b.c.d, the NAT64 well-known prefix 64:ff9b::a.b.c.d (RFC 6052), a documentation prefix
Low32(pre, a, b, c, d) == Tup([i \in 1..16 |-> IF i <= 12 THEN pre[i] ELSE IF i = 13 THEN a ELSE IF i = 14 THEN b ELSE IF i = 15 THEN c ELSE d])
Mapped(a, b, c, d) == Low32(<<0, 0, 0, 0, 0, 0, 0, 0, 0, 0, 255, 255>>, a, b, c, d)
Compat(a, b, c, d) == Low32(<<0, 0, 0, 0, 0, 0, 0, 0, 0, 0, 0, 0>>, a, b, c, d)
Nat64(a, b, c, d)  == Low32(<<0, 100, 255, 155, 0, 0, 0, 0, 0, 0, 0, 0>>, a, b, c, d)
Doc6(a, b, c, d)   == Low32(<<32, 1, 13, 184, 0, 0, 0, 0, 0, 0, 0, 0>>, a, b, c, d)
Full6(a, b, c, d)  == Low32(<<32, 1, 13, 184, 0, 1, 0, 2, 171, 205, 0, 4>>, a, b, c, d)

Full(n) ==
    CASE n = "boolean"  -> {TRUE, FALSE}
      [] n = "tinyint"  -> {0, 1, -1, 127, -128, 126, -127, 64, -65}
      [] n = "smallint" -> {0, 1, -1, 127, 128, -128, -129, 255, 256, -256, -257, 32767, -32768, 32766, -32767}
      [] n = "int"      -> VarintFull
      [] n \in {"bigint", "counter", "timestamp"} -> VarintFull
      [] n = "time"     -> {x \in VarintFull : x >= 0} \cup {999, 1000, 1000000, 1000000000}
      [] n = "varint"   -> VarintFull
      [] n = "decimal"  -> {<<s, u>> : s \in {0, 2, -3, 127, 128, 38}, u \in {0, 1, -1, 127, 128, -128, -129, 32768, -8388609, MaxI, MinInt}}
                            \* the [int] scale at its own boundaries (the value is unscaled * 10^-scale: scale -2^31 means
                            \* the exponent +2^31, which the harness computes exactly - the specification never negates it)
                            \cup {<<s, u>> : s \in {MinInt, MinInt + 1, -1, 1, MaxI}, u \in {1, -129}}
      [] n = "date"     -> {0, 1, -1, 127, 128, -128, -129, 19000, -719162, 2932896, 2932897, -719163, MaxI, MinInt, MaxI - 1, MinInt + 1}
      [] n = "duration" -> DurationFull
      [] n = "text"     -> {Txt.empty, Txt.a, Txt.ab, Txt.two, Txt.three, Txt.four, Txt.nul, Txt.mix}
      [] n = "ascii"    -> {Txt.empty, Txt.a, Txt.ab, Txt.nul, Txt.del}
      [] n = "blob"     -> {<<>>, <<0>>, <<255>>, <<0, 255, 128>>, <<1, 2, 3, 4>>, <<195, 40>>, Tup([i \in 1..130 |-> i % 251])}
      [] n = "uuid"     -> {Uuid0, UuidN, UuidF, Uuid1, Uuid4}
      [] n = "timeuuid" -> {Uuid1, <<0, 0, 0, 0, 0, 0, 16, 0, 128, 0, 0, 0, 0, 0, 0, 0>>}
      [] n = "inet"     -> {<<127, 0, 0, 1>>, <<0, 0, 0, 0>>, <<255, 255, 255, 255>>, <<10, 0, 0, 200>>, Ip6(0, 1), Ip6(255, 254),
                            Mapped(10, 0, 0, 1), Mapped(255, 255, 255, 254), Compat(10, 0, 0, 1), Nat64(192, 0, 2, 33),
                            Uuid0, Tup([i \in 1..16 |-> IF i = 16 THEN 1 ELSE 0]), UuidF}
Mid(n) ==
    CASE n = "boolean"  -> {TRUE, FALSE}
      [] n = "tinyint"  -> {0, 127, -128}
      [] n = "smallint" -> {0, -129, 32767}
      [] n \in {"int", "bigint", "counter", "timestamp"} -> IF Rich THEN {0, -1, 128, MinInt, 65536} ELSE {0, -1, 128, MinInt}
      [] n = "time"     -> {0, 1000, MaxI}
      [] n = "varint"   -> IF Rich THEN {0, 127, 128, -129, 8388608, MinInt} ELSE {0, 128, -129, 8388608}
      [] n = "decimal"  -> {<<0, 0>>, <<2, -129>>, <<-3, 128>>}
      [] n = "date"     -> {0, -1, MaxI}
      [] n = "duration" -> {<<0, 0, 0>>, <<1, 64, 8192>>, <<-1, -65, -134217729>>}
      [] n = "text"     -> IF Rich THEN {Txt.empty, Txt.a, Txt.two, Txt.four, Txt.ab} ELSE {Txt.empty, Txt.a, Txt.three}
      [] n = "ascii"    -> {Txt.empty, Txt.a, Txt.del}
      [] n = "blob"     -> {<<>>, <<0>>, <<255, 0>>}
      [] n = "uuid"     -> {Uuid0, Uuid4}
      [] n = "timeuuid" -> {Uuid1}
      [] n = "inet"     -> {<<127, 0, 0, 1>>, Ip6(0, 1), Mapped(10, 0, 0, 1)}
Small(n) ==
    CASE n = "boolean"  -> {TRUE, FALSE}
      [] n = "tinyint"  -> {1, -1}
      [] n = "smallint" -> {1, -129}
      [] n \in {"int", "bigint", "counter", "timestamp"} -> {-1, 256}
      [] n = "time"     -> {0, 1000}
      [] n = "varint"   -> {128, -129}
      [] n = "decimal"  -> {<<2, 1>>, <<0, -129>>}
      [] n = "date"     -> {0, -1}
      [] n = "duration" -> {<<0, 0, 0>>, <<-1, -65, -8193>>}
      [] n = "text"     -> {Txt.empty, Txt.two}
      [] n = "ascii"    -> {Txt.empty, Txt.a}
      [] n = "blob"     -> {<<>>, <<255, 0>>}
      [] n = "uuid"     -> {UuidN, Uuid4}
      [] n = "timeuuid" -> {Uuid1}
      [] n = "inet"     -> {<<127, 0, 0, 1>>, Ip6(0, 1)}
ScalarVals(n, lvl) == IF lvl = 0 THEN Full(n) ELSE IF lvl = 1 THEN Mid(n) ELSE Small(n)

\* sequences over S: every length 0..L where L is the largest length in 1..3 with |S|^L <= budget (at least 1)
SeqLen(S, lvl) == LET c == Cardinality(S) b == (IF lvl = 0 THEN B0 ELSE IF lvl = 1 THEN B1 ELSE IF lvl = 2 THEN B2 ELSE B3) IN
                  IF c * c * c <= b THEN 3 ELSE IF c * c <= b THEN 2 ELSE 1
SeqsUpTo(S, L) == UNION {[1..k -> S] : k \in 0..L}
Injective(s)   == \A i, j \in 1..Len(s) : i # j => s[i] # s[j]

\* elements of 127 / 128 bytes: the size prefix of a variable-width vector element passes from one to two vint bytes
LongElems(t, lvl) == IF lvl = 0 /\ IsScalar(t) /\ Kind(t) \in {"text", "blob"}
                     THEN {Tup([i \in 1..127 |-> 97]), Tup([i \in 1..128 |-> 98])} ELSE {}
\* Vals(t, lvl, nn): abstract values of type t at nesting level lvl; nn = TRUE: no null anywhere (values that get ordered)
RECURSIVE Vals(_, _, _)
Opts(t, lvl, nn) == {Some(x) : x \in Vals(t, lvl, nn)} \cup (IF nn THEN {} ELSE {None})
RECURSIVE Prod(_, _, _)
Prod(ts, lvl, nn) == IF Len(ts) = 0 THEN {<<>>}
                     ELSE {<<o>> \o rest : o \in Opts(Head(ts), lvl, nn), rest \in Prod(Tail(ts), lvl, nn)}
Vals(t, lvl, nn) ==
    CASE IsScalar(t) -> ScalarVals(Kind(t), lvl)
      [] Kind(t) = "list" -> LET S == Opts(t[2], lvl + 1, nn) IN SeqsUpTo(S, SeqLen(S, lvl))
      [] Kind(t) = "set"  -> LET S == Opts(t[2], lvl + 1, TRUE) IN {s \in SeqsUpTo(S, SeqLen(S, lvl)) : Injective(s)}
      [] Kind(t) = "map"  -> LET K == {k \in Opts(t[2], lvl + 1, TRUE) : Norm(t[2], k[1]) = k[1]}   \* keys: never null, and (they are
                                                                        \* looked up by their bytes) written in normal form
                                 X == Opts(t[3], lvl + 1, nn)
                                 P == {<<k, x>> : k \in K, x \in X} IN
                             {s \in SeqsUpTo(P, SeqLen(P, lvl)) : \A i, j \in 1..Len(s) : i # j => s[i][1] # s[j][1]}
      [] Kind(t) \in {"tuple", "udt"} -> Prod(t[2], lvl + 1, nn)
      [] Kind(t) = "vector" -> [1..t[3] -> Vals(t[2], lvl + 1, TRUE) \cup LongElems(t[2], lvl)]   \* a vector has no null elements

\* ------------------------------------------------------------------ type trees
SetOK  == (IntLike \ {"counter"}) \cup {"boolean", "text", "ascii", "blob", "uuid", "timeuuid"}     \* what this spec can order
TInt == Sc("int")   TText == Sc("text")
T_list   == {ListOf(Sc(s)) : s \in ElemScalars}
T_set    == {SetOf(Sc(s)) : s \in ElemScalars \cap SetOK}
T_map    == {MapOf(Sc(k), Sc(v)) : k \in KeyScalars, v \in ValScalars}
T_tuple  == {TupleOf(<<Sc(a)>>) : a \in FieldScalars} \cup {TupleOf(<<Sc(a), Sc(b)>>) : a, b \in FieldScalars}
T_udt    == {UdtOf(<<TInt, Sc(b), TText>>) : b \in FieldScalars} \cup {UdtOf(<<Sc(b)>>) : b \in FieldScalars}
T_vector == {VecOf(Sc(s), n) : s \in VecScalars, n \in 1..3}
Inner1 == {ListOf(TInt), ListOf(TText), SetOf(TText), SetOf(Sc("varint")), MapOf(TInt, TText), MapOf(TText, Sc("varint")),
           TupleOf(<<TInt, TText>>), UdtOf(<<TInt, TText>>), VecOf(TInt, 2), VecOf(TText, 2)}
Orderable1 == {ListOf(TInt), TupleOf(<<TInt, TText>>)}
T_nest2 == {ListOf(t) : t \in Inner1} \cup {SetOf(t) : t \in Orderable1}
           \cup {MapOf(TInt, t) : t \in Inner1} \cup {MapOf(t, TInt) : t \in {TupleOf(<<TInt, TText>>), ListOf(TInt), SetOf(TText)}}
           \cup {TupleOf(<<t, TInt>>) : t \in Inner1} \cup {TupleOf(<<TText, t>>) : t \in Inner1}
           \cup {UdtOf(<<TInt, t, TText>>) : t \in Inner1} \cup {VecOf(t, 2) : t \in Inner1}
Inner2 == {ListOf(ListOf(TInt)), MapOf(TInt, ListOf(TText)), TupleOf(<<ListOf(TInt), TText>>), ListOf(TupleOf(<<TInt, TText>>)),
           UdtOf(<<TInt, SetOf(TText), TText>>), VecOf(ListOf(TInt), 2), SetOf(TupleOf(<<TInt, TText>>)), TupleOf(<<TText, VecOf(TText, 2)>>)}
T_nest3 == {ListOf(t) : t \in Inner2} \cup {MapOf(TText, t) : t \in Inner2} \cup {TupleOf(<<TInt, t>>) : t \in Inner2}
           \cup {UdtOf(<<t, TInt>>) : t \in Inner2} \cup {VecOf(t, 2) : t \in Inner2}
Pick(f, S) == IF f \in Families THEN S ELSE {}
RangeSeed == <<"range">>
TzSeed    == <<"tz">>
WideSeed  == <<"wide">>
InetSeed  == <<"inettext">>
BigSeed   == <<"big">>
Types == Pick("scalar", {Sc(s) : s \in TopScalars}) \cup Pick("list", T_list) \cup Pick("set", T_set) \cup Pick("map", T_map)
         \cup Pick("tuple", T_tuple) \cup Pick("udt", T_udt) \cup Pick("vector", T_vector)
         \cup Pick("nest2", T_nest2) \cup Pick("nest3", T_nest3) \cup Pick("range", {RangeSeed}) \cup Pick("tz", {TzSeed}) \cup Pick("wide", {WideSeed}) \cup Pick("inettext", {InetSeed}) \cup Pick("big", {BigSeed})

\* what a protocol version can carry at the top level: no null element in a v1/v2 collection ([short] lengths are
\* unsigned); vectors exist only in Cassandra releases that speak v3+ (nested ones are always in the >= 3 format)
HasNullElem(t, v) == CASE Kind(t) \in {"list", "set"} -> \E i \in 1..Len(v) : v[i] = None
                       [] Kind(t) = "map" -> \E i \in 1..Len(v) : v[i][1] = None \/ v[i][2] = None
                       [] OTHER -> FALSE
Admissible(t, v, pv) == pv >= 3 \/ (IsScalar(t) \/ (Kind(t) # "vector" /\ ~HasNullElem(t, v)))

\* ------------------------------------------------------------------ out-of-range values
\* x = sign * (2^base + off): outside TLC's integers, carried symbolically; a w-bit two's complement field holds
\* -2^(w-1) .. 2^(w-1)-1 (date: days + 2^31 must fit an unsigned 32-bit field, the same interval)
\* decimal: the SCALE is an [int]; a scale outside 32 bits (Python: an exponent in -2^31 .. and beyond +2^31) must be refused
RangeBits(n) == CASE n = "tinyint" -> 8 [] n = "smallint" -> 16 [] n \in {"int", "date", "decimal"} -> 32 [] n \in {"bigint", "counter"} -> 64
RangeTypes == {"tinyint", "smallint", "int", "date", "bigint", "counter", "decimal"}
RVal(n, x) == IF n = "decimal" THEN <<x, 1>> ELSE x          \* the probe as a value of the type (decimal: <<scale, unscaled>>)
InRange(w, x) == IF x.sign = 1 THEN x.base < w - 1 ELSE x.base < w - 1 \/ (x.base = w - 1 /\ x.off = 0)
Probes(w) == {x \in [sign : {1, -1}, base : {w - 2, w - 1, w, w + 8}, off : {0, 1}] : ~InRange(w, x)}
Wrappers == {"top", "list", "tuple", "mapval", "set", "udt"}
WrapV(w, n, x) == CASE w = "top"    -> <<Sc(n), x>>
                   [] w = "list"   -> <<ListOf(Sc(n)), <<Some(x)>>>>
                   [] w = "set"    -> <<SetOf(Sc(n)), <<Some(x)>>>>
                   [] w = "tuple"  -> <<TupleOf(<<TText, Sc(n)>>), <<None, Some(x)>>>>
                   [] w = "udt"    -> <<UdtOf(<<Sc(n), TText>>), <<Some(x), None>>>>
                   [] w = "mapval" -> <<MapOf(TInt, Sc(n)), <<<<Some(1), Some(x)>>>>>>
Wrap(w, n, x) == WrapV(w, n, RVal(n, x))

\* ------------------------------------------------------------------ timestamps given as wall clock + UTC offset
\* A timestamp is the number of milliseconds since 1970-01-01T00:00Z of an INSTANT (TimestampSerializer: a long).  A
\* client may hand the driver the instant as a wall-clock reading together with the UTC offset it was read at (Python:
\* a timezone-aware datetime); the instant is wall - offset.  A reading without offset ("naive") is taken as UTC - the
\* driver's documented convention.  x = [wall |-> ms of the wall-clock fields since 1970-01-01T00:00, aware |-> BOOLEAN,
\* off |-> UTC offset in ms].  Numbers stay near the epoch: calendar arithmetic over large ranges is out of scope.
Walls    == {0, 1000, 86400123, -1000}
Offsets  == {0, 19800000, -28800000}                      \* UTC, +05:30, -08:00
Readings == {[wall |-> w, aware |-> FALSE, off |-> 0] : w \in Walls} \cup {[wall |-> w, aware |-> TRUE, off |-> o] : w \in Walls, o \in Offsets}
Instant(x) == IF x.aware THEN x.wall - x.off ELSE x.wall
TTs == Sc("timestamp")
\* <<type, value as given (readings), the same value with every reading replaced by its instant>>
TzShapes ==
    {<<TTs, x, Instant(x)>> : x \in Readings}
    \cup {<<ListOf(TTs), <<Some(x)>>, <<Some(Instant(x))>>>> : x \in Readings}
    \cup {<<ListOf(TTs), <<Some(x), Some(y)>>, <<Some(Instant(x)), Some(Instant(y))>>>> : x, y \in Readings}
    \cup {<<MapOf(TTs, TInt), <<<<Some(x), Some(1)>>>>, <<<<Some(Instant(x)), Some(1)>>>>>> : x \in Readings}
    \cup UNION {{<<MapOf(TTs, TInt), <<<<Some(x), Some(1)>>, <<Some(y), Some(-1)>>>>,
                    <<<<Some(Instant(x)), Some(1)>>, <<Some(Instant(y)), Some(-1)>>>>>> :
                      y \in {r \in Readings : Instant(r) # Instant(x)}} : x \in Readings}    \* distinct instants are distinct keys

\* ------------------------------------------------------------------ wide integers: beyond TLC's 32 bits, byte-wise
\* x = [neg |-> BOOLEAN, mag |-> the magnitude, big endian, without leading zero bytes] (zero: neg = FALSE, mag = <<>>).
\* IntegerSerializer = BigInteger.toByteArray: "the two's-complement representation ... the minimum number of bytes
\* required ... including at least one sign bit".  Computed on the bytes, all arithmetic within 0..255:
\*   positive: the magnitude, preceded by 0x00 iff the top bit of its first byte is set;
\*   negative: the two's complement of the magnitude on its own length (invert every byte, add 1 with carry from the
\*             last byte), preceded by 0xFF iff the top bit of the first byte of the result is clear.
\* LongSerializer (bigint / counter): the same number in exactly 8 bytes (sign extension); a number that needs more
\* than 8 bytes is outside the type's range and must be refused.  DecimalSerializer: [int] scale ++ varint(unscaled).
InvB(s) == Tup([i \in 1..Len(s) |-> 255 - s[i]])
RECURSIVE IncB(_)
IncB(s) == IF Len(s) = 0 THEN <<>>                         \* a carry out of the first byte is dropped
           ELSE LET f == SubSeq(s, 1, Len(s) - 1) l == s[Len(s)] IN
                IF l < 255 THEN f \o <<l + 1>> ELSE IncB(f) \o <<0>>
TwosC(s) == IncB(InvB(s))
VarW(x) == IF Len(x.mag) = 0 THEN <<0>>
           ELSE IF ~x.neg THEN (IF x.mag[1] >= 128 THEN <<0>> \o x.mag ELSE x.mag)
           ELSE LET r == TwosC(x.mag) IN IF r[1] < 128 THEN <<255>> \o r ELSE r
FitsLong(x) == Len(VarW(x)) <= 8
LongW(x) == LET v == VarW(x) IN Tup([i \in 1..(8 - Len(v)) |-> IF x.neg THEN 255 ELSE 0]) \o v
\* decoder: the sign is the top bit; a negative number's magnitude is the two's complement again
RECURSIVE StripZ(_)
StripZ(s) == IF Len(s) > 0 /\ s[1] = 0 THEN StripZ(Tail(s)) ELSE s
DecVarW(b) == IF b[1] < 128 THEN [neg |-> FALSE, mag |-> StripZ(b)] ELSE [neg |-> TRUE, mag |-> StripZ(TwosC(b))]

TVarint == Sc("varint")
EncWide(t, v, p) ==
    CASE t = TVarint -> VarW(v)
      [] t = Sc("bigint") -> LongW(v)
      [] t = Sc("decimal") -> I32(v[1]) \o VarW(v[2])
      [] t = ListOf(TVarint) -> CLen(p, Len(v)) \o Cat([i \in 1..Len(v) |-> LET b == VarW(v[i][1]) IN CLen(p, Len(b)) \o b])
RECURSIVE RdWList(_, _, _, _)
RdWList(b, q, n, p) == IF n = 0 THEN R(<<>>, q)
                       ELSE LET l == RdCLen(b, q, p) x == DecVarW(SubSeq(b, l.p, l.p + l.v - 1))
                                rest == RdWList(b, l.p + l.v, n - 1, p) IN R(<<Some(x)>> \o rest.v, rest.p)
ParseWide(t, b, p) ==
    CASE t = TVarint -> R(DecVarW(b), Len(b) + 1)
      [] t = Sc("bigint") -> R(DecVarW(b), Len(b) + 1)
      [] t = Sc("decimal") -> R(<<Signed(SubSeq(b, 1, 4)), DecVarW(SubSeq(b, 5, Len(b)))>>, Len(b) + 1)
      [] t = ListOf(TVarint) -> LET n == RdCLen(b, 1, p) IN RdWList(b, n.p, n.v, p)

\* magnitudes 2^(8k-1)-1, 2^(8k-1), 2^(8k-1)+1 for k = 1..9 (every byte-length boundary up to 72 bits, incl. int64's) + patterns
EdgeMags(k) == {Tup([i \in 1..k |-> IF i = 1 THEN 127 ELSE 255]), Tup([i \in 1..k |-> IF i = 1 THEN 128 ELSE 0]),
                Tup([i \in 1..k |-> IF i = k THEN (IF k = 1 THEN 129 ELSE 1) ELSE IF i = 1 THEN 128 ELSE 0])}
WMags == UNION {EdgeMags(k) : k \in 1..9}
         \cup {<<1>>, <<255>>, <<1, 0>>, <<255, 255>>, <<1, 0, 0, 0, 0>>, <<255, 255, 255, 255, 255, 255, 255, 255>>,
               <<1, 0, 0, 0, 0, 0, 0, 0, 0>>, <<18, 52, 86, 120, 154, 188, 222, 240>>, <<129, 35, 69, 103, 137, 171, 205, 239>>,
               <<222, 173, 190, 239, 0, 1, 2, 3, 4>>, <<1, 255, 255, 255, 255, 255, 255, 255>>}
WZero == [neg |-> FALSE, mag |-> <<>>]
WVals == {WZero} \cup {[neg |-> n, mag |-> m] : n \in BOOLEAN, m \in WMags}
WFew  == {x \in WVals : x.mag \in {<<>>, <<255>>} \cup EdgeMags(8) \cup EdgeMags(9)}
\* <<type, value>>
WideShapes == {<<TVarint, x>> : x \in WVals} \cup {<<Sc("bigint"), x>> : x \in WVals}
              \cup {<<Sc("decimal"), <<sc, x>>>> : sc \in {0, 2, -3}, x \in WVals}
              \cup {<<ListOf(TVarint), <<Some(x)>>>> : x \in WVals}
              \cup {<<ListOf(TVarint), <<Some(x), Some(y)>>>> : x, y \in WFew}
WideInRange(t, v) == t # Sc("bigint") \/ FitsLong(v)

\* ------------------------------------------------------------------ inet addresses given as text
\* The wire value of an inet is the 4 or 16 address bytes; a client names the address by text.  RFC 4291 section 2.2
\* form 3 (and RFC 5952 section 5) writes an IPv6 address that embeds an IPv4 address as x:x:x:x:x:x:d.d.d.d - six
\* hexadecimal 16-bit groups and the last 32 bits as a dotted quad - with "::" standing for one run of zero groups.
\* Text is a sequence of ASCII codes.  Only this mixed notation is specified here; the canonical text of the other
\* addresses (and the text expected back from a decode) is the platform's inet_ntop, taken by the harness.
HexCh(d) == IF d < 10 THEN 48 + d ELSE 87 + d                  \* '0'..'9', 'a'..'f'
RECURSIVE HexNum(_)
HexNum(n) == IF n < 16 THEN <<HexCh(n)>> ELSE HexNum(n \div 16) \o <<HexCh(n % 16)>>
RECURSIVE DecNum(_)
DecNum(n) == IF n < 10 THEN <<48 + n>> ELSE DecNum(n \div 10) \o <<48 + (n % 10)>>
ColonCh == 58
DotCh   == 46
Grp(b, i) == b[2 * i - 1] * 256 + b[2 * i]
Quad(b) == DecNum(b[13]) \o <<DotCh>> \o DecNum(b[14]) \o <<DotCh>> \o DecNum(b[15]) \o <<DotCh>> \o DecNum(b[16])
\* uncompressed: x:x:x:x:x:x:d.d.d.d
MixedFull(b) == Cat([i \in 1..6 |-> HexNum(Grp(b, i)) \o <<ColonCh>>]) \o Quad(b)
\* one run of zero groups written "::" (only the shapes below)
ZeroGroups(b, S) == \A i \in S : Grp(b, i) = 0
HasShort(b) == ZeroGroups(b, 1..5) \/ (ZeroGroups(b, 3..6) /\ Grp(b, 1) # 0 /\ Grp(b, 2) # 0)
MixedShort(b) == IF ZeroGroups(b, 1..6) THEN <<ColonCh, ColonCh>> \o Quad(b)                                  \* ::a.b.c.d
                 ELSE IF ZeroGroups(b, 1..5) THEN <<ColonCh, ColonCh>> \o HexNum(Grp(b, 6)) \o <<ColonCh>> \o Quad(b)   \* ::ffff:a.b.c.d
                 ELSE HexNum(Grp(b, 1)) \o <<ColonCh>> \o HexNum(Grp(b, 2)) \o <<ColonCh, ColonCh>> \o Quad(b)    \* 64:ff9b::a.b.c.d
\* specification-level reader of the notation (independent of the writers above)
RECURSIVE SplitAt(_, _)
SplitAt(s, c) == IF \A i \in 1..Len(s) : s[i] # c THEN <<s>>
                 ELSE LET k == CHOOSE i \in 1..Len(s) : s[i] = c /\ \A j \in 1..(i - 1) : s[j] # c IN
                      <<SubSeq(s, 1, k - 1)>> \o SplitAt(SubSeq(s, k + 1, Len(s)), c)
HexDigitVal(ch) == IF ch <= 57 THEN ch - 48 ELSE ch - 87
RECURSIVE HexVal(_)
HexVal(s) == IF Len(s) = 0 THEN 0 ELSE HexVal(SubSeq(s, 1, Len(s) - 1)) * 16 + HexDigitVal(s[Len(s)])
RECURSIVE DecVal(_)
DecVal(s) == IF Len(s) = 0 THEN 0 ELSE DecVal(SubSeq(s, 1, Len(s) - 1)) * 10 + (s[Len(s)] - 48)
ReadMixed(text) ==
    LET f == SplitAt(text, ColonCh)
        q == SplitAt(f[Len(f)], DotCh)
        hexf == SubSeq(f, 1, Len(f) - 1)
        gap == {i \in 1..Len(hexf) : Len(hexf[i]) = 0}
        left == IF gap = {} THEN hexf ELSE SubSeq(hexf, 1, (CHOOSE i \in gap : \A j \in gap : i <= j) - 1)
        right == IF gap = {} THEN <<>> ELSE SelectSeq(SubSeq(hexf, (CHOOSE i \in gap : \A j \in gap : i <= j), Len(hexf)), LAMBDA x : Len(x) > 0)
        groups == [i \in 1..Len(left) |-> HexVal(left[i])] \o [i \in 1..(6 - Len(left) - Len(right)) |-> 0] \o [i \in 1..Len(right) |-> HexVal(right[i])]
    IN Cat([i \in 1..6 |-> <<groups[i] \div 256, groups[i] % 256>>]) \o [i \in 1..4 |-> DecVal(q[i])]
InetAddrs == {Mapped(10, 0, 0, 1), Mapped(255, 255, 255, 254), Compat(10, 0, 0, 1), Nat64(192, 0, 2, 33), Doc6(1, 2, 3, 4), Full6(5, 6, 7, 8)}
InetReadings == {[addr |-> b, text |-> MixedFull(b)] : b \in InetAddrs}
                \cup {[addr |-> b, text |-> MixedShort(b)] : b \in {x \in InetAddrs : HasShort(x)}}
ASSUME Lemma_MixedTextReadsBack == \A x \in InetReadings : ReadMixed(x.text) = x.addr /\ Len(x.addr) = 16
ASSUME Vector_MixedText ==          \* "::ffff:10.0.0.1", "64:ff9b::192.0.2.33", "2001:db8:0:0:0:0:1.2.3.4"
    /\ MixedShort(Mapped(10, 0, 0, 1)) = <<58, 58, 102, 102, 102, 102, 58, 49, 48, 46, 48, 46, 48, 46, 49>>
    /\ MixedShort(Nat64(192, 0, 2, 33)) = <<54, 52, 58, 102, 102, 57, 98, 58, 58, 49, 57, 50, 46, 48, 46, 50, 46, 51, 51>>
    /\ MixedFull(Doc6(1, 2, 3, 4)) = <<50, 48, 48, 49, 58, 100, 98, 56, 58, 48, 58, 48, 58, 48, 58, 48, 58, 49, 46, 50, 46, 51, 46, 52>>
TInet == Sc("inet")
\* <<type, value as given (address + text), the same value with every reading replaced by its address bytes>>
InetShapes ==
    {<<TInet, x, x.addr>> : x \in InetReadings}
    \cup {<<ListOf(TInet), <<Some(x)>>, <<Some(x.addr)>>>> : x \in InetReadings}
    \cup {<<ListOf(TInet), <<Some(x), None, Some(x)>>, <<Some(x.addr), None, Some(x.addr)>>>> : x \in InetReadings}
    \cup {<<SetOf(TInet), <<Some(x)>>, <<Some(x.addr)>>>> : x \in InetReadings}
    \cup {<<MapOf(TInet, TInt), <<<<Some(x), Some(1)>>>>, <<<<Some(x.addr), Some(1)>>>>>> : x \in InetReadings}
    \cup {<<MapOf(TInt, TInet), <<<<Some(-1), Some(x)>>>>, <<<<Some(-1), Some(x.addr)>>>>>> : x \in InetReadings}
    \cup {<<TupleOf(<<TInt, TInet>>), <<None, Some(x)>>, <<None, Some(x.addr)>>>> : x \in InetReadings}
    \cup {<<UdtOf(<<TInet, TText>>), <<Some(x), None>>, <<Some(x.addr), None>>>> : x \in InetReadings}

\* ------------------------------------------------------------------ large collections and elements, described compactly
\* The boundaries of the length fields themselves: a v1/v2 collection size / element length is an UNSIGNED [short]
\* (native_protocol_v2.spec section 6: "[short] n ... followed by n elements", "[short bytes]"), so 32767 / 32768 / 65535
\* elements, and elements of 32767 / 32768 / 65535 bytes, are legal; the size of a variable-width vector element is an
\* unsigned vint whose length changes at 2^7 and 2^14 (VIntCoding.computeUnsignedVIntSize: one byte per 7 bits).
\* Writing such values out as explicit sequences is pointless: the value is [kind, n, elem] and the encoding is
\* [pre, n, unit, post] = the bytes pre ++ (unit repeated n times) ++ post; the harness expands both.
\*   "count":    a list of n elements, each equal to elem
\*   "elemsize": a list of two elements: n times the byte elem[1], then the one-byte element <<98>>
\*   "vecsize":  a vector of dimension 2 with the same two elements (variable-width element type)
BigCounts == {32767, 32768, 65535}
BigSizes  == {32767, 32768, 65535}
VecSizes  == {127, 128, 8191, 8192, 16383, 16384}
Packed(pre, n, unit, post) == [pre |-> pre, n |-> n, unit |-> unit, post |-> post]
ElemByte(e) == IF e = "text" THEN 97 ELSE 200
BigShapes(p) ==
    {[kind |-> "count", ty |-> ListOf(Sc(e)), n |-> N, elem |-> (IF e = "text" THEN <<>> ELSE <<200>>),
      enc |-> LET x == IF e = "text" THEN <<>> ELSE <<200>> IN Packed(CLen(p, N), N, CLen(p, Len(x)) \o x, <<>>)] :
        e \in {"text", "blob"}, N \in BigCounts}
    \cup {[kind |-> "elemsize", ty |-> ListOf(Sc(e)), n |-> S, elem |-> <<ElemByte(e)>>,
           enc |-> Packed(CLen(p, 2) \o CLen(p, S), S, <<ElemByte(e)>>, CLen(p, 1) \o <<98>>)] : e \in {"text", "blob"}, S \in BigSizes}
    \cup (IF p >= 3 THEN {[kind |-> "vecsize", ty |-> VecOf(Sc(e), 2), n |-> S, elem |-> <<ElemByte(e)>>,
                           enc |-> Packed(UVInt(S), S, <<ElemByte(e)>>, UVInt(1) \o <<98>>)] : e \in {"text", "blob"}, S \in VecSizes}
           ELSE {})

-----------------------------------------------------------------------------
VARIABLES ty, pv, val, enc, img, norm, expect
vars == <<ty, pv, val, enc, img, norm, expect>>

Init == /\ ty \in Types
        /\ pv = 0 /\ val = <<>> /\ enc = <<>> /\ img = {} /\ norm = <<>> /\ expect = "seed"

Case == /\ expect = "seed" /\ ty \notin {RangeSeed, TzSeed, WideSeed, InetSeed, BigSeed}
        /\ \E p \in PVs, v \in Vals(ty, 0, FALSE) :
              /\ Admissible(ty, v, p)
              /\ pv' = p /\ val' = v
              /\ enc' = Enc(ty, v, p)
              /\ img' = Image(ty, v, p)
              /\ norm' = Norm(ty, v)
              /\ expect' = "ok"
              /\ UNCHANGED ty

RangeCase == /\ expect = "seed" /\ ty = RangeSeed
             /\ \E p \in PVs, n \in RangeTypes, w \in Wrappers :
                  \E x \in Probes(RangeBits(n)) :
                    /\ ~(w = "set" /\ n = "counter") /\ ~(n = "decimal" /\ w \notin {"top", "list"})
                    /\ pv' = p
                    /\ ty' = Wrap(w, n, x)[1] /\ val' = Wrap(w, n, x)[2]
                    /\ enc' = <<>> /\ img' = {} /\ norm' = <<>>
                    /\ expect' = "raise"

\* A result cell that is null ([bytes] of length -1) or empty (length 0).  Null is null for every type.  An empty cell is
\* the empty string for the string-like types; for every other type the driver documents that it "normally returns None"
\* (cqltypes: support_empty_values) - the legacy Thrift "empty" value.
CellCase == /\ expect = "seed" /\ ty \notin {RangeSeed, TzSeed, WideSeed, InetSeed, BigSeed}
            /\ \E p \in PVs, k \in {"null", "empty"} :
                  /\ pv' = p /\ expect' = k
                  /\ norm' = IF k = "empty" /\ IsScalar(ty) /\ Kind(ty) \in {"text", "ascii", "blob"} THEN Some(<<>>) ELSE None
                  /\ UNCHANGED <<ty, val, enc, img>>

\* val keeps the readings as given; the bytes, and what comes back (a naive UTC reading), are those of the instants
TzCase == /\ expect = "seed" /\ ty = TzSeed
          /\ \E p \in PVs, sh \in TzShapes :
                /\ pv' = p /\ ty' = sh[1] /\ val' = sh[2]
                /\ enc' = Enc(sh[1], sh[3], p)
                /\ img' = Image(sh[1], sh[3], p)
                /\ norm' = Norm(sh[1], sh[3])
                /\ expect' = "ok"

\* expect = "wide": like "ok" (the harness treats it so), but judged on the specification by the byte-wise invariants
\* below; "wraise": a number outside bigint's range must be refused (like "raise")
WideCase == /\ expect = "seed" /\ ty = WideSeed
            /\ \E p \in PVs, sh \in WideShapes :
                  /\ pv' = p /\ ty' = sh[1] /\ val' = sh[2]
                  /\ IF WideInRange(sh[1], sh[2])
                     THEN /\ enc' = EncWide(sh[1], sh[2], p) /\ img' = {EncWide(sh[1], sh[2], p)}
                          /\ norm' = sh[2] /\ expect' = "wide"
                     ELSE /\ enc' = <<>> /\ img' = {} /\ norm' = <<>> /\ expect' = "wraise"

\* val keeps the text as given; the bytes, and what comes back, are those of the address
InetTextCase == /\ expect = "seed" /\ ty = InetSeed
                /\ \E p \in PVs, sh \in InetShapes :
                      /\ Admissible(sh[1], sh[3], p)
                      /\ pv' = p /\ ty' = sh[1] /\ val' = sh[2]
                      /\ enc' = Enc(sh[1], sh[3], p)
                      /\ img' = Image(sh[1], sh[3], p)
                      /\ norm' = Norm(sh[1], sh[3])
                      /\ expect' = "ok"

\* expect = "big": like "ok" once the harness has expanded value and bytes; judged on the specification by BigOK
BigCase == /\ expect = "seed" /\ ty = BigSeed
           /\ \E p \in PVs : \E sh \in BigShapes(p) :
                 /\ pv' = p /\ ty' = sh.ty
                 /\ val' = [kind |-> sh.kind, n |-> sh.n, elem |-> sh.elem]
                 /\ enc' = sh.enc /\ img' = {sh.enc}
                 /\ norm' = [kind |-> sh.kind, n |-> sh.n, elem |-> sh.elem]
                 /\ expect' = "big"

Next == Case \/ RangeCase \/ CellCase \/ TzCase \/ WideCase \/ InetTextCase \/ BigCase
Spec == Init /\ [][Next]_vars

-----------------------------------------------------------------------------
\* ------------------------------------------------------------------ invariants on the specification itself
IsBytes(b) == \A i \in 1..Len(b) : b[i] \in 0..255
TypeOK == /\ expect \in {"seed", "ok", "raise", "null", "empty", "wide", "wraise", "big"}
          /\ expect = "wide" => pv \in PVs /\ IsBytes(enc) /\ img = {enc}
          /\ expect = "ok" => pv \in PVs /\ IsBytes(enc) /\ enc \in img /\ \A e \in img : IsBytes(e)

\* the decoder reads every encoding in Cassandra's image back as the normalised value ...
RoundTrip == expect = "ok" => \A e \in img : Dec(ty, e, pv) = norm
\* ... consuming exactly the bytes there are: every size / length prefix is consistent with what follows
LengthConsistent == expect = "ok" => \A e \in img : Parse(ty, e, pv).p = Len(e) + 1
FixedWidths == expect = "ok" /\ Fixed(ty) # 0 => Len(enc) = Fixed(ty)
NormIdempotent == expect = "ok" => Norm(ty, norm) = norm

\* minimality of the two's complement varint (no redundant leading 0x00 / 0xff), and it decodes to the number
MinimalVar(b) == Len(b) >= 1 /\ (Len(b) > 1 => ~(b[1] = 0 /\ b[2] < 128) /\ ~(b[1] = 255 /\ b[2] >= 128))
VarintMinimal ==
    expect = "ok" /\ IsScalar(ty) =>
        /\ Kind(ty) = "varint"  => MinimalVar(enc) /\ Signed(enc) = val
        /\ Kind(ty) = "decimal" => MinimalVar(SubSeq(enc, 5, Len(enc))) /\ Len(enc) >= 5
\* canonical vints: the unary prefix announces exactly the bytes that follow and no shorter form holds the value
CanonVInt(b, p) == LET e == LeadingOnes(b[p]) u == RdUVInt(b, p) IN
                   /\ u.p <= Len(b) + 1
                   /\ e > 0 => u.v >= (IF e = 1 THEN 128 ELSE IF e = 2 THEN 16384 ELSE IF e = 3 THEN 2097152 ELSE 268435456)
VintCanonical ==
    expect = "ok" /\ IsScalar(ty) /\ Kind(ty) = "duration" =>
        LET a == RdUVInt(enc, 1) b == RdUVInt(enc, a.p) c == RdUVInt(enc, b.p) IN
        /\ CanonVInt(enc, 1) /\ CanonVInt(enc, a.p) /\ CanonVInt(enc, b.p) /\ c.p = Len(enc) + 1
\* width of the top-level collection header follows the protocol version; a null element is the length -1
WidthRule ==
    expect = "ok" /\ ~IsScalar(ty) /\ Kind(ty) \in {"list", "set", "map"} =>
        IF pv >= 3 THEN RdInt(enc, 1).v = Len(val) ELSE RdShort(enc, 1).v = Len(val)
RaiseJustified ==
    expect = "raise" => \E n \in RangeTypes, w \in Wrappers : \E x \in Probes(RangeBits(n)) :
                            Wrap(w, n, x) = <<ty, val>> /\ ~InRange(RangeBits(n), x)

\* ------------------------------------------------------------------ wide integers
WideNums(t, v) == CASE t = Sc("decimal") -> {v[2]} [] t = ListOf(TVarint) -> {v[i][1] : i \in 1..Len(v)} [] OTHER -> {v}
WideRoundTrip == expect = "wide" => ParseWide(ty, enc, pv) = R(norm, Len(enc) + 1)
\* no redundant leading 0x00 / 0xFF; -2^(8k-1) is exactly the k bytes 80 00 .. 00; 2^(8k-1) needs k+1 bytes
WideMinimal == expect = "wide" => \A x \in WideNums(ty, val) :
                   /\ MinimalVar(VarW(x))
                   /\ (x.mag \in UNION {{Tup([i \in 1..k |-> IF i = 1 THEN 128 ELSE 0])} : k \in 1..9}) =>
                          (IF x.neg THEN VarW(x) = x.mag ELSE VarW(x) = <<0>> \o x.mag)
\* below 2^31 the byte-wise definition is the arithmetic one (BigInteger.bitLength) used for the 32-bit alphabets
WideAgrees32 == expect = "wide" => \A x \in WideNums(ty, val) :
                   (Len(x.mag) <= 3 \/ (Len(x.mag) = 4 /\ x.mag[1] < 128)) =>
                       VarW(x) = VarInt(IF x.neg THEN -Unsigned(x.mag) ELSE Unsigned(x.mag))
WideLong == /\ expect = "wide" /\ ty = Sc("bigint") => Len(enc) = 8 /\ FitsLong(val) /\ DecVarW(enc) = val
            /\ expect = "wraise" => ty = Sc("bigint") /\ Len(VarW(val)) > 8
Witness_WideNeg8 == ~(expect = "wide" /\ ty = TVarint /\ val.neg /\ Len(enc) = 8)
Witness_Wide9    == ~(expect = "wide" /\ ty = Sc("decimal") /\ Len(enc) = 13)
Witness_WideRaise == ~(expect = "wraise")

\* ------------------------------------------------------------------ large collections / elements
\* the header fields read back (unsigned on v1/v2) as the count / the sizes the body then has; the vint is canonical
BigOK == expect = "big" =>
    LET w == IF pv >= 3 THEN 4 ELSE 2 IN
    /\ IsBytes(enc.pre) /\ IsBytes(enc.unit) /\ IsBytes(enc.post) /\ enc.n = val.n /\ img = {enc} /\ norm = val
    /\ val.kind = "count" =>
           /\ RdCLen(enc.pre, 1, pv) = R(val.n, w + 1) /\ Len(enc.pre) = w
           /\ RdCLen(enc.unit, 1, pv).v = Len(val.elem) /\ SubSeq(enc.unit, w + 1, Len(enc.unit)) = val.elem /\ enc.post = <<>>
    /\ val.kind = "elemsize" =>
           /\ RdCLen(enc.pre, 1, pv).v = 2 /\ RdCLen(enc.pre, w + 1, pv) = R(val.n, 2 * w + 1) /\ Len(enc.pre) = 2 * w
           /\ enc.unit = val.elem /\ RdCLen(enc.post, 1, pv).v = 1 /\ Len(enc.post) = w + 1
    /\ val.kind = "vecsize" =>
           /\ RdUVInt(enc.pre, 1) = R(val.n, Len(enc.pre) + 1) /\ CanonVInt(enc.pre, 1)
           /\ Len(enc.pre) = (IF val.n < 128 THEN 1 ELSE IF val.n < 16384 THEN 2 ELSE 3)
           /\ enc.unit = val.elem /\ enc.post = <<1, 98>>
Witness_BigCountV2 == ~(expect = "big" /\ pv < 3 /\ val.kind = "count" /\ val.n > 32767)
Witness_BigVec14   == ~(expect = "big" /\ val.kind = "vecsize" /\ val.n = 8192)

\* ------------------------------------------------------------------ vacuity witnesses (TLC must VIOLATE each)
\* a reading with an offset is encoded as its instant: the same bytes as the naive reading of wall - offset
Witness_AwareOffset == ~(expect = "ok" /\ ty = TTs /\ val \in Readings /\ val.aware /\ val.off # 0 /\ Signed(SubSeq(enc, 5, 8)) # val.wall)
Witness_NullField   == ~(expect = "ok" /\ ~IsScalar(ty) /\ Kind(ty) = "tuple" /\ \E i \in 1..Len(val) : val[i] = None)
Witness_ShortUdt    == ~(expect = "ok" /\ Cardinality(img) > 1)
Witness_V2Width     == ~(expect = "ok" /\ pv < 3 /\ ~IsScalar(ty) /\ Kind(ty) = "list" /\ Len(val) > 0)
Witness_Vint5       == ~(expect = "ok" /\ ty = Sc("duration") /\ Len(enc) >= 7)
Witness_Varint3     == ~(expect = "ok" /\ ty = Sc("varint") /\ Len(enc) = 3)
Witness_Raise       == ~(expect = "raise")
Witness_LongVecElem == ~(expect = "ok" /\ ~IsScalar(ty) /\ Kind(ty) = "vector" /\ ty[2] \in {Sc("text"), Sc("blob")}
                         /\ \E i \in 1..Len(val) : Len(val[i]) >= 128)
Witness_VarVector   == ~(expect = "ok" /\ ~IsScalar(ty) /\ Kind(ty) = "vector" /\ Fixed(ty[2]) = 0)
=============================================================================
