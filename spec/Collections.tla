---------------------------- MODULE Collections ----------------------------
(* The driver's collection types as sequential objects (property C33).       *)
(*                                                                            *)
(* Code anchors (cassandra/util.py):                                          *)
(*   SortedSet (alias sortedset)   430-653   sorted list + bisect             *)
(*   OrderedMap                    656-764   list of pairs + index by         *)
(*                                           serialized key (pickle)          *)
(*   OrderedMapSerializedKey       767-779   same, key = CQL encoding         *)
(*                                                                            *)
(* The state is the mathematical model only:                                  *)
(*   Kind = "set":  S, a subset of Elems = 1..N (the order is the integer     *)
(*                  order; the harness instantiates 1..N by ascending ints,   *)
(*                  tuples and unhashable lists);                             *)
(*   Kind = "map":  M, a sequence of <<k, v>> with pairwise distinct keys     *)
(*                  (k in 1..N, v in Vals; a model key stands for one CQL     *)
(*                  encoding, possibly of several Python values).             *)
(* Every operation of the classes is one action; `act` records the           *)
(* operation, its argument and its observable outcome                         *)
(*      [name, arg, res, exc]     exc = "" or the exception class name        *)
(* so that a replayer can execute the same call on the real object and        *)
(* compare result and state (spec -> code).  This is the INTENDED behaviour   *)
(* (set algebra, ascending iteration, insertion-ordered mapping), written     *)
(* from the class documentation / unit tests, not from the method bodies.     *)
(*                                                                            *)
(* Mutators count towards MaxSteps.  Observers leave the model untouched.     *)
(* With Interleave = FALSE an observer step is terminal (done = TRUE): TLC    *)
(* explores every sequence of <= MaxSteps mutators followed by at most one    *)
(* observer, which keeps the graph small; the replayer, having checked after  *)
(* each observer that the real object's state did not change, fires all       *)
(* observer edges of a node on the same live object and goes on.  With        *)
(* Interleave = TRUE observers are ordinary steps (every sequence of          *)
(* <= MaxSteps operations of both sorts).  ObserveAt restricts the depths at  *)
(* which observers are offered.  For sets {0, 1, MaxSteps} loses no (contents,*)
(* last mutator, observer) combination: a shorter history can be padded with  *)
(* clear() in front and its new(T) replaced by update(T), so the same pair    *)
(* recurs at depth MaxSteps; for maps this is a coverage heuristic.           *)
EXTENDS Integers, Sequences, FiniteSets, TLC

CONSTANTS Kind,        \* "set" or "map"
          N,           \* elements / keys are 1..N
          Operands,    \* subsets of 1..N offered as the other operand of binary set operations (the replayer
                       \* passes T as SortedSet / set / frozenset / list and as a list repeating elements of T)
          Vals,        \* map values
          MaxNew,      \* map: longest pair list given to the constructor
          FullMapOps,  \* map: TRUE = compare with every map of <= 2 entries and with variants of the current one,
                       \*      FALSE = with the variants only
          MaxSteps,    \* bound on the number of mutating operations (all operations when Interleave)
          Interleave,  \* TRUE: observers are ordinary steps; FALSE: an observer ends the behaviour
          ObserveAt    \* Interleave = FALSE: observers are offered in states with steps \in ObserveAt

ASSUME Kind \in {"set", "map"} /\ N \in 1..5 /\ Operands \subseteq SUBSET (1..N)
ASSUME Cardinality(Vals) >= 2 /\ MaxSteps \in Nat /\ Interleave \in BOOLEAN /\ FullMapOps \in BOOLEAN
ASSUME ObserveAt \subseteq 0..MaxSteps

Elems   == 1..N
Keys    == 1..N
Pairs   == Keys \X Vals
Indexes == (0 - (N + 1))..N                 \* Python subscripts tried, both signs, some out of range
Slices  == {<<0, 1>>, <<1, 3>>, <<0, N>>, <<2, 2>>}     \* s[lo:hi], non-negative bounds, clamped like Python

VARIABLES S, M, act, steps, done,
          R,         \* the set returned by a set-valued call, kept as a SECOND object: <<>> (none) or <<contents>>
          C          \* a copy of the map made by constructing another ordered map from it: <<>> (none) or <<pairs>>
vars == <<S, M, act, steps, done, R, C>>

None == "None"
\* pos: for the map writes, the 1-based position written / removed (0 otherwise); not an observable of one
\* call, only used by the witnesses below
AP(name, arg, res, exc, pos) == [name |-> name, arg |-> arg, res |-> res, exc |-> exc, pos |-> pos]
A(name, arg, res, exc) == AP(name, arg, res, exc, 0)

----------------------------------------------------------------------------
(* Sets                                                                     *)
Min(T) == CHOOSE x \in T : \A y \in T : x <= y
Max(T) == CHOOSE x \in T : \A y \in T : y <= x

\* iteration order of the set T: the element with i-1 smaller ones comes i-th
Asc(T) == [i \in 1..Cardinality(T) |-> CHOOSE x \in T : Cardinality({y \in T : y < x}) = i - 1]
Reverse(s) == [i \in 1..Len(s) |-> s[Len(s) + 1 - i]]
Range(s) == {s[i] : i \in 1..Len(s)}

\* Python subscript i on a sequence of length n -> 1-based position, 0 when out of range
Pos(i, n) == LET j == IF i < 0 THEN i + n ELSE i IN IF j >= 0 /\ j < n THEN j + 1 ELSE 0
\* Python slice [lo:hi] (0 <= lo, 0 <= hi) of a sequence
ClampHi(hi, n) == IF hi > n THEN n ELSE hi
SliceOf(s, lo, hi) == SubSeq(s, lo + 1, ClampHi(hi, Len(s)))
SlicePositions(n, lo, hi) == (lo + 1)..ClampHi(hi, n)

Union(X, T)   == X \cup T
Inter(X, T)   == X \cap T
Diff(X, T)    == X \ T
SymDiff(X, T) == (X \ T) \cup (T \ X)
Subset(X, T)  == X \subseteq T
Proper(X, T)  == X \subseteq T /\ X # T
Disjoint(X, T) == X \cap T = {}

----------------------------------------------------------------------------
(* Maps                                                                     *)
KeysOf(m) == {m[i][1] : i \in 1..Len(m)}
DistinctKeys(m) == \A i, j \in 1..Len(m) : m[i][1] = m[j][1] => i = j
Index(m, k) == IF k \in KeysOf(m) THEN CHOOSE i \in 1..Len(m) : m[i][1] = k ELSE 0
Insert(m, k, v) == IF Index(m, k) # 0 THEN [m EXCEPT ![Index(m, k)] = <<k, v>>]    \* keeps its position
                   ELSE Append(m, <<k, v>>)
RemoveAt(s, p) == SubSeq(s, 1, p - 1) \o SubSeq(s, p + 1, Len(s))
RECURSIVE Build(_, _)
Build(m, ps) == IF ps = <<>> THEN m ELSE Build(Insert(m, Head(ps)[1], Head(ps)[2]), Tail(ps))
Front(s) == SubSeq(s, 1, Len(s) - 1)
OtherVal(v) == CHOOSE w \in Vals : w # v
FlipVal(m, i) == [m EXCEPT ![i] = <<m[i][1], OtherVal(m[i][2])>>]
Swap12(m) == [m EXCEPT ![1] = m[2], ![2] = m[1]]
AsFun(m) == [k \in KeysOf(m) |-> m[Index(m, k)][2]]               \* the mapping, order forgotten

PairSeqs(n) == UNION {[1..l -> Pairs] : l \in 0..n}
SmallMaps == {m \in PairSeqs(2) : DistinctKeys(m)}          \* constant
Variants(m) ==
    {m, Reverse(m), <<>>}
    \cup (IF m # <<>> THEN {Front(m), Tail(m), FlipVal(m, 1), FlipVal(m, Len(m))} ELSE {})
    \cup (IF Len(m) >= 2 THEN {Swap12(m)} ELSE {})
    \cup {Append(m, <<k, CHOOSE v \in Vals : TRUE>>) : k \in Keys \ KeysOf(m)}
MapOperands(m) == IF FullMapOps THEN SmallMaps \cup Variants(m) ELSE Variants(m)
NewArgs == IF Kind = "map" THEN PairSeqs(MaxNew) ELSE {}     \* pair lists given to the constructor (constant)

----------------------------------------------------------------------------
Init == /\ S = {} /\ M = <<>> /\ act = A("init", None, None, "") /\ steps = 0 /\ done = FALSE /\ R = <<>> /\ C = <<>>

Mut(S2, M2, a) ==
    /\ ~done /\ steps < MaxSteps
    /\ S' = S2 /\ M' = M2 /\ act' = a /\ steps' = steps + 1 /\ done' = FALSE /\ R' = R /\ C' = C

ObsEnabled == IF Interleave THEN steps < MaxSteps ELSE steps \in ObserveAt
Obs(a) ==
    /\ ~done /\ ObsEnabled
    /\ UNCHANGED <<S, M, R, C>> /\ act' = a
    /\ steps' = IF Interleave THEN steps + 1 ELSE steps
    /\ done' = ~Interleave

IsSet == Kind = "set"
IsMap == Kind = "map"
\* guards of the actions (first conjunct: one TLC run per data type; nothing follows a terminal observer)
SetOp == IsSet /\ ~done /\ R = <<>>
\* once a set-valued call has handed out a second object only the aliasing probes below are offered
ROp   == IsSet /\ ~done /\ R # <<>>
MapOp == IsMap /\ ~done /\ C = <<>>
\* once a copy exists only the operations addressing the copy / the independence probes below are offered
COp   == IsMap /\ ~done /\ C # <<>>

(* ---- SortedSet mutators ---- *)
SNew(T)    == SetOp /\ steps = 0 /\ Mut(T, M, A("new", T, None, ""))              \* SortedSet(iterable)
SAdd(e)    == SetOp /\ Mut(S \cup {e}, M, A("add", e, None, ""))
SRemove(e) == SetOp /\ IF e \in S THEN Mut(S \ {e}, M, A("remove", e, None, ""))
                                  ELSE Mut(S, M, A("remove", e, None, "KeyError"))
SPop       == SetOp /\ IF S = {} THEN Mut(S, M, A("pop", None, None, "KeyError"))
                                 ELSE Mut(S \ {Max(S)}, M, A("pop", None, Max(S), ""))   \* list.pop(): the maximum
SClear     == SetOp /\ Mut({}, M, A("clear", None, None, ""))
SUpdate(T) == SetOp /\ Mut(Union(S, T), M, A("update", T, None, ""))
SIOr(T)    == SetOp /\ Mut(Union(S, T), M, A("ior", T, "self", ""))
SIAnd(T)   == SetOp /\ Mut(Inter(S, T), M, A("iand", T, "self", ""))
SISub(T)   == SetOp /\ Mut(Diff(S, T), M, A("isub", T, "self", ""))
SIXor(T)   == SetOp /\ Mut(SymDiff(S, T), M, A("ixor", T, "self", ""))
SDelItem(i) == SetOp /\ LET p == Pos(i, Cardinality(S)) IN
                  IF p = 0 THEN Mut(S, M, A("delitem", i, None, "IndexError"))
                           ELSE Mut(S \ {Asc(S)[p]}, M, A("delitem", i, None, ""))
SDelSlice(sl) == SetOp /\ LET a == Asc(S) IN
                  Mut(S \ {a[p] : p \in SlicePositions(Len(a), sl[1], sl[2])}, M, A("delslice", sl, None, ""))

(* ---- SortedSet observers ---- *)
SContains(e) == SetOp /\ Obs(A("contains", e, e \in S, ""))
SLen         == SetOp /\ Obs(A("len", None, Cardinality(S), ""))
SIter        == SetOp /\ Obs(A("iter", None, Asc(S), ""))
SReversed    == SetOp /\ Obs(A("reversed", None, Reverse(Asc(S)), ""))
SCopy        == SetOp /\ Obs(A("copy", None, S, ""))
SGetItem(i)  == SetOp /\ LET p == Pos(i, Cardinality(S)) IN
                  IF p = 0 THEN Obs(A("getitem", i, None, "IndexError")) ELSE Obs(A("getitem", i, Asc(S)[p], ""))
SGetSlice(sl) == SetOp /\ Obs(A("getslice", sl, SliceOf(Asc(S), sl[1], sl[2]), ""))
SUnion(T)    == SetOp /\ Obs(A("union", T, Union(S, T), ""))
SInter(T)    == SetOp /\ Obs(A("intersection", T, Inter(S, T), ""))
SDiff(T)     == SetOp /\ Obs(A("difference", T, Diff(S, T), ""))
SRDiff(T)    == SetOp /\ Obs(A("rdifference", T, Diff(T, S), ""))                \* other - self
SSymDiff(T)  == SetOp /\ Obs(A("symmetric_difference", T, SymDiff(S, T), ""))
SIsSubset(T) == SetOp /\ Obs(A("issubset", T, Subset(S, T), ""))
SIsSuperset(T) == SetOp /\ Obs(A("issuperset", T, Subset(T, S), ""))
SIsDisjoint(T) == SetOp /\ Obs(A("isdisjoint", T, Disjoint(S, T), ""))
SLe(T)       == SetOp /\ Obs(A("le", T, Subset(S, T), ""))
SLt(T)       == SetOp /\ Obs(A("lt", T, Proper(S, T), ""))
SGe(T)       == SetOp /\ Obs(A("ge", T, Subset(T, S), ""))
SGt(T)       == SetOp /\ Obs(A("gt", T, Proper(T, S), ""))
SEq(T)       == SetOp /\ Obs(A("eq", T, S = T, ""))
SNe(T)       == SetOp /\ Obs(A("ne", T, S # T, ""))

(* ---- the result of a set-valued call is a NEW set ---- *)
\* copy(), the zero-operand union() / intersection() / difference(), and the one-operand calls (with every
\* operand, the empty set and the receiver's own contents among them) all return a set R that is a second
\* object: changing R leaves S alone (SMutR), changing S leaves R alone (SMutS).  Both probes end the behaviour.
ZeroOps == {"copy", "union0", "intersection0", "difference0"}
OneOps  == {"union", "intersection", "difference", "symmetric_difference"}
Derived(op, T) == CASE op \in ZeroOps -> S
                    [] op = "union" -> Union(S, T)
                    [] op = "intersection" -> Inter(S, T)
                    [] op = "difference" -> Diff(S, T)
                    [] op = "symmetric_difference" -> SymDiff(S, T)
DeriveChoices == {<<op, {}>> : op \in ZeroOps} \cup {<<op, T>> : op \in OneOps, T \in Operands \cup {{}, S}}
SDerive == SetOp /\ ObsEnabled /\ \E c \in DeriveChoices :
              /\ UNCHANGED <<S, M, C>> /\ R' = <<Derived(c[1], c[2])>>
              /\ act' = A("derive", c, Derived(c[1], c[2]), "")
              /\ steps' = (IF Interleave THEN steps + 1 ELSE steps) /\ done' = FALSE

Probes == {<<"add", e>> : e \in Elems} \cup {<<"clear", 0>>, <<"pop", 0>>}     \* some of them always change the contents
Apply(X, m) == CASE m[1] = "add" -> X \cup {m[2]}
                 [] m[1] = "clear" -> {}
                 [] m[1] = "pop" -> IF X = {} THEN X ELSE X \ {Max(X)}
ProbeAct(name, X, m) == IF m[1] = "pop" THEN (IF X = {} THEN A(name, m, None, "KeyError") ELSE A(name, m, Max(X), ""))
                                        ELSE A(name, m, None, "")
SMutR(m) == ROp /\ UNCHANGED <<S, M, C, steps>> /\ R' = <<Apply(R[1], m)>>                \* result.add / clear / pop
                /\ act' = ProbeAct("mut_result", R[1], m) /\ done' = TRUE
SMutS(m) == ROp /\ UNCHANGED <<M, R, C, steps>> /\ S' = Apply(S, m)                       \* s.add / clear / pop
                /\ act' = ProbeAct("mut_original", S, m) /\ done' = TRUE

(* ---- OrderedMap mutators ---- *)
MNew(ps)      == MapOp /\ steps = 0 /\ Mut(S, Build(<<>>, ps), A("new", ps, None, ""))     \* OrderedMap(pairs)
MSetItem(k, v) == MapOp /\ Mut(S, Insert(M, k, v), AP("setitem", <<k, v>>, None, "", Index(Insert(M, k, v), k)))
MDelItem(k)   == MapOp /\ IF Index(M, k) = 0 THEN Mut(S, M, A("delitem", k, None, "KeyError"))
                                             ELSE Mut(S, RemoveAt(M, Index(M, k)), AP("delitem", k, None, "", Index(M, k)))
MPopItem      == MapOp /\ IF M = <<>> THEN Mut(S, M, A("popitem", None, None, "KeyError"))
                                      ELSE Mut(S, Front(M), A("popitem", None, M[Len(M)], ""))

(* ---- OrderedMap observers ---- *)
MGetItem(k)  == MapOp /\ IF Index(M, k) = 0 THEN Obs(A("getitem", k, None, "KeyError"))
                                            ELSE Obs(A("getitem", k, M[Index(M, k)][2], ""))
MGet(k)      == MapOp /\ Obs(A("get", k, IF Index(M, k) = 0 THEN None ELSE M[Index(M, k)][2], ""))
MContains(k) == MapOp /\ Obs(A("contains", k, Index(M, k) # 0, ""))
MLen         == MapOp /\ Obs(A("len", None, Len(M), ""))
MKeys        == MapOp /\ Obs(A("keys", None, [i \in 1..Len(M) |-> M[i][1]], ""))
MValues      == MapOp /\ Obs(A("values", None, [i \in 1..Len(M) |-> M[i][2]], ""))
MItems       == MapOp /\ Obs(A("items", None, M, ""))
\* the operand set depends on the state, so the quantifier sits inside the action (TLC then reports its coverage)
MEqMap       == MapOp /\ \E o \in MapOperands(M) : Obs(A("eq_map", o, M = o, ""))     \* another OrderedMap: order matters
MNeMap       == MapOp /\ \E o \in MapOperands(M) : Obs(A("ne_map", o, M # o, ""))
MEqDict      == MapOp /\ \E o \in MapOperands(M) : Obs(A("eq_dict", o, AsFun(M) = AsFun(o), ""))  \* a dict: order is irrelevant
MNeDict      == MapOp /\ \E o \in MapOperands(M) : Obs(A("ne_dict", o, AsFun(M) # AsFun(o), ""))

(* ---- an ordered map constructed from another ordered map ---- *)
\* MCopy: a second map object holding the same pairs in the same order.  how = "ctor": OrderedMap(m), a plain
\* OrderedMap whatever the class of m (copying a column value, an OrderedMapSerializedKey, is the usual case);
\* how = "assign": an empty map of m's own class filled by item assignment.  The copy is then addressed by key:
\* every key of M is found in it, assigning to a present key overwrites in place, deleting works; changing the
\* copy leaves M alone and changing M leaves the copy alone.  These operations end the behaviour.
CopyHows == {"ctor", "assign"}
MCopy(how) == MapOp /\ ObsEnabled /\ UNCHANGED <<S, M, R>> /\ C' = <<M>>
                 /\ act' = A("copy", how, None, "")
                 /\ steps' = (IF Interleave THEN steps + 1 ELSE steps) /\ done' = FALSE
Term(a, M2, C2) == COp /\ UNCHANGED <<S, R, steps>> /\ M' = M2 /\ C' = C2 /\ act' = a /\ done' = TRUE
CGetItem(k)  == COp /\ IF Index(C[1], k) = 0 THEN Term(A("c_getitem", k, None, "KeyError"), M, C)
                                      ELSE Term(A("c_getitem", k, C[1][Index(C[1], k)][2], ""), M, C)
CGet(k)      == COp /\ Term(A("c_get", k, IF Index(C[1], k) = 0 THEN None ELSE C[1][Index(C[1], k)][2], ""), M, C)
CContains(k) == COp /\ Term(A("c_contains", k, Index(C[1], k) # 0, ""), M, C)
CLen         == COp /\ Term(A("c_len", None, Len(C[1]), ""), M, C)
CItems       == COp /\ Term(A("c_items", None, C[1], ""), M, C)
CSetItem(k, v) == COp /\ Term(AP("c_setitem", <<k, v>>, None, "", Index(Insert(C[1], k, v), k)), M, <<Insert(C[1], k, v)>>)
CDelItem(k)  == COp /\ IF Index(C[1], k) = 0 THEN Term(A("c_delitem", k, None, "KeyError"), M, C)
                                      ELSE Term(AP("c_delitem", k, None, "", Index(C[1], k)), M, <<RemoveAt(C[1], Index(C[1], k))>>)
CPopItem     == COp /\ IF C[1] = <<>> THEN Term(A("c_popitem", None, None, "KeyError"), M, C)
                               ELSE Term(A("c_popitem", None, C[1][Len(C[1])], ""), M, <<Front(C[1])>>)
SrcSetItem(k, v) == COp /\ Term(A("src_setitem", <<k, v>>, None, ""), Insert(M, k, v), C)      \* the source changes, the copy not
SrcDelItem(k)    == COp /\ IF Index(M, k) = 0 THEN Term(A("src_delitem", k, None, "KeyError"), M, C)
                                       ELSE Term(A("src_delitem", k, None, ""), RemoveAt(M, Index(M, k)), C)

SetNext ==
    \/ \E T \in Operands : SNew(T) \/ SUpdate(T) \/ SIOr(T) \/ SIAnd(T) \/ SISub(T) \/ SIXor(T)
    \/ \E e \in Elems : SAdd(e) \/ SRemove(e) \/ SContains(e)
    \/ SPop \/ SClear \/ SLen \/ SIter \/ SReversed \/ SCopy
    \/ SDerive \/ \E m \in Probes : SMutR(m) \/ SMutS(m)
    \/ \E i \in Indexes : SDelItem(i) \/ SGetItem(i)
    \/ \E sl \in Slices : SDelSlice(sl) \/ SGetSlice(sl)
    \/ \E T \in Operands : \/ SUnion(T) \/ SInter(T) \/ SDiff(T) \/ SRDiff(T) \/ SSymDiff(T)
                           \/ SIsSubset(T) \/ SIsSuperset(T) \/ SIsDisjoint(T)
                           \/ SLe(T) \/ SLt(T) \/ SGe(T) \/ SGt(T) \/ SEq(T) \/ SNe(T)

MapNext ==
    \/ \E ps \in NewArgs : MNew(ps)
    \/ \E k \in Keys : (\E v \in Vals : MSetItem(k, v)) \/ MDelItem(k) \/ MGetItem(k) \/ MGet(k) \/ MContains(k)
    \/ MPopItem \/ MLen \/ MKeys \/ MValues \/ MItems
    \/ MEqMap \/ MNeMap \/ MEqDict \/ MNeDict
    \/ \E how \in CopyHows : MCopy(how)
    \/ \E k \in Keys : \/ CGetItem(k) \/ CGet(k) \/ CContains(k) \/ CDelItem(k) \/ SrcDelItem(k)
                       \/ \E v \in Vals : CSetItem(k, v) \/ SrcSetItem(k, v)
    \/ CLen \/ CItems \/ CPopItem

\* one TLC run per data type (Kind is a constant, so only one disjunct is ever enabled)
Next == SetNext \/ MapNext

Spec == Init /\ [][Next]_vars

----------------------------------------------------------------------------
(* Invariants: sanity of the model itself                                   *)
TypeOK == /\ S \subseteq Elems /\ steps \in 0..MaxSteps /\ done \in BOOLEAN
          /\ M \in Seq(Pairs) /\ Len(M) <= N
          /\ act.exc \in {"", "KeyError", "IndexError"}
          /\ Len(R) <= 1 /\ (R # <<>> => R[1] \subseteq Elems) /\ (IsMap => R = <<>>)
          /\ Len(C) <= 1 /\ (C # <<>> => (C[1] \in Seq(Pairs) /\ DistinctKeys(C[1]))) /\ (IsSet => C = <<>>)

\* iteration is strictly ascending, duplicate free, and enumerates exactly S; len = cardinality
IterationSorted ==
    LET a == Asc(S) IN
    /\ Len(a) = Cardinality(S)
    /\ Range(a) = S
    /\ \A i \in 1..(Len(a) - 1) : a[i] < a[i + 1]
    /\ Reverse(Reverse(a)) = a

\* the definitions used by the actions agree with independent formulations; checked for the pair
\* (current contents, operand of the last operation), which ranges over all pairs during a run
TakesSet == {"new", "update", "ior", "iand", "isub", "ixor", "union", "intersection", "difference", "rdifference",
             "symmetric_difference", "issubset", "issuperset", "isdisjoint", "le", "lt", "ge", "gt", "eq", "ne"}
Algebra(X, T) ==
    /\ X \subseteq Union(X, T) /\ T \subseteq Union(X, T) /\ Union(X, T) \subseteq Elems
    /\ \A x \in Elems : (x \in Union(X, T)) <=> (x \in X \/ x \in T)
    /\ \A x \in Elems : (x \in Inter(X, T)) <=> (x \in X /\ x \in T)
    /\ \A x \in Elems : (x \in Diff(X, T)) <=> (x \in X /\ x \notin T)
    /\ \A x \in Elems : (x \in SymDiff(X, T)) <=> ((x \in X) # (x \in T))
    /\ SymDiff(X, T) = Union(X, T) \ Inter(X, T)
    /\ SymDiff(X, T) = SymDiff(T, X)
    /\ Subset(X, T) <=> (Inter(X, T) = X)
    /\ Subset(X, T) <=> (Union(X, T) = T)
    /\ Proper(X, T) <=> (Subset(X, T) /\ Cardinality(X) < Cardinality(T))
    /\ (Subset(X, T) /\ Subset(T, X)) <=> (X = T)
    /\ Disjoint(X, T) <=> (Diff(X, T) = X)
    /\ Cardinality(Union(X, T)) + Cardinality(Inter(X, T)) = Cardinality(X) + Cardinality(T)
SetAlgebra == (IsSet /\ act.name \in TakesSet) => Algebra(S, act.arg)

\* what the last operation reported is consistent with the state it left behind
SetResults ==
    /\ (act.name = "pop" /\ act.exc = "") => (act.res \notin S /\ \A x \in S : x < act.res)
    /\ (act.name = "pop" /\ act.exc # "") => S = {}
    /\ (act.name = "add") => act.arg \in S
    /\ (act.name = "remove") => act.arg \notin S
    /\ (act.name \in {"update", "ior"}) => act.arg \subseteq S
    /\ (act.name = "iand") => S \subseteq act.arg
    /\ (act.name = "isub") => S \cap act.arg = {}
    /\ (act.name = "clear") => S = {}
    /\ (IsSet /\ act.name = "len") => act.res = Cardinality(S)
    /\ (IsSet /\ act.name = "getitem" /\ act.exc = "") => act.res \in S
    /\ (act.name = "derive") => (R = <<act.res>> /\ act.res = Derived(act.arg[1], act.arg[2]))
    /\ (act.name = "derive" /\ act.arg[1] \in ZeroOps) => R[1] = S
    /\ (act.name \in {"mut_result", "mut_original"}) => (R # <<>> /\ done)
    /\ (act.name = "mut_result" /\ act.arg[1] = "clear") => R[1] = {}
    /\ (act.name = "mut_original" /\ act.arg[1] = "clear") => S = {}

MapWellFormed ==
    /\ DistinctKeys(M)
    /\ \A i \in 1..Len(M) : Index(M, M[i][1]) = i            \* the index finds every key where it is
    /\ \A k \in Keys \ KeysOf(M) : Index(M, k) = 0
    /\ Cardinality(KeysOf(M)) = Len(M)
    /\ DOMAIN AsFun(M) = KeysOf(M)

MapResults ==
    /\ (IsMap /\ act.name = "setitem") => (Index(M, act.arg[1]) # 0 /\ M[Index(M, act.arg[1])] = act.arg)
    /\ (IsMap /\ act.name = "delitem") => Index(M, act.arg) = 0
    /\ (act.name = "popitem" /\ act.exc = "") => Index(M, act.res[1]) = 0
    /\ (act.name = "popitem" /\ act.exc # "") => M = <<>>
    /\ (IsMap /\ act.name = "new") => KeysOf(M) = {act.arg[i][1] : i \in 1..Len(act.arg)}
    /\ (act.name = "eq_map" /\ act.res) => AsFun(M) = AsFun(act.arg)     \* equal as sequences => equal as mappings
    /\ (IsMap /\ act.name = "copy") => C = <<M>>
    /\ (act.name = "c_setitem") => (Index(C[1], act.arg[1]) = act.pos /\ C[1][act.pos] = act.arg)
    /\ (act.name = "c_delitem") => Index(C[1], act.arg) = 0
    /\ (act.name \in {"c_getitem", "c_get", "c_contains", "c_len", "c_items", "c_setitem", "c_delitem", "c_popitem",
                       "src_setitem", "src_delitem"}) => (C # <<>> /\ done)

Others(m, k) == SelectSeq(m, LAMBDA p : p[1] # k)

\* action property: a write never moves or disturbs the other entries; an overwrite keeps its place
MapOrderStable ==
    [][ /\ (IsMap /\ act'.name = "setitem") =>
             LET k == act'.arg[1] IN
             /\ Others(M', k) = Others(M, k)
             /\ (Index(M, k) # 0 => Index(M', k) = Index(M, k))
             /\ (Index(M, k) = 0 => Index(M', k) = Len(M) + 1)
        /\ (IsMap /\ act'.name = "delitem") => M' = Others(M, act'.arg)
        /\ (act'.name = "popitem" /\ act'.exc = "") => M = Append(M', act'.res)
        /\ (done' /\ act'.name \notin {"mut_original", "src_setitem", "src_delitem"}) => (S' = S /\ M' = M)
        /\ (act'.name = "c_setitem") =>
             LET k == act'.arg[1] IN
             /\ Others(C'[1], k) = Others(C[1], k)
             /\ (Index(C[1], k) # 0 => (Index(C'[1], k) = Index(C[1], k) /\ Len(C'[1]) = Len(C[1])))
             /\ (Index(C[1], k) = 0 => Index(C'[1], k) = Len(C[1]) + 1)
        /\ (act'.name \in {"src_setitem", "src_delitem"}) => C' = C
      ]_vars

Invariants == TypeOK /\ IterationSorted /\ SetAlgebra /\ SetResults /\ MapWellFormed /\ MapResults

----------------------------------------------------------------------------
(* Vacuity witnesses: each must be VIOLATED                                 *)
Witness_RemoveAbsent     == ~(act.name = "remove" /\ act.exc = "KeyError" /\ S # {})
Witness_PopLeavesSmaller == ~(act.name = "pop" /\ act.exc = "" /\ Cardinality(S) >= 2)
Witness_XorOverlap       == ~(act.name = "ixor" /\ S # {} /\ act.arg \ S # {} /\ ~(S \subseteq act.arg))
Witness_OverwriteNotLast == ~(IsMap /\ act.name = "setitem" /\ act.pos < Len(M) /\ steps >= 3)
Witness_DeleteNotLast    == ~(IsMap /\ act.name = "delitem" /\ act.exc = "" /\ act.pos <= Len(M) /\ Len(M) >= 2)
Witness_ResultClearedOriginalKept == ~(act.name = "mut_result" /\ act.arg[1] = "clear" /\ R[1] = {} /\ Cardinality(S) >= 2
                                        /\ steps >= 2)
Witness_OriginalClearedResultKept == ~(act.name = "mut_original" /\ act.arg[1] = "clear" /\ S = {} /\ R # <<>>
                                        /\ Cardinality(R[1]) >= 2)
Witness_CopyOverwritePresent == ~(act.name = "c_setitem" /\ act.pos < Len(C[1]) /\ Len(M) >= 2 /\ steps >= 2)
Witness_PopItemEmpty     == ~(act.name = "popitem" /\ act.exc = "KeyError" /\ steps >= 2)
=============================================================================
