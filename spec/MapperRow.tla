------------------------------ MODULE MapperRow ------------------------------
(* C35 - cqlengine persists exactly the model state.                          *)
(*                                                                            *)
(* An abstract table and one mapper instance held by the application; the     *)
(* actions are the mapper's operations; the state after an action is what the *)
(* cqlengine DOCUMENTATION promises (docs/cqlengine/*.rst, docs/api/cassandra/ *)
(* cqlengine/*.rst and the docstrings they pull in), with Cassandra's cell    *)
(* semantics where the documentation defers to CQL:                           *)
(*   * Model.create / save of a new object: "Setting a value to None is       *)
(*     equivalent to running a CQL DELETE on that column"; columns that are   *)
(*     not given are not written (INSERT is an upsert);                       *)
(*   * save / update of an object that was read or saved before: "execute an  *)
(*     update against any modified fields", "If no fields on the model have   *)
(*     been modified since loading, no query will be performed";  faq.rst:    *)
(*     "None is equivalent to CQL NULL or to issuing a DELETE on that column";*)
(*   * queryset update (ModelQuerySet.update docstring): column=value          *)
(*     "will overwrite the contents of the container, like updating a non     *)
(*     container column", column=None "sets name to null", __add / __remove   *)
(*     add / remove the elements of the given set, __append / __prepend add   *)
(*     the elements of the given list at the end / at the beginning, __update *)
(*     "adds the given keys/values to the columns, creating new entries if    *)
(*     they didn't exist, and overwriting old ones if they did", __remove     *)
(*     removes keys of a map; "If the key doesn't exist yet, an update creates*)
(*     the record";                                                           *)
(*   * if_not_exists / if_exists / iff: the write happens only when the       *)
(*     condition holds, otherwise LWTException is raised and nothing changes; *)
(*   * a static column has a single value per partition;                      *)
(*   * counters are incremented / decremented by the change of the attribute. *)
(* Cassandra: an empty collection is a deleted cell; a row exists while it    *)
(* has a row marker (INSERT) or a live regular cell.                          *)
(*                                                                            *)
(* Code anchors (what the actions stand for)                                  *)
(*   cassandra/cqlengine/models.py  Model.create 660, save 710, update 746,   *)
(*        delete 799, _can_update 496, _set_persisted 489                     *)
(*   cassandra/cqlengine/query.py   ModelQuerySet.update 1201-1332,           *)
(*        AbstractQuerySet.delete 990, DMLQuery.save / update / delete /      *)
(*        _delete_null_columns 1386-1517, BatchQuery.execute 215-261          *)
(*   cassandra/cqlengine/columns.py BaseValueManager.changed / deleted 29-62  *)
(*   cassandra/cqlengine/statements.py Set/List/Map/CounterUpdateClause,      *)
(*        MapDeleteClause 206-500                                             *)
(*                                                                            *)
(* Bound by replay (harness/replay/mapper.py RowHarness): every edge of the   *)
(* state graph is executed on real model classes; the CQL they emit is run by *)
(* harness/replay/cql_interp.py; the interpreter's table must equal `db`, the *)
(* real instance's attributes must equal inst.cur, and whenever InSync holds  *)
(* here a fresh read of the row must give the instance's attributes.          *)
(*                                                                            *)
(* Every operation of the alphabet `Ops` is its own named action Op_i, so the *)
(* state graph's edge labels identify the operation and TLC's coverage report *)
(* shows operations that are never enabled.                                   *)
EXTENDS Integers, Sequences, FiniteSets, TLC

CONSTANTS Mode,       \* "row": model R (scalars, static, collections)   "counter": model RC
          MaxSteps,   \* operations per history
          MaxList,    \* longest list
          Wide,       \* the larger operation alphabet
          MaxBatch    \* members of a batch: 2 or 3

VARIABLES db,         \* the table
          inst,       \* the instance the application holds (or none)
          ok,         \* the last operation was applied (FALSE: its IF condition failed, LWTException)
          origin,     \* which initial history this behaviour started from
          sane,       \* history variable: what the last step did was consistent (see SaveKeepsSync, RefusedChangesNothing)
          steps
vars == <<db, inst, ok, origin, sane, steps>>

-----------------------------------------------------------------------------
\* Model R: partition key k (always 1), clustering key ck in CKs, a (stored as "aa"), b, static st, s set<int>,
\* l list<int>, m map<int,int>.  0 stands for null; a map is the pair <<m[1], m[2]>>.

\* The elements 1, 2 of s / l and the values 1, 2 of m stand for two TIMESTAMPS (columns Set(DateTime), List(DateTime),
\* Map(Integer, DateTime)): a type whose database form (epoch milliseconds) is not its Python form (datetime), so that
\* a mapper that compares or sends the wrong form of an element is seen.  Their order in a list and their identity in a
\* set / map are all this module uses.  The harness must use exactly these types (it compares with what TLC prints).
ElemTypes == [s |-> "timestamp", l |-> "timestamp", mk |-> "int", mv |-> "timestamp"]

CKs   == {1, 2}
NullM == <<0, 0>>
NullF == [a |-> 0, b |-> 0, st |-> 0, s |-> {}, l |-> <<>>, m |-> NullM]
FieldSeq == <<"a", "b", "st", "s", "l", "m">>
EmptyRow == [mk |-> FALSE, a |-> 0, b |-> 0, s |-> {}, l |-> <<>>, m |-> NullM]
EmptyDb  == [st |-> 0, rows |-> [c \in CKs |-> EmptyRow]]
NoInst   == [has |-> FALSE, ck |-> 0, cur |-> NullF, old |-> NullF]
EmptyS   == [db |-> EmptyDb, inst |-> NoInst]

\* a row exists while it has a row marker or a live regular cell
Visible(r) == r.mk \/ r.a # 0 \/ r.b # 0 \/ r.s # {} \/ r.l # <<>> \/ r.m # NullM
\* what a read of row c returns
View(d, c) == [a |-> d.rows[c].a, b |-> d.rows[c].b, st |-> d.st, s |-> d.rows[c].s, l |-> d.rows[c].l, m |-> d.rows[c].m]
Write(d, c, f, v) == IF f = "st" THEN [d EXCEPT !.st = v] ELSE [d EXCEPT !.rows[c][f] = v]

RECURSIVE WriteSeq(_, _, _, _, _)
WriteSeq(d, c, fs, sel, vals) ==
    IF Len(fs) = 0 THEN d
    ELSE WriteSeq(IF Head(fs) \in sel THEN Write(d, c, Head(fs), vals[Head(fs)]) ELSE d, c, Tail(fs), sel, vals)

InSync(S) == /\ S.inst.has
             /\ Visible(S.db.rows[S.inst.ck])
             /\ S.inst.cur = View(S.db, S.inst.ck)

-----------------------------------------------------------------------------
\* Operations (records; `name` selects the meaning)

\* R.create(k=1, ck=ck, **{f: vals[f] for f in has})  [.if_not_exists()]
Create(ck, has, vals, lwt) == [name |-> "create", ck |-> ck, has |-> has, vals |-> vals, lwt |-> lwt]
\* inst = R.objects(k=1, ck=ck).get()
Load(ck) == [name |-> "load", ck |-> ck]
\* attribute changes on the instance, then inst.save() / inst.update()
Mu(f, op, x) == [f |-> f, op |-> op, x |-> x]
ISave(how, muts) == [name |-> "isave", how |-> how, muts |-> muts]
\* inst.ck = the other clustering key; inst.save()
ISaveAs == [name |-> "isaveas"]
IDelete == [name |-> "idelete"]
\* R.objects(k=1, ck=ck)[.if_exists() | .iff(a=1)].update(**{kw: x})     ck = 0: R.objects(k=1)
Kw(kw, x, none) == [kw |-> kw, x |-> x, none |-> none]          \* none: pass None instead of the empty value
QsUpdate(ck, sets, lwt) == [name |-> "qsupdate", ck |-> ck, sets |-> sets, lwt |-> lwt]
\* R.objects(k=1, ck=ck)[.if_exists()].delete()                          ck = 0: the partition
QsDelete(ck, lwt) == [name |-> "qsdelete", ck |-> ck, lwt |-> lwt]
\* with BatchQuery() as b: each member with .batch(b)
Batch(members) == [name |-> "batch", members |-> members]

FieldOf(kw) ==
    CASE kw \in {"a", "b", "st", "s", "l", "m"} -> kw
      [] kw \in {"s__add", "s__remove"} -> "s"
      [] kw \in {"l__append", "l__prepend"} -> "l"
      [] kw \in {"m__update", "m__remove"} -> "m"

\* ---- attribute changes
ApplyMut(cur, mu) ==
    CASE mu.op \in {"set", "none"} -> [cur EXCEPT ![mu.f] = mu.x]
      [] mu.op = "add"     -> [cur EXCEPT !.s = @ \cup {mu.x}]
      [] mu.op = "discard" -> [cur EXCEPT !.s = @ \ {mu.x}]
      [] mu.op = "append"  -> [cur EXCEPT !.l = Append(@, mu.x)]
      [] mu.op = "prepend" -> [cur EXCEPT !.l = <<mu.x>> \o @]
      [] mu.op = "poplast" -> [cur EXCEPT !.l = SubSeq(@, 1, Len(@) - 1)]
      [] mu.op = "put"     -> [cur EXCEPT !.m = [@ EXCEPT ![mu.x[1]] = mu.x[2]]]
      [] mu.op = "delkey"  -> [cur EXCEPT !.m = [@ EXCEPT ![mu.x] = 0]]

MutOk(cur, mu) ==
    CASE mu.op = "discard" -> mu.x \in cur.s
      [] mu.op = "poplast" -> Len(cur.l) > 0
      [] mu.op = "delkey"  -> cur.m[mu.x] # 0
      [] mu.op \in {"append", "prepend"} -> Len(cur.l) < MaxList
      [] OTHER -> TRUE

RECURSIVE MutsOk(_, _)
MutsOk(cur, muts) == IF Len(muts) = 0 THEN TRUE ELSE (MutOk(cur, Head(muts)) /\ MutsOk(ApplyMut(cur, Head(muts)), Tail(muts)))
RECURSIVE ApplyMuts(_, _)
ApplyMuts(cur, muts) == IF Len(muts) = 0 THEN cur ELSE ApplyMuts(ApplyMut(cur, Head(muts)), Tail(muts))

ChangedFields(old, new) == {f \in DOMAIN NullF : new[f] # old[f]}
\* "Setting a value to None is equivalent to running a CQL DELETE on that column": assigning None (or an empty
\* collection) deletes the cell even when the instance held no value there
Nulled(muts, new) == {f \in DOMAIN NullF : new[f] = NullF[f] /\ \E i \in 1..Len(muts) : muts[i].f = f /\ muts[i].op \in {"set", "none"}}
\* the columns a save writes: the modified ones and the ones explicitly set to None
Written(I, muts) == LET new == ApplyMuts(I.cur, muts) IN ChangedFields(I.old, new) \cup Nulled(muts, new)

\* ---- queryset update of one keyword on row c
QsApply(d, c, k) ==
    LET r == d.rows[c] IN
    CASE k.kw \in {"a", "b", "s", "l", "m"} -> Write(d, c, k.kw, k.x)        \* overwrite; None / empty deletes the cell
      [] k.kw = "st"         -> [d EXCEPT !.st = k.x]
      [] k.kw = "s__add"     -> Write(d, c, "s", r.s \cup k.x)
      [] k.kw = "s__remove"  -> Write(d, c, "s", r.s \ k.x)
      [] k.kw = "l__append"  -> Write(d, c, "l", r.l \o k.x)
      [] k.kw = "l__prepend" -> Write(d, c, "l", k.x \o r.l)
      [] k.kw = "m__update"  -> Write(d, c, "m", [i \in 1..2 |-> IF k.x[i] # 0 THEN k.x[i] ELSE r.m[i]])
      [] k.kw = "m__remove"  -> Write(d, c, "m", [i \in 1..2 |-> IF i \in k.x THEN 0 ELSE r.m[i]])

RECURSIVE QsApplyAll(_, _, _)
QsApplyAll(d, c, ks) == IF Len(ks) = 0 THEN d ELSE QsApplyAll(QsApply(d, c, Head(ks)), c, Tail(ks))

RECURSIVE ListGrowth(_)
ListGrowth(ks) == IF Len(ks) = 0 THEN 0
                  ELSE (IF Head(ks).kw \in {"l__append", "l__prepend"} THEN Len(Head(ks).x) ELSE 0) + ListGrowth(Tail(ks))
QsFits(d, c, ks) == Len(d.rows[c].l) + ListGrowth(ks) <= MaxList      \* lists stay within the bound

\* ---- conditions
Applied(op, S) ==
    CASE op.name = "create"   -> ~op.lwt \/ ~Visible(S.db.rows[op.ck])
      [] op.name = "qsupdate" -> CASE op.lwt = "ifexists" -> Visible(S.db.rows[op.ck])
                                   [] op.lwt = "iff_a1"   -> S.db.rows[op.ck].a = 1
                                   [] OTHER -> TRUE
      [] op.name = "qsdelete" -> op.lwt # "ifexists" \/ Visible(S.db.rows[op.ck])
      [] OTHER -> TRUE

\* ---- cells an operation writes (for batches: members must not write the same cell, Cassandra applies them at one timestamp)
RowCells(c) == {<<c, f>> : f \in {"mk", "a", "b", "s", "l", "m"}}
CellOf(c, f) == IF f = "st" THEN <<0, "st">> ELSE <<c, f>>
Touch(op, S) ==
    CASE op.name = "create"   -> RowCells(op.ck) \cup {CellOf(op.ck, f) : f \in op.has} \cup {<<9, "inst">>}
      [] op.name = "qsupdate" -> {CellOf(op.ck, FieldOf(op.sets[i].kw)) : i \in 1..Len(op.sets)}
      [] op.name = "qsdelete" -> IF op.ck = 0 THEN UNION {RowCells(c) : c \in CKs} \cup {<<0, "st">>} ELSE RowCells(op.ck)
      [] op.name = "isave"    -> {CellOf(S.inst.ck, f) : f \in Written(S.inst, op.muts)} \cup {<<9, "inst">>}
      [] OTHER -> {<<9, "inst">>}

-----------------------------------------------------------------------------
\* Enabling condition and effect of a non-batch operation

En1(op, S) ==
    CASE op.name = "create"   -> TRUE
      [] op.name = "load"     -> TRUE
      [] op.name = "isave"    ->
            /\ S.inst.has
            /\ MutsOk(S.inst.cur, op.muts)
            /\ LET new == ApplyMuts(S.inst.cur, op.muts) IN
               \* a changed collection is written as the difference to what was read: only meaningful when the row
               \* still holds what was read
               \A f \in {"s", "l", "m"} : new[f] # S.inst.old[f] /\ new[f] # NullF[f] => View(S.db, S.inst.ck)[f] = S.inst.old[f]
      [] op.name = "isaveas"  ->
            /\ S.inst.has
            /\ ~Visible(S.db.rows[3 - S.inst.ck])
            /\ S.inst.cur.st = S.db.st
      [] op.name = "idelete"  -> S.inst.has
      [] op.name = "qsupdate" -> op.ck = 0 \/ QsFits(S.db, op.ck, op.sets)
      [] op.name = "qsdelete" -> TRUE

Eff1(op, S) ==
    IF ~Applied(op, S) THEN S ELSE
    CASE op.name = "create" ->
            LET d1  == [S.db EXCEPT !.rows[op.ck].mk = TRUE]
                cur == [f \in DOMAIN NullF |-> IF f \in op.has THEN op.vals[f] ELSE NullF[f]]
            IN [db |-> WriteSeq(d1, op.ck, FieldSeq, op.has, op.vals),
                inst |-> [has |-> TRUE, ck |-> op.ck, cur |-> cur, old |-> cur]]
      [] op.name = "load" ->
            IF Visible(S.db.rows[op.ck])
            THEN [db |-> S.db, inst |-> [has |-> TRUE, ck |-> op.ck, cur |-> View(S.db, op.ck), old |-> View(S.db, op.ck)]]
            ELSE S                                            \* DoesNotExist; the application keeps what it has
      [] op.name = "isave" ->
            LET new == ApplyMuts(S.inst.cur, op.muts)
            IN [db |-> WriteSeq(S.db, S.inst.ck, FieldSeq, Written(S.inst, op.muts), new),
                inst |-> [S.inst EXCEPT !.cur = new, !.old = new]]
      [] op.name = "isaveas" ->
            LET c == 3 - S.inst.ck
                d1 == [S.db EXCEPT !.rows[c].mk = TRUE]
            IN [db |-> WriteSeq(d1, c, FieldSeq, {f \in DOMAIN NullF : S.inst.cur[f] # NullF[f]}, S.inst.cur),
                inst |-> [S.inst EXCEPT !.ck = c, !.old = S.inst.cur]]
      [] op.name = "idelete" ->
            [db |-> [S.db EXCEPT !.rows[S.inst.ck] = EmptyRow], inst |-> NoInst]
      [] op.name = "qsupdate" ->
            [db |-> QsApplyAll(S.db, IF op.ck = 0 THEN 1 ELSE op.ck, op.sets), inst |-> S.inst]
      [] op.name = "qsdelete" ->
            [db |-> IF op.ck = 0 THEN EmptyDb ELSE [S.db EXCEPT !.rows[op.ck] = EmptyRow], inst |-> S.inst]

\* Batches: every member is enabled, no two members write the same cell, no member is conditional
RECURSIVE EffAll(_, _)
EffAll(ops, S) == IF Len(ops) = 0 THEN S ELSE EffAll(Tail(ops), Eff1(Head(ops), S))

En(op, S) ==
    IF op.name # "batch" THEN En1(op, S)
    ELSE /\ \A i \in 1..Len(op.members) : En1(op.members[i], S)
         /\ \A i \in 1..Len(op.members) : \A j \in 1..Len(op.members) :
                i < j => Touch(op.members[i], S) \cap Touch(op.members[j], S) = {}
Eff(op, S) == IF op.name # "batch" THEN Eff1(op, S) ELSE EffAll(op.members, S)

-----------------------------------------------------------------------------
\* Alphabets

RichVals  == [a |-> 1, b |-> 0, st |-> 0, s |-> {1}, l |-> <<1>>, m |-> <<1, 0>>]
MixedVals == [a |-> 2, b |-> 0, st |-> 1, s |-> {}, l |-> <<>>, m |-> NullM]       \* b = None, l = [] given explicitly
OtherVals == [a |-> 0, b |-> 1, st |-> 2, s |-> {1, 2}, l |-> <<>>, m |-> <<2, 1>>]

CreateRich(c)  == Create(c, {"a", "s", "l", "m"}, RichVals, FALSE)
CreateMixed(c) == Create(c, {"a", "b", "st", "l"}, MixedVals, FALSE)

Creates ==
    << Create(1, {}, NullF, FALSE), CreateRich(1), CreateMixed(1), CreateRich(2), Create(1, {"a", "s"}, RichVals, TRUE) >> \o
    (IF Wide THEN << Create(2, {}, NullF, FALSE), CreateMixed(2), Create(1, {"b", "st", "s", "m"}, OtherVals, FALSE),
                     Create(2, {"b", "st", "s", "m"}, OtherVals, TRUE) >> ELSE <<>>)

Muts == <<
    Mu("a", "set", 2), Mu("a", "set", 0), Mu("b", "set", 1), Mu("st", "set", 2), Mu("st", "set", 0),
    Mu("s", "add", 2), Mu("s", "discard", 1), Mu("s", "set", {}), Mu("s", "none", {}), Mu("s", "set", {2}),
    Mu("l", "append", 2), Mu("l", "prepend", 2), Mu("l", "set", <<2, 1>>), Mu("l", "none", <<>>), Mu("l", "poplast", 0),
    Mu("m", "put", <<2, 1>>), Mu("m", "put", <<1, 2>>), Mu("m", "delkey", 1), Mu("m", "none", NullM), Mu("m", "set", <<0, 2>>),
    Mu("l", "set", <<2, 1, 1>>),      \* from [1]: the list grows at BOTH ends (one clause, two ids: prepend [2] and append [1])
    Mu("a", "set", 1), Mu("b", "set", 0), Mu("st", "set", 1), Mu("s", "add", 1), Mu("l", "append", 1), Mu("l", "set", <<>>),
    Mu("m", "put", <<1, 1>>), Mu("m", "delkey", 2), Mu("m", "set", NullM)
>>
NMutsNarrow == 21

MutPairs == <<
    <<Mu("a", "set", 0), Mu("m", "delkey", 1)>>,
    <<Mu("st", "set", 2), Mu("m", "delkey", 1)>>,
    <<Mu("st", "set", 1), Mu("a", "set", 2)>>,
    <<Mu("s", "add", 2), Mu("s", "discard", 1)>>,
    <<Mu("l", "prepend", 2), Mu("l", "append", 1)>>,      \* grows at both ends, by different values
    <<Mu("m", "put", <<2, 2>>), Mu("m", "delkey", 1)>>,
    <<Mu("st", "set", 0), Mu("b", "set", 0)>>,
    <<Mu("s", "none", {}), Mu("l", "append", 1)>>
>>
NPairsNarrow == 5

ISaves ==
    [j \in 1..(IF Wide THEN Len(Muts) ELSE NMutsNarrow) |-> ISave(IF j % 2 = 0 THEN "save" ELSE "update", <<Muts[j]>>)] \o
    (IF Wide THEN [j \in 1..Len(Muts) |-> ISave(IF j % 2 = 0 THEN "update" ELSE "save", <<Muts[j]>>)] ELSE <<>>) \o
    [j \in 1..(IF Wide THEN Len(MutPairs) ELSE NPairsNarrow) |-> ISave(IF j % 2 = 0 THEN "save" ELSE "update", MutPairs[j])]

Q1(kw, x) == QsUpdate(1, <<Kw(kw, x, FALSE)>>, "none")
QsUpdatesNarrow == <<
    Q1("a", 2), QsUpdate(1, <<Kw("a", 0, TRUE)>>, "none"), Q1("b", 1),
    QsUpdate(0, <<Kw("st", 2, FALSE)>>, "none"), QsUpdate(0, <<Kw("st", 0, TRUE)>>, "none"),
    Q1("s__add", {2}), Q1("s__remove", {1}), Q1("s", {2}), QsUpdate(1, <<Kw("s", {}, TRUE)>>, "none"), Q1("s", {}),
    Q1("l__append", <<2>>), Q1("l__prepend", <<2, 1>>), Q1("l", <<2, 1>>), QsUpdate(1, <<Kw("l", <<>>, TRUE)>>, "none"),
    Q1("m__update", <<0, 2>>), Q1("m__update", <<2, 0>>), Q1("m__remove", {1}), Q1("m", <<0, 2>>), QsUpdate(1, <<Kw("m", NullM, TRUE)>>, "none"),
    Q1("m__update", NullM), Q1("m__remove", {}),
    QsUpdate(2, <<Kw("a", 1, FALSE)>>, "none"), QsUpdate(2, <<Kw("s__add", {1}, FALSE)>>, "none"),
    QsUpdate(1, <<Kw("a", 1, FALSE), Kw("b", 0, TRUE)>>, "none"),
    QsUpdate(1, <<Kw("s__add", {2}, FALSE), Kw("s__remove", {1}, FALSE)>>, "none"),
    QsUpdate(1, <<Kw("a", 2, FALSE)>>, "ifexists"),
    QsUpdate(1, <<Kw("a", 2, FALSE)>>, "iff_a1"),
    QsUpdate(1, <<Kw("a", 2, FALSE), Kw("b", 0, TRUE)>>, "iff_a1")
>>
QsUpdatesWide == <<
    Q1("a", 1), Q1("s__add", {1, 2}), Q1("s__remove", {2}), Q1("l__append", <<1>>), Q1("l__prepend", <<1>>), Q1("l", <<>>),
    Q1("m__update", <<1, 1>>), Q1("m__remove", {2}), Q1("m__remove", {1, 2}), Q1("m", NullM), Q1("m", <<1, 1>>),
    QsUpdate(0, <<Kw("st", 1, FALSE)>>, "none"),
    QsUpdate(2, <<Kw("l__append", <<1>>, FALSE)>>, "none"), QsUpdate(2, <<Kw("m__update", <<1, 0>>, FALSE)>>, "none"),
    QsUpdate(1, <<Kw("m__update", <<0, 1>>, FALSE), Kw("m__remove", {1}, FALSE)>>, "none"),
    QsUpdate(1, <<Kw("l__append", <<1>>, FALSE), Kw("l__prepend", <<2>>, FALSE)>>, "none"),
    QsUpdate(1, <<Kw("a", 0, TRUE), Kw("s__add", {2}, FALSE)>>, "none"),
    QsUpdate(1, <<Kw("s__add", {2}, FALSE)>>, "iff_a1"),
    QsUpdate(1, <<Kw("b", 0, TRUE)>>, "ifexists")
>>
QsUpdates == QsUpdatesNarrow \o (IF Wide THEN QsUpdatesWide ELSE <<>>)

QsDeletes == << QsDelete(1, "none"), QsDelete(2, "none"), QsDelete(0, "none"), QsDelete(1, "ifexists") >>

BatchMembers == <<
    CreateRich(2),
    Q1("a", 2),
    Q1("s__add", {2}),
    QsUpdate(0, <<Kw("st", 2, FALSE)>>, "none"),
    QsDelete(2, "none"),
    ISave("save", <<Mu("b", "set", 1)>>),
    ISave("update", <<Mu("m", "put", <<2, 1>>), Mu("l", "append", 2)>>),
    Q1("m__remove", {1}),
    QsUpdate(2, <<Kw("l__append", <<1>>, FALSE)>>, "none"),
    ISave("save", <<Mu("a", "set", 0), Mu("st", "set", 1)>>)
>>
NBM == IF Wide THEN Len(BatchMembers) ELSE 7
BatchIdx == {<<i, j>> : i \in 1..NBM, j \in 1..NBM} \cup
            (IF MaxBatch >= 3 THEN {<<i, j, k>> : i \in 1..NBM, j \in 1..NBM, k \in 1..NBM} ELSE {})
\* members that can never share a batch: they write the same cells / both use the instance
\* ({2, 5, 10}: the save writes column a of the instance's row, which is row 1 or row 2)
NeverTogether == {{1, 5}, {1, 9}, {1, 6}, {1, 7}, {1, 10}, {6, 7}, {6, 10}, {7, 10}, {5, 9}, {2, 5, 10}}
IncreasingIdx == {q \in BatchIdx : /\ \A i \in 1..(Len(q) - 1) : q[i] < q[i + 1]
                                   /\ \A T \in NeverTogether : ~(T \subseteq {q[i] : i \in 1..Len(q)})}
RECURSIVE SeqOfIdx(_)
SeqOfIdx(T) == IF T = {} THEN <<>> ELSE LET q == CHOOSE x \in T : TRUE IN <<q>> \o SeqOfIdx(T \ {q})
Batches == LET qs == SeqOfIdx(IncreasingIdx) IN
           [n \in 1..Len(qs) |-> Batch([i \in 1..Len(qs[n]) |-> BatchMembers[qs[n][i]]])]

RowOps == Creates \o << Load(1), Load(2) >> \o ISaves \o << ISaveAs, IDelete >> \o QsUpdates \o QsDeletes \o Batches

\* Initial histories (executed as setup, not part of the graph)
RowInits == <<
    <<>>,
    << CreateRich(1) >>,
    << Create(1, {"b", "st", "s", "m"}, OtherVals, FALSE), QsUpdate(1, <<Kw("l__append", <<2>>, FALSE)>>, "none"), Load(1) >>,
    << QsUpdate(1, <<Kw("a", 1, FALSE)>>, "none"), Load(1) >>
>>

-----------------------------------------------------------------------------
\* Model RC (Mode = "counter"): partition key k, clustering key ck (always 1), counter n.
\* db = [live, v]: the counter cell exists / its value;  inst = [has, n, old]

CEmptyS == [db |-> [live |-> FALSE, dead |-> FALSE, v |-> 0], inst |-> [has |-> FALSE, n |-> 0, old |-> 0]]

CQs(d)       == [name |-> "cqs", d |-> d]                  \* RC.objects(k=1, ck=1).update(n=d)
CCreate(d)   == [name |-> "ccreate", d |-> d]              \* RC.create(k=1, ck=1, n=d)   (d = 0: n not given)
CLoad        == [name |-> "cload"]
CISave(d, how) == [name |-> "cisave", d |-> d, how |-> how] \* inst.n += d; inst.save() / update()
CIDelete     == [name |-> "cidelete"]
CQsDelete    == [name |-> "cqsdelete"]
CBatch(ds)   == [name |-> "cbatch", ds |-> ds]             \* BatchQuery(batch_type=Counter): one update(n=d) per d

CounterOps == << CQs(2), CQs(-1), CQs(-3), CCreate(0), CCreate(3), CLoad, CISave(2, "save"), CISave(-3, "update"), CISave(0, "save"),
                 CISave(-1, "save"), CIDelete, CQsDelete, CBatch(<<2, -3>>), CBatch(<<1, 1, 1>>) >>
CounterInits == << <<>>, << CQs(2), CLoad >> >>

RECURSIVE Sum(_)
Sum(q) == IF Len(q) = 0 THEN 0 ELSE Head(q) + Sum(Tail(q))

CEn(op, S) ==
    /\ ~S.db.dead                        \* a deleted counter is not written again (Cassandra does not define it)
    /\ op.name \in {"cisave", "cidelete"} => S.inst.has
CAdd(S, d) == [S.db EXCEPT !.live = TRUE, !.v = @ + d]
CEff(op, S) ==
    CASE op.name = "cqs"     -> [db |-> CAdd(S, op.d), inst |-> S.inst]
      [] op.name = "cbatch"  -> [db |-> CAdd(S, Sum(op.ds)), inst |-> S.inst]
      [] op.name = "ccreate" -> [db |-> CAdd(S, op.d), inst |-> [has |-> TRUE, n |-> op.d, old |-> op.d]]
      [] op.name = "cload"   -> IF S.db.live THEN [db |-> S.db, inst |-> [has |-> TRUE, n |-> S.db.v, old |-> S.db.v]] ELSE S
      [] op.name = "cisave"  -> [db |-> CAdd(S, (S.inst.n + op.d) - S.inst.old),
                                 inst |-> [has |-> TRUE, n |-> S.inst.n + op.d, old |-> S.inst.n + op.d]]
      [] op.name = "cidelete"  -> [db |-> [live |-> FALSE, dead |-> TRUE, v |-> 0], inst |-> [has |-> FALSE, n |-> 0, old |-> 0]]
      [] op.name = "cqsdelete" -> [db |-> [live |-> FALSE, dead |-> TRUE, v |-> 0], inst |-> S.inst]
CInSync(S) == S.inst.has /\ S.db.live /\ S.inst.n = S.db.v

-----------------------------------------------------------------------------
Ops   == IF Mode = "row" THEN RowOps ELSE CounterOps
Inits == IF Mode = "row" THEN RowInits ELSE CounterInits
\* the harness reads the alphabets from TLC's output
ASSUME PrintT(<<"OPS", Ops>>)
ASSUME PrintT(<<"INITS", Inits>>)
ASSUME PrintT(<<"ELEMS", ElemTypes>>)

State == [db |-> db, inst |-> inst]
Enabled(op, S) == IF Mode = "row" THEN En(op, S) ELSE CEn(op, S)
Effect(op, S)  == IF Mode = "row" THEN Eff(op, S) ELSE CEff(op, S)
WasApplied(op, S) == IF Mode = "row" /\ op.name # "batch" THEN Applied(op, S) ELSE TRUE

RECURSIVE Run(_, _)
Run(ops, S) == IF Len(ops) = 0 THEN S ELSE Run(Tail(ops), Effect(Head(ops), S))

Init == \E i \in 1..Len(Inits) :
            LET S == Run(Inits[i], IF Mode = "row" THEN EmptyS ELSE CEmptyS) IN
            /\ db = S.db /\ inst = S.inst /\ ok = TRUE /\ origin = i /\ steps = 0
            /\ sane = [refused |-> TRUE, sync |-> TRUE]

Step(i) ==
    /\ i <= Len(Ops)
    /\ steps < MaxSteps
    /\ Enabled(Ops[i], State) = TRUE         \* "= TRUE": a plain predicate, TLC must not split its disjunctions into actions
    /\ LET op == Ops[i]
           S == State
           T == Effect(op, S)
           applied == WasApplied(op, S)
       IN /\ db' = T.db /\ inst' = T.inst
          /\ ok' = applied
          /\ sane' = [refused |-> applied \/ T = S,
                      sync |-> (Mode = "row" /\ op.name = "isave" /\ InSync(S) /\ Visible(T.db.rows[T.inst.ck])) => InSync(T)]
    /\ origin' = origin
    /\ steps' = steps + 1

Op_1 == Step(1)
Op_2 == Step(2)
Op_3 == Step(3)
Op_4 == Step(4)
Op_5 == Step(5)
Op_6 == Step(6)
Op_7 == Step(7)
Op_8 == Step(8)
Op_9 == Step(9)
Op_10 == Step(10)
Op_11 == Step(11)
Op_12 == Step(12)
Op_13 == Step(13)
Op_14 == Step(14)
Op_15 == Step(15)
Op_16 == Step(16)
Op_17 == Step(17)
Op_18 == Step(18)
Op_19 == Step(19)
Op_20 == Step(20)
Op_21 == Step(21)
Op_22 == Step(22)
Op_23 == Step(23)
Op_24 == Step(24)
Op_25 == Step(25)
Op_26 == Step(26)
Op_27 == Step(27)
Op_28 == Step(28)
Op_29 == Step(29)
Op_30 == Step(30)
Op_31 == Step(31)
Op_32 == Step(32)
Op_33 == Step(33)
Op_34 == Step(34)
Op_35 == Step(35)
Op_36 == Step(36)
Op_37 == Step(37)
Op_38 == Step(38)
Op_39 == Step(39)
Op_40 == Step(40)
Op_41 == Step(41)
Op_42 == Step(42)
Op_43 == Step(43)
Op_44 == Step(44)
Op_45 == Step(45)
Op_46 == Step(46)
Op_47 == Step(47)
Op_48 == Step(48)
Op_49 == Step(49)
Op_50 == Step(50)
Op_51 == Step(51)
Op_52 == Step(52)
Op_53 == Step(53)
Op_54 == Step(54)
Op_55 == Step(55)
Op_56 == Step(56)
Op_57 == Step(57)
Op_58 == Step(58)
Op_59 == Step(59)
Op_60 == Step(60)
Op_61 == Step(61)
Op_62 == Step(62)
Op_63 == Step(63)
Op_64 == Step(64)
Op_65 == Step(65)
Op_66 == Step(66)
Op_67 == Step(67)
Op_68 == Step(68)
Op_69 == Step(69)
Op_70 == Step(70)
Op_71 == Step(71)
Op_72 == Step(72)
Op_73 == Step(73)
Op_74 == Step(74)
Op_75 == Step(75)
Op_76 == Step(76)
Op_77 == Step(77)
Op_78 == Step(78)
Op_79 == Step(79)
Op_80 == Step(80)
Op_81 == Step(81)
Op_82 == Step(82)
Op_83 == Step(83)
Op_84 == Step(84)
Op_85 == Step(85)
Op_86 == Step(86)
Op_87 == Step(87)
Op_88 == Step(88)
Op_89 == Step(89)
Op_90 == Step(90)
Op_91 == Step(91)
Op_92 == Step(92)
Op_93 == Step(93)
Op_94 == Step(94)
Op_95 == Step(95)
Op_96 == Step(96)
Op_97 == Step(97)
Op_98 == Step(98)
Op_99 == Step(99)
Op_100 == Step(100)
Op_101 == Step(101)
Op_102 == Step(102)
Op_103 == Step(103)
Op_104 == Step(104)
Op_105 == Step(105)
Op_106 == Step(106)
Op_107 == Step(107)
Op_108 == Step(108)
Op_109 == Step(109)
Op_110 == Step(110)
Op_111 == Step(111)
Op_112 == Step(112)
Op_113 == Step(113)
Op_114 == Step(114)
Op_115 == Step(115)
Op_116 == Step(116)
Op_117 == Step(117)
Op_118 == Step(118)
Op_119 == Step(119)
Op_120 == Step(120)
Op_121 == Step(121)
Op_122 == Step(122)
Op_123 == Step(123)
Op_124 == Step(124)
Op_125 == Step(125)
Op_126 == Step(126)
Op_127 == Step(127)
Op_128 == Step(128)
Op_129 == Step(129)
Op_130 == Step(130)
Op_131 == Step(131)
Op_132 == Step(132)
Op_133 == Step(133)
Op_134 == Step(134)
Op_135 == Step(135)
Op_136 == Step(136)
Op_137 == Step(137)
Op_138 == Step(138)
Op_139 == Step(139)
Op_140 == Step(140)
Op_141 == Step(141)
Op_142 == Step(142)
Op_143 == Step(143)
Op_144 == Step(144)
Op_145 == Step(145)
Op_146 == Step(146)
Op_147 == Step(147)
Op_148 == Step(148)
Op_149 == Step(149)
Op_150 == Step(150)
Op_151 == Step(151)
Op_152 == Step(152)
Op_153 == Step(153)
Op_154 == Step(154)
Op_155 == Step(155)
Op_156 == Step(156)
Op_157 == Step(157)
Op_158 == Step(158)
Op_159 == Step(159)
Op_160 == Step(160)
Op_161 == Step(161)
Op_162 == Step(162)
Op_163 == Step(163)
Op_164 == Step(164)
Op_165 == Step(165)
Op_166 == Step(166)
Op_167 == Step(167)
Op_168 == Step(168)
Op_169 == Step(169)
Op_170 == Step(170)
Op_171 == Step(171)
Op_172 == Step(172)
Op_173 == Step(173)
Op_174 == Step(174)
Op_175 == Step(175)
Op_176 == Step(176)
Op_177 == Step(177)
Op_178 == Step(178)
Op_179 == Step(179)
Op_180 == Step(180)
Op_181 == Step(181)
Op_182 == Step(182)
Op_183 == Step(183)
Op_184 == Step(184)
Op_185 == Step(185)
Op_186 == Step(186)
Op_187 == Step(187)
Op_188 == Step(188)
Op_189 == Step(189)
Op_190 == Step(190)
Op_191 == Step(191)
Op_192 == Step(192)
Op_193 == Step(193)
Op_194 == Step(194)
Op_195 == Step(195)
Op_196 == Step(196)
Op_197 == Step(197)
Op_198 == Step(198)
Op_199 == Step(199)
Op_200 == Step(200)
Op_201 == Step(201)
Op_202 == Step(202)
Op_203 == Step(203)
Op_204 == Step(204)
Op_205 == Step(205)
Op_206 == Step(206)
Op_207 == Step(207)
Op_208 == Step(208)
Op_209 == Step(209)
Op_210 == Step(210)
Op_211 == Step(211)
Op_212 == Step(212)
Op_213 == Step(213)
Op_214 == Step(214)
Op_215 == Step(215)
Op_216 == Step(216)
Op_217 == Step(217)
Op_218 == Step(218)
Op_219 == Step(219)
Op_220 == Step(220)
Op_221 == Step(221)
Op_222 == Step(222)
Op_223 == Step(223)
Op_224 == Step(224)
Op_225 == Step(225)
Op_226 == Step(226)
Op_227 == Step(227)
Op_228 == Step(228)
Op_229 == Step(229)
Op_230 == Step(230)
Op_231 == Step(231)
Op_232 == Step(232)
Op_233 == Step(233)
Op_234 == Step(234)
Op_235 == Step(235)
Op_236 == Step(236)
Op_237 == Step(237)
Op_238 == Step(238)
Op_239 == Step(239)
Op_240 == Step(240)
Op_241 == Step(241)
Op_242 == Step(242)
Op_243 == Step(243)
Op_244 == Step(244)
Op_245 == Step(245)
Op_246 == Step(246)
Op_247 == Step(247)
Op_248 == Step(248)
Op_249 == Step(249)
Op_250 == Step(250)
Op_251 == Step(251)
Op_252 == Step(252)
Op_253 == Step(253)
Op_254 == Step(254)
Op_255 == Step(255)
Op_256 == Step(256)
Op_257 == Step(257)
Op_258 == Step(258)
Op_259 == Step(259)
Op_260 == Step(260)
Op_261 == Step(261)
Op_262 == Step(262)
Op_263 == Step(263)
Op_264 == Step(264)
Op_265 == Step(265)
Op_266 == Step(266)
Op_267 == Step(267)
Op_268 == Step(268)
Op_269 == Step(269)
Op_270 == Step(270)
Op_271 == Step(271)
Op_272 == Step(272)
Op_273 == Step(273)
Op_274 == Step(274)
Op_275 == Step(275)
Op_276 == Step(276)
Op_277 == Step(277)
Op_278 == Step(278)
Op_279 == Step(279)
Op_280 == Step(280)
Op_281 == Step(281)
Op_282 == Step(282)
Op_283 == Step(283)
Op_284 == Step(284)
Op_285 == Step(285)
Op_286 == Step(286)
Op_287 == Step(287)
Op_288 == Step(288)
Op_289 == Step(289)
Op_290 == Step(290)
Op_291 == Step(291)
Op_292 == Step(292)
Op_293 == Step(293)
Op_294 == Step(294)
Op_295 == Step(295)
Op_296 == Step(296)
Op_297 == Step(297)
Op_298 == Step(298)
Op_299 == Step(299)
Op_300 == Step(300)
Op_301 == Step(301)
Op_302 == Step(302)
Op_303 == Step(303)
Op_304 == Step(304)
Op_305 == Step(305)
Op_306 == Step(306)
Op_307 == Step(307)
Op_308 == Step(308)
Op_309 == Step(309)
Op_310 == Step(310)
Op_311 == Step(311)
Op_312 == Step(312)
Op_313 == Step(313)
Op_314 == Step(314)
Op_315 == Step(315)
Op_316 == Step(316)
Op_317 == Step(317)
Op_318 == Step(318)
Op_319 == Step(319)
Op_320 == Step(320)

\* the same relation restricted to the first operations (cheaper for TLC when the alphabet is short)
NextCounter ==
    \/ Op_1
    \/ Op_2
    \/ Op_3
    \/ Op_4
    \/ Op_5
    \/ Op_6
    \/ Op_7
    \/ Op_8
    \/ Op_9
    \/ Op_10
    \/ Op_11
    \/ Op_12
    \/ Op_13
    \/ Op_14
    \/ Op_15
    \/ Op_16

NextNarrow ==
    \/ Op_1
    \/ Op_2
    \/ Op_3
    \/ Op_4
    \/ Op_5
    \/ Op_6
    \/ Op_7
    \/ Op_8
    \/ Op_9
    \/ Op_10
    \/ Op_11
    \/ Op_12
    \/ Op_13
    \/ Op_14
    \/ Op_15
    \/ Op_16
    \/ Op_17
    \/ Op_18
    \/ Op_19
    \/ Op_20
    \/ Op_21
    \/ Op_22
    \/ Op_23
    \/ Op_24
    \/ Op_25
    \/ Op_26
    \/ Op_27
    \/ Op_28
    \/ Op_29
    \/ Op_30
    \/ Op_31
    \/ Op_32
    \/ Op_33
    \/ Op_34
    \/ Op_35
    \/ Op_36
    \/ Op_37
    \/ Op_38
    \/ Op_39
    \/ Op_40
    \/ Op_41
    \/ Op_42
    \/ Op_43
    \/ Op_44
    \/ Op_45
    \/ Op_46
    \/ Op_47
    \/ Op_48
    \/ Op_49
    \/ Op_50
    \/ Op_51
    \/ Op_52
    \/ Op_53
    \/ Op_54
    \/ Op_55
    \/ Op_56
    \/ Op_57
    \/ Op_58
    \/ Op_59
    \/ Op_60
    \/ Op_61
    \/ Op_62
    \/ Op_63
    \/ Op_64
    \/ Op_65
    \/ Op_66
    \/ Op_67
    \/ Op_68
    \/ Op_69
    \/ Op_70
    \/ Op_71
    \/ Op_72
    \/ Op_73
    \/ Op_74
    \/ Op_75
    \/ Op_76
    \/ Op_77
    \/ Op_78
    \/ Op_79
    \/ Op_80
    \/ Op_81
    \/ Op_82
    \/ Op_83
    \/ Op_84
    \/ Op_85
    \/ Op_86
    \/ Op_87
    \/ Op_88
    \/ Op_89
    \/ Op_90
    \/ Op_91
    \/ Op_92
    \/ Op_93
    \/ Op_94
    \/ Op_95
    \/ Op_96

Next ==
    \/ Op_1
    \/ Op_2
    \/ Op_3
    \/ Op_4
    \/ Op_5
    \/ Op_6
    \/ Op_7
    \/ Op_8
    \/ Op_9
    \/ Op_10
    \/ Op_11
    \/ Op_12
    \/ Op_13
    \/ Op_14
    \/ Op_15
    \/ Op_16
    \/ Op_17
    \/ Op_18
    \/ Op_19
    \/ Op_20
    \/ Op_21
    \/ Op_22
    \/ Op_23
    \/ Op_24
    \/ Op_25
    \/ Op_26
    \/ Op_27
    \/ Op_28
    \/ Op_29
    \/ Op_30
    \/ Op_31
    \/ Op_32
    \/ Op_33
    \/ Op_34
    \/ Op_35
    \/ Op_36
    \/ Op_37
    \/ Op_38
    \/ Op_39
    \/ Op_40
    \/ Op_41
    \/ Op_42
    \/ Op_43
    \/ Op_44
    \/ Op_45
    \/ Op_46
    \/ Op_47
    \/ Op_48
    \/ Op_49
    \/ Op_50
    \/ Op_51
    \/ Op_52
    \/ Op_53
    \/ Op_54
    \/ Op_55
    \/ Op_56
    \/ Op_57
    \/ Op_58
    \/ Op_59
    \/ Op_60
    \/ Op_61
    \/ Op_62
    \/ Op_63
    \/ Op_64
    \/ Op_65
    \/ Op_66
    \/ Op_67
    \/ Op_68
    \/ Op_69
    \/ Op_70
    \/ Op_71
    \/ Op_72
    \/ Op_73
    \/ Op_74
    \/ Op_75
    \/ Op_76
    \/ Op_77
    \/ Op_78
    \/ Op_79
    \/ Op_80
    \/ Op_81
    \/ Op_82
    \/ Op_83
    \/ Op_84
    \/ Op_85
    \/ Op_86
    \/ Op_87
    \/ Op_88
    \/ Op_89
    \/ Op_90
    \/ Op_91
    \/ Op_92
    \/ Op_93
    \/ Op_94
    \/ Op_95
    \/ Op_96
    \/ Op_97
    \/ Op_98
    \/ Op_99
    \/ Op_100
    \/ Op_101
    \/ Op_102
    \/ Op_103
    \/ Op_104
    \/ Op_105
    \/ Op_106
    \/ Op_107
    \/ Op_108
    \/ Op_109
    \/ Op_110
    \/ Op_111
    \/ Op_112
    \/ Op_113
    \/ Op_114
    \/ Op_115
    \/ Op_116
    \/ Op_117
    \/ Op_118
    \/ Op_119
    \/ Op_120
    \/ Op_121
    \/ Op_122
    \/ Op_123
    \/ Op_124
    \/ Op_125
    \/ Op_126
    \/ Op_127
    \/ Op_128
    \/ Op_129
    \/ Op_130
    \/ Op_131
    \/ Op_132
    \/ Op_133
    \/ Op_134
    \/ Op_135
    \/ Op_136
    \/ Op_137
    \/ Op_138
    \/ Op_139
    \/ Op_140
    \/ Op_141
    \/ Op_142
    \/ Op_143
    \/ Op_144
    \/ Op_145
    \/ Op_146
    \/ Op_147
    \/ Op_148
    \/ Op_149
    \/ Op_150
    \/ Op_151
    \/ Op_152
    \/ Op_153
    \/ Op_154
    \/ Op_155
    \/ Op_156
    \/ Op_157
    \/ Op_158
    \/ Op_159
    \/ Op_160
    \/ Op_161
    \/ Op_162
    \/ Op_163
    \/ Op_164
    \/ Op_165
    \/ Op_166
    \/ Op_167
    \/ Op_168
    \/ Op_169
    \/ Op_170
    \/ Op_171
    \/ Op_172
    \/ Op_173
    \/ Op_174
    \/ Op_175
    \/ Op_176
    \/ Op_177
    \/ Op_178
    \/ Op_179
    \/ Op_180
    \/ Op_181
    \/ Op_182
    \/ Op_183
    \/ Op_184
    \/ Op_185
    \/ Op_186
    \/ Op_187
    \/ Op_188
    \/ Op_189
    \/ Op_190
    \/ Op_191
    \/ Op_192
    \/ Op_193
    \/ Op_194
    \/ Op_195
    \/ Op_196
    \/ Op_197
    \/ Op_198
    \/ Op_199
    \/ Op_200
    \/ Op_201
    \/ Op_202
    \/ Op_203
    \/ Op_204
    \/ Op_205
    \/ Op_206
    \/ Op_207
    \/ Op_208
    \/ Op_209
    \/ Op_210
    \/ Op_211
    \/ Op_212
    \/ Op_213
    \/ Op_214
    \/ Op_215
    \/ Op_216
    \/ Op_217
    \/ Op_218
    \/ Op_219
    \/ Op_220
    \/ Op_221
    \/ Op_222
    \/ Op_223
    \/ Op_224
    \/ Op_225
    \/ Op_226
    \/ Op_227
    \/ Op_228
    \/ Op_229
    \/ Op_230
    \/ Op_231
    \/ Op_232
    \/ Op_233
    \/ Op_234
    \/ Op_235
    \/ Op_236
    \/ Op_237
    \/ Op_238
    \/ Op_239
    \/ Op_240
    \/ Op_241
    \/ Op_242
    \/ Op_243
    \/ Op_244
    \/ Op_245
    \/ Op_246
    \/ Op_247
    \/ Op_248
    \/ Op_249
    \/ Op_250
    \/ Op_251
    \/ Op_252
    \/ Op_253
    \/ Op_254
    \/ Op_255
    \/ Op_256
    \/ Op_257
    \/ Op_258
    \/ Op_259
    \/ Op_260
    \/ Op_261
    \/ Op_262
    \/ Op_263
    \/ Op_264
    \/ Op_265
    \/ Op_266
    \/ Op_267
    \/ Op_268
    \/ Op_269
    \/ Op_270
    \/ Op_271
    \/ Op_272
    \/ Op_273
    \/ Op_274
    \/ Op_275
    \/ Op_276
    \/ Op_277
    \/ Op_278
    \/ Op_279
    \/ Op_280
    \/ Op_281
    \/ Op_282
    \/ Op_283
    \/ Op_284
    \/ Op_285
    \/ Op_286
    \/ Op_287
    \/ Op_288
    \/ Op_289
    \/ Op_290
    \/ Op_291
    \/ Op_292
    \/ Op_293
    \/ Op_294
    \/ Op_295
    \/ Op_296
    \/ Op_297
    \/ Op_298
    \/ Op_299
    \/ Op_300
    \/ Op_301
    \/ Op_302
    \/ Op_303
    \/ Op_304
    \/ Op_305
    \/ Op_306
    \/ Op_307
    \/ Op_308
    \/ Op_309
    \/ Op_310
    \/ Op_311
    \/ Op_312
    \/ Op_313
    \/ Op_314
    \/ Op_315
    \/ Op_316
    \/ Op_317
    \/ Op_318
    \/ Op_319
    \/ Op_320

Spec == Init /\ [][Next]_vars

-----------------------------------------------------------------------------
\* C35 on the definition itself

Synced == IF Mode = "row" THEN InSync(State) ELSE CInSync(State)

TypeOK ==
    IF Mode = "row"
    THEN /\ db.st \in 0..2
         /\ \A c \in CKs : /\ db.rows[c].a \in 0..2 /\ db.rows[c].b \in 0..2 /\ db.rows[c].s \subseteq 1..2
                           /\ Len(db.rows[c].l) <= MaxList /\ \A i \in 1..2 : db.rows[c].m[i] \in 0..2
         /\ inst.has => inst.ck \in CKs /\ Len(inst.cur.l) <= MaxList
         /\ inst.old = inst.cur           \* between operations the instance has no unsaved change
    ELSE inst.has => inst.old = inst.n

\* "reading the row back yields the instance's current values": an instance that agreed with its row still agrees
\* with it after it was changed and saved (unless the save removed the last live cell of a row without marker: then
\* there is no row to read).  Evaluated by Step on (state, successor) and carried in `sane`.
SaveKeepsSync == sane.sync

\* a refused conditional write changes nothing
RefusedChangesNothing == sane.refused

\* vacuity witnesses (expected to be VIOLATED; the first for both modes, then three for "row", one for "counter")
Witness_SyncedAtTheEnd == ~(steps = MaxSteps /\ Synced)
Witness_Refused == ok
Witness_RowWithoutMarker == ~(\E c \in CKs : Visible(db.rows[c]) /\ ~db.rows[c].mk)
Witness_StaticSeenByOtherRow == ~(inst.has /\ db.st # 0 /\ \E c \in CKs : c # inst.ck /\ Visible(db.rows[c]))
Witness_CounterBelowZero == ~(db.live /\ db.v < 0)
=============================================================================
