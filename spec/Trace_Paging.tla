---------------------------- MODULE Trace_Paging ----------------------------
(* Trace validation (code -> spec) for Paging.tla.  A trace is one consumer   *)
(* program run on a real ResultSet over a page layout served by the fake      *)
(* node: the first event is Execute / ExecAsync (with the layout), every event *)
(* carries                                                                   *)
(* the value the operation returned (out), the projected state of the real    *)
(* objects after it (post) and the pure reads current_rows / one() /          *)
(* has_more_pages / paging_state taken in that state (reads).  An event is    *)
(* accepted iff the specification action is enabled, returns the same value   *)
(* and produces exactly the logged post-state.                                *)
EXTENDS Paging, TraceLib

VARIABLES tid, l
tvars == <<vars, tid, l>>

Tr == Traces[tid]

Post(p) ==
    /\ reqs' = p.reqs
    /\ served' = p.served
    /\ ps' = p.ps
    /\ started' => cur' = p.cur
    /\ cb' = p.cb
    /\ it' = p.it
    /\ mode' = p.mode
    /\ lh' = p.lh
    /\ yielded' = p.yielded

Reads(r) ==
    /\ r.cur = cur'
    /\ r.one = (IF cur' = <<>> THEN <<>> ELSE <<cur'[1]>>)      \* One
    /\ r.more = (ps' # 0)                                       \* HasMore
    /\ r.ps = ps'

TraceInit == tid \in 1..NTraces /\ l = 1 /\ InitWith(Tr[1].layout)

TraceNext ==
    /\ l <= Len(Tr)
    /\ l' = l + 1
    /\ UNCHANGED tid
    /\ LET e == Tr[l] IN
       /\ \/ e.e = "Execute" /\ Execute
          \/ e.e = "Iter"    /\ Iter
          \/ e.e = "Next"    /\ Next_
          \/ e.e = "Fetch"   /\ Fetch
          \/ e.e = "List"    /\ List
          \/ e.e = "index"   /\ ListMode("index", e.arg)
          \/ e.e = "eq"      /\ ListMode("eq", 0)
          \/ e.e = "ExecAsync"   /\ ExecAsync
          \/ e.e = "AddCallback" /\ AddCallback
          \/ e.e = "Deliver"     /\ Deliver
       /\ act'.out = e.out
       /\ Post(e.post)
       /\ (started' => Reads(e.reads))

TraceSpec == TraceInit /\ [][TraceNext]_tvars

Progress == RecordProgress(tid, l)
Done == PrintProgress
=============================================================================
