-------------------------- MODULE Trace_Reconnect --------------------------
(* Trace validation (code -> spec) for Reconnect.tla.  A trace is the life of  *)
(* one real POLICY object: event 1 carries the parameters it was created       *)
(* with; "Sched" = new_schedule() was called (schedules are numbered in that    *)
(* order); "Emit"/"Stop" name the schedule whose next() was called             *)
(* (original text follows)                                                      *)
(* one real schedule object: event 1 carries the parameters it was created     *)
(* with (in the spec's units, see Reconnect.tla), then one "Emit" event per     *)
(* item returned by next() with the enclosure of the delay, and a final "Stop"  *)
(* event iff next() raised StopIteration.  Anything else the iterator does      *)
(* (another exception, a non-number) is logged under another name and matches   *)
(* no action.                                                                   *)
EXTENDS Reconnect, TraceLib

VARIABLES tid, l
tvars == <<vars, tid, l>>

Tr == Traces[tid]

TraceInit ==
    /\ tid \in 1..NTraces
    /\ l = 2
    /\ InitWith(Tr[1].policy, Tr[1].base, Tr[1].max, Tr[1].attempts)

TraceNext ==
    /\ l <= Len(Tr)
    /\ l' = l + 1
    /\ UNCHANGED tid
    /\ LET e == Tr[l] IN
          \/ e.e = "Sched" /\ e.s = ns + 1 /\ Sched
          \/ e.e = "Emit" /\ Emit(e.s, e.dlo, e.dhi)
          \/ e.e = "Stop" /\ Stop(e.s)

TraceSpec == TraceInit /\ [][TraceNext]_tvars

Progress == RecordProgress(tid, l)
Done == PrintProgress
=============================================================================
