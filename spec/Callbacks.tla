------------------------------ MODULE Callbacks ------------------------------
(* The callback hand-over of one ResponseFuture: completing threads race with  *)
(* client threads that register callbacks / errbacks.  Sub-model of C14 at     *)
(* lock / line granularity (Request.tla treats completion as one step).        *)
(*                                                                            *)
(* Code anchors (cassandra/cluster.py, class ResponseFuture):                 *)
(*   _set_final_result / _set_final_exception (loop thread, executor thread)  *)
(*        with self._callback_lock:                                           *)
(*            if already final: return                 -> CRelAbort            *)
(*            self._final_result = response            -> CSet                 *)
(*            to_call = tuple(... self._callbacks)     -> CSnap  (in the lock) *)
(*        self._event.set()                            -> CEvt                 *)
(*        for callback_partial in to_call: ...()       -> CRun (one per call)  *)
(*   add_callback / add_errback / add_callbacks (client threads)              *)
(*        with self._callback_lock:                                           *)
(*            self._callbacks.append((fn, args, kwargs))                       *)
(*            if self._final_result is not _NOT_SET: run_now = True -> RAppend *)
(*        if run_now: fn(self._final_result, ...)      -> RRunNow              *)
(*   add_callbacks = add_callback ; add_errback (two phases of one thread)    *)
(*                                                                            *)
(* One action per observable effect; a thread that holds the lock excludes     *)
(* the others only from Acq, everything outside the lock interleaves freely.  *)
EXTENDS Integers, Sequences, FiniteSets, TLC

CONSTANTS NC,          \* completing threads 1..NC
          NR,          \* registering threads NC+1..NC+NR; thread t registers handlers owned by t
          Kinds,       \* subset of {"res", "err"}: what a completer delivers (_set_final_result / _set_final_exception)
          Ops,         \* subset of {"cb", "eb", "both"}: add_callback / add_errback / add_callbacks
          PreChoices   \* subset of BOOLEAN: a callback+errback pair (owner 0) registered before any thread runs

Completers == 1..NC
Registrars == (NC + 1)..(NC + NR)
Threads    == 1..(NC + NR)
Owners     == {0} \cup Registrars

VARIABLES kind,     \* completer -> "res" | "err"
          op,       \* registrar -> "cb" | "eb" | "both"
          pc,       \* thread -> program point
          phase,    \* registrar -> "cb" | "eb": which registration it is performing
          lock,     \* 0 or the thread holding _callback_lock
          final,    \* "unset" | "res" | "err"
          event,    \* _event is set
          cbs, ebs, \* _callbacks / _errbacks: sequences of owners
          snap,     \* completer -> the handlers it still has to invoke (to_call)
          now,      \* registrar -> run_now of the current registration
          ccalls, ecalls,   \* owner -> invocations of its callback / errback
          wrong,    \* a handler was invoked with something else than the final outcome
          act

vars == <<kind, op, pc, phase, lock, final, event, cbs, ebs, snap, now, ccalls, ecalls, wrong, act>>
A(name, t) == [name |-> name, t |-> t]
SeqSet(s) == {s[i] : i \in 1..Len(s)}

InitWith(kd, o, pre) ==
    /\ kind = kd /\ op = o
    /\ pc = [t \in Threads |-> "want"]
    /\ phase = [r \in Registrars |-> IF o[r] = "eb" THEN "eb" ELSE "cb"]
    /\ lock = 0 /\ final = "unset" /\ event = FALSE
    /\ cbs = IF pre THEN <<0>> ELSE <<>>
    /\ ebs = IF pre THEN <<0>> ELSE <<>>
    /\ snap = [c \in Completers |-> <<>>]
    /\ now = [r \in Registrars |-> FALSE]
    /\ ccalls = [o2 \in Owners |-> 0] /\ ecalls = [o2 \in Owners |-> 0]
    /\ wrong = FALSE
    /\ act = A("Init", 0)

Init == \E kd \in [Completers -> Kinds], o \in [Registrars -> Ops], pre \in PreChoices : InitWith(kd, o, pre)

(* `with self._callback_lock:` *)
Acq(t) ==
    /\ pc[t] = "want" /\ lock = 0
    /\ lock' = t
    /\ pc' = [pc EXCEPT ![t] = "locked"]
    /\ act' = A("Acq", t)
    /\ UNCHANGED <<kind, op, phase, final, event, cbs, ebs, snap, now, ccalls, ecalls, wrong>>

(* ---- completer ---- *)
CSet(c) ==
    /\ c \in Completers /\ pc[c] = "locked" /\ final = "unset"
    /\ final' = kind[c]
    /\ pc' = [pc EXCEPT ![c] = "set"]
    /\ act' = A("CSet", c)
    /\ UNCHANGED <<kind, op, phase, lock, event, cbs, ebs, snap, now, ccalls, ecalls, wrong>>

CSnap(c) ==
    /\ c \in Completers /\ pc[c] = "set"
    /\ snap' = [snap EXCEPT ![c] = IF kind[c] = "res" THEN cbs ELSE ebs]
    /\ pc' = [pc EXCEPT ![c] = "snapped"]
    /\ act' = A("CSnap", c)
    /\ UNCHANGED <<kind, op, phase, lock, final, event, cbs, ebs, now, ccalls, ecalls, wrong>>

CRel(c) ==
    /\ c \in Completers /\ pc[c] = "snapped"
    /\ lock' = 0
    /\ pc' = [pc EXCEPT ![c] = "released"]
    /\ act' = A("CRel", c)
    /\ UNCHANGED <<kind, op, phase, final, event, cbs, ebs, snap, now, ccalls, ecalls, wrong>>

(* already completed (second answer, late answer after a timeout): leave without touching anything *)
CRelAbort(c) ==
    /\ c \in Completers /\ pc[c] = "locked" /\ final # "unset"
    /\ lock' = 0
    /\ pc' = [pc EXCEPT ![c] = "done"]
    /\ act' = A("CRelAbort", c)
    /\ UNCHANGED <<kind, op, phase, final, event, cbs, ebs, snap, now, ccalls, ecalls, wrong>>

CEvt(c) ==
    /\ c \in Completers /\ pc[c] = "released"
    /\ event' = TRUE
    /\ pc' = [pc EXCEPT ![c] = IF snap[c] = <<>> THEN "done" ELSE "run"]
    /\ act' = A("CEvt", c)
    /\ UNCHANGED <<kind, op, phase, lock, final, cbs, ebs, snap, now, ccalls, ecalls, wrong>>

CRun(c) ==
    /\ c \in Completers /\ pc[c] = "run"
    /\ LET h == Head(snap[c]) IN
       /\ IF kind[c] = "res"
          THEN ccalls' = [ccalls EXCEPT ![h] = @ + 1] /\ UNCHANGED ecalls
          ELSE ecalls' = [ecalls EXCEPT ![h] = @ + 1] /\ UNCHANGED ccalls
       /\ wrong' = (wrong \/ final # kind[c])
    /\ snap' = [snap EXCEPT ![c] = Tail(@)]
    /\ pc' = [pc EXCEPT ![c] = IF Len(snap[c]) = 1 THEN "done" ELSE "run"]
    /\ act' = A("CRun", c)
    /\ UNCHANGED <<kind, op, phase, lock, final, event, cbs, ebs, now>>

(* ---- registrar ---- *)
RAppend(r) ==
    /\ r \in Registrars /\ pc[r] = "locked"
    /\ IF phase[r] = "cb"
       THEN cbs' = Append(cbs, r) /\ now' = [now EXCEPT ![r] = (final = "res")] /\ UNCHANGED ebs
       ELSE ebs' = Append(ebs, r) /\ now' = [now EXCEPT ![r] = (final = "err")] /\ UNCHANGED cbs
    /\ pc' = [pc EXCEPT ![r] = "appended"]
    /\ act' = A("RAppend", r)
    /\ UNCHANGED <<kind, op, phase, lock, final, event, snap, ccalls, ecalls, wrong>>

NextPhase(r) == op[r] = "both" /\ phase[r] = "cb"

RRel(r) ==
    /\ r \in Registrars /\ pc[r] = "appended"
    /\ lock' = 0
    /\ IF now[r] THEN pc' = [pc EXCEPT ![r] = "runnow"] /\ UNCHANGED phase
       ELSE IF NextPhase(r) THEN pc' = [pc EXCEPT ![r] = "want"] /\ phase' = [phase EXCEPT ![r] = "eb"]
       ELSE pc' = [pc EXCEPT ![r] = "done"] /\ UNCHANGED phase
    /\ act' = A("RRel", r)
    /\ UNCHANGED <<kind, op, final, event, cbs, ebs, snap, now, ccalls, ecalls, wrong>>

RRunNow(r) ==
    /\ r \in Registrars /\ pc[r] = "runnow"
    /\ IF phase[r] = "cb"
       THEN ccalls' = [ccalls EXCEPT ![r] = @ + 1] /\ UNCHANGED ecalls /\ wrong' = (wrong \/ final # "res")
       ELSE ecalls' = [ecalls EXCEPT ![r] = @ + 1] /\ UNCHANGED ccalls /\ wrong' = (wrong \/ final # "err")
    /\ IF NextPhase(r) THEN pc' = [pc EXCEPT ![r] = "want"] /\ phase' = [phase EXCEPT ![r] = "eb"]
       ELSE pc' = [pc EXCEPT ![r] = "done"] /\ UNCHANGED phase
    /\ act' = A("RRunNow", r)
    /\ UNCHANGED <<kind, op, lock, final, event, cbs, ebs, snap, now>>

Next == \E t \in Threads : Acq(t) \/ CSet(t) \/ CSnap(t) \/ CRel(t) \/ CRelAbort(t) \/ CEvt(t) \/ CRun(t)
                           \/ RAppend(t) \/ RRel(t) \/ RRunNow(t)

Spec == Init /\ [][Next]_vars

-----------------------------------------------------------------------------
TypeOK == lock \in 0..(NC + NR) /\ final \in {"unset", "res", "err"}

AllDone == \A t \in Threads : pc[t] = "done"

(* C14: never twice, never with something else than the outcome, never both kinds *)
Inv_AtMostOnce == \A o \in Owners : ccalls[o] <= 1 /\ ecalls[o] <= 1
Inv_Outcome    == /\ ~wrong
                  /\ \A o \in Owners : (ccalls[o] > 0 => final = "res") /\ (ecalls[o] > 0 => final = "err")
(* ... and never zero times once everything has run: every registered handler of the outcome's kind ran exactly once *)
Inv_ExactlyOnce ==
    AllDone => /\ final # "unset"
               /\ event
               /\ final = "res" => \A o \in SeqSet(cbs) : ccalls[o] = 1
               /\ final = "err" => \A o \in SeqSet(ebs) : ecalls[o] = 1
Inv_Lock == \A t \in Threads : pc[t] \in {"locked", "set", "snapped", "appended"} <=> lock = t

(* vacuity witnesses: each must be VIOLATED *)
Witness_RunNow        == \A r \in Registrars : pc[r] # "runnow"
Witness_Abort         == act.name # "CRelAbort"
Witness_SnapHasLate   == \A c \in Completers : \A i \in 1..Len(snap[c]) : snap[c][i] = 0
Witness_AppendBetween == ~(act.name = "RAppend" /\ \E c \in Completers : pc[c] \in {"released", "run"})
=============================================================================
