------------------------ MODULE SessionKeyspaceV12 ------------------------
(* Switching the session keyspace over protocol-v1/v2 pools: the second level *)
(* of the fan-out.  Session._set_keyspace_for_all_pools (SessionKeyspace.tla)  *)
(* waits for one callback per pool; a HostConnectionPool has several           *)
(* connections and its _set_keyspace_for_all_conns (pool.py 925-949) fans the  *)
(* USE out over all of them and calls the session back when the last one has   *)
(* answered, with every error collected on the way.                            *)
(*                                                                            *)
(* A configuration gives every connection of every pool the outcome of its     *)
(* USE: ok, invalid (InvalidRequest), srverr (another error: the connection is *)
(* defuncted), died (the connection fails while the USE is outstanding).       *)
(* ConnFinish(h, i) is the loop-thread callback for that answer; they come in  *)
(* any order, across pools.                                                    *)
EXTENDS Integers, FiniteSets, TLC

CONSTANTS NHosts, NConn
Hosts == 1..NHosts
Slots == 1..NConn
Outcomes == {"ok", "invalid", "srverr", "died"}

VARIABLES outcome,     \* [Hosts -> [Slots -> Outcomes]]
          phase,       \* idle, switching, done
          asked,       \* set of <<h, i>>: connections with the USE outstanding
          perr,        \* per pool: has it collected an error
          premaining,  \* per pool: connections it still waits for
          remaining,   \* pools the session still waits for
          errs,        \* pools that reported errors to the session
          completions, result,
          connks,      \* [Hosts -> [Slots -> old / new / none]]
          act
vars == <<outcome, phase, asked, perr, premaining, remaining, errs, completions, result, connks, act>>

A(name, h, i) == [name |-> name, h |-> h, i |-> i]

Init ==
    /\ outcome \in [Hosts -> [Slots -> Outcomes]]
    /\ phase = "idle" /\ asked = {}
    /\ perr = [h \in Hosts |-> FALSE]
    /\ premaining = [h \in Hosts |-> {}]
    /\ remaining = {} /\ errs = {}
    /\ completions = 0 /\ result = "none"
    /\ connks = [h \in Hosts |-> [i \in Slots |-> "old"]]
    /\ act = A("Init", 0, 0)

(* the SET_KEYSPACE result of the USE statement: every pool sends the USE on every connection *)
Start ==
    /\ phase = "idle"
    /\ phase' = "switching"
    /\ asked' = Hosts \X Slots
    /\ premaining' = [h \in Hosts |-> Slots]
    /\ remaining' = Hosts
    /\ act' = A("Start", 0, 0)
    /\ UNCHANGED <<outcome, perr, errs, completions, result, connks>>

(* connection_finished_setting_keyspace (941-948) and, for the pool's last connection, the session's *)
(* pool_finished_setting_keyspace; for the session's last pool, the completion of the USE future      *)
ConnFinish(h, i) ==
    /\ phase = "switching" /\ <<h, i>> \in asked
    /\ asked' = asked \ {<<h, i>>}
    /\ LET o == outcome[h][i]
           pe == perr[h] \/ o # "ok"                                    \* every error is kept, whoever finishes last
           pr == premaining[h] \ {i}
           poolDone == pr = {}
           es == IF poolDone /\ pe THEN errs \cup {h} ELSE errs
           rm == IF poolDone THEN remaining \ {h} ELSE remaining IN
       /\ perr' = [perr EXCEPT ![h] = pe]
       /\ premaining' = [premaining EXCEPT ![h] = pr]
       /\ errs' = es /\ remaining' = rm
       /\ connks' = [connks EXCEPT ![h][i] = CASE o = "ok" -> "new" [] o = "invalid" -> "old" [] OTHER -> "none"]
       /\ IF rm = {}
          THEN completions' = completions + 1 /\ result' = (IF es = {} THEN "ok" ELSE "error") /\ phase' = "done"
          ELSE UNCHANGED <<completions, result, phase>>
    /\ act' = A("ConnFinish", h, i)
    /\ UNCHANGED outcome

Next == Start \/ \E h \in Hosts, i \in Slots : ConnFinish(h, i)
Spec == Init /\ [][Next]_vars

-----------------------------------------------------------------------------
(* C20 *)
CompletesOnce == completions <= 1 /\ (phase = "done" <=> completions = 1)
AlwaysCompletes == /\ phase = "switching" => asked # {}
                   /\ \A h \in Hosts : premaining[h] = {i \in Slots : <<h, i>> \in asked}
                   /\ remaining = {h \in Hosts : premaining[h] # {}}
ErrorIffSomeConnectionFailed ==
    phase = "done" => (result = "ok" <=> \A h \in Hosts, i \in Slots : outcome[h][i] = "ok")
KeyspaceEverywhereAfterSuccess ==
    result = "ok" => \A h \in Hosts, i \in Slots : connks[h][i] = "new"

Witness_EarlierConnectionFailedLastOk ==
    ~(phase = "done" /\ result = "error" /\ act.name = "ConnFinish" /\ outcome[act.h][act.i] = "ok"
      /\ \E j \in Slots : outcome[act.h][j] # "ok")
Witness_Success == result # "ok"
=============================================================================
