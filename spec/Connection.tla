----------------------------- MODULE Connection -----------------------------
(* One multiplexed connection of the driver as seen by its pool and by the    *)
(* requests that use it.                                                      *)
(*                                                                            *)
(* Code anchors (cassandra/):                                                 *)
(*   connection.py  Connection.get_request_id, send_msg, process_msg,         *)
(*                  defunct, error_all_requests, close (reactor contract)     *)
(*   pool.py        HostConnection.borrow_connection / return_connection      *)
(*   cluster.py     ResponseFuture._query, _set_result (return to pool),      *)
(*                  _on_timeout (orphaning)                                   *)
(*                                                                            *)
(* Threads.  Every reactor shipped with the driver runs socket callbacks and  *)
(* timer callbacks on its single loop thread, so process_msg, _on_timeout and *)
(* a socket-error defunct are atomic with respect to each other: Respond,     *)
(* Timeout, SocketError are single actions.  Client threads run               *)
(* execute_async concurrently with the loop: borrowing (under the connection  *)
(* lock) and sending are two actions, Borrow and Send, and any loop action    *)
(* can fall between them.  Close is an explicit close from another thread.    *)
EXTENDS Integers, Sequences, FiniteSets, TLC

CONSTANTS MaxId,      \* max_request_id: ids are 0..MaxId, at most MaxId may be in flight
          InitFree,   \* harness only: size the real id deque is shrunk to, so that its on-demand growth is exercised
          HbDefunct,  \* TRUE: defunct() may also be called by the heartbeat thread, concurrently with the loop thread
          BadAnswers, \* TRUE: the node may send an undecodable body or a protocol-error frame (process_msg defuncts)
          AnyId,      \* TRUE: get_request_id may hand out ANY available id (all the property says; used when recorded
                      \* runs are validated).  FALSE: the least available id - a symmetry reduction for the exhaustive
                      \* runs (no action looks at the numeric value of an id), replayed modulo a renaming of ids
          Reqs,       \* request names
          CPReqs,     \* the requests that use DSE continuous paging (several pages arrive on one stream)
          MaxPages,   \* a continuous-paging answer has 1..MaxPages pages
          Busy,                \* TRUE: the socket may become unwritable (ConnectionBusy) - separate switch to keep quick models small
          CloseFailsSessions   \* TRUE: an explicit close() fails open continuous-paging sessions (what C10 asks for);
                               \* FALSE: only defunct() does - Deviation_CloseLeavesSessions, what the pinned code does
                               \* (every reactor's close() calls error_all_requests only); see known_findings.json

ASSUME CPReqs \subseteq Reqs

ASSUME InitFree \in 1..(MaxId + 1)

Ids  == 0..MaxId
None == "none"

VARIABLES avail,     \* the ids get_request_id may still hand out: request_ids (the deque of recycled / pre-made ids)
                     \* together with the ids above highest_request_id, AS A SET - which of them is handed out next and
                     \* how the pool of ids is represented is not part of the property (a first version of this module
                     \* copied the FIFO deque and rejected a driver that pre-allocates ids in blocks: DESIGN.md 11)
          inflight,  \* in_flight (ids in use, orphaned ones included)
          reqs,      \* _requests: function from a subset of Ids to the request registered there
          orphans,   \* orphaned_request_ids
          srv,       \* set of <<id, r>>: the node still owes request r's answer on stream id
          st,        \* per request: new, borrowed, sending, sent, refused, done, timedout, errored
          ph,        \* per request: "encode" while its client thread is inside send_msg between registering
                     \*   the handler and pushing the encoded frame, else "none"
          rid,       \* per request: its stream id (or -1)
          got,       \* per request: set of answers delivered to its handler (named by the request they answer)
          errs,      \* per request: number of connection-error invocations of its handler
          cps,       \* _continuous_paging_sessions: function from a subset of Ids to the request whose session owns the stream
          pages,     \* per request: pages its paging session has received
          cperr,     \* per request: connection errors delivered to its paging session
          defunct, closed,
          dfn,       \* a defunct() call made by ANOTHER thread than the loop thread (the heartbeat thread) in progress:
                     \* "none" | "begun" (guard passed, flag set, handlers not yet failed) | "begun2" (a second defunct -
                     \* the loop thread's socket error - came meanwhile and was turned away) | "done"
          writable,  \* _socket_writable: FALSE while the reactor's write buffer is full (send_msg raises ConnectionBusy)
          act        \* last action, for replay
vars == <<avail, inflight, reqs, orphans, srv, st, ph, rid, got, errs, cps, pages, cperr, defunct, closed, dfn, writable, act>>

Range(f) == {f[x] : x \in DOMAIN f}
SeqSet(s) == {s[i] : i \in 1..Len(s)}
Drop(f, k) == [x \in DOMAIN f \ {k} |-> f[x]]
A(name, r, id) == [name |-> name, r |-> r, id |-> id]

Init ==
    /\ avail = Ids
    /\ inflight = 0
    /\ reqs = <<>>
    /\ orphans = {}
    /\ srv = {}
    /\ st = [r \in Reqs |-> "new"]
    /\ ph = [r \in Reqs |-> "none"]
    /\ rid = [r \in Reqs |-> -1]
    /\ got = [r \in Reqs |-> {}]
    /\ errs = [r \in Reqs |-> 0]
    /\ cps = <<>>
    /\ pages = [r \in Reqs |-> 0]
    /\ cperr = [r \in Reqs |-> 0]
    /\ defunct = FALSE
    /\ closed = FALSE
    /\ dfn = "none"
    /\ writable = TRUE
    /\ act = A("Init", None, -1)

Dead == defunct \/ closed

(* HostConnection.borrow_connection: under conn.lock, capacity check, in_flight += 1, get_request_id *)
Borrow(r) ==
    /\ st[r] = "new"
    /\ inflight < MaxId
    /\ ~Dead                                   \* a dead connection is not handed out (pool drops it)
    /\ \E id \in avail :                         \* none available: the code's assert refuses (NoIdExhaustion: never the blocker)
       /\ AnyId \/ \A j \in avail : id <= j
       /\ avail' = avail \ {id}
       /\ rid' = [rid EXCEPT ![r] = id]
       /\ act' = A("Borrow", r, id)
    /\ inflight' = inflight + 1
    /\ st' = [st EXCEPT ![r] = "borrowed"]
    /\ UNCHANGED <<reqs, orphans, srv, ph, got, errs, cps, pages, cperr, defunct, closed, writable>>
    /\ UNCHANGED dfn

(* Connection.send_msg from ResponseFuture._query, first half: shutdown / writability checks and the   *)
(* registration of the handler (adjacent statements, one step); the thread then encodes the message.  *)
Send(r) ==
    /\ st[r] = "borrowed"
    /\ IF Dead
       THEN \* ConnectionShutdown raised; _query returns the connection to the pool (in_flight -= 1)
            /\ st' = [st EXCEPT ![r] = "refused"]
            /\ inflight' = inflight - 1
            /\ UNCHANGED <<reqs, avail, ph>>
       ELSE IF ~writable
       THEN \* ConnectionBusy: the request moves on to the next host; the unused stream id and the
            \* capacity it took are given back (the connection is alive and keeps being used)
            /\ st' = [st EXCEPT ![r] = "refused"]
            /\ inflight' = inflight - 1
            /\ avail' = avail \cup {rid[r]}
            /\ UNCHANGED <<reqs, ph>>
       ELSE /\ st' = [st EXCEPT ![r] = "sending"]
            /\ reqs' = (rid[r] :> r) @@ reqs
            /\ ph' = [ph EXCEPT ![r] = "encode"]
            /\ UNCHANGED <<inflight, avail>>
    /\ act' = A("Send", r, rid[r])
    /\ UNCHANGED <<orphans, srv, rid, got, errs, cps, pages, cperr, defunct, closed, writable>>
    /\ UNCHANGED dfn

(* second half of send_msg: the encoded frame is pushed.  If the connection failed meanwhile the handler *)
(* was already errored by FailAll (it was registered) and the bytes go nowhere.                          *)
Push(r) ==
    /\ ph[r] = "encode"
    /\ ph' = [ph EXCEPT ![r] = "none"]
    /\ IF ~closed /\ st[r] = "sending"          \* (a socket marked defunct but not yet closed still takes the bytes)
       THEN /\ st' = [st EXCEPT ![r] = "sent"]
            /\ srv' = srv \cup {<<rid[r], r>>}
       ELSE UNCHANGED <<st, srv>>
    /\ act' = A("Push", r, rid[r])
    /\ UNCHANGED <<avail, inflight, reqs, orphans, rid, got, errs, cps, pages, cperr, defunct, closed, writable>>
    /\ UNCHANGED dfn

(* Connection.process_msg for the answer to request q on stream id (whole callback, loop thread) *)
Respond(id, q) ==
    /\ <<id, q>> \in srv
    /\ q \notin CPReqs
    /\ ~Dead
    /\ srv' = srv \ {<<id, q>>}
    /\ LET wasOrphan == id \in orphans
           released  == IF wasOrphan THEN 1 ELSE 0 IN
       /\ orphans' = orphans \ {id}
       /\ IF id \in DOMAIN reqs
          THEN LET r == reqs[id] IN
               /\ reqs' = Drop(reqs, id)
               /\ got' = [got EXCEPT ![r] = @ \cup {q}]
               /\ st' = [st EXCEPT ![r] = "done"]
               /\ inflight' = inflight - released - 1       \* _set_result -> pool.return_connection
               /\ act' = A("Respond", r, id)
          ELSE /\ UNCHANGED <<reqs, got, st>>
               /\ inflight' = inflight - released
               /\ act' = A("RespondLate", q, id)
    /\ avail' = avail \cup {id}
    /\ UNCHANGED <<ph, rid, errs, cps, pages, cperr, defunct, closed, writable>>
    /\ UNCHANGED dfn

(* process_msg for an answer the connection cannot accept (whole callback, loop thread).  "RespondCorrupt": the  *)
(* body cannot be decoded - the request's handler (already taken out of _requests) is called with the decode   *)
(* error, then defunct() fails every OTHER registered handler; the stream id is not recycled (return).        *)
(* "RespondProtoError": an ERROR frame carrying a protocol error - defunct() first (the others get their       *)
(* connection error), then the request's handler is called with the error, then the id goes back.             *)
(* Either way every outstanding handler runs exactly once.  A late answer (handler gone after a timeout) is   *)
(* not decoded at all and is an ordinary RespondLate.                                                          *)
RespondBad(id, q, kind) ==
    /\ BadAnswers
    /\ <<id, q>> \in srv
    /\ q \notin CPReqs
    /\ ~Dead
    /\ id \in DOMAIN reqs
    /\ LET r == reqs[id]
           others == Range(Drop(reqs, id)) IN
       /\ errs' = [x \in Reqs |-> IF x = r \/ x \in others THEN errs[x] + 1 ELSE errs[x]]
       /\ st' = [x \in Reqs |-> IF x = r THEN "failed" ELSE IF x \in others THEN "errored" ELSE st[x]]
       /\ inflight' = inflight - Cardinality(others) - 1
       /\ act' = A(kind, r, id)
    /\ cperr' = [x \in Reqs |-> IF x \in Range(cps) THEN cperr[x] + 1 ELSE cperr[x]]       \* defunct: error_all_cp_sessions
    /\ reqs' = <<>>
    /\ srv' = {}
    /\ avail' = IF kind = "RespondProtoError" THEN avail \cup {id} ELSE avail
    /\ defunct' = TRUE /\ closed' = TRUE
    /\ UNCHANGED <<orphans, ph, rid, got, cps, pages, writable>>
    /\ UNCHANGED dfn

(* Continuous paging (DSE): the node streams several pages on the request's stream.  The first page goes *)
(* to the request's handler, which returns the connection to the pool (in_flight -= 1) and registers a   *)
(* ContinuousPagingSession that owns the stream from then on; later pages go to the session.  The id is  *)
(* recycled only when the page flagged "last" has been processed.                                         *)
RespondPage(id, q, last) ==
    /\ <<id, q>> \in srv
    /\ q \in CPReqs
    /\ ~Dead
    /\ srv' = IF last THEN srv \ {<<id, q>>} ELSE srv
    /\ IF id \in DOMAIN cps
       THEN LET r == cps[id] IN
            /\ pages[r] < MaxPages
            /\ (pages[r] + 1 = MaxPages => last)
            /\ pages' = [pages EXCEPT ![r] = @ + 1]
            /\ cps' = IF last THEN Drop(cps, id) ELSE cps
            /\ act' = A(IF last THEN "LastPage" ELSE "Page", r, id)
            /\ UNCHANGED <<reqs, got, st, inflight>>
       ELSE /\ id \in DOMAIN reqs
            /\ (MaxPages = 1 => last)
            /\ LET r == reqs[id] IN
               /\ reqs' = Drop(reqs, id)
               /\ got' = [got EXCEPT ![r] = @ \cup {q}]
               /\ st' = [st EXCEPT ![r] = "done"]
               /\ pages' = [pages EXCEPT ![r] = 1]
               /\ cps' = IF last THEN cps ELSE (id :> r) @@ cps
               /\ act' = A(IF last THEN "OnlyPage" ELSE "FirstPage", r, id)
            /\ inflight' = inflight - 1
    /\ avail' = IF last THEN avail \cup {id} ELSE avail
    /\ UNCHANGED <<orphans, ph, rid, errs, cperr, defunct, closed, writable>>
    /\ UNCHANGED dfn

(* ResponseFuture._on_timeout (whole callback, loop thread) *)
Timeout(r) ==
    /\ st[r] = "sent"
    /\ r \notin CPReqs          \* scope: client timeouts of continuous-paging requests are not modelled
    /\ ~Dead
    /\ rid[r] \in DOMAIN reqs /\ reqs[rid[r]] = r
    /\ reqs' = Drop(reqs, rid[r])
    /\ orphans' = orphans \cup {rid[r]}
    /\ st' = [st EXCEPT ![r] = "timedout"]
    /\ act' = A("Timeout", r, rid[r])
    /\ UNCHANGED <<avail, inflight, srv, ph, rid, got, errs, cps, pages, cperr, defunct, closed, writable>>
    /\ UNCHANGED dfn

(* _on_timeout running for a request whose answer was already processed (the timer's cancellation lost the *)
(* race, or send_request called it): the handler is gone, the stream id belongs to nobody (or was recycled) *)
(* - nothing about the connection may change.  Scope: only while the id has not been handed out again.     *)
TimeoutStale(r) ==
    /\ st[r] = "done"
    /\ ~Dead
    /\ rid[r] \notin DOMAIN reqs /\ rid[r] \notin DOMAIN cps
    /\ act' = A("TimeoutStale", r, rid[r])
    /\ UNCHANGED <<avail, inflight, reqs, orphans, srv, st, ph, rid, got, errs, cps, pages, cperr, defunct, closed, writable>>
    /\ UNCHANGED dfn

(* Connection.defunct / close: every registered handler gets one connection error; the request's     *)
(* error handling returns the connection to the pool (in_flight -= 1 per errored request).           *)
FailAllCore(name, failSessions) ==
    /\ ~Dead
    /\ LET victims == Range(reqs) IN
       /\ errs' = [r \in Reqs |-> IF r \in victims THEN errs[r] + 1 ELSE errs[r]]
       /\ st' = [r \in Reqs |-> IF r \in victims THEN "errored" ELSE st[r]]
       /\ inflight' = inflight - Cardinality(victims)
    /\ cperr' = [r \in Reqs |-> IF failSessions /\ r \in Range(cps) THEN cperr[r] + 1 ELSE cperr[r]]   \* error_all_cp_sessions
    /\ reqs' = <<>>
    /\ srv' = {}                               \* the socket is gone: nothing more will arrive
    /\ act' = A(name, None, -1)
    /\ UNCHANGED <<avail, orphans, ph, rid, got, cps, pages, writable>>

(* the reactor's write buffer fills up / drains (libev reactor); any thread's send is refused meanwhile *)
SetWritable(w) ==
    /\ Busy
    /\ ~Dead /\ writable # w
    /\ writable' = w
    /\ act' = A(IF w THEN "SocketWritable" ELSE "SocketBusy", None, -1)
    /\ UNCHANGED <<avail, inflight, reqs, orphans, srv, st, ph, rid, got, errs, cps, pages, cperr, defunct, closed>>
    /\ UNCHANGED dfn

FailAll(name, failSessions) == dfn \in {"none", "done"} /\ FailAllCore(name, failSessions) /\ UNCHANGED dfn

SocketError == FailAll("SocketError", TRUE) /\ defunct' = TRUE /\ closed' = TRUE
Close       == FailAll("Close", CloseFailsSessions) /\ closed' = TRUE /\ UNCHANGED defunct

(* defunct() called by another thread (ConnectionHeartbeat.run on a failed heartbeat) while the loop thread may  *)
(* report a socket error of its own.  Connection.defunct's guard is one critical section: test is_defunct /     *)
(* is_closed AND set is_defunct; whoever comes second is turned away, so every handler and every paging session *)
(* is failed once.                                                                                               *)
HbDefunctBegin ==
    /\ HbDefunct
    /\ ~Dead /\ dfn = "none"
    /\ defunct' = TRUE /\ dfn' = "begun"
    /\ act' = A("HbDefunctBegin", None, -1)
    /\ UNCHANGED <<avail, inflight, reqs, orphans, srv, st, ph, rid, got, errs, cps, pages, cperr, closed, writable>>

SocketErrorDuringDefunct ==           \* the loop thread's defunct(): guard sees the flag, returns
    /\ dfn = "begun"
    /\ dfn' = "begun2"
    /\ act' = A("SocketErrorDuringDefunct", None, -1)
    /\ UNCHANGED <<avail, inflight, reqs, orphans, srv, st, ph, rid, got, errs, cps, pages, cperr, defunct, closed, writable>>

HbDefunctFinish ==
    /\ dfn \in {"begun", "begun2"}
    /\ LET victims == Range(reqs) IN
       /\ errs' = [r \in Reqs |-> IF r \in victims THEN errs[r] + 1 ELSE errs[r]]
       /\ st' = [r \in Reqs |-> IF r \in victims THEN "errored" ELSE st[r]]
       /\ inflight' = inflight - Cardinality(victims)
    /\ cperr' = [r \in Reqs |-> IF r \in Range(cps) THEN cperr[r] + 1 ELSE cperr[r]]
    /\ reqs' = <<>>
    /\ srv' = {}
    /\ closed' = TRUE /\ dfn' = "done"
    /\ act' = A("HbDefunctFinish", None, -1)
    /\ UNCHANGED <<avail, orphans, ph, rid, got, cps, pages, defunct, writable>>

Next ==
    \/ \E r \in Reqs : Borrow(r) \/ Send(r) \/ Push(r) \/ Timeout(r) \/ TimeoutStale(r)
    \/ \E id \in Ids, q \in Reqs : Respond(id, q)
    \/ \E id \in Ids, q \in Reqs, kind \in {"RespondCorrupt", "RespondProtoError"} : RespondBad(id, q, kind)
    \/ \E id \in Ids, q \in Reqs, last \in BOOLEAN : RespondPage(id, q, last)
    \/ SocketError
    \/ Close
    \/ HbDefunctBegin \/ SocketErrorDuringDefunct \/ HbDefunctFinish
    \/ \E w \in BOOLEAN : SetWritable(w)

Spec == Init /\ [][Next]_vars

-----------------------------------------------------------------------------
(* C09 *)
TypeOK ==
    /\ inflight \in 0..(MaxId + 1)
    /\ avail \subseteq Ids
    /\ DOMAIN reqs \subseteq Ids

InUse == {rid[r] : r \in {x \in Reqs : st[x] \in {"borrowed", "sending", "sent"}}} \cup orphans
        \cup {m[1] : m \in srv} \cup DOMAIN cps

UniqueIds ==
    /\ \A a, b \in Reqs : a # b /\ st[a] \in {"borrowed", "sending", "sent"} /\ st[b] \in {"borrowed", "sending", "sent"} => rid[a] # rid[b]
    /\ ~Dead => avail \cap InUse = {}                       \* an id in use is never also available

NoCrossTalk == \A r \in Reqs : got[r] \subseteq {r}

IdBound == avail \subseteq Ids /\ \A r \in Reqs : rid[r] <= MaxId

\* the capacity check alone keeps get_request_id inside the id space (streams held by continuous-paging
\* sessions are not counted in in_flight, so this is only claimed while no session is open; with sessions the
\* code's assert refuses the borrow instead - the id bound itself, IdBound, always holds)
NoIdExhaustion == (~Dead /\ inflight < MaxId /\ cps = <<>>) => avail # {}

Accounting ==
    ~Dead => inflight = Cardinality({r \in Reqs : st[r] \in {"borrowed", "sending", "sent"}}) + Cardinality(orphans)

Quiescent == /\ \A r \in Reqs : st[r] \notin {"borrowed", "sending", "sent"} /\ ph[r] = "none"
             /\ srv = {}

Recycled == (Quiescent /\ ~Dead) => /\ inflight = 0
                                   /\ orphans = {}
                                   /\ reqs = <<>>
                                   /\ cps = <<>>
                                   /\ avail = Ids            \* every id can be handed out again

(* C10 *)
FailedOnce == \A r \in Reqs : errs[r] <= 1 /\ cperr[r] <= 1
AllFailed  == (Dead /\ dfn \notin {"begun", "begun2"}) =>
                  /\ reqs = <<>>
                  /\ \A r \in Reqs : st[r] \notin {"sending", "sent"}
                  /\ \A r \in Reqs : st[r] \in {"errored", "failed"} <=> errs[r] = 1
                  /\ (defunct \/ CloseFailsSessions) => \A r \in Range(cps) : cperr[r] = 1   \* open paging sessions too
NothingAfterDeath == [][Dead => got' = got /\ pages' = pages]_vars
SendRefusedWhenDead == [][\A r \in Reqs : (Dead /\ st[r] = "borrowed" /\ st'[r] # "borrowed") => st'[r] = "refused"]_vars

\* vacuity witnesses (each must be violated = reachable)
Witness_LateResponse == act.name # "RespondLate"
Witness_Grow == ~(Cardinality(avail) = 1 /\ ~Dead)     \* all ids but one handed out (the real deque had to grow: InitFree < MaxId)
Witness_ErroredTwoAtOnce == ~(Cardinality({r \in Reqs : st[r] = "errored"}) >= 2)
Witness_SessionOpen == cps = <<>>
Witness_SessionFailed == \A r \in Reqs : cperr[r] = 0
Witness_FailWhileEncoding == ~(\E r \in Reqs : ph[r] = "encode" /\ st[r] = "errored")
Witness_StaleTimeout == act.name # "TimeoutStale"
Witness_Busy == ~(\E r \in Reqs : st[r] = "refused" /\ ~Dead)
Witness_Refused == \A r \in Reqs : st[r] # "refused"
Witness_TwoDefunctsRace == ~(dfn = "begun2" /\ cps # <<>>)
Witness_BadAnswerWithOthersPending == ~(\E r \in Reqs : st[r] = "failed" /\ \E x \in Reqs : st[x] = "errored")
=============================================================================
