---------------------------- MODULE Trace_Segments ----------------------------
(* Trace validation (code -> spec) for Segments.tla.  A recorded run of the real *)
(* v5 connection: one "Init" event with the configuration in model units (frame  *)
(* shapes, codec, segmentation chosen by the sender, the corruption if any), then *)
(* one "Read" event per read handler invocation with the number of model bytes    *)
(* handed over and the projected state of the real connection afterwards.         *)
(* Until the specification's receiver fails the connection the logged state must  *)
(* be exactly the specification's; once it does, the property only asks that the  *)
(* real connection failed too and handed over nothing altered (it may also fail   *)
(* earlier, once the flipped bit has been read).                                  *)
EXTENDS Segments, TraceLib

VARIABLES tid, l
tvars == <<allvars, tid, l>>

Tr == Traces[tid]

Rec(d) == [idx |-> d.idx, stream |-> d.stream, len |-> d.len, exact |-> d.exact]
Recs(s) == [j \in 1..Len(s) |-> Rec(s[j])]
Ints(s) == [j \in 1..Len(s) |-> s[j]]

Post(p) ==
    IF defunct' \/ (p.defunct /\ corrupt.seg # 0 /\ p.seen)      \* failed (possibly early, flipped bit already read)
    THEN /\ p.defunct
         /\ p.altered = 0
         /\ \A j \in 1..Len(p.delivered) : p.delivered[j].exact
         /\ \A j \in 1..Len(p.pushed) : p.pushed[j].exact
    ELSE /\ ~p.defunct
         /\ p.altered = 0
         /\ nsent' = p.nsent
         /\ Len(segbuf') = p.segbuf
         /\ nseg' = p.nseg
         /\ sent' = p.sent
         /\ Len(buf') = p.buflen
         /\ (cur' # 0) = p.cur
         /\ delivered' = Recs(p.delivered)
         /\ pushed' = Recs(p.pushed)
         /\ order' = Ints(p.order)
         /\ Len(order') = p.nmsgs

Shape(f) == [ver |-> f.ver, neg |-> f.neg, blen |-> f.blen, sid |-> f.sid]
SegRec(s) == [lo |-> s.lo, hi |-> s.hi, sc |-> s.sc, z |-> s.z]

TraceInit ==
    /\ tid \in 1..NTraces
    /\ l = 2
    /\ LET e   == Tr[1]
           fs  == [j \in 1..Len(e.frames) |-> Shape(e.frames[j])]
           sgs == [s \in 1..Len(e.segs) |-> SegRec(e.segs[s])]
           cr  == [seg |-> e.corrupt.seg, reg |-> e.corrupt.reg] IN
       /\ e.e = "Init"
       /\ e.codec \in {"plain", "comp"}
       /\ e.codec = "plain" => \A s \in 1..Len(sgs) : ~sgs[s].z
       (* the logged segmentation is one a sender may produce for these frames *)
       /\ \E pk \in [1..Len(fs) -> BOOLEAN] :
             Build(fs, pk, 1, <<>>) = [s \in 1..Len(sgs) |-> [sgs[s] EXCEPT !.z = FALSE]]
       /\ cr.seg \in 0..Len(sgs)
       /\ SInit(fs, e.codec, sgs, cr)

TraceNext ==
    /\ l <= Len(Tr)
    /\ l' = l + 1
    /\ UNCHANGED tid
    /\ LET e == Tr[l] IN
       /\ e.e = "Read"
       /\ SRead(e.k)
       /\ Post(e.post)

Progress == RecordProgress(tid, l)
Done == PrintProgress
=============================================================================
