------------------------------- MODULE Timers -------------------------------
(* The driver's two pieces of time machinery.                                 *)
(*                                                                            *)
(* PART 1 - cassandra/connection.py  class Timer, class TimerManager          *)
(*   Every reactor owns one TimerManager.  Client threads (and callbacks)     *)
(*   call <reactor>.create_timer(timeout, cb) = Timer(timeout, cb) (reads the *)
(*   clock: end = time.time() + timeout) followed by add_timer (appends       *)
(*   (end, timer) to _new_timers - no lock, a GIL-atomic list.append).  The   *)
(*   loop thread calls service_timeouts():                                    *)
(*       merge   : while _new_timers: heappush(_queue, _new_timers.pop())     *)
(*       clock   : if _queue: now = time.time()        (read ONCE per pass)   *)
(*       step *  : head = _queue[0]; head.finish(now):                        *)
(*                   cancelled        -> heappop, no callback                 *)
(*                   now >= head.end  -> callback(), heappop                  *)
(*                   otherwise        -> return head.end                      *)
(*                 queue exhausted    -> return None                          *)
(*   Timer.cancel() (any thread) only sets timer.canceled; the entry stays in *)
(*   the heap until it reaches the head.  next_timeout = _queue[0][0] or None *)
(*   (heap only - _new_timers is not looked at).                              *)
(*   The merge loop is one action: an add_timer that lands between two of its *)
(*   pops is still merged (the loop runs until the list is empty), i.e. it is *)
(*   indistinguishable from one that happened just before.  The heap is kept  *)
(*   abstract (a set; the head is ANY entry of minimal end): the order of     *)
(*   equal end times is left open, as heapq leaves it.                        *)
(*   Callbacks run on the loop thread inside the step: they may create new    *)
(*   timers (Spawn), cancel others (Kill), or raise (Raise).                  *)
(*                                                                            *)
(*   PopOnRaise = TRUE is the intended design: a timer whose callback raises  *)
(*   is finished like any other (the `except Exception: log` in               *)
(*   service_timeouts shows the intent: isolate callback failures).           *)
(*   PopOnRaise = FALSE is Deviation_RaiseNotPopped, what the pinned code     *)
(*   does: the exception skips heappop, the while loop meets the same head    *)
(*   again and calls the callback again, for as long as it raises.            *)
(*                                                                            *)
(* PART 2 - cassandra/cluster.py  class _Scheduler(Thread)                    *)
(*   schedule / schedule_unique -> _insert_task: if not is_shutdown:          *)
(*   _scheduled_tasks.add(task); _queue.put((now + delay, next(count), task)) *)
(*   schedule_unique skips the insertion when task in _scheduled_tasks.       *)
(*   run() (the scheduler thread), one action per access to shared state:     *)
(*       LTop      `if self.is_shutdown: return`                              *)
(*       LGet      `_queue.get(block=True)` - least (run_at, i)               *)
(*       LChk      `if self.is_shutdown: return` (entry dropped)              *)
(*       LDispatch `if run_at <= time.time()`: _scheduled_tasks.discard,      *)
(*                 executor.submit, add_done_callback(_log_if_failed), back   *)
(*                 to LGet; else put the entry back and go to sleep           *)
(*       LWake     time.sleep(0.1) is over, back to LTop                      *)
(*   shutdown() from a client thread: XFlag (is_shutdown = True), XPut (the   *)
(*   (0, 0, None) sentinel that wakes a blocked get), XJoin (join returns     *)
(*   once run() has returned).  The executor is a different thread pool:      *)
(*   RunTask runs the oldest submitted task; it may raise (RaiseTasks: the    *)
(*   future keeps the exception, _log_if_failed logs it) or schedule itself   *)
(*   again (AgainTasks - what _ReconnectionHandler.run does).                 *)
(*   schedule/schedule_unique calls are single actions: in the driver         *)
(*   schedule_unique is only called from the control connection's event       *)
(*   handlers (one loop thread), schedule from reconnection handlers.         *)
(*                                                                            *)
(* The clock `now` is an environment variable that only moves forward (Tick). *)
EXTENDS Integers, Sequences, FiniteSets, TLC

CONSTANTS WithTimers, WithSched,   \* which part is explored (the parts share only the clock)
          MaxTime,                 \* the clock runs 0..MaxTime
          NT,                      \* timers are 1..NT
          Delays,                  \* timeouts used by create_timer
          Raise,                   \* timers whose callback raises (on its first MaxFire-1 invocations)
          MaxFire,
          SpawnCodes,              \* 10*t + c : the callback of t creates timer c (if not yet created) ...
          SpawnDelay,              \*            ... with this timeout
          KillCodes,               \* 10*t + u : the callback of t cancels timer u (if created)
          PopOnRaise,              \* see above
          NK,                      \* scheduler tasks are 1..NK
          SDelays,                 \* delays used by schedule / schedule_unique
          MaxIns,                  \* bound on the number of queue insertions (_count)
          RaiseTasks,              \* tasks that raise when run
          AgainTasks, AgainDelay, MaxRuns   \* tasks that call scheduler.schedule(AgainDelay, self) while run fewer than MaxRuns times

T == 1..NT
K == 1..NK
None == -1

Spawn(t) == {c \in T : 10 * t + c \in SpawnCodes}
Kill(t)  == {u \in T : 10 * t + u \in KillCodes}

VARIABLES now,
          \* ---- TimerManager
          tst,     \* per timer: "unborn", "new" (in _new_timers), "heap" (in _queue), "gone" (popped)
          tend,    \* Timer.end (None while unborn)
          canc,    \* Timer.canceled
          fired,   \* number of callback invocations
          early,   \* history: the callback ran while the clock was still before Timer.end
          cfirst,  \* history: cancel() was called before any invocation
          svc,     \* service_timeouts on the loop thread: "idle", "merged" (before the clock read), "loop"
          snow,    \* its local `now` (None before the read; kept after the pass until the next merge)
          ret,     \* value returned by the last completed pass (None = Python None)
          flog,    \* history: timers whose callback ran in the current / last pass, in order
          \* ---- _Scheduler
          q,       \* _queue: set of entries [at, i, k]
          cnt,     \* next value of _count
          stasks,  \* _scheduled_tasks
          lpc,     \* scheduler thread: "top", "get", "chk", "time", "sleep", "ended"
          cur,     \* entry it holds between get and dispatch (+ c: value of _count when it was taken, history)
          shut,    \* is_shutdown
          xpc,     \* shutdown() caller: "none", "flag", "put", "done"
          execq,   \* tasks submitted to the executor, not yet run
          ran,     \* per task: executions
          log,     \* history: submissions [k, at, i, e (submitted before its time), c (_count when the entry was taken)]
          plain,   \* history: tasks ever passed to plain schedule()
          act      \* last action, for replay
tvars == <<tst, tend, canc, fired, early, cfirst, svc, snow, ret, flog>>
svars == <<q, cnt, stasks, lpc, cur, shut, xpc, execq, ran, log, plain>>
vars == <<now, tvars, svars, act>>

A(name, a, b, k) == [name |-> name, a |-> a, b |-> b, k |-> k]

NoEntry  == [at |-> -2, i |-> -2, k |-> 0, c |-> -2]
Entry(e) == [at |-> e.at, i |-> e.i, k |-> e.k]
Sentinel == [at |-> -1, i |-> 0, k |-> 0]        \* (0, 0, None): sorts before every real entry

Init ==
    /\ now = 0
    /\ tst = [t \in T |-> "unborn"]
    /\ tend = [t \in T |-> None]
    /\ canc = [t \in T |-> FALSE]
    /\ fired = [t \in T |-> 0]
    /\ early = [t \in T |-> FALSE]
    /\ cfirst = [t \in T |-> FALSE]
    /\ svc = "idle" /\ snow = None /\ ret = None /\ flog = <<>>
    /\ q = {} /\ cnt = 0 /\ stasks = {}
    /\ lpc = "top" /\ cur = NoEntry /\ shut = FALSE /\ xpc = "none"
    /\ execq = <<>> /\ ran = [k \in K |-> 0] /\ log = <<>> /\ plain = {}
    /\ act = A("Init", 0, 0, "")

Tick ==
    /\ now < MaxTime
    /\ now' = now + 1
    /\ act' = A("Tick", 0, 0, "")
    /\ UNCHANGED <<tvars, svars>>

-----------------------------------------------------------------------------
(* PART 1 *)
Heap  == {t \in T : tst[t] = "heap"}
Heads == {t \in Heap : \A u \in Heap : tend[t] <= tend[u]}
MinEnd(S) == IF S = {} THEN None ELSE CHOOSE e \in {tend[t] : t \in S} : \A u \in S : e <= tend[u]
NextTimeout == MinEnd(Heap)                     \* TimerManager.next_timeout

(* <reactor>.create_timer(d, cb): Timer.__init__ reads the clock, add_timer appends to _new_timers *)
AddTimer(t, d) ==
    /\ WithTimers
    /\ tst[t] = "unborn"
    /\ tst' = [tst EXCEPT ![t] = "new"]
    /\ tend' = [tend EXCEPT ![t] = now + d]
    /\ act' = A("AddTimer", t, d, "")
    /\ UNCHANGED <<now, canc, fired, early, cfirst, svc, snow, ret, flog, svars>>

(* Timer.cancel from any thread, at any time after creation *)
Cancel(t) ==
    /\ WithTimers
    /\ tst[t] # "unborn"
    /\ ~canc[t]
    /\ canc' = [canc EXCEPT ![t] = TRUE]
    /\ cfirst' = [cfirst EXCEPT ![t] = (fired[t] = 0)]
    /\ act' = A("Cancel", t, 0, "")
    /\ UNCHANGED <<now, tst, tend, fired, early, svc, snow, ret, flog, svars>>

(* service_timeouts, first part: everything in _new_timers goes to the heap; an empty heap ends the call *)
SvcMerge ==
    /\ WithTimers
    /\ svc = "idle"
    /\ tst' = [t \in T |-> IF tst[t] = "new" THEN "heap" ELSE tst[t]]
    /\ flog' = <<>>
    /\ snow' = None
    /\ ret' = None
    /\ svc' = IF \E t \in T : tst'[t] = "heap" THEN "merged" ELSE "idle"
    /\ act' = A("SvcMerge", 0, 0, "")
    /\ UNCHANGED <<now, tend, canc, fired, early, cfirst, svars>>

SvcReadClock ==
    /\ WithTimers
    /\ svc = "merged"
    /\ snow' = now
    /\ svc' = "loop"
    /\ act' = A("SvcReadClock", 0, 0, "")
    /\ UNCHANGED <<now, tst, tend, canc, fired, early, cfirst, ret, flog, svars>>

(* one turn of `while queue:` - timer.finish(now) on the head t *)
SvcStep(t) ==
    /\ WithTimers
    /\ svc = "loop"
    /\ t \in Heads
    /\ IF canc[t]
       THEN \* cancelled: dropped when it reaches the head, callback not run
            /\ tst' = [tst EXCEPT ![t] = "gone"]
            /\ UNCHANGED <<tend, canc, fired, early, cfirst, flog>>
            /\ svc' = IF Heap = {t} THEN "idle" ELSE "loop"
            /\ UNCHANGED ret
            /\ act' = A("SvcStep", t, 0, "drop")
       ELSE IF snow >= tend[t]
       THEN \* due: callback (may cancel / create timers / raise), then heappop
            LET n      == fired[t] + 1
                raises == t \in Raise /\ n < MaxFire
                popped == ~raises \/ PopOnRaise          \* FALSE: Deviation_RaiseNotPopped
                born   == {c \in Spawn(t) : tst[c] = "unborn"}
                killed == {u \in Kill(t) : tst[u] # "unborn" /\ ~canc[u]} IN
            /\ fired' = [fired EXCEPT ![t] = n]
            /\ early' = [early EXCEPT ![t] = @ \/ now < tend[t]]
            /\ flog' = Append(flog, t)
            /\ canc' = [u \in T |-> canc[u] \/ u \in killed]
            /\ cfirst' = [u \in T |-> IF u \in killed THEN fired'[u] = 0 ELSE cfirst[u]]
            /\ tst' = [u \in T |-> IF u = t THEN (IF popped THEN "gone" ELSE "heap")
                                   ELSE IF u \in born THEN "new" ELSE tst[u]]
            /\ tend' = [u \in T |-> IF u \in born THEN now + SpawnDelay ELSE tend[u]]
            /\ svc' = IF popped /\ Heap = {t} THEN "idle" ELSE "loop"
            /\ UNCHANGED ret
            /\ act' = A("SvcStep", t, 0, IF popped THEN "fire" ELSE "refire")
       ELSE \* not due: the pass ends and reports when to come back
            /\ ret' = tend[t]
            /\ svc' = "idle"
            /\ UNCHANGED <<tst, tend, canc, fired, early, cfirst, flog>>
            /\ act' = A("SvcStep", t, 0, "wait")
    /\ UNCHANGED <<now, snow, svars>>

TimerNext ==
    \/ \E t \in T, d \in Delays : AddTimer(t, d)
    \/ \E t \in T : Cancel(t)
    \/ SvcMerge
    \/ SvcReadClock
    \/ \E t \in T : SvcStep(t)

-----------------------------------------------------------------------------
(* PART 2 *)
Less(a, b) == a.at < b.at \/ (a.at = b.at /\ a.i < b.i)
MinQ == CHOOSE e \in q : \A f \in q : e = f \/ Less(e, f)

Insert(k, d) ==
    /\ q' = q \cup {[at |-> now + d, i |-> cnt, k |-> k]}
    /\ cnt' = cnt + 1
    /\ stasks' = stasks \cup {k}

(* _Scheduler.schedule(d, fn_k) *)
Schedule(k, d) ==
    /\ WithSched
    /\ cnt < MaxIns
    /\ plain' = plain \cup {k}
    /\ IF shut
       THEN UNCHANGED <<q, cnt, stasks>> /\ act' = A("Schedule", k, d, "refused")
       ELSE Insert(k, d) /\ act' = A("Schedule", k, d, "queued")
    /\ UNCHANGED <<now, tvars, lpc, cur, shut, xpc, execq, ran, log>>

(* _Scheduler.schedule_unique(d, fn_k) *)
ScheduleUnique(k, d) ==
    /\ WithSched
    /\ cnt < MaxIns
    /\ IF k \in stasks
       THEN UNCHANGED <<q, cnt, stasks>> /\ act' = A("ScheduleUnique", k, d, "ignored")
       ELSE IF shut
       THEN UNCHANGED <<q, cnt, stasks>> /\ act' = A("ScheduleUnique", k, d, "refused")
       ELSE Insert(k, d) /\ act' = A("ScheduleUnique", k, d, "queued")
    /\ UNCHANGED <<now, tvars, lpc, cur, shut, xpc, execq, ran, log, plain>>

LTop ==
    /\ WithSched
    /\ lpc = "top"
    /\ lpc' = IF shut THEN "ended" ELSE "get"
    /\ act' = A("LTop", 0, 0, "")
    /\ UNCHANGED <<now, tvars, q, cnt, stasks, cur, shut, xpc, execq, ran, log, plain>>

LGet ==
    /\ WithSched
    /\ lpc = "get"
    /\ q # {}                                   \* a blocking get
    /\ cur' = [at |-> MinQ.at, i |-> MinQ.i, k |-> MinQ.k, c |-> cnt]
    /\ q' = q \ {MinQ}
    /\ lpc' = "chk"
    /\ act' = A("LGet", 0, 0, "")
    /\ UNCHANGED <<now, tvars, cnt, stasks, shut, xpc, execq, ran, log, plain>>

LChk ==
    /\ WithSched
    /\ lpc = "chk"
    /\ IF shut
       THEN lpc' = "ended" /\ cur' = NoEntry     \* "Not executing scheduled task due to Scheduler shutdown"
       ELSE lpc' = "time" /\ UNCHANGED cur
    /\ act' = A("LChk", 0, 0, "")
    /\ UNCHANGED <<now, tvars, q, cnt, stasks, shut, xpc, execq, ran, log, plain>>

LDispatch ==
    /\ WithSched
    /\ lpc = "time"
    /\ cur.k # 0                                \* the sentinel is never unpacked as a task (SentinelSafe)
    /\ IF cur.at <= now
       THEN /\ stasks' = stasks \ {cur.k}
            /\ execq' = Append(execq, cur.k)
            /\ log' = Append(log, [k |-> cur.k, at |-> cur.at, i |-> cur.i, e |-> now < cur.at, c |-> cur.c])
            /\ lpc' = "get"
            /\ UNCHANGED q
            /\ act' = A("LDispatch", cur.k, 0, "submit")
       ELSE /\ q' = q \cup {Entry(cur)}
            /\ lpc' = "sleep"
            /\ UNCHANGED <<stasks, execq, log>>
            /\ act' = A("LDispatch", cur.k, 0, "putback")
    /\ cur' = NoEntry
    /\ UNCHANGED <<now, tvars, cnt, shut, xpc, ran, plain>>

LWake ==
    /\ WithSched
    /\ lpc = "sleep"
    /\ lpc' = "top"
    /\ act' = A("LWake", 0, 0, "")
    /\ UNCHANGED <<now, tvars, q, cnt, stasks, cur, shut, xpc, execq, ran, log, plain>>

(* an executor thread runs the oldest submitted task *)
RunTask ==
    /\ WithSched
    /\ execq # <<>>
    /\ LET k == Head(execq)
           again == k \in AgainTasks /\ ran[k] + 1 < MaxRuns /\ cnt < MaxIns IN
       /\ execq' = Tail(execq)
       /\ ran' = [ran EXCEPT ![k] = @ + 1]
       /\ IF again /\ ~shut
          THEN Insert(k, AgainDelay)
          ELSE UNCHANGED <<q, cnt, stasks>>
       /\ plain' = IF again THEN plain \cup {k} ELSE plain
       /\ act' = A("RunTask", k, 0, IF k \in RaiseTasks THEN "raise" ELSE "ok")
    /\ UNCHANGED <<now, tvars, lpc, cur, shut, xpc, log>>

XFlag ==
    /\ WithSched
    /\ xpc = "none"
    /\ shut' = TRUE
    /\ xpc' = "flag"
    /\ act' = A("XFlag", 0, 0, "")
    /\ UNCHANGED <<now, tvars, q, cnt, stasks, lpc, cur, execq, ran, log, plain>>

XPut ==
    /\ WithSched
    /\ xpc = "flag"
    /\ q' = q \cup {Sentinel}
    /\ xpc' = "put"
    /\ act' = A("XPut", 0, 0, "")
    /\ UNCHANGED <<now, tvars, cnt, stasks, lpc, cur, shut, execq, ran, log, plain>>

XJoin ==
    /\ WithSched
    /\ xpc = "put"
    /\ lpc = "ended"
    /\ xpc' = "done"
    /\ act' = A("XJoin", 0, 0, "")
    /\ UNCHANGED <<now, tvars, q, cnt, stasks, lpc, cur, shut, execq, ran, log, plain>>

SchedNext ==
    \/ \E k \in K, d \in SDelays : Schedule(k, d) \/ ScheduleUnique(k, d)
    \/ LTop \/ LGet \/ LChk \/ LDispatch \/ LWake
    \/ RunTask
    \/ XFlag \/ XPut \/ XJoin

Next ==
    \/ Tick
    \/ TimerNext          \* every action of part 1 is guarded by WithTimers,
    \/ SchedNext          \* every action of part 2 by WithSched

Spec == Init /\ [][Next]_vars

-----------------------------------------------------------------------------
(* Properties, part 1 *)
TTypeOK ==
    /\ now \in 0..MaxTime
    /\ \A t \in T : tst[t] \in {"unborn", "new", "heap", "gone"} /\ fired[t] \in 0..MaxFire
    /\ svc \in {"idle", "merged", "loop"}
    /\ (svc = "loop" => Heap # {} /\ snow # None)

\* a timer never fires before its end time (the clock the callback sees is >= end)
NotEarly == \A t \in T : ~early[t]

\* a timer fires at most once (for raising callbacks only under the intended design)
FiresOnce == \A t \in T : (PopOnRaise \/ t \notin Raise) => fired[t] <= 1
FiresOnceAll == \A t \in T : fired[t] <= 1

\* a timer cancelled before its callback ran never fires
CancelledNeverFires == \A t \in T : cfirst[t] => fired[t] = 0

\* a timer leaves the manager only cancelled or fired (none is lost), and not before it was served
NoneLost == \A t \in T : tst[t] = "gone" => (canc[t] \/ fired[t] >= 1)

\* a timer waiting in _new_timers has not fired: one created inside a pass is not served by that pass
NewUnfired == \A t \in T : tst[t] = "new" => fired[t] = 0
FreshNotInPass == \A i \in 1..Len(flog) : tst[flog[i]] # "new"

\* callbacks of one pass run in end-time order
PassOrdered == \A i, j \in 1..Len(flog) : i < j => tend[flog[i]] <= tend[flog[j]]

\* a completed pass leaves nothing due behind, and its result / next_timeout is the earliest end still in the heap
Completed == svc = "idle" /\ act.name = "SvcStep"
PassComplete == Completed => \A t \in Heap : tend[t] > snow
RetEarliest == Completed => ret = NextTimeout
RetNoneIffEmpty == (svc = "idle" /\ act.name \in {"SvcStep", "SvcMerge"}) => (ret = None <=> Heap = {})

\* exactly once, eventually: a live due timer in the heap at the clock read has fired when the pass completes
DueServed == Completed => \A t \in T : (tst[t] = "heap" /\ ~canc[t]) => tend[t] > snow

(* vacuity witnesses, part 1 (each must be violated = reachable) *)
Witness_CancelledDropped == ~(act.name = "SvcStep" /\ act.k = "drop")
Witness_TwoInOnePass == Len(flog) < 2
Witness_TieInOnePass == ~(\E i, j \in 1..Len(flog) : i < j /\ flog[i] # flog[j] /\ tend[flog[i]] = tend[flog[j]])
Witness_Wait == ~(act.name = "SvcStep" /\ act.k = "wait")
Witness_CancelLosesRace == ~(\E t \in T : canc[t] /\ fired[t] = 1 /\ ~cfirst[t])
Witness_SpawnedInPass == ~(\E t \in T : tst[t] = "new" /\ svc = "loop" /\ \E p \in T : t \in Spawn(p) /\ fired[p] > 0)
Witness_SpawnedFiresLater == ~(\E t \in T : fired[t] > 0 /\ \E p \in T : t \in Spawn(p) /\ fired[p] > 0)
Witness_KilledByCallback == ~(\E t \in T : cfirst[t] /\ tst[t] = "gone" /\ \E p \in T : t \in Kill(p) /\ fired[p] > 0)
Witness_AddDuringPass == ~(act.name = "AddTimer" /\ svc = "loop")
Witness_TickDuringPass == ~(svc = "loop" /\ now > snow)
Witness_DueButNextPass == ~(svc = "idle" /\ act.name = "SvcStep" /\ \E t \in Heap : ~canc[t] /\ tend[t] <= now)
Witness_RaiserFired == ~(\E t \in Raise : fired[t] >= 1 /\ tst[t] = "gone")
Witness_Refire == ~(\E t \in T : fired[t] >= 2)

-----------------------------------------------------------------------------
(* Properties, part 2 *)
STypeOK ==
    /\ lpc \in {"top", "get", "chk", "time", "sleep", "ended"}
    /\ xpc \in {"none", "flag", "put", "done"}
    /\ cnt \in 0..MaxIns
    /\ (cur # NoEntry <=> lpc \in {"chk", "time"})

Pending == q \cup (IF cur # NoEntry THEN {Entry(cur)} ELSE {})
PendingOf(k) == {e \in Pending : e.k = k}

\* a task is never submitted before its time
SNotEarly == \A j \in 1..Len(log) : ~log[j].e

\* submissions follow (time, insertion) order: a task is never overtaken by an entry that was in the queue when it was taken
\* (log[j].c is the value of _count at that moment; entries with i >= c were inserted afterwards)
SOrder == \A a, b \in 1..Len(log) : a < b => (Less(log[a], log[b]) \/ log[b].i >= log[a].c)

\* schedule_unique: never two pending entries of a task that is only scheduled through schedule_unique,
\* and _scheduled_tasks is exactly the set of tasks with a pending entry (so the next one is accepted once the first was submitted)
UniqueNoDup == \A k \in K \ plain : Cardinality(PendingOf(k)) <= 1
UniqueExact == ~shut => \A k \in K \ plain : (k \in stasks <=> PendingOf(k) # {})
StasksCover == ~shut => \A e \in Pending : e.k # 0 => e.k \in stasks \/ e.k \in plain

\* the loop ends only because of shutdown (a failing task does not stop it), the sentinel is never run
LoopEndsOnlyOnShutdown == lpc = "ended" => shut
SentinelSafe == lpc = "time" => cur.k # 0
JoinedMeansEnded == xpc = "done" => lpc = "ended"
\* nothing is submitted once shutdown() has returned
NothingAfterShutdown == [][xpc = "done" => log' = log]_vars
\* every execution was submitted: ran counts never exceed submissions
RanSubmitted == \A k \in K : ran[k] + Cardinality({j \in 1..Len(execq) : execq[j] = k}) = Cardinality({j \in 1..Len(log) : log[j].k = k})

(* vacuity witnesses, part 2 *)
Witness_UniqueIgnored == ~(act.name = "ScheduleUnique" /\ act.k = "ignored")
Witness_UniqueRequeued == ~(\E a, b \in 1..Len(log) : a < b /\ log[a].k = log[b].k /\ log[a].k \notin plain)
Witness_PutBack == ~(act.name = "LDispatch" /\ act.k = "putback")
Witness_TaskRaised == ~(act.name = "RunTask" /\ act.k = "raise" /\ lpc # "ended")
Witness_LoopAfterRaise == ~(\E j \in 1..Len(log) : log[j].k \notin RaiseTasks /\ \E r \in RaiseTasks : ran[r] > 0 /\ j > 1 /\ log[j - 1].k = r)
Witness_ShutdownDropsDue == ~(act.name = "LChk" /\ lpc = "ended" /\ \E e \in q : e.k # 0 /\ e.at <= now)
Witness_SubmitAfterFlag == ~(act.name = "LDispatch" /\ act.k = "submit" /\ shut)
Witness_RefusedAfterShutdown == ~(act.k = "refused")
\* Observation (not claimed as a defect): an entry taken from the queue before its time is put back - unless the clock
\* passes its time between LGet and LDispatch (the thread was descheduled); an entry with an EARLIER time inserted in
\* between is then submitted after it.  SOrder is stated so that it allows exactly this.
Witness_Overtaken == ~(\E a, b \in 1..Len(log) : a < b /\ ~Less(log[a], log[b]))
Witness_Again == ~(\E k \in AgainTasks : ran[k] >= 2)
\* Observation: _scheduled_tasks is a set, so after schedule(k); schedule(k) the first submission removes k although one
\* entry is still pending, and a following schedule_unique(k) queues a second pending entry.  No task of the driver is
\* passed to both schedule() and schedule_unique(); UniqueNoDup / UniqueExact are claimed for tasks never passed to schedule().
Witness_MixedDuplicate == ~(act.name = "ScheduleUnique" /\ act.k = "queued" /\ Cardinality(PendingOf(act.a)) >= 2)
Witness_Joined == xpc # "done"
=============================================================================
