---------------------------- MODULE ControlAgree ----------------------------
(* C43 - waiting for schema agreement.                                        *)
(*                                                                            *)
(* Code anchors (cassandra/cluster.py):                                       *)
(*   ControlConnection.wait_for_schema_agreement (:4072-4134): one Poll       *)
(*     action = one iteration of the `while elapsed < total_timeout` loop      *)
(*     (the two schema_version queries, _get_schema_mismatches, sleep 0.2 s)   *)
(*   ControlConnection._get_schema_mismatches (:4136-4158)                    *)
(*   ResponseFuture._set_result, RESULT_KIND_SCHEMA_CHANGE (:4735-4742) and   *)
(*     refresh_schema_and_set_result (:4349-4358) -> ControlConnection.       *)
(*     _refresh_schema (:3829-3847): action SetResult                         *)
(*                                                                            *)
(* Time is counted in tenths of a second since the wait began; the loop       *)
(* sleeps Period = 2 tenths after a disagreeing poll.  Waits are odd numbers  *)
(* of tenths so that no poll falls exactly on the deadline (the statement     *)
(* does not say what happens there).                                          *)
(* A snapshot is what one poll sees: the schema version the control node      *)
(* reports for itself (system.local), the version in each system.peers row,   *)
(* and Host.is_up of every peer the metadata knows (up / down / none = not    *)
(* yet determined).  UPeers have a peers row but are unknown to the metadata. *)
(* mode: "direct" = the application calls wait_for_schema_agreement;          *)
(* "ddl_meta" / "ddl_nometa" = the wait is made on behalf of a                *)
(* schema-changing request (schema metadata enabled / disabled) and the       *)
(* verdict is recorded in ResponseFuture.is_schema_agreed.                    *)
EXTENDS Naturals, FiniteSets, TLC

CONSTANTS KPeers,      \* peers known to the cluster metadata
          UPeers,      \* peers the metadata does not know
          Vers,        \* schema versions peers can report
          LocalVers,   \* schema versions the control node can report
          Waits,       \* max_schema_agreement_wait values, in tenths (odd)
          Modes        \* subset of {"direct", "ddl_meta", "ddl_nometa"}

Period == 2
HostStates == {"up", "down", "none"}
Snaps == [local : LocalVers, pv : [KPeers \cup UPeers -> Vers], st : [KPeers -> HostStates]]
NoSnap == [local |-> "-"]

\* versions of the control node and of every known peer not marked down
LiveVersions(s) == {s.local} \cup {s.pv[p] : p \in {q \in KPeers : s.st[q] # "down"}}
Agrees(s) == Cardinality(LiveVersions(s)) = 1

VARIABLES wait, mode,   \* configuration
          k,            \* polls made so far
          t,            \* elapsed time (tenths) as the loop sees it
          at,           \* time at which the last poll was made
          snap,         \* what the last poll saw
          status,       \* "polling" | "agreed" | "timeout"
          verdict,      \* "unset" | "yes" | "no": what wait_for_schema_agreement returned
          future,       \* "n/a" | "unset" | "yes" | "no": ResponseFuture.is_schema_agreed once the result is set
          act
vars == <<wait, mode, k, t, at, snap, status, verdict, future, act>>

Init == /\ wait \in Waits
        /\ mode \in Modes
        /\ k = 0 /\ t = 0 /\ at = 0
        /\ snap = NoSnap
        /\ status = "polling"
        /\ verdict = "unset"
        /\ future = IF mode = "direct" THEN "n/a" ELSE "unset"
        /\ act = [name |-> "Init"]

Poll(s) ==
    /\ status = "polling"
    /\ t < wait                                  \* while elapsed < total_timeout
    /\ snap' = s
    /\ k' = k + 1
    /\ at' = t
    /\ IF Agrees(s)
       THEN /\ status' = "agreed"                \* schema_mismatches is None: return True
            /\ verdict' = "yes"
            /\ t' = t
       ELSE /\ t' = t + Period                   \* sleep(0.2); elapsed = now - start
            /\ IF t + Period < wait
               THEN status' = "polling" /\ verdict' = verdict
               ELSE status' = "timeout" /\ verdict' = "no"       \* loop exits: return False
    /\ act' = [name |-> "Poll", snap |-> s]
    /\ UNCHANGED <<wait, mode, future>>

\* refresh_schema_and_set_result: the request's result records whether agreement was reached
SetResult ==
    /\ status \in {"agreed", "timeout"}
    /\ future = "unset"
    /\ future' = verdict
    /\ act' = [name |-> "SetResult"]
    /\ UNCHANGED <<wait, mode, k, t, at, snap, status, verdict>>

Next == (\E s \in Snaps : Poll(s)) \/ SetResult
Spec == Init /\ [][Next]_vars /\ WF_vars(Next)

-----------------------------------------------------------------------------
TypeOK == /\ status \in {"polling", "agreed", "timeout"}
          /\ verdict \in {"unset", "yes", "no"}
          /\ future \in {"n/a", "unset", "yes", "no"}

\* reports agreement exactly when the live versions form a single version ...
AgreedIffSingle == /\ status = "agreed" => Agrees(snap) /\ verdict = "yes"
                   /\ status = "polling" /\ k > 0 => ~Agrees(snap) /\ verdict = "unset"
                   /\ status = "timeout" => ~Agrees(snap) /\ verdict = "no"

\* ... keeps polling every Period until the configured wait has elapsed otherwise
PollTimes == k > 0 => at = Period * (k - 1)
KeepsPolling == /\ status = "timeout" => at < wait /\ at + Period >= wait
                /\ status = "polling" => t < wait
                /\ k > 0 => at < wait

\* ... and a schema-changing request's result records the verdict
FutureRecords == /\ future \in {"yes", "no"} => future = verdict
                 /\ mode = "direct" <=> future = "n/a"

Terminates == <>(status # "polling" /\ future # "unset")

\* vacuity witnesses (negated reachability)
Witness_AgreeLater     == ~(status = "agreed" /\ k >= 2)
Witness_DownIgnored    == ~(status = "agreed" /\ \E p \in KPeers : snap.st[p] = "down" /\ snap.pv[p] # snap.local)
Witness_UnknownIgnored == ~(status = "agreed" /\ \E p \in UPeers : snap.pv[p] # snap.local)
Witness_NoneCounts     == ~(k > 0 /\ ~Agrees(snap) /\ \A p \in KPeers : snap.st[p] = "up" => snap.pv[p] = snap.local)
Witness_Timeout        == ~(status = "timeout" /\ k >= 3)
Witness_FutureFalse    == ~(future = "no")
Witness_FutureTrueNoMeta == ~(future = "yes" /\ mode = "ddl_nometa")

ASSUME TLCSet(2, {})
WitnessesHere == (IF ~Witness_AgreeLater THEN {"Witness_AgreeLater"} ELSE {})
            \cup (IF ~Witness_DownIgnored THEN {"Witness_DownIgnored"} ELSE {})
            \cup (IF ~Witness_UnknownIgnored THEN {"Witness_UnknownIgnored"} ELSE {})
            \cup (IF ~Witness_NoneCounts THEN {"Witness_NoneCounts"} ELSE {})
            \cup (IF ~Witness_Timeout THEN {"Witness_Timeout"} ELSE {})
            \cup (IF ~Witness_FutureFalse THEN {"Witness_FutureFalse"} ELSE {})
            \cup (IF ~Witness_FutureTrueNoMeta THEN {"Witness_FutureTrueNoMeta"} ELSE {})
RecordWitnesses == TLCSet(2, TLCGet(2) \cup WitnessesHere)
PrintWitnesses == PrintT(<<"WITNESSES", TLCGet(2)>>)
=============================================================================
