---------------------------- MODULE ControlAgree ----------------------------
(* C43 - waiting for schema agreement.                                        *)
(*                                                                            *)
(* Code anchors (cassandra/cluster.py):                                       *)
(*   ControlConnection.wait_for_schema_agreement: the polling loop; one Poll  *)
(*     action = one round trip of the two schema_version queries              *)
(*     (system.peers / system.local) and _get_schema_mismatches on the answer *)
(*   ControlConnection._get_schema_mismatches                                 *)
(*   ResponseFuture._set_result (RESULT_KIND_SCHEMA_CHANGE) ->                *)
(*     refresh_schema_and_set_result -> ControlConnection._refresh_schema:    *)
(*     Finish in the "ddl_*" modes                                            *)
(*                                                                            *)
(* What C43 fixes is WHAT the wait reports, not how it schedules its polls:   *)
(*   (a) agreement is reported exactly when the versions reported by the      *)
(*       control node and by every known peer not marked down form a single   *)
(*       version: the snapshot polled last is uniform, and a uniform snapshot *)
(*       is never polled without agreement being reported next;               *)
(*   (b) otherwise it keeps polling until the configured wait has elapsed:    *)
(*       "no agreement" is reported only when no polled snapshot was uniform, *)
(*       not before the wait has elapsed, and the last poll is not earlier    *)
(*       than the wait minus one poll gap;                                    *)
(*   (c) a schema-changing request's result records that outcome; when the    *)
(*       wait does not complete at all - an exception escapes from it while   *)
(*       it is still polling (the coordinator's connection is closed under    *)
(*       it: ConnectionShutdown) - agreement was not reached and the result   *)
(*       records exactly that (action Abort).                                 *)
(* The number and the instants of the polls are an environment choice here:   *)
(* ANY schedule whose first poll comes within MaxGap of the start and whose   *)
(* consecutive polls are at most MaxGap apart is a behaviour of this          *)
(* specification (MaxGap = the driver's pause between polls, 0.2 s, plus one  *)
(* query round trip, plus one tick of discretisation slack).  Each poll sees  *)
(* an arbitrary snapshot: the cluster changes as it likes between polls; or   *)
(* it sees nothing at all - the queries time out (PollLost) - which is no      *)
(* evidence of agreement: a wait whose every poll was lost reports "no".       *)
(* Time is counted in ticks (the harness uses 0.05 s) since the wait began.   *)
(*                                                                            *)
(* A snapshot is what one poll sees: the schema version the control node      *)
(* reports for itself, the version in each system.peers row, and Host.is_up   *)
(* of every peer the metadata knows (up / down / none = undetermined).         *)
(* UPeers have a peers row but are unknown to the metadata.                   *)
(* mode: "direct" = the application calls wait_for_schema_agreement;          *)
(* "ddl_meta" / "ddl_nometa" = the wait is made on behalf of a                *)
(* schema-changing request (schema metadata enabled / disabled) and its       *)
(* outcome is ResponseFuture.is_schema_agreed.                                *)
EXTENDS Naturals, FiniteSets, TLC

CONSTANTS KPeers,      \* peers known to the cluster metadata
          UPeers,      \* peers the metadata does not know
          Vers,        \* schema versions peers can report
          LocalVers,   \* schema versions the control node can report
          Waits,       \* cluster-wide Cluster.max_schema_agreement_wait values, in ticks (positive)
          PerCall,     \* per-call waits an application passes to Cluster.refresh_*_metadata(max_schema_agreement_wait=...),
                       \* in ticks; 0 is the documented "do not wait, refresh at once"
          Modes,       \* subset of {"direct", "ddl_meta", "ddl_nometa"}
          MaxGap       \* largest admissible distance between two polls, in ticks

HostStates == {"up", "down", "none"}
Snaps == [local : LocalVers, pv : [KPeers \cup UPeers -> Vers], st : [KPeers -> HostStates]]
NoSnap == [local |-> "-"]

\* versions of the control node and of every known peer not marked down
LiveVersions(s) == {s.local} \cup {s.pv[p] : p \in {q \in KPeers : s.st[q] # "down"}}
Agrees(s) == Cardinality(LiveVersions(s)) = 1

VARIABLES wait,         \* the CONFIGURED wait of this call: the per-call value when one is given (0 included), else the
                        \* cluster-wide one
          cfg,          \* [cw: cluster-wide wait, given: a per-call value was passed, pc: that value]
          mode,
          polled,       \* at least one poll was made
          last,         \* instant of the last poll (of its end when it got no answer)
          lastLost,     \* the last poll got no answer
          snap,         \* what the last poll saw
          sawUniform,   \* some poll saw a uniform snapshot (history)
          status,       \* "polling" | "agreed" (a uniform snapshot was just polled) | "done"
          verdict,      \* "unset" | "yes" | "no" | "raised": the reported outcome / an exception escaped from the wait
          endAt,        \* instant at which the outcome was reported
          future,       \* "n/a" | "unset" | "yes" | "no": ResponseFuture.is_schema_agreed
          act
vars == <<wait, cfg, mode, polled, last, lastLost, snap, sawUniform, status, verdict, endAt, future, act>>

Horizon == CHOOSE m \in {w + MaxGap : w \in Waits} : \A w \in Waits : w + MaxGap <= m

NoResult == {"direct", "refresh"}      \* modes in which no request future is involved

\* "refresh" = the application calls Cluster.refresh_schema_metadata / refresh_*_metadata, optionally with its own
\* wait: Cluster.refresh_schema_metadata -> ControlConnection.refresh_schema(force=True, schema_agreement_wait=pc) ->
\* _refresh_schema -> wait_for_schema_agreement(wait_time=pc); it returns normally iff the schema was refreshed
\* (outcome "yes" or the wait was skipped) and raises DriverException otherwise ("no").
Init == /\ mode \in Modes
        /\ \E cw \in Waits :
             \/ cfg = [cw |-> cw, given |-> FALSE, pc |-> 0]
             \/ mode = "refresh" /\ \E pc \in PerCall : cfg = [cw |-> cw, given |-> TRUE, pc |-> pc]
        /\ wait = IF cfg.given THEN cfg.pc ELSE cfg.cw
        /\ polled = FALSE /\ last = 0 /\ lastLost = FALSE
        /\ snap = NoSnap
        /\ sawUniform = FALSE
        /\ status = "polling"
        /\ verdict = "unset" /\ endAt = 0
        /\ future = IF mode \in NoResult THEN "n/a" ELSE "unset"
        /\ act = [name |-> "Init"]

\* a poll may start while the configured wait has not elapsed; what happens at the very instant it elapses is not
\* fixed by the statement (and is where clock discretisation falls), so that instant is admitted for a positive wait
BeforeDeadline(at) == at < wait \/ (wait > 0 /\ at = wait)

EarliestPoll == IF ~polled THEN 0 ELSE IF lastLost THEN last ELSE last + 1

\* a poll that sees NOTHING: the schema-version queries sent at instant `at` are not answered and the request times
\* out at instant `end` (OperationTimedOut inside the loop, which goes on).  It tells nothing about the versions.
PollLost(at, end) ==
    /\ status = "polling"
    /\ at >= EarliestPoll
    /\ at <= last + MaxGap
    /\ BeforeDeadline(at)
    /\ end > at
    /\ polled' = TRUE
    /\ last' = end
    /\ lastLost' = TRUE
    /\ act' = [name |-> "PollLost", at |-> at, end |-> end]
    /\ UNCHANGED <<wait, cfg, mode, snap, sawUniform, status, verdict, endAt, future>>

\* one round trip of the two queries at instant `at`, seeing snapshot s
Poll(s, at) ==
    /\ status = "polling"
    /\ at >= EarliestPoll
    /\ at <= last + MaxGap                       \* keeps polling: no gap longer than MaxGap (from the start, too)
    /\ BeforeDeadline(at)                        \* ... until the configured wait has elapsed: no poll starts after that
    /\ polled' = TRUE
    /\ last' = at
    /\ lastLost' = FALSE
    /\ snap' = s
    /\ sawUniform' = (sawUniform \/ Agrees(s))
    /\ status' = IF Agrees(s) THEN "agreed" ELSE "polling"
    /\ act' = [name |-> "Poll", snap |-> s, at |-> at]
    /\ UNCHANGED <<wait, cfg, mode, verdict, endAt, future>>

\* the outcome is reported: wait_for_schema_agreement returns v ("direct"), or refresh_schema_and_set_result stores
\* what it returned in the request's future ("ddl_*")
Finish(v, at) ==
    /\ at >= last
    /\ \/ v = "yes" /\ status = "agreed"                          \* (a)
       \/ /\ v = "no" /\ status = "polling" /\ polled             \* (b)
          /\ at >= wait                                           \*     not before the wait has elapsed
          /\ last + MaxGap >= wait                                \*     and it polled until then
    /\ status' = "done"
    /\ verdict' = v
    /\ endAt' = at
    /\ future' = IF mode \in NoResult THEN "n/a" ELSE v          \* (c)
    /\ act' = [name |-> "Finish", v |-> v, at |-> at]
    /\ UNCHANGED <<wait, cfg, mode, polled, last, lastLost, snap, sawUniform>>

\* the configured wait is 0: the wait is bypassed - no poll at all, the caller goes on at once (a refresh is made)
Skip(at) ==
    /\ status = "polling" /\ ~polled
    /\ wait = 0
    /\ status' = "done"
    /\ verdict' = "skipped"
    /\ endAt' = at
    /\ act' = [name |-> "Skip", at |-> at]
    /\ UNCHANGED <<wait, cfg, mode, polled, last, lastLost, snap, sawUniform, future>>

\* an exception escapes from wait_for_schema_agreement while it is polling (the poll in flight is never answered);
\* "direct": it reaches the caller; "ddl_*": refresh_schema_and_set_result logs it, schedules a background refresh and
\* still delivers the request's result, whose is_schema_agreed (fv) must say that agreement was not reached
Abort(fv, at) ==
    /\ status = "polling"
    /\ at >= last
    /\ fv = (IF mode \in NoResult THEN "n/a" ELSE "no")
    /\ status' = "done"
    /\ verdict' = "raised"
    /\ endAt' = at
    /\ future' = fv
    /\ act' = [name |-> "Abort", v |-> fv, at |-> at]
    /\ UNCHANGED <<wait, cfg, mode, polled, last, lastLost, snap, sawUniform>>

Next == \/ \E s \in Snaps, at \in 0..Horizon : Poll(s, at)
        \/ \E at \in 0..Horizon : \E end \in {at + 1, at + 3, Horizon} : end <= Horizon /\ PollLost(at, end)
        \/ \E v \in {"yes", "no"}, at \in 0..Horizon : Finish(v, at)
        \/ \E fv \in {"n/a", "no"}, at \in 0..Horizon : Abort(fv, at)
        \/ \E at \in 0..Horizon : Skip(at)
Spec == Init /\ [][Next]_vars /\ WF_vars(Next)

-----------------------------------------------------------------------------
TypeOK == /\ status \in {"polling", "agreed", "done"}
          /\ verdict \in {"unset", "yes", "no", "raised", "skipped"}
          /\ wait = (IF cfg.given THEN cfg.pc ELSE cfg.cw)
          /\ future \in {"n/a", "unset", "yes", "no"}

\* (a) agreement is reported exactly when the live versions form a single version
AgreementOnlyWhenUniform == verdict = "yes" => polled /\ snap # NoSnap /\ Agrees(snap)
UniformIsReported == sawUniform => status \in {"agreed", "done"} /\ verdict # "no" /\ Agrees(snap)

\* (b) otherwise it keeps polling until the configured wait has elapsed
NoAgreementOnlyAfterWait == verdict = "no" => /\ ~sawUniform
                                              /\ endAt >= wait
                                              /\ last + MaxGap >= wait
KeepsPolling == polled => last <= Horizon
\* the configured wait of a call with its own value is that value, 0 included: then nothing is polled
ZeroWaitNeverPolls == wait = 0 => ~polled /\ verdict \in {"unset", "skipped"}

\* (c) the schema-changing request's result records the outcome
FutureRecords == /\ status = "done" /\ mode \notin NoResult => future = (IF verdict = "raised" THEN "no" ELSE verdict)
                 /\ future = "yes" => verdict = "yes"                \* never claims an agreement that was not observed
                 /\ status # "done" => future \in {"n/a", "unset"}
                 /\ mode \in NoResult <=> future = "n/a"

Terminates == <>(status = "done")

\* vacuity witnesses (negated reachability)
Witness_AgreeLater     == ~(verdict = "yes" /\ last >= 2)
Witness_DownIgnored    == ~(verdict = "yes" /\ \E p \in KPeers : snap.st[p] = "down" /\ snap.pv[p] # snap.local)
Witness_UnknownIgnored == ~(verdict = "yes" /\ \E p \in UPeers : snap.pv[p] # snap.local)
Witness_NoneCounts     == ~(polled /\ snap # NoSnap /\ status = "polling" /\ \A p \in KPeers : snap.st[p] = "up" => snap.pv[p] = snap.local)
Witness_Timeout        == ~(verdict = "no")
Witness_DenseSchedule  == ~(verdict = "no" /\ endAt = wait)
Witness_FutureYesNoMeta == ~(future = "yes" /\ mode = "ddl_nometa")
Witness_NothingSeen     == ~(verdict = "no" /\ snap = NoSnap)        \* every poll of the wait was lost
Witness_Bypass          == ~(verdict = "skipped" /\ cfg.given /\ cfg.cw > 0)
Witness_PerCallShorter  == ~(verdict = "no" /\ cfg.given /\ cfg.pc > 0 /\ cfg.pc < cfg.cw /\ endAt < cfg.cw)
Witness_AbortAfterPolls == ~(verdict = "raised" /\ polled /\ mode \notin NoResult)

ASSUME TLCSet(2, {})
WitnessesHere == (IF ~Witness_AgreeLater THEN {"Witness_AgreeLater"} ELSE {})
            \cup (IF ~Witness_DownIgnored THEN {"Witness_DownIgnored"} ELSE {})
            \cup (IF ~Witness_UnknownIgnored THEN {"Witness_UnknownIgnored"} ELSE {})
            \cup (IF ~Witness_NoneCounts THEN {"Witness_NoneCounts"} ELSE {})
            \cup (IF ~Witness_Timeout THEN {"Witness_Timeout"} ELSE {})
            \cup (IF ~Witness_DenseSchedule THEN {"Witness_DenseSchedule"} ELSE {})
            \cup (IF ~Witness_FutureYesNoMeta THEN {"Witness_FutureYesNoMeta"} ELSE {})
            \cup (IF ~Witness_NothingSeen THEN {"Witness_NothingSeen"} ELSE {})
            \cup (IF ~Witness_Bypass THEN {"Witness_Bypass"} ELSE {})
            \cup (IF ~Witness_PerCallShorter THEN {"Witness_PerCallShorter"} ELSE {})
            \cup (IF ~Witness_AbortAfterPolls THEN {"Witness_AbortAfterPolls"} ELSE {})
RecordWitnesses == TLCSet(2, TLCGet(2) \cup WitnessesHere)
PrintWitnesses == PrintT(<<"WITNESSES", TLCGet(2)>>)
=============================================================================
