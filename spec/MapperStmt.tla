----------------------------- MODULE MapperStmt -----------------------------
(* C37 - cqlengine statements bind every placeholder to its own clause's value. *)
(*                                                                            *)
(* Code anchors                                                               *)
(*   cassandra/cqlengine/statements.py  BaseClause.get_context_size /          *)
(*        set_context_id / update_context and every subclass        57-500    *)
(*        BaseCQLStatement context_counter, _add_where_clause,                 *)
(*        add_conditional_clause, update_context_id, get_context     503-602   *)
(*        Select/Insert/Update/DeleteStatement                       605-905   *)
(*   cassandra/cqlengine/functions.py   QueryValue, Token             22-118   *)
(*   cassandra/cqlengine/query.py       BatchQuery.execute            215-261  *)
(*        AbstractQuerySet.filter / iff / _select_query               448-745  *)
(*        ModelQuerySet.update, DMLQuery.save/update/delete          1201-1517 *)
(*                                                                            *)
(* Reference definition (enumerator pattern).  A state is one CASE - a        *)
(* request made through the public mapper API - together with `out`, the      *)
(* statements that request must produce.                                      *)
(*                                                                            *)
(* A statement is a list of clauses.  Every clause consumes size(clause)      *)
(* context ids from the statement's running counter and renders one or more   *)
(* fragments (token sequences) that mention exactly those ids; a batch offsets*)
(* each member statement by the running total of the members before it.       *)
(* `vals` of a statement lists, in id order, the value every id must be bound *)
(* to.  Tokens are strings:  i:<identifier>  w:<WORD>  s:<symbol>  %<id>.     *)
(*                                                                            *)
(* The numbering itself (which clause gets which number) is NOT part of the   *)
(* property: checks/c37.py compares modulo a renaming of placeholders.  What  *)
(* the numbering must satisfy is checked here as invariants: within whatever  *)
(* is sent as one string no id is used twice, ids are dense, every id has     *)
(* exactly one value.                                                         *)
EXTENDS Integers, Sequences, FiniteSets, TLC

CONSTANTS NF,          \* filter alphabet: entries 1..NF are used
          MaxFilters,  \* a SELECT has 0..MaxFilters filters (in any order, no repetition)
          NProfLong,   \* option profiles tried with 2..MaxFilters filters (all profiles with 0..1 filters)
          MaxAssign,   \* a queryset update has 1..MaxAssign assignments
          MaxMuts,     \* an instance save applies 1..MaxMuts mutations
          MaxCreate,   \* Model.create gives 0..MaxCreate columns besides the primary key
          MaxBatch,    \* a batch has 2..MaxBatch members
          NBM          \* batch member alphabet: entries 1..NBM are used

VARIABLES case, out
vars == <<case, out>>

-----------------------------------------------------------------------------
\* Tokens and values

Id(c)  == "i:" \o c
Kw(w)  == "w:" \o w
Sym(s) == "s:" \o s
Ph(n)  == "%" \o ToString(n)

IntV(n)  == [k |-> "int",   v |-> n]
TextV(s) == [k |-> "text",  v |-> s]
TupV(q)  == [k |-> "tuple", v |-> q]      \* the value list of an IN relation
SetV(S)  == [k |-> "set",   v |-> S]
ListV(q) == [k |-> "list",  v |-> q]
MapV(q)  == [k |-> "map",   v |-> q]      \* sequence of <<key, value>>
NoneV    == [k |-> "none",  v |-> 0]

\* The model (harness/replay/mapper.py, class S): partition key (p, q), clustering key c, regular columns
\* v (stored as "vv", indexed), w, t (text), x (stored as "Seq"), y (stored as "order"), static column z, collections s set<int>, l list<int>, m map<int,int>.
\* Counter model SC: partition key p, clustering key c, counter n.
PartCols == <<"p", "q">>
KeyP == IntV(1)
KeyQ == IntV(2)
KeyC == IntV(3)

-----------------------------------------------------------------------------
\* Clauses.  shape says how the clause renders and how many ids it consumes.

OpTok(op) == IF op \in {"IN", "CONTAINS", "LIKE"} THEN Kw(op) ELSE Sym(op)

\* a filter / condition  "col" op %(n)s ;  key: "part" | "clust" | "index" | "plain" ; eq: operator derives from Equals
Rel(kw, col, op, val, key, eq) ==
    [kw |-> kw, shape |-> "rel", col |-> col, op |-> op, vals |-> <<val>>, key |-> key, eq |-> eq]
\* token("p", "q") op token(%(n)s, %(n+1)s)
Tok(kw, op, a, b) ==
    [kw |-> kw, shape |-> "token", col |-> "", op |-> op, vals |-> <<IntV(a), IntV(b)>>, key |-> "token", eq |-> FALSE]

Size(cl) ==
    CASE cl.shape = "field" -> 0
      [] cl.shape \in {"rel", "assign", "plus", "minus", "prepend", "counter", "pair"} -> 1
      [] cl.shape = "token" -> 2
      [] cl.shape = "puts" -> 2 * Len(cl.pairs)
      [] cl.shape = "setdiff" -> (IF cl.add # {} THEN 1 ELSE 0) + (IF cl.rem # {} THEN 1 ELSE 0)
      [] cl.shape = "listdiff" -> (IF cl.pre # <<>> THEN 1 ELSE 0) + (IF cl.app # <<>> THEN 1 ELSE 0)
      [] cl.shape = "keys" -> Len(cl.keys)

\* fragments, values and ids of one clause whose first id is n
Render(cl, n) ==
    LET c == Id(cl.col) IN
    CASE cl.shape = "rel" ->
            [frags |-> << <<c, OpTok(cl.op), Ph(n)>> >>, vals |-> cl.vals, ids |-> <<n>>]
      [] cl.shape = "token" ->
            [frags |-> << <<Kw("TOKEN"), Sym("("), Id(PartCols[1]), Sym(","), Id(PartCols[2]), Sym(")"), Sym(cl.op),
                            Kw("TOKEN"), Sym("("), Ph(n), Sym(","), Ph(n + 1), Sym(")")>> >>,
             vals |-> cl.vals, ids |-> <<n, n + 1>>]
      [] cl.shape \in {"assign", "pair"} ->
            [frags |-> << <<c, Sym("="), Ph(n)>> >>, vals |-> cl.vals, ids |-> <<n>>]
      [] cl.shape = "plus" ->
            [frags |-> << <<c, Sym("="), c, Sym("+"), Ph(n)>> >>, vals |-> cl.vals, ids |-> <<n>>]
      [] cl.shape = "minus" ->
            [frags |-> << <<c, Sym("="), c, Sym("-"), Ph(n)>> >>, vals |-> cl.vals, ids |-> <<n>>]
      [] cl.shape = "prepend" ->
            [frags |-> << <<c, Sym("="), Ph(n), Sym("+"), c>> >>, vals |-> cl.vals, ids |-> <<n>>]
      [] cl.shape = "counter" ->
            [frags |-> << <<c, Sym("="), c, Sym(IF cl.delta < 0 THEN "-" ELSE "+"), Ph(n)>> >>,
             vals |-> <<IntV(IF cl.delta < 0 THEN -cl.delta ELSE cl.delta)>>, ids |-> <<n>>]
      [] cl.shape = "puts" ->
            [frags |-> [i \in 1..Len(cl.pairs) |-> <<c, Sym("["), Ph(n + 2 * (i - 1)), Sym("]"), Sym("="), Ph(n + 2 * (i - 1) + 1)>>],
             vals  |-> [j \in 1..(2 * Len(cl.pairs)) |-> IntV(cl.pairs[(j + 1) \div 2][IF j % 2 = 1 THEN 1 ELSE 2])],
             ids   |-> [j \in 1..(2 * Len(cl.pairs)) |-> n + j - 1]]
      [] cl.shape = "setdiff" ->
            LET a == cl.add # {}
                r == cl.rem # {}
                nr == IF a THEN n + 1 ELSE n IN
            [frags |-> (IF a THEN << <<c, Sym("="), c, Sym("+"), Ph(n)>> >> ELSE <<>>) \o
                       (IF r THEN << <<c, Sym("="), c, Sym("-"), Ph(nr)>> >> ELSE <<>>),
             vals  |-> (IF a THEN <<SetV(cl.add)>> ELSE <<>>) \o (IF r THEN <<SetV(cl.rem)>> ELSE <<>>),
             ids   |-> (IF a THEN <<n>> ELSE <<>>) \o (IF r THEN <<nr>> ELSE <<>>)]
      [] cl.shape = "listdiff" ->
            LET p == cl.pre # <<>>
                a == cl.app # <<>>
                na == IF p THEN n + 1 ELSE n IN
            [frags |-> (IF p THEN << <<c, Sym("="), Ph(n), Sym("+"), c>> >> ELSE <<>>) \o
                       (IF a THEN << <<c, Sym("="), c, Sym("+"), Ph(na)>> >> ELSE <<>>),
             vals  |-> (IF p THEN <<ListV(cl.pre)>> ELSE <<>>) \o (IF a THEN <<ListV(cl.app)>> ELSE <<>>),
             ids   |-> (IF p THEN <<n>> ELSE <<>>) \o (IF a THEN <<na>> ELSE <<>>)]
      [] cl.shape = "keys" ->
            [frags |-> [i \in 1..Len(cl.keys) |-> <<c, Sym("["), Ph(n + i - 1), Sym("]")>>],
             vals  |-> [i \in 1..Len(cl.keys) |-> IntV(cl.keys[i])],
             ids   |-> [i \in 1..Len(cl.keys) |-> n + i - 1]]
      [] cl.shape = "field" ->
            [frags |-> << <<c>> >>, vals |-> <<>>, ids |-> <<>>]

RECURSIVE RenderAll(_, _)
RenderAll(cls, n) ==
    IF Len(cls) = 0 THEN [frags |-> <<>>, vals |-> <<>>, ids |-> <<>>]
    ELSE LET r == Render(Head(cls), n)
             rest == RenderAll(Tail(cls), n + Size(Head(cls)))
         IN [frags |-> r.frags \o rest.frags, vals |-> r.vals \o rest.vals, ids |-> r.ids \o rest.ids]

\* A request for one statement: which clauses go where.
Req(kind, table, wh, st, dl, ins, cond, ifx, inx) ==
    [kind |-> kind, table |-> table, wh |-> wh, st |-> st, dl |-> dl, ins |-> ins, cond |-> cond, ifx |-> ifx, inx |-> inx]

\* The statement for a request whose first context id is n0: the running counter walks the clause lists.
Stmt(r, n0) ==
    LET W == RenderAll(r.wh, n0)
        S == RenderAll(r.st, n0 + Len(W.ids))
        D == RenderAll(r.dl, n0 + Len(W.ids) + Len(S.ids))
        I == RenderAll(r.ins, n0 + Len(W.ids) + Len(S.ids) + Len(D.ids))
        C == RenderAll(r.cond, n0 + Len(W.ids) + Len(S.ids) + Len(D.ids) + Len(I.ids))
    IN [kind |-> r.kind, table |-> r.table, first |-> n0,
        where |-> W.frags, set |-> S.frags, del |-> D.frags, ins |-> I.frags, iff |-> C.frags,
        ifx |-> r.ifx, inx |-> r.inx,
        ids  |-> W.ids \o S.ids \o D.ids \o I.ids \o C.ids,
        vals |-> W.vals \o S.vals \o D.vals \o I.vals \o C.vals]

\* statements executed on their own: each starts at 0 and is sent as its own string
Alone(reqs) == [i \in 1..Len(reqs) |-> [batch |-> FALSE, stmts |-> <<Stmt(reqs[i], 0)>>]]

\* statements of one batch: each member is offset by the running total of its predecessors
RECURSIVE Offset(_, _)
Offset(reqs, n) ==
    IF Len(reqs) = 0 THEN <<>>
    ELSE LET s == Stmt(Head(reqs), n) IN <<s>> \o Offset(Tail(reqs), n + Len(s.ids))
Batched(reqs) == << [batch |-> TRUE, stmts |-> Offset(reqs, 0)] >>

-----------------------------------------------------------------------------
\* SELECT

FilterAlphabet == <<
    Rel("p", "p", "=", IntV(11), "part", TRUE),
    Rel("q", "q", "=", IntV(12), "part", TRUE),
    Rel("c", "c", "=", IntV(13), "clust", TRUE),
    Rel("c__gt", "c", ">", IntV(14), "clust", FALSE),
    Rel("c__in", "c", "IN", TupV(<<16, 17>>), "clust", TRUE),
    Rel("v", "vv", "=", IntV(18), "index", TRUE),
    Tok("pk__token__gt", ">", 19, 20),
    Rel("x__lt", "Seq", "<", IntV(34), "plain", FALSE),          \* stored under a mixed-case name: "Seq" is not Seq
    Rel("y", "order", "=", IntV(35), "plain", TRUE),            \* stored under a reserved word: only "order" is a column
    Rel("s__contains", "s", "CONTAINS", IntV(21), "plain", TRUE),
    Rel("c__lte", "c", "<=", IntV(15), "clust", FALSE),
    Rel("v__in", "vv", "IN", TupV(<<>>), "index", TRUE),
    Rel("c__gte", "c", ">=", IntV(22), "clust", FALSE),
    Rel("c__lt", "c", "<", IntV(23), "clust", FALSE),
    Rel("t__like", "t", "LIKE", TextV("a%"), "plain", TRUE),
    Rel("w__ne", "w", "!=", IntV(24), "plain", FALSE),
    Tok("pk__token__lte", "<=", 25, 26),
    Rel("p__in", "p", "IN", TupV(<<27, 28>>), "part", TRUE),
    Rel("m__contains", "m", "CONTAINS", IntV(29), "plain", TRUE),
    Rel("l__contains", "l", "CONTAINS", IntV(30), "plain", TRUE),
    Rel("w", "w", "=", IntV(31), "plain", TRUE),
    Tok("pk__token", "=", 32, 33)
>>

Opt(order, limit, fields, allow, distinct, how) ==
    [order |-> order, limit |-> limit, fields |-> fields, allow |-> allow, distinct |-> distinct, how |-> how]
\* limit: -1 = not called (cqlengine's default 10000), 0 = limit(None)
OptProfiles == <<
    Opt("none", -1, "all", FALSE, FALSE, "list"),
    Opt("-c", 5, "only", TRUE, FALSE, "list"),
    Opt("c", 0, "defer", FALSE, FALSE, "count"),
    Opt("none", 5, "all", TRUE, TRUE, "list"),
    Opt("c", -1, "defer", TRUE, FALSE, "get"),
    Opt("-c", 0, "only", FALSE, FALSE, "list"),
    Opt("none", 7, "defer", FALSE, TRUE, "count"),
    Opt("none", -1, "only", TRUE, FALSE, "count")
>>

FilterSeqs(len) ==
    CASE len = 0 -> {<<>>}
      [] len = 1 -> {<<i>> : i \in 1..NF}
      [] len = 2 -> {q \in {<<i, j>> : i \in 1..NF, j \in 1..NF} : q[1] # q[2]}
      [] len = 3 -> {q \in {<<i, j, k>> : i \in 1..NF, j \in 1..NF, k \in 1..NF} : q[1] # q[2] /\ q[1] # q[3] /\ q[2] # q[3]}

\* The documentation's rule (docs/cqlengine/queryset.rst: "all queries involving any filtering MUST define either an
\* '=' or an 'in' relation to either a primary key column, or an indexed column"; query.py 1071-1099 also insists on
\* a partition key or an index unless allow_filtering() is called or token() is compared).  Where the rule is not
\* met the mapper may refuse the chain instead of building a statement.
MayRefuse(fs, opt) ==
    /\ Len(fs) > 0
    /\ ~opt.allow
    /\ ~\E i \in 1..Len(fs) : fs[i].key = "token"
    /\ ~\E i \in 1..Len(fs) : fs[i].eq /\ fs[i].key \in {"part", "index"}

\* single: all filters are keyword arguments of ONE filter() call, in this order (FALSE: one filter() call per filter).
\* Either way every filter is its own clause; a token() comparison before ordinary columns must not change how those render.
SelectCase(fq, o, single) ==
    LET fs == [i \in 1..Len(fq) |-> FilterAlphabet[fq[i]]] IN
    [kind |-> "select", filters |-> fs, opt |-> OptProfiles[o], single |-> single]
HasToken(fq) == \E i \in 1..Len(fq) : FilterAlphabet[fq[i]].shape = "token"

SelectReqs(c) == << Req("select", "st", c.filters, <<>>, <<>>, <<>>, <<>>, FALSE, FALSE) >>

-----------------------------------------------------------------------------
\* Row identity, conditions, flags shared by the DML cases

FullKey == << Rel("p", "p", "=", KeyP, "part", TRUE), Rel("q", "q", "=", KeyQ, "part", TRUE), Rel("c", "c", "=", KeyC, "clust", TRUE) >>
PartKey == << Rel("p", "p", "=", KeyP, "part", TRUE), Rel("q", "q", "=", KeyQ, "part", TRUE) >>
CounterKey == << Rel("p", "p", "=", KeyP, "part", TRUE), Rel("c", "c", "=", KeyC, "clust", TRUE) >>

CondAlphabet == <<
    Rel("v", "vv", "=", IntV(61), "plain", TRUE),
    Rel("w__gt", "w", ">", IntV(62), "plain", FALSE),
    Rel("t__ne", "t", "!=", TextV("no"), "plain", FALSE),
    Rel("z", "z", "=", IntV(63), "plain", TRUE)
>>

\* conditions / flags profiles: iff() with one to three conditions, if_exists(), ttl(), timestamp()
Prof(cq, ifx, ttl, ts) == [conds |-> [i \in 1..Len(cq) |-> CondAlphabet[cq[i]]], ifx |-> ifx, ttl |-> ttl, ts |-> ts]
DmlProfiles == <<
    Prof(<<>>, FALSE, 0, FALSE),
    Prof(<<1>>, FALSE, 0, FALSE),
    Prof(<<2>>, FALSE, 0, FALSE),
    Prof(<<3>>, FALSE, 7, FALSE),
    Prof(<<1, 2>>, FALSE, 0, FALSE),
    Prof(<<3, 1>>, FALSE, 0, TRUE),
    Prof(<<>>, TRUE, 0, FALSE),
    Prof(<<>>, FALSE, 7, FALSE),
    Prof(<<>>, FALSE, 0, TRUE),
    Prof(<<>>, TRUE, 9, TRUE),
    Prof(<<1, 3>>, FALSE, 0, FALSE),
    Prof(<<4, 1, 3>>, FALSE, 0, FALSE)
>>
CondsOf(prof) == prof.conds

SeqOfSet(S) ==     \* the elements of a finite set of integers in increasing order
    LET RECURSIVE F(_)
        F(T) == IF T = {} THEN <<>> ELSE LET x == CHOOSE y \in T : \A z \in T : y <= z IN <<x>> \o F(T \ {x})
    IN F(S)

\* subsets of 1..N with lo..hi elements (hi <= 3), built directly rather than by filtering SUBSET (1..N)
SubsetsOfSize(N, k) ==
    CASE k = 0 -> {{}}
      [] k = 1 -> {{i} : i \in 1..N}
      [] k = 2 -> {T \in {{i, j} : i \in 1..N, j \in 1..N} : Cardinality(T) = 2}
      [] k = 3 -> {T \in {{i, j, l} : i \in 1..N, j \in 1..N, l \in 1..N} : Cardinality(T) = 3}
Subsets(N, lo, hi) == UNION {SubsetsOfSize(N, k) : k \in lo..hi}

Sel(s, Test(_)) == SelectSeq(s, Test)

-----------------------------------------------------------------------------
\* Queryset update:  S.objects(p=1, q=2, c=3)[.iff(...)][.if_exists()][.ttl()][.timestamp()].update(**assignments)

\* kw: the keyword passed to update(); attr: model attribute; col: stored name; null: the value is None
Asg(kw, attr, col, shape, val) == [kw |-> kw, attr |-> attr, col |-> col, shape |-> shape, vals |-> <<val>>, null |-> FALSE]
Nul(attr, col) == [kw |-> attr, attr |-> attr, col |-> col, shape |-> "field", vals |-> <<NoneV>>, null |-> TRUE]
Puts(kw, pairs) == [kw |-> kw, attr |-> "m", col |-> "m", shape |-> "puts", pairs |-> pairs, vals |-> <<MapV(pairs)>>, null |-> FALSE]

AssignAlphabet == <<
    Asg("w", "w", "w", "assign", IntV(41)),
    Asg("t", "t", "t", "assign", TextV("tx")),
    Asg("v", "v", "vv", "assign", IntV(42)),
    Nul("w", "w"),
    Nul("v", "vv"),
    Asg("s__add", "s", "s", "plus", SetV({44})),
    Asg("s__remove", "s", "s", "minus", SetV({45})),
    Asg("s", "s", "s", "assign", SetV({46, 47})),
    Nul("s", "s"),
    Asg("l__append", "l", "l", "plus", ListV(<<48>>)),
    Asg("l__prepend", "l", "l", "prepend", ListV(<<49, 50>>)),
    Asg("l", "l", "l", "assign", ListV(<<51>>)),
    Puts("m__update", << <<52, 53>> >>),
    Puts("m__update", << <<54, 55>>, <<56, 57>> >>),
    Asg("m__remove", "m", "m", "minus", SetV({58})),
    Nul("m", "m"),
    Asg("s", "s", "s", "assign", SetV({})),
    Asg("l", "l", "l", "assign", ListV(<<>>))
>>
NA == Len(AssignAlphabet)

\* operations that CQL and update() accept together on one column
Together(i, j) ==
    LET a == AssignAlphabet[i]
        b == AssignAlphabet[j] IN
    \/ a.attr # b.attr
    \/ {a.kw, b.kw} = {"s__add", "s__remove"}
    \/ {a.kw, b.kw} = {"l__append", "l__prepend"}
    \/ {a.kw, b.kw} = {"m__update", "m__remove"} /\ a.kw # b.kw

AssignSets == {S \in Subsets(NA, 1, MaxAssign) : \A i \in S : \A j \in S : i # j => Together(i, j) /\ AssignAlphabet[i].kw # AssignAlphabet[j].kw}

\* A call that assigns some columns and sets others to None sends two statements, UPDATE then DELETE.  The UPDATE
\* carries every condition; the follow-up DELETE carries the conditions except those on columns the UPDATE has just
\* written (query.py 1328-1329 / 1458-1460: "remove conditions on fields that have been updated" - they would not
\* hold any more).  Both statements are built from the SAME condition objects, so whatever numbers the conditions
\* for the second statement must not disturb the first (cf. BatchQuery.execute, which renders them later).
FollowUpConds(conds, written) ==
    LET cols == {written[i].col : i \in 1..Len(written)}
        Keeps(c) == c.col \notin cols
    IN SelectSeq(conds, Keeps)

QsUpdateCase(S, pi) ==
    [kind |-> "qsupdate", model |-> "S", assigns |-> [i \in 1..Cardinality(S) |-> AssignAlphabet[SeqOfSet(S)[i]]], prof |-> DmlProfiles[pi]]

IsNull(a) == a.null
NotNull(a) == ~a.null

QsUpdateReqs(c) ==
    LET sets == Sel(c.assigns, NotNull)
        nuls == Sel(c.assigns, IsNull)
        conds == CondsOf(c.prof) IN
    (IF Len(sets) > 0 THEN << Req("update", "st", FullKey, sets, <<>>, <<>>, conds, c.prof.ifx, FALSE) >> ELSE <<>>) \o
    (IF Len(nuls) > 0 THEN << Req("delete", "st", FullKey, <<>>, nuls, <<>>, FollowUpConds(conds, sets), c.prof.ifx, FALSE) >> ELSE <<>>)

\* Queryset delete: of a row or of a partition
QsDeleteCase(full, pi) == [kind |-> "qsdelete", model |-> "S", full |-> full, prof |-> DmlProfiles[pi]]
QsDeleteReqs(c) == << Req("delete", "st", IF c.full THEN FullKey ELSE PartKey, <<>>, <<>>, <<>>, CondsOf(c.prof), c.prof.ifx, FALSE) >>

-----------------------------------------------------------------------------
\* Model.create(**values) [ttl / timestamp / if_not_exists]

Pair(attr, col, val) == [kw |-> attr, attr |-> attr, col |-> col, shape |-> "pair", vals |-> <<val>>, null |-> FALSE]
\* explicit None / empty collection: the column is left out of the INSERT and deleted by a second statement
Gone(attr, col, val) == [kw |-> attr, attr |-> attr, col |-> col, shape |-> "field", vals |-> <<val>>, null |-> TRUE]

CreateAlphabet == <<
    Pair("v", "vv", IntV(71)),
    Pair("w", "w", IntV(72)),
    Gone("w", "w", NoneV),
    Pair("t", "t", TextV("cr")),
    Pair("s", "s", SetV({73})),
    Pair("l", "l", ListV(<<74, 75>>)),
    Gone("l", "l", ListV(<<>>)),
    Pair("m", "m", MapV(<< <<76, 77>> >>)),
    Pair("z", "z", IntV(78))
>>
NC == Len(CreateAlphabet)
CreateSets == {S \in Subsets(NC, 0, MaxCreate) : \A i \in S : \A j \in S : i # j => CreateAlphabet[i].attr # CreateAlphabet[j].attr}

CProf(ttl, ts, inx) == [ttl |-> ttl, ts |-> ts, inx |-> inx]
CreateProfiles == << CProf(0, FALSE, FALSE), CProf(5, FALSE, FALSE), CProf(0, TRUE, FALSE), CProf(0, FALSE, TRUE), CProf(5, TRUE, TRUE) >>

KeyPairs == << Pair("p", "p", KeyP), Pair("q", "q", KeyQ), Pair("c", "c", KeyC) >>

CreateCase(S, pi) ==
    [kind |-> "create", model |-> "S", values |-> [i \in 1..Cardinality(S) |-> CreateAlphabet[SeqOfSet(S)[i]]], prof |-> CreateProfiles[pi]]

CreateReqs(c) ==
    LET given == Sel(c.values, NotNull)
        gone == Sel(c.values, IsNull) IN
    << Req("insert", "st", <<>>, <<>>, <<>>, KeyPairs \o given, <<>>, FALSE, c.prof.inx) >> \o
    (IF Len(gone) > 0 THEN << Req("delete", "st", FullKey, <<>>, gone, <<>>, <<>>, FALSE, FALSE) >> ELSE <<>>)

-----------------------------------------------------------------------------
\* Instance save / update / delete.  The instance was read from the row
\*   p=1 q=2 c=3 v=4 w=5 t="x" z=6 s={1,2} l=[1,2] m={1:1, 2:2}
\* and is then changed through its attributes.  A changed collection is written as the difference to what was read.

MBase(attr, col, shape, static) == [kw |-> attr, attr |-> attr, col |-> col, shape |-> shape, static |-> static, null |-> FALSE, delkeys |-> <<>>]
MAssign(attr, col, val, static) == [vals |-> <<val>>] @@ MBase(attr, col, "assign", static)
MNull(attr, col, static) == [vals |-> <<NoneV>>, null |-> TRUE] @@ MBase(attr, col, "field", static)
MSet(add, rem) == [add |-> add, rem |-> rem] @@ MBase("s", "s", "setdiff", FALSE)
MList(pre, app) == [pre |-> pre, app |-> app] @@ MBase("l", "l", "listdiff", FALSE)
MMap(pairs, delkeys) == [pairs |-> pairs, delkeys |-> delkeys] @@ MBase("m", "m", "puts", FALSE)

MutAlphabet == <<
    MAssign("v", "vv", IntV(81), FALSE),
    MNull("w", "w", FALSE),
    MAssign("z", "z", IntV(82), TRUE),
    MNull("z", "z", TRUE),
    MSet({83}, {}),
    MSet({}, {1}),
    MSet({84, 85}, {2}),
    MList(<<86>>, <<>>),
    MList(<<>>, <<87, 88>>),
    MList(<<89>>, <<90>>),
    MAssign("l", "l", ListV(<<2>>), FALSE),
    MMap(<< <<3, 91>> >>, <<>>),
    MMap(<< <<1, 92>> >>, <<>>),
    MMap(<<>>, <<1>>),
    MMap(<< <<3, 93>> >>, <<1, 2>>),
    MNull("s", "s", FALSE),
    MNull("m", "m", FALSE),
    MAssign("t", "t", TextV("ty"), FALSE)
>>
NM == Len(MutAlphabet)
MutSets == {S \in Subsets(NM, 1, MaxMuts) : \A i \in S : \A j \in S : i # j => MutAlphabet[i].attr # MutAlphabet[j].attr}

InstProfiles == << Prof(<<>>, FALSE, 0, FALSE), Prof(<<1>>, FALSE, 0, FALSE), Prof(<<>>, TRUE, 0, FALSE), Prof(<<>>, FALSE, 7, FALSE),
                   Prof(<<1, 3>>, FALSE, 0, FALSE), Prof(<<3, 1>>, FALSE, 0, FALSE), Prof(<<1, 3, 4>>, FALSE, 0, FALSE),
                   Prof(<<4, 3, 1>>, FALSE, 0, FALSE), Prof(<<2, 1>>, FALSE, 0, FALSE) >>

InstSaveCase(S, how, pi) ==
    [kind |-> "instsave", model |-> "S", how |-> how, muts |-> [i \in 1..Cardinality(S) |-> MutAlphabet[SeqOfSet(S)[i]]], prof |-> InstProfiles[pi]]

Writes(mu) == ~mu.null /\ (mu.shape # "puts" \/ Len(mu.pairs) > 0)
Deletes(mu) == mu.null \/ Len(mu.delkeys) > 0
DelClause(mu) == IF mu.null THEN mu ELSE [kw |-> mu.kw, attr |-> mu.attr, col |-> mu.col, shape |-> "keys", keys |-> mu.delkeys, static |-> mu.static]
AllStatic(ms) == \A i \in 1..Len(ms) : ms[i].static

\* a statement that touches only static columns addresses the partition, every other one the row
InstSaveReqs(c) ==
    LET ws == Sel(c.muts, Writes)
        ds0 == Sel(c.muts, Deletes)
        ds == [i \in 1..Len(ds0) |-> DelClause(ds0[i])]
        conds == CondsOf(c.prof) IN
    (IF Len(ws) > 0 THEN << Req("update", "st", IF AllStatic(ws) THEN PartKey ELSE FullKey, ws, <<>>, <<>>, conds, c.prof.ifx, FALSE) >> ELSE <<>>) \o
    (IF Len(ds) > 0 THEN << Req("delete", "st", IF AllStatic(ds) THEN PartKey ELSE FullKey, <<>>, ds, <<>>, FollowUpConds(conds, ws), c.prof.ifx, FALSE) >> ELSE <<>>)

InstDeleteCase(pi) == [kind |-> "instdelete", model |-> "S", prof |-> InstProfiles[pi]]
InstDeleteReqs(c) == << Req("delete", "st", FullKey, <<>>, <<>>, <<>>, CondsOf(c.prof), c.prof.ifx, FALSE) >>

\* Counters (model SC): queryset update(n=delta) and instance n += delta; save()
CounterCase(how, delta) == [kind |-> "counter", model |-> "SC", how |-> how, delta |-> delta]
CounterReqs(c) ==
    << Req("update", "sc", CounterKey, << [kw |-> "n", attr |-> "n", col |-> "n", shape |-> "counter", delta |-> c.delta] >>,
           <<>>, <<>>, <<>>, FALSE, FALSE) >>

-----------------------------------------------------------------------------
\* Expected statements of a non-batch case

ReqsOf(c) ==
    CASE c.kind = "select"     -> SelectReqs(c)
      [] c.kind = "qsupdate"   -> QsUpdateReqs(c)
      [] c.kind = "qsdelete"   -> QsDeleteReqs(c)
      [] c.kind = "create"     -> CreateReqs(c)
      [] c.kind = "instsave"   -> InstSaveReqs(c)
      [] c.kind = "instdelete" -> InstDeleteReqs(c)
      [] c.kind = "counter"    -> CounterReqs(c)

\* Batches: members are added to one BatchQuery in order; the batch is sent as one string with one parameter dict
BatchMembers == <<
    CreateCase({1, 5}, 1),
    CreateCase({3, 8}, 1),
    QsUpdateCase({1}, 1),
    QsUpdateCase({6, 7}, 2),
    QsUpdateCase({4, 14}, 1),
    QsDeleteCase(TRUE, 3),
    QsDeleteCase(FALSE, 1),
    InstSaveCase({7, 15}, "save", 1),
    InstSaveCase({1, 2}, "update", 5),          \* v written, w set to None, iff(v, t): a condition on a written column first
    QsUpdateCase({3, 4}, 11),                   \* the same through the query set
    InstSaveCase({2, 10}, "update", 2),
    InstDeleteCase(1),
    QsUpdateCase({11, 15}, 5),
    InstSaveCase({3}, "save", 1),
    InstSaveCase({1, 2}, "save", 7),            \* iff(v, t, z)
    InstSaveCase({2, 18}, "update", 8)          \* t written, iff(z, t, v): the written column in the middle
>>
CounterMembers == << CounterCase("qs", 5), CounterCase("qs", -3), CounterCase("inst", 2) >>

BatchSeqs(N) ==
    UNION {  {<<i, j>> : i \in 1..N, j \in 1..N},
             IF MaxBatch >= 3 THEN {<<i, j, k>> : i \in 1..N, j \in 1..N, k \in 1..N} ELSE {} }

BatchCase(q, btype, members) == [kind |-> "batch", btype |-> btype, members |-> [i \in 1..Len(q) |-> members[q[i]]]]

RECURSIVE ConcatReqs(_)
ConcatReqs(ms) == IF Len(ms) = 0 THEN <<>> ELSE ReqsOf(Head(ms)) \o ConcatReqs(Tail(ms))

Expect(c) ==
    IF c.kind = "batch" THEN [sent |-> Batched(ConcatReqs(c.members)), mayrefuse |-> FALSE]
    ELSE [sent |-> Alone(ReqsOf(c)), mayrefuse |-> IF c.kind = "select" THEN MayRefuse(c.filters, c.opt) ELSE FALSE]

-----------------------------------------------------------------------------
\* The cases are the initial states.

Init ==
    \/ \E len \in 0..MaxFilters : \E fq \in FilterSeqs(len) :
         \E o \in 1..(IF len <= 1 THEN Len(OptProfiles) ELSE NProfLong) : \E single \in BOOLEAN :
            /\ single => len >= 2 /\ (o = 1 \/ HasToken(fq))
            /\ case = SelectCase(fq, o, single) /\ out = Expect(case)
    \/ \E S \in AssignSets : \E pi \in 1..Len(DmlProfiles) :
            /\ case = QsUpdateCase(S, pi)
            /\ out = Expect(case)
    \/ \E full \in BOOLEAN : \E pi \in 1..Len(DmlProfiles) :
            case = QsDeleteCase(full, pi) /\ out = Expect(case)
    \/ \E S \in CreateSets : \E pi \in 1..Len(CreateProfiles) :
            case = CreateCase(S, pi) /\ out = Expect(case)
    \/ \E S \in MutSets : \E how \in {"save", "update"} : \E pi \in 1..Len(InstProfiles) :
            /\ case = InstSaveCase(S, how, pi)
            /\ out = Expect(case)
    \/ \E pi \in 1..Len(InstProfiles) :
            case = InstDeleteCase(pi) /\ out = Expect(case)
    \/ \E how \in {"qs", "inst"} : \E d \in {5, -3} :
            case = CounterCase(how, d) /\ out = Expect(case)
    \/ \E q \in BatchSeqs(NBM) : \E bt \in {"", "UNLOGGED"} :
            /\ bt = "UNLOGGED" => Len(q) = 2 /\ q[1] < q[2]
            /\ case = BatchCase(q, bt, BatchMembers) /\ out = Expect(case)
    \/ \E q \in BatchSeqs(Len(CounterMembers)) :
            case = BatchCase(q, "COUNTER", CounterMembers) /\ out = Expect(case)

Next == UNCHANGED vars
Spec == Init /\ [][Next]_vars

-----------------------------------------------------------------------------
\* C37 on the definition itself

RECURSIVE ConcatIds(_)
ConcatIds(stmts) == IF Len(stmts) = 0 THEN <<>> ELSE Head(stmts).ids \o ConcatIds(Tail(stmts))

Range(s) == {s[i] : i \in 1..Len(s)}

\* within one string no context id is used twice and the ids are 0 .. n-1
IdsUniqueAndDense ==
    \A g \in 1..Len(out.sent) :
        LET ids == ConcatIds(out.sent[g].stmts) IN
        /\ Cardinality(Range(ids)) = Len(ids)
        /\ Range(ids) = 0..(Len(ids) - 1)

\* every id has exactly one value
OneValuePerId ==
    \A g \in 1..Len(out.sent) : \A i \in 1..Len(out.sent[g].stmts) :
        Len(out.sent[g].stmts[i].ids) = Len(out.sent[g].stmts[i].vals)

\* a member of a batch starts where its predecessor stopped
BatchOffsets ==
    \A g \in 1..Len(out.sent) : \A i \in 1..Len(out.sent[g].stmts) :
        LET s == out.sent[g].stmts[i] IN
        /\ ~out.sent[g].batch => s.first = 0
        /\ i > 1 => s.first = out.sent[g].stmts[i - 1].first + Len(out.sent[g].stmts[i - 1].ids)
        /\ \A k \in 1..Len(s.ids) : s.ids[k] = s.first + k - 1

\* a statement says something: a SELECT or a row DELETE may have no clause at all, everything else has some
NotEmpty ==
    \A g \in 1..Len(out.sent) : \A i \in 1..Len(out.sent[g].stmts) :
        LET s == out.sent[g].stmts[i] IN
        /\ s.kind = "update" => Len(s.set) > 0 /\ Len(s.where) > 0
        /\ s.kind = "insert" => Len(s.ins) > 0
        /\ s.kind = "delete" => Len(s.where) > 0

\* vacuity witnesses (expected to be VIOLATED)
Witness_TwoIdClause == ~(case.kind = "instsave" /\ \E i \in 1..Len(case.muts) :
                            case.muts[i].shape = "setdiff" /\ case.muts[i].add # {} /\ case.muts[i].rem # {})
Witness_TokenFilter == ~(case.kind = "select" /\ \E i \in 1..Len(case.filters) : case.filters[i].shape = "token")
Witness_BatchOfThree == ~(case.kind = "batch" /\ Len(case.members) = 3 /\ Len(out.sent[1].stmts) >= 4)
Witness_TwoStatements == ~(case.kind = "qsupdate" /\ Len(out.sent) = 2 /\ Len(case.prof.conds) > 0)
\* the first member of a batch sends UPDATE + DELETE and a condition on a written column precedes one that the DELETE keeps
Witness_SharedConditionsFirstInBatch ==
    ~(case.kind = "batch" /\ Len(out.sent[1].stmts) >= 3 /\ case.members[1].kind \in {"instsave", "qsupdate"}
      /\ out.sent[1].stmts[1].kind = "update" /\ out.sent[1].stmts[2].kind = "delete"
      /\ Len(out.sent[1].stmts[1].iff) >= 2
      /\ Len(out.sent[1].stmts[2].iff) >= 1 /\ Len(out.sent[1].stmts[2].iff) < Len(out.sent[1].stmts[1].iff)
      /\ out.sent[1].stmts[1].iff[1][1] # out.sent[1].stmts[2].iff[1][1])
\* one filter() call: a token() comparison FOLLOWED by a column whose stored name needs its quotes
Witness_TokenThenQuotedName ==
    ~(case.kind = "select" /\ case.single /\ \E i \in 1..Len(case.filters) : \E j \in 1..Len(case.filters) :
        i < j /\ case.filters[i].shape = "token" /\ case.filters[j].shape = "rel" /\ case.filters[j].col \in {"Seq", "order"})
Witness_MayRefuse == ~(case.kind = "select" /\ out.mayrefuse)
=============================================================================
