-------------------------- MODULE ControlNegotiate --------------------------
(* C41 - protocol version negotiation of the control connection.              *)
(*                                                                            *)
(* Code anchors (cassandra/):                                                 *)
(*   __init__.py  ProtocolVersion.SUPPORTED_VERSIONS / BETA_VERSIONS /        *)
(*                get_lower_supported                                         *)
(*   cluster.py   Cluster.protocol_version (default DSE_V2, :648),            *)
(*                Cluster.__init__ (_protocol_version_explicit, :1235-1238),  *)
(*                Cluster.protocol_downgrade (:1693-1704),                    *)
(*                ControlConnection._try_connect, the `while True` loop       *)
(*                (:3689-3705)                                                *)
(*   connection.py Connection.factory (:848-868), process_msg detection of    *)
(*                "unsupported protocol version" (:1286-1291)                 *)
(*                                                                            *)
(* One configuration = (start version, explicit?, allow_beta?, server).  The  *)
(* server knows the versions S and treats B \subseteq S as beta: a frame of a *)
(* version outside S is answered with the protocol error "Invalid or          *)
(* unsupported protocol version", a frame of a version in B without the       *)
(* USE_BETA flag with "Beta version of the protocol used ..., but USE_BETA    *)
(* flag is unset".  The driver sets USE_BETA on every frame iff allow_beta.   *)
(* One pass through the loop of _try_connect is two steps by two threads: the *)
(* event loop answers the first frame of the new connection (Reply: publishes *)
(* the outcome, then sets connected_event), the client thread waiting in      *)
(* Connection.factory() wakes up, reads what was published and runs the       *)
(* exception handler (Observe).                                               *)
(* `start` with explicit = FALSE stands for Cluster.protocol_version as it is *)
(* when the (re)connection begins: the class default DSE_V2, or whatever an   *)
(* earlier negotiation / the application left there.                          *)
EXTENDS Naturals, Sequences, FiniteSets, TLC

CONSTANTS MaxServerBeta,   \* the server treats at most this many versions as beta
          BetaTopOnly,     \* TRUE: only the server's newest version may be beta
          ServerSets       \* the server version sets S to enumerate (AllServerSets = every subset)

DSE1 == 65
DSE2 == 66
Supported == {1, 2, 3, 4, 5, 6, DSE1, DSE2}     \* ProtocolVersion.SUPPORTED_VERSIONS
Beta      == {6}                                \* ProtocolVersion.BETA_VERSIONS
MinSupported == 1

AllServerSets == SUBSET Supported
WitnessServerSets == {{}, {6}, {3, 4}, {4, 5}, {3, 4, 5, DSE1}}      \* small family for the vacuity witnesses

MaxOf(X) == CHOOSE x \in X : \A y \in X : y <= x

\* ProtocolVersion.get_lower_supported: the next lower supported non-beta version, 0 when there is none
Lower(v) == LET c == {x \in Supported \ Beta : x < v} IN IF c = {} THEN 0 ELSE MaxOf(c)

\* server-side beta markings enumerated for a server that knows the versions X
BetaSets(X) == IF BetaTopOnly
               THEN {{}} \cup (IF X = {} \/ MaxServerBeta = 0 THEN {} ELSE {{MaxOf(X)}})
               ELSE {Y \in SUBSET X : Cardinality(Y) <= MaxServerBeta}

VARIABLES start, explicit, allowBeta, S, B,    \* the configuration (never changes)
          ver,                                 \* Cluster.protocol_version
          log,                                 \* versions tried, in order (first frame of every connection attempt)
          replies,                             \* what the server said to each of them
          status,                              \* "trying" | "connected" | "error"
          conn                                 \* what the event loop published on the connection being opened:
                                               \* "none" (nothing yet) | "ok" | "unsupported" | "beta"
cfgVars == <<start, explicit, allowBeta, S, B>>
vars == <<start, explicit, allowBeta, S, B, ver, log, replies, status, conn>>

Accepts(v) == v \in S /\ (v \in B => allowBeta)
ReplyTo(v) == IF Accepts(v) THEN "ok" ELSE IF v \notin S THEN "unsupported" ELSE "beta"

Init == /\ start \in Supported
        /\ explicit \in BOOLEAN
        /\ allowBeta \in BOOLEAN
        /\ (start \in Beta => explicit \/ allowBeta)      \* a beta version is only ever *configured*
        /\ S \in ServerSets
        /\ B \in BetaSets(S)
        /\ ver = start
        /\ log = <<>>
        /\ replies = <<>>
        /\ status = "trying"
        /\ conn = "none"

\* Event-loop thread, first frame of a new connection at Cluster.protocol_version (Connection.process_msg /
\* the handshake callbacks): it PUBLISHES the outcome - last_error, is_unsupported_proto_version - and only then
\* sets connected_event (inside defunct() for an error).  `conn` is what is published when the event is set.
Reply ==
    /\ status = "trying" /\ conn = "none"
    /\ log' = Append(log, ver)
    /\ replies' = Append(replies, ReplyTo(ver))
    /\ conn' = ReplyTo(ver)
    /\ UNCHANGED <<cfgVars, ver, status>>

\* Client thread blocked in Connection.factory() on connected_event: it may run at ANY instant after the event is
\* set - in particular before the event-loop thread executes its next statement - and decides on what it reads
\* then: ProtocolVersionUnsupported (-> protocol_downgrade), the ProtocolException itself (beta error ->
\* protocol_downgrade unless explicit; anything else is re-raised), or the ready connection (`break`).
\* The harness runs this step both at the instant of connected_event.set() and after the callback has returned.
Observe ==
    /\ status = "trying" /\ conn # "none"
    /\ conn' = "none"
    /\ IF conn = "ok"
       THEN status' = "connected" /\ ver' = ver
       ELSE IF explicit
            THEN status' = "error" /\ ver' = ver          \* protocol_downgrade raises / ProtocolException re-raised
            ELSE IF Lower(ver) < MinSupported
                 THEN status' = "error" /\ ver' = ver     \* "Cannot downgrade protocol version below minimum supported"
                 ELSE status' = "trying" /\ ver' = Lower(ver)
    /\ UNCHANGED <<cfgVars, log, replies>>

Next == Reply \/ Observe
Spec == Init /\ [][Next]_vars /\ WF_vars(Next)

-----------------------------------------------------------------------------
TypeOK == /\ status \in {"trying", "connected", "error"}
          /\ conn \in {"none", "ok", "unsupported", "beta"}
          /\ (status # "trying" => conn = "none")
          /\ (conn # "none" => Len(replies) > 0 /\ conn = replies[Len(replies)])   \* what is read is what was published
          /\ ver \in Supported
          /\ Len(log) = Len(replies)

\* never steps up, never repeats
StrictlyDecreasing == \A i \in 1..(Len(log) - 1) : log[i] > log[i + 1]

\* ... with the *next* lower non-beta version the driver supports: nothing eligible is skipped
NextLowerOnly == \A i \in 1..(Len(log) - 1) :
                    /\ log[i + 1] \in Supported \ Beta
                    /\ \A x \in Supported \ Beta : ~(log[i + 1] < x /\ x < log[i])

\* a beta version is never *chosen* by the negotiation
NoBetaUnlessConfigured == \A i \in 1..Len(log) : log[i] \in Beta => i = 1 /\ (explicit \/ allowBeta)

\* an explicitly configured version is never downgraded
ExplicitOnce == explicit => Len(log) <= 1 /\ ver = start

\* every retry answers a rejection
RetryOnlyOnReject == \A i \in 1..(Len(log) - 1) : replies[i] # "ok"

ConnectedInS == status = "connected" =>
                    /\ ver = log[Len(log)]
                    /\ ver \in S
                    /\ replies[Len(log)] = "ok"

\* gives up only when told to keep the version, or after the lowest version failed
ErrorOnlyWhenExhausted == status = "error" =>
                    /\ replies[Len(log)] # "ok"
                    /\ (explicit \/ Lower(log[Len(log)]) = 0)
                    /\ (~explicit => log[Len(log)] = MinSupported)

Bounded == Len(log) <= Cardinality(Supported)

Terminates == <>(status \in {"connected", "error"})

\* vacuity witnesses (must be VIOLATED)
Witness_SkipBeta     == ~(Len(log) >= 2 /\ \E i \in 1..(Len(log) - 1) : log[i] > 6 /\ log[i + 1] < 6)
Witness_BetaReply    == ~(status = "connected" /\ \E i \in 1..Len(log) : replies[i] = "beta")
Witness_Exhausted    == ~(status = "error" /\ ~explicit /\ Len(log) = 7)
Witness_ExplicitFail == ~(status = "error" /\ explicit)
Witness_ExplicitBeta == ~(status = "connected" /\ ver \in Beta)

\* all witnesses in one run (-workers 1): CONSTRAINT RecordWitnesses, POSTCONDITION PrintWitnesses
ASSUME TLCSet(2, {})
WitnessesHere == (IF ~Witness_SkipBeta THEN {"Witness_SkipBeta"} ELSE {})
            \cup (IF ~Witness_BetaReply THEN {"Witness_BetaReply"} ELSE {})
            \cup (IF ~Witness_Exhausted THEN {"Witness_Exhausted"} ELSE {})
            \cup (IF ~Witness_ExplicitFail THEN {"Witness_ExplicitFail"} ELSE {})
            \cup (IF ~Witness_ExplicitBeta THEN {"Witness_ExplicitBeta"} ELSE {})
RecordWitnesses == TLCSet(2, TLCGet(2) \cup WitnessesHere)
PrintWitnesses == PrintT(<<"WITNESSES", TLCGet(2)>>)
=============================================================================
