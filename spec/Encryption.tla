----------------------------- MODULE Encryption -----------------------------
(* Column encryption is transparent, including for nulls (C39).               *)
(*                                                                            *)
(* Code anchors                                                               *)
(*   cassandra/query.py     BoundStatement.bind (encryption)         629-637  *)
(*   cassandra/protocol.py  write_value / read_value               1446-1462  *)
(*   cassandra/protocol.py  ResultMessage.recv_results_rows          742-770  *)
(*   cassandra/obj_parser.pyx  TupleRowParser.unpack_row (compiled)   60-95   *)
(*   cassandra/column_encryption/_policies.py  encrypt / decrypt      65-91   *)
(*                                                                            *)
(* The data path of one cell:                                                 *)
(*    value --Bind--> bound value --Wire--> [bytes] cell --Decode--> value    *)
(* Bind  : null stays null; otherwise the serialized value, encrypted when    *)
(*         the column is in the policy.                                       *)
(* Wire  : a [bytes] value of the native protocol: length -1 for null, else   *)
(*         the length and the payload.  The server stores and returns what it *)
(*         was sent.                                                          *)
(* Decode: length -1 is null; otherwise the payload, decrypted when the       *)
(*         column is in the policy, deserialized with the column's type.      *)
(* E / D are an OPAQUE bijection per column: a ciphertext is a token that is  *)
(* no plain serialization of anything, and D(c, _, E(c, _, b)) = b is all     *)
(* that is known about it.  (The real AES-256-CBC policy is used on the code  *)
(* side.)  The cipher is keyed per column; the initialization vector is the   *)
(* WRITING policy's, and it travels in front of the ciphertext ("Store IV     *)
(* along with encrypted text", CHANGELOG 3.28.0 / PYTHON-1350; encrypt()      *)
(* returns self.iv + ..., decrypt() takes the first block as the IV).  Hence  *)
(* the policy instance that READS may be another one than the one that WROTE  *)
(* (application restart, a second client): same keys, but its own IV - a      *)
(* random one by default.  The reader's IV must not matter.                   *)
(*                                                                            *)
(* A state is one CASE (a result set: column layout, rows of values, how the  *)
(* values are bound, where the decoder takes the result metadata from) and    *)
(* what the property demands (`out`).  TLC enumerates the cases, checks       *)
(* transparency on the definition, dumps them; checks/c39.py runs each case   *)
(* through the real bind / policy / result decoder.                           *)
EXTENDS Integers, Sequences, FiniteSets, TLC

CONSTANTS MaxCols,      \* 1..MaxCols columns
          MaxRows,      \* 0..MaxRows rows
          MaxCells,     \* bound on columns x rows
          FreeTypes,    \* TRUE: every column's type is chosen freely from FreeTypeSet; FALSE: int, text, uuid by position
          PVs,          \* protocol versions
          BindModes,    \* subset of {"seq", "map"}: positional / by-name binding
          MetaModes,    \* subset of {"inline", "prepared"}: result metadata in the ROWS message, or taken from the
                        \* prepared statement (NO_METADATA flag, "skip metadata")
          NameModes,    \* subset of {"lower", "mixed"}: the identity of a column is the triple (keyspace, table, column) of
                        \* its names EXACTLY as the server reports them - lower case for ordinary identifiers, as
                        \* written for quoted, case-sensitive ones (ks."Accounts"."Photo").  The policy is configured
                        \* with that same triple; "encrypted or not" is a property of the identity, whatever its spelling.
          PolicyModes   \* subset of {"same", "default_ivs", "explicit_ivs"}: the policy that decodes is the very instance
                        \* that bound / a separate instance with the same keys, both with their default (random) IV /
                        \* a separate instance with the same keys, both with explicit, different IVs

Types == {"int", "text", "uuid"}
FreeTypeSet == {"int", "text"}          \* the types FreeTypes layouts choose from

RECURSIVE BE(_, _)
BE(w, v) == IF w = 0 THEN <<>> ELSE Append(BE(w - 1, v \div 256), v % 256)

V(i, s) == [i |-> i, s |-> s]
\* A real block cipher pads: AES-CBC works on 16-byte blocks and the policy pads with PKCS7 (n bytes of value n,
\* 1 <= n <= 16, a whole block when the plaintext is already aligned).  E / D being a bijection on ALL byte strings
\* therefore has a corner the alphabet must contain: plaintexts that are block-aligned AND end like padding.
PaddingLikeTail(b) ==
    /\ Len(b) > 0 /\ Len(b) % 16 = 0
    /\ LET n == b[Len(b)] IN n \in 1..16 /\ \A i \in (Len(b) - n + 1)..Len(b) : b[i] = n

Aligned16(tail) == [i \in 1..16 |-> IF i > 16 - Len(tail) THEN tail[i - (16 - Len(tail))] ELSE 96 + i]

\* the awkward values: a negative number; the empty string; a 16-character string ending in two 0x02; a uuid ending in 01
Vals(ty) ==
    CASE ty = "int"  -> {V(258, <<>>), V(0 - 2, <<>>)}
      [] ty = "text" -> {V(0, <<97, 98>>), V(0, <<>>), V(0, Aligned16(<<2, 2>>))}
      [] ty = "uuid" -> {V(0, Aligned16(<<1>>)), V(0, [i \in 1..16 |-> 255 - i])}

Ser(ty, v) == IF ty = "int" THEN BE(4, v.i) ELSE v.s          \* text: ASCII codes; uuid: its 16 bytes

ASSUME AlphabetHasPaddingLikePlaintexts ==
    \A ty \in {"text", "uuid"} : \E v \in Vals(ty) : PaddingLikeTail(Ser(ty, v))
Deser(ty, b) == CHOOSE v \in Vals(ty) : Ser(ty, v) = b

\* a cell value
Null == [k |-> "null", v |-> V(0, <<>>)]
Val(v) == [k |-> "val", v |-> v]
Cells(ty) == {Null} \cup {Val(v) : v \in Vals(ty)}

\* the IVs of the writing and the reading policy instance (opaque names)
WriterIv(pm) == "iv1"
ReaderIv(pm) == IF pm = "same" THEN "iv1" ELSE "iv2"

\* opaque cipher: the token carries the IV it was made with; decryption uses THAT one, whatever the reader's own is
E(c, iv, b) == [col |-> c, iv |-> iv, of |-> b]
D(c, ownIv, x) == x.of                \* only ever applied to a token made by E(c, _, _)

\* bound / wire values.  t: "null" | "plain" (payload b) | "cipher" (payload is the token E(c, b))
BNull == [t |-> "null", b |-> <<>>]
BindCell(c, col, cell) ==
    IF cell.k = "null" THEN BNull
    ELSE IF col.enc THEN [t |-> "cipher", b |-> Ser(col.ty, cell.v)]         \* stands for E(c, WriterIv, Ser(..))
    ELSE [t |-> "plain", b |-> Ser(col.ty, cell.v)]

\* [bytes]: n = -1 for null.  The ciphertext's length is not known to the definition (n = 0 - 2 marks "some n >= 0")
WireCell(c, bv) ==
    IF bv.t = "null" THEN [n |-> 0 - 1, payload |-> BNull]
    ELSE [n |-> IF bv.t = "plain" THEN Len(bv.b) ELSE 0 - 2, payload |-> bv]

DecodeCell(c, col, w, pm) ==
    IF w.n = 0 - 1 THEN Null
    ELSE LET raw == IF col.enc THEN D(c, ReaderIv(pm), E(c, WriterIv(pm), w.payload.b)) ELSE w.payload.b
         IN Val(Deser(col.ty, raw))

-----------------------------------------------------------------------------
VARIABLES case, out
vars == <<case, out>>

ColType(c) == CASE c = 1 -> "int" [] c = 2 -> "text" [] OTHER -> "uuid"
Layouts(n) == {cols \in [1..n -> [ty : Types, enc : BOOLEAN]] :
                  IF FreeTypes THEN \A c \in 1..n : cols[c].ty \in FreeTypeSet ELSE \A c \in 1..n : cols[c].ty = ColType(c)}

RECURSIVE RowsOf(_, _, _)
\* all sequences of r rows for the layout
RowSet(cols, n) == {row \in [1..n -> UNION {Cells(ty) : ty \in Types}] : \A c \in 1..n : row[c] \in Cells(cols[c].ty)}
RowsOf(cols, n, r) == IF r = 0 THEN {<<>>} ELSE {<<row>> \o rest : row \in RowSet(cols, n), rest \in RowsOf(cols, n, r - 1)}

\* names of keyspace, table and columns per name mode
ColumnId(nm, c) ==
    IF nm = "lower" THEN <<"ks", "t", CASE c = 1 -> "c1" [] c = 2 -> "c2" [] OTHER -> "c3">>
    ELSE <<"Ks", "Accounts", CASE c = 1 -> "Photo" [] c = 2 -> "userName" [] OTHER -> "ID">>

Init ==
    \E n \in 1..MaxCols : \E cols \in Layouts(n) : \E r \in 0..MaxRows : \E pv \in PVs :
    \E bm \in BindModes : \E mm \in MetaModes : \E pm \in PolicyModes :
    \E nm \in NameModes :
       /\ n * r <= MaxCells
       /\ (pm # "same" => \E c \in 1..n : cols[c].enc)       \* a second policy instance only matters with an encrypted column
       /\ \E rows \in RowsOf(cols, n, r) :
          /\ case = [cols |-> cols, rows |-> rows, pv |-> pv, bind |-> bm, meta |-> mm, pol |-> pm,
                    names |-> nm, ids |-> [c \in 1..n |-> ColumnId(nm, c)]]
          /\ LET bound == [i \in 1..r |-> [c \in 1..n |-> BindCell(c, cols[c], rows[i][c])]] IN
             out = [bound |-> bound,
                    decoded |-> [i \in 1..r |-> [c \in 1..n |-> DecodeCell(c, cols[c], WireCell(c, bound[i][c]), pm)]]]

Next == UNCHANGED vars
Spec == Init /\ [][Next]_vars

-----------------------------------------------------------------------------
\* C39 on the definition
N == Len(case.cols)
R == Len(case.rows)

\* what comes out of the result decoder is what was bound, nulls included
Transparent == out.decoded = case.rows

\* every non-null value of an encrypted column is sent encrypted, never in the clear; other columns in the clear
SentEncrypted ==
    \A i \in 1..R : \A c \in 1..N :
        LET b == out.bound[i][c] IN
        IF case.rows[i][c].k = "null" THEN b.t = "null"
        ELSE b.t = (IF case.cols[c].enc THEN "cipher" ELSE "plain") /\ b.b = Ser(case.cols[c].ty, case.rows[i][c].v)

NullStaysNull ==
    \A i \in 1..R : \A c \in 1..N : (case.rows[i][c].k = "null") <=> (out.decoded[i][c].k = "null")

C39Invariants == Transparent /\ SentEncrypted /\ NullStaysNull

\* vacuity witnesses (each must be VIOLATED)
Witness_NullInEncryptedColumn == ~(\E i \in 1..R : \E c \in 1..N : case.cols[c].enc /\ case.rows[i][c].k = "null")
Witness_MixedLayoutTwoRows == ~(R = 2 /\ \E c, d \in 1..N : case.cols[c].enc /\ ~case.cols[d].enc)
Witness_SeparateReaderPolicy == ~(case.pol # "same" /\ R >= 1 /\ ReaderIv(case.pol) # WriterIv(case.pol))
Witness_BlockAlignedPaddingLikeTail ==
    ~(\E i \in 1..R : \E c \in 1..N : case.cols[c].enc /\ case.rows[i][c].k = "val"
                                        /\ PaddingLikeTail(Ser(case.cols[c].ty, case.rows[i][c].v)))
Witness_MixedCaseEncryptedColumn ==
    ~(case.names = "mixed" /\ R >= 1 /\ \E c \in 1..N : case.cols[c].enc /\ case.rows[1][c].k = "val")
Witness_EmptyStringEncrypted == ~(\E i \in 1..R : \E c \in 1..N : case.cols[c].enc /\ case.rows[i][c].k = "val"
                                                                  /\ case.cols[c].ty = "text" /\ case.rows[i][c].v.s = <<>>)
=============================================================================
