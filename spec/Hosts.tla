------------------------------- MODULE Hosts -------------------------------
(* Host state handling of one Cluster with its Sessions: up/down marking,      *)
(* reconnectors, connection pools per session, listener / load-balancing        *)
(* policy notifications, the executor and scheduler queues, and shutdown.       *)
(*                                                                              *)
(* Code anchors (cassandra/):                                                   *)
(*   cluster.py  Cluster.on_up, _on_up_future_completed,                        *)
(*               _cleanup_failed_on_up_handling, on_down, _start_reconnector,   *)
(*               on_add, _finalize_add, on_remove, remove_host, add_host,       *)
(*               signal_connection_failure, shutdown                            *)
(*               Session.add_or_renew_pool, remove_pool, update_created_pools,  *)
(*               on_down, on_remove, submit, shutdown                           *)
(*               ControlConnection._handle_status_change,                       *)
(*               _handle_topology_change, _refresh_node_list_and_token_map,     *)
(*               _reconnect, _set_new_connection, shutdown                      *)
(*   pool.py     Host, _ReconnectionHandler.start/run/cancel,                   *)
(*               _HostReconnectionHandler, HostConnection.return_connection,    *)
(*               HostConnection.shutdown                                        *)
(*                                                                              *)
(* Grain.  One action per executor task (everything a task does, including the  *)
(* done-callbacks of the future it completes, runs on one worker thread), one   *)
(* per scheduler hand-over (the scheduler thread submits a due entry to the     *)
(* executor), one per event delivered by the reactor thread, one per phase of   *)
(* Cluster.shutdown.  The executor is a bag: a thread pool runs queued tasks in *)
(* any order.  Host 1 is the contact point carrying the control connection; it  *)
(* never fails and is never removed: the hosts in Hosts are the subjects.       *)
(*                                                                              *)
(* Deviations.  Where the code as built breaks a property, the action has two   *)
(* branches selected by the constant Fixed: the name in Fixed gives the         *)
(* repaired behaviour, its absence the behaviour of the pinned tree.            *)
EXTENDS Integers, Sequences, FiniteSets, TLC

CONSTANTS Hosts,      \* subject hosts: integers > 1
          Known0,     \* the subject hosts present in system.peers when the cluster connects
          Sessions,   \* {1} or {1, 2}
          Ignored,    \* subject hosts the load-balancing policy puts at distance IGNORED
          MaxEvents,  \* how many environment events a behaviour may contain
          Env,        \* kinds of environment events explored: subset of {"fail","status","topo","mode","auth","ctl","drop"},
                      \* plus configuration flags: "remote"  = the subject hosts >= 3 are in a remote datacenter of a policy whose
                      \*                                       distance depends on liveness (see Remote below)
                      \*                          "ctlscan" = the query plan lists the subject hosts before the contact point
          Fixed,      \* deviations repaired: subset of Deviations
          FineUp      \* TRUE: with two sessions Cluster.on_up is split between the two iterations of its submit loop

Deviations == {"D1_late_pool", "D2_discount_pool", "D3_ctl_after_shutdown", "D4_recon_removed", "D5_up_loop", "D6_unknown_down", "D7_stale_pool"}

Ctl == 1
AllHosts == Hosts \cup {Ctl}

(* Host objects.  A node that is removed and comes back at the same address is a NEW Host object (Cluster.add_host), while  *)
(* tasks queued for the old object still hold the old one.  With the flag "readd" in Env every subject endpoint h can have *)
(* a second incarnation, written h + 10.  What the driver keys by Host *equality* (endpoint: Session._pools, the policies'  *)
(* live sets, metadata lookups by endpoint) is indexed by the endpoint Ep(o); what lives on the Host object (is_up, the     *)
(* reconnection handler, _currently_handling_node_up, membership of the metadata as that object) by the object o.          *)
Objs == Hosts \cup (IF "readd" \in Env THEN {h + 10 : h \in Hosts} ELSE {})
Ep(o) == IF o >= 10 THEN o - 10 ELSE o

VARIABLES cs,         \* everything the driver's code paths transform, as one record (fields below)
          mode,       \* [Hosts -> {"ok","refuse","auth"}]  what happens to a new connection to the node
          peers,      \* subject hosts listed by the control node's system.peers
          budget,     \* environment events so far
          phase,      \* 0 running, 1 after Cluster.shutdown closed scheduler+control connection, 2 sessions shut, 3 executor shut
          req,        \* [Sessions -> {"none","refused","pending"}]  execute_async issued after shutdown() returned
          act         \* the last action (replay does not depend on TLC's labels)

vars == <<cs, mode, peers, budget, phase, req, act>>

(* The fields of cs (one record so that a code path is evaluated once per transition). *)
known    == cs.known      \* [Hosts -> BOOLEAN]    host object is in cluster.metadata
removed  == cs.removed    \* [Hosts -> BOOLEAN]    host was removed from the metadata (a removed host is not added again here)
up       == cs.up         \* [Hosts -> {"T","F","N"}]   Host.is_up (N = None, not known)
handling == cs.handling   \* [Hosts -> BOOLEAN]    Host._currently_handling_node_up
recon    == cs.recon      \* [Hosts -> {"none","live","canc"}]  Host._reconnection_handler (and its _cancelled)
pools    == cs.pools      \* [Sessions -> [AllHosts -> {"none","open","shut"}]]  Session._pools[host] (shut = is_shutdown)
grp      == cs.grp        \* <<h, kind, n>> -> [left, ok]: futures still awaited by on_up / on_add and "all results true so far"
exec     == cs.exec       \* bag of tasks submitted to cluster.executor and not yet run
sched    == cs.sched      \* bag of entries waiting in cluster.scheduler
lbpLive  == cs.lbpLive    \* hosts the load-balancing policy considers live
ctl      == cs.ctl        \* "open", "broken" (defunct, still referenced), "closed" : ControlConnection._connection
ctlPend  == cs.ctlPend    \* a control connection reconnect has connected and refreshed, _set_new_connection is still to come
leaked   == cs.leaked     \* open connections nothing refers to any more
emL      == cs.emL        \* notifications emitted by the last action to listeners (sequence of <<kind, h>>)
emP      == cs.emP        \* ... to the load-balancing policy
emC      == cs.emC        \* number of connections the last action opened (accepted by a node; closed again or not)
ctlPlan  == cs.ctlPlan    \* hosts the running ControlConnection._reconnect_internal has still to try (not compared with the code)
\* history fields (not compared with the code)
lsnUp      == cs.lsnUp       \* listener on_up notifications for h since it last went from up to down
lsnAdd     == cs.lsnAdd      \* listener on_add notifications for h since it last went from up to down
lbpUp      == cs.lbpUp       \* policy on_up notifications for h since its last policy on_down / on_remove
authFailed == cs.authFailed  \* an attempt to connect to h ended in AuthenticationFailed
wentDown   == cs.wentDown    \* h went from up to down at least once
badRecon   == cs.badRecon    \* a reconnector was started for a removed host
ctlLate    == cs.ctlLate     \* control connection attempts of the running reconnect started although the cluster was shut down

-----------------------------------------------------------------------------
(* Tasks and scheduler entries: one record shape for all of them. *)
T(k, s, h, kind, f1, f2, n) == [k |-> k, s |-> s, h |-> h, kind |-> kind, f1 |-> f1, f2 |-> f2, n |-> n]
NoT               == T("none", 0, 0, "", FALSE, FALSE, 0)
TOnDown(h, a, e)  == T("OnDown", 0, h, "", a, e, 0)          \* Cluster.on_down(host, is_host_addition=a, expect_host_to_be_down=e)
TAddPool(s, h, kind, n) == T("AddPool", s, h, kind, FALSE, FALSE, n)   \* run_add_or_renew_pool; kind: up, add (done-callbacks), upd, init
TPoolShut(s, h, o, u)   == T("PoolShut", s, h, "", o, u, 0)  \* pool.shutdown of a pool popped from _pools; o = still open, u = then update_created_pools
TRecon(h, att, c, a)    == T("Recon", 0, h, IF att THEN "att" ELSE "det", c, a, 0)   \* handler.run; att = it is the host's handler; c = cancelled; a = is_host_addition
TReconConn(h, att, c, a) == T("ReconConn", 0, h, IF att THEN "att" ELSE "det", c, a, 0)  \* the connection attempt of handler.run is in flight
TOnUp(h)          == T("OnUp", 0, h, "", FALSE, FALSE, 0)    \* Cluster.on_up(host) scheduled by a status event
TRemoveHost(h)    == T("RemoveHost", 0, h, "", FALSE, FALSE, 0)
TRefreshIf        == T("RefreshIf", 0, 0, "", FALSE, FALSE, 0)   \* _refresh_nodes_if_not_up(None)
TCtlReconnect     == T("CtlReconnect", 0, 0, "", FALSE, FALSE, 0)
TCtlSet           == T("CtlSet", 0, 0, "", FALSE, FALSE, 0)      \* second half of _reconnect: _set_new_connection(conn)
TCtlDial(h)       == T("CtlDial", 0, h, "", FALSE, FALSE, 0)     \* _reconnect_internal: the connection attempt to host h is in flight
TOnUpCont(h, n, r) == T("OnUpCont", 0, h, "", r, FALSE, n)       \* rest of Cluster.on_up from its second add_or_renew_pool on (FineUp);
                                                                 \* r = called by a reconnector, whose probe connection is still open

EmptyBag == <<>>
BagAdd(b, t) == IF t \in DOMAIN b THEN [b EXCEPT ![t] = @ + 1] ELSE b @@ (t :> 1)
BagDel(b, t) == IF b[t] > 1 THEN [b EXCEPT ![t] = @ - 1] ELSE [x \in DOMAIN b \ {t} |-> b[x]]
BagSum(b, S) == LET it[X \in SUBSET S] == IF X = {} THEN 0 ELSE LET x == CHOOSE y \in X : TRUE IN b[x] + it[X \ {x}] IN it[S]
BagMap(b, F(_)) == [k \in {F(t) : t \in DOMAIN b} |-> BagSum(b, {t \in DOMAIN b : F(t) = k})]
BagCount(b, P(_)) == BagSum(b, {t \in DOMAIN b : P(t)})

Min(S) == CHOOSE x \in S : \A y \in S : x <= y
Max(S) == CHOOSE x \in S : \A y \in S : x >= y
(* st after Op(st, x) for every x of S in increasing order *)
Fold(Op(_, _), st, S) == LET it[X \in SUBSET S] == IF X = {} THEN st ELSE Op(it[X \ {Max(X)}], Max(X)) IN it[S]

ClusterShut == phase >= 1       \* Cluster.is_shutdown; also scheduler.is_shutdown and ControlConnection._is_shutdown
SessShut    == phase >= 2       \* Session.is_shutdown of every session
ExecShut    == phase >= 3

-----------------------------------------------------------------------------
(* The code paths below take and return such a record, so that they compose the way the methods call each other. *)
Cur == [cs EXCEPT !.emL = <<>>, !.emP = <<>>, !.emC = 0]
Commit(x) == cs' = x

Submit(st, t) == IF ExecShut THEN st ELSE [st EXCEPT !.exec = BagAdd(@, t)]     \* executor.submit (raises once shut down; callers log / drop)

(* Host.set_down / set_up with the history variables *)
SetDown(st, h) == IF st.up[h] = "T"
                  THEN [st EXCEPT !.up[h] = "F", !.wentDown[h] = TRUE, !.lsnUp[h] = 0, !.lsnAdd[h] = 0]
                  ELSE [st EXCEPT !.up[h] = "F"]
SetUp(st, h) == [st EXCEPT !.up[h] = "T"]

LbpEmit(st, kind, h) ==
    LET s1 == [st EXCEPT !.emP = Append(@, <<kind, Ep(h)>>)] IN
    CASE kind = "up"     -> [s1 EXCEPT !.lbpLive = @ \cup {Ep(h)}, !.lbpUp[h] = @ + 1]
      [] kind = "add"    -> [s1 EXCEPT !.lbpLive = @ \cup {Ep(h)}]
      [] kind = "down"   -> [s1 EXCEPT !.lbpLive = @ \ {Ep(h)}, !.lbpUp[h] = 0]
      [] kind = "remove" -> [s1 EXCEPT !.lbpLive = @ \ {Ep(h)}, !.lbpUp[h] = 0]
LsnEmit(st, kind, h) ==
    LET s1 == [st EXCEPT !.emL = Append(@, <<kind, Ep(h)>>)] IN
    CASE kind = "up"  -> [s1 EXCEPT !.lsnUp[h] = @ + 1]
      [] kind = "add" -> [s1 EXCEPT !.lsnAdd[h] = @ + 1]
      [] OTHER        -> s1

(* Distance.  Hosts in Ignored are IGNORED whatever happens.  Hosts in Remote are at a distance that depends on what the *)
(* policy knows: DCAwareRoundRobinPolicy(used_hosts_per_remote_dc > 0) answers REMOTE for a remote host it has in its live *)
(* set and IGNORED for one it has been told is down (or has not been told about yet).  Every place of the code that asks   *)
(* profile_manager.distance(host) is evaluated on the state at that point.                                                 *)
Remote == IF "remote" \in Env THEN {h \in Hosts : h >= 3} ELSE {}
Ign(st, h) == Ep(h) \in Ignored \/ (Ep(h) \in Remote /\ Ep(h) \notin st.lbpLive)

(* Session.add_or_renew_pool: no future for an ignored host or a session that is shut down *)
HasFuture(h) == Ep(h) \notin Ignored /\ ~SessShut                  \* for a host the policies have just been told is up / added
HasFutureS(st, h) == ~Ign(st, h) /\ ~SessShut
SessAdd(st, s, h, kind, n) == IF HasFutureS(st, h) THEN Submit(st, TAddPool(s, h, kind, n)) ELSE st

(* Session.remove_pool: pop, submit pool.shutdown (upd: Session.on_down adds update_created_pools as done-callback) *)
RemovePool(st, s, h, upd) ==
    LET p == st.pools[s][Ep(h)] IN
    IF p = "none" THEN st
    ELSE LET s1 == [st EXCEPT !.pools[s][Ep(h)] = "none"] IN
         IF SessShut THEN (IF p = "open" THEN [s1 EXCEPT !.leaked = @ + 1] ELSE s1)    \* Session.submit returns None
         ELSE Submit(s1, TPoolShut(s, Ep(h), p = "open", upd))

(* Session.update_created_pools *)
UpdPools(st, s) ==
    Fold(LAMBDA x, h : IF ~x.known[h] THEN x
                       ELSE IF x.pools[s][Ep(h)] \in {"none", "shut"}
                       THEN (IF ~Ign(x, h) /\ x.up[h] \in {"T", "N"} THEN SessAdd(x, s, h, "upd", 0) ELSE x)
                       ELSE IF Ign(x, h) THEN RemovePool(x, s, h, FALSE)      \* distance != pool.host_distance and now IGNORED
                       ELSE x,
         st, Objs)
UpdAllPools(st) == Fold(LAMBDA x, s : UpdPools(x, s), st, Sessions)

(* get_and_set_reconnection_handler(None) [+ cancel]: the entries of the host's handler follow it *)
IsRecon(t) == t.k \in {"Recon", "ReconConn"}
DetachT(t, h, cancel) == IF IsRecon(t) /\ t.h = h /\ t.kind = "att"
                         THEN [t EXCEPT !.kind = "det", !.f1 = (@ \/ cancel)] ELSE t
HasAtt(b, h) == \E t \in DOMAIN b : IsRecon(t) /\ t.h = h /\ t.kind = "att"
Detach(st, h, cancel) ==
    [st EXCEPT !.recon[h] = "none",
               !.sched = IF HasAtt(@, h) THEN BagMap(@, LAMBDA t : DetachT(t, h, cancel)) ELSE @,
               !.exec = IF HasAtt(@, h) THEN BagMap(@, LAMBDA t : DetachT(t, h, cancel)) ELSE @]

(* Cluster._start_reconnector *)
StartRecon(st, h, add) ==
    IF Ign(st, h) THEN st
    ELSE IF "D4_recon_removed" \in Fixed /\ st.removed[h] THEN st    \* repaired: no reconnector for a host that left the metadata
    ELSE LET s1 == Detach(st, h, TRUE) IN                       \* the old handler, if any, is cancelled
         [s1 EXCEPT !.recon[h] = "live",
                    !.sched = IF ClusterShut THEN @ ELSE BagAdd(@, TRecon(h, TRUE, FALSE, add)),   \* scheduler drops entries once shut down
                    !.badRecon = @ \/ st.removed[h]]

(* Cluster.on_down is @run_in_executor *)
SubmitOnDown(st, h, add, exp) == IF ClusterShut THEN st ELSE Submit(st, TOnDown(h, add, exp))

NewN(st, h, kind) == Min({n \in 0..3 : <<h, kind, n>> \notin DOMAIN st.grp})

(* Cluster.on_up *)
OnUpE(st, h) ==
    IF ClusterShut \/ st.handling[h] \/ st.up[h] = "T" THEN st
    ELSE LET s1 == Detach([st EXCEPT !.handling[h] = TRUE], h, TRUE)
             s2 == Fold(LAMBDA x, s : RemovePool(x, s, h, FALSE), s1, Sessions)
             s3 == LbpEmit(s2, "up", h)
             n  == NewN(s3, h, "up")
             s4 == Fold(LAMBDA x, s : SessAdd(x, s, h, "up", n), s3, Sessions)
         IN IF HasFuture(h)
            THEN [s4 EXCEPT !.grp = @ @@ (<<h, "up", n>> :> [left |-> Sessions, ok |-> TRUE, open |-> FALSE])]
            ELSE [SetUp(s4, h) EXCEPT !.handling[h] = FALSE]            \* no future: marked up without telling listeners

(* FineUp: on_up up to the point where its loop is about to call add_or_renew_pool for the second session.  The first *)
(* future is submitted, has its done-callback and is in `futures`; the group stays open until the rest has run.       *)
Fine(h) == FineUp /\ Cardinality(Sessions) = 2 /\ HasFuture(h)
OnUpProceeds(st, h) == ~(ClusterShut \/ st.handling[h] \/ st.up[h] = "T")
OnUpFineE(st, h, rec) ==
    LET s1 == Detach([st EXCEPT !.handling[h] = TRUE], h, TRUE)
        s2 == Fold(LAMBDA x, s : RemovePool(x, s, h, FALSE), s1, Sessions)
        s3 == LbpEmit(s2, "up", h)
        n  == NewN(s3, h, "up")
        s4 == SessAdd(s3, Min(Sessions), h, "up", n)
    IN [s4 EXCEPT !.grp = @ @@ (<<h, "up", n>> :> [left |-> {Min(Sessions)}, ok |-> TRUE, open |-> TRUE]),
                  !.exec = BagAdd(@, TOnUpCont(h, n, rec))]

(* Cluster._finalize_add *)
FinalizeAdd(st, h, setUp) == UpdAllPools(LsnEmit(IF setUp THEN SetUp(st, h) ELSE st, "add", h))

(* Cluster.on_add after the load-balancing policies and the control connection were told; ign = the distance on_add read *)
(* first of all, before the policies heard of the host                                                                   *)
OnAddTailD(st, h, ign) ==
    IF ign THEN FinalizeAdd(st, h, FALSE)
    ELSE LET n  == NewN(st, h, "add")
             s2 == Fold(LAMBDA x, s : SessAdd(x, s, h, "add", n), st, Sessions)
         IN IF HasFuture(h)
            THEN [s2 EXCEPT !.grp = @ @@ (<<h, "add", n>> :> [left |-> Sessions, ok |-> TRUE, open |-> FALSE])]
            ELSE FinalizeAdd(s2, h, TRUE)
OnAddTail(st, h) == OnAddTailD(st, h, h \in Ignored)
(* Cluster.on_add(host, refresh_nodes=False), as called for a host found by a node-list refresh *)
OnAddE(st, h) == IF ClusterShut THEN st ELSE OnAddTailD(LbpEmit(st, "add", h), h, Ign(st, h))

(* Cluster.remove_host + on_remove, without the node-list refresh ControlConnection.on_remove does *)
OnRemoveE(st, h) ==
    IF ~st.known[h] THEN st
    ELSE LET s0 == [st EXCEPT !.known[h] = FALSE, !.removed[h] = TRUE] IN
         IF ClusterShut THEN s0
         ELSE LET s1 == LbpEmit(SetDown(s0, h), "remove", h)
                  s2 == Fold(LAMBDA x, s : RemovePool(x, s, h, TRUE), s1, Sessions)
                  s3 == LsnEmit(s2, "remove", h)
              IN Detach(s3, h, TRUE)

(* the Host object the metadata holds for endpoint e (0: none); the object a new Host for endpoint e would be (0: not modelled) *)
KnownObj(st, e) == IF \E o \in Objs : Ep(o) = e /\ st.known[o] THEN CHOOSE o \in Objs : Ep(o) = e /\ st.known[o] ELSE 0
FreshObj(st, e) == IF ~st.known[e] /\ ~st.removed[e] THEN e
                   ELSE IF e + 10 \in Objs /\ ~st.known[e + 10] /\ ~st.removed[e + 10] THEN e + 10 ELSE 0
(* ControlConnection._refresh_node_list_and_token_map against what the control node reports *)
DoRefresh(st) ==
    LET adds == {FreshObj(st, h) : h \in {e \in peers : KnownObj(st, e) = 0 /\ FreshObj(st, e) # 0}}
        s1 == Fold(LAMBDA x, h : OnAddE([x EXCEPT !.known[h] = TRUE, !.up[h] = "N"], h), st, adds)
        rems == {h \in Objs : s1.known[h] /\ Ep(h) \notin peers}
        \* ControlConnection.on_remove refreshes again through ControlConnection._connection: nothing is left to do when
        \* that is the connection in use; while a reconnect is still installing its connection it is the defunct one
        \* and the failure is signalled (_signal_error -> on_down of the control host)
        Nested(x) == IF x.ctl = "broken" /\ ~ClusterShut THEN Submit(x, TOnDown(Ctl, FALSE, FALSE)) ELSE x
    IN Fold(LAMBDA x, h : Nested(OnRemoveE(x, h)), s1, rems)
(* ControlConnection.refresh_node_list_and_token_map: a defunct connection makes it signal the control host down *)
Refresh(st) ==
    CASE st.ctl = "open"   -> DoRefresh(st)
      [] st.ctl = "broken" -> (IF ClusterShut THEN st ELSE Submit(st, TOnDown(Ctl, FALSE, FALSE)))
      [] OTHER             -> st
(* Cluster.on_add(host) as the reconnector calls it: refresh_nodes=True *)
OnAddRefreshE(st, h) == IF ClusterShut THEN st ELSE OnAddTailD(Refresh(LbpEmit(st, "add", h)), h, Ign(st, h))

(* Cluster._cleanup_failed_on_up_handling *)
Cleanup(st, h) ==
    LET s1 == LbpEmit(st, "down", h)
        s2 == Fold(LAMBDA x, s : RemovePool(x, s, h, FALSE), s1, Sessions)
    IN StartRecon(s2, h, FALSE)

(* Cluster._on_up_future_completed once the last future is in: the group is complete (or looks complete) *)
OnUpFinish(st, h, ok) ==
    IF ok THEN UpdAllPools([LsnEmit(SetUp(st, h), "up", h) EXCEPT !.handling[h] = FALSE])
    ELSE [Cleanup(st, h) EXCEPT !.handling[h] = FALSE]

(* done-callback of an add_or_renew_pool future *)
PoolDone(st, t, result) ==
    IF t.kind \notin {"up", "add"} THEN st
    ELSE LET key == <<t.h, t.kind, t.n>>
             g == st.grp[key]
             left == g.left \ {t.s}
             ok == g.ok /\ result
             upd == [st EXCEPT !.grp[key] = [left |-> left, ok |-> ok, open |-> g.open]]
         IN IF left # {} THEN upd
            ELSE IF g.open                                   \* on_up has not yet asked for the second session's pool
                 THEN IF "D5_up_loop" \in Fixed THEN upd     \* repaired: callbacks are attached once `futures` is complete
                      ELSE OnUpFinish(upd, t.h, ok)          \* `futures` is empty: handled as if every pool were there
            ELSE LET s1 == [st EXCEPT !.grp = [x \in DOMAIN @ \ {key} |-> @[x]]] IN
                 IF t.kind = "up" THEN OnUpFinish(s1, t.h, ok)
                 ELSE IF ok THEN FinalizeAdd(s1, t.h, TRUE) ELSE s1            \* on_add only logs a failure

(* FineUp: the rest of on_up: second add_or_renew_pool, end of the loop [, rest of _ReconnectionHandler.run] *)
RunOnUpCont(st, t) ==
    LET h == t.h
        key == <<h, "up", t.n>>
        g == st.grp[key]
        s1 == SessAdd(st, Max(Sessions), h, "up", t.n)
        left == IF HasFuture(h) THEN g.left \cup {Max(Sessions)} ELSE g.left
        drop(x) == [x EXCEPT !.grp = [y \in DOMAIN @ \ {key} |-> @[y]]]
        s2 == IF left # {} THEN [s1 EXCEPT !.grp[key] = [left |-> left, ok |-> g.ok, open |-> FALSE]]
              ELSE IF "D5_up_loop" \in Fixed THEN OnUpFinish(drop(s1), h, g.ok)      \* the only future was done already
              ELSE drop(s1)                                                          \* ... and has been handled
    IN IF t.f1 THEN Detach(s2, h, FALSE) ELSE s2

Opened(st) == [st EXCEPT !.emC = @ + 1]

(* run_add_or_renew_pool *)
RunAddPool(st, t) ==
    LET s == t.s
        h == t.h
        m == IF h = Ctl THEN "ok" ELSE mode[Ep(h)]
        add == t.kind = "add"
    IN CASE m = "ok" ->
               IF h # Ctl /\ st.removed[h] /\ "D7_stale_pool" \in Fixed
               THEN PoolDone(Opened(st), t, FALSE)                           \* repaired: no pool for a Host object that left the metadata
               ELSE IF SessShut /\ "D1_late_pool" \in Fixed
               THEN PoolDone(Opened(st), t, FALSE)                           \* repaired: the new pool is shut down at once
               ELSE PoolDone([Opened(st) EXCEPT !.pools[s][Ep(h)] = "open", !.powner[s][Ep(h)] = h], t, TRUE)   \* a previous pool is shut down inline
         [] m = "refuse" -> PoolDone(SubmitOnDown(st, h, add, TRUE), t, FALSE)
         [] m = "drop"   -> PoolDone(SubmitOnDown(Opened(st), h, add, TRUE), t, FALSE)       \* accepted, closed during the handshake
         [] m = "auth"   -> PoolDone(SubmitOnDown([Opened(st) EXCEPT !.authFailed[h] = TRUE], h, add, FALSE), t, FALSE)

(* Cluster.on_down (the executor task) *)
RunOnDown(st, t) ==
    LET h == t.h
        connected == h = Ctl \/ (~Ign(st, h) /\ \E s \in Sessions : st.pools[s][Ep(h)] = "open")   \* the control host keeps its pools
    IN
    IF ClusterShut THEN st
    ELSE IF connected                                                                  \* _discount_down_events: the host stays up
         THEN (IF "D2_discount_pool" \in Fixed THEN UpdAllPools(st) ELSE st)          \* repaired: sessions that lost their pool get a new one
    ELSE LET wasUp == IF "D6_unknown_down" \in Fixed THEN st.up[h] # "F"      \* repaired: only a host already marked down is skipped
                      ELSE st.up[h] = "T"                                     \* `not was_up`: None (never marked up, e.g. a remote host
                                                                              \* added while still IGNORED, which has pools) counts as down
             s1 == SetDown(st, h)
         IN IF (~wasUp /\ ~t.f2) \/ st.recon[h] # "none" THEN s1
            ELSE LET s2 == LbpEmit(s1, "down", h)
                     s3 == Fold(LAMBDA x, s : RemovePool(x, s, h, TRUE), s2, Sessions)
                     s4 == LsnEmit(s3, "down", h)
                 IN StartRecon(s4, h, t.f1)

(* HostConnection.shutdown of a popped pool [+ Session.on_down's done-callback] *)
RunPoolShut(st, t) == IF t.f2 THEN UpdPools(st, t.s) ELSE st

(* _ReconnectionHandler.run, first part: a cancelled handler does nothing, otherwise try_reconnect() starts the        *)
(* connection attempt.  The attempt takes time (TCP connect, handshake): whatever cancels the handler meanwhile        *)
(* (on_remove, an on_up from a status event, a replacing _start_reconnector) finds the attempt still in flight.        *)
RunRecon(st, t) ==
    IF t.f1 THEN st
    ELSE [st EXCEPT !.exec = BagAdd(@, [t EXCEPT !.k = "ReconConn"])]

(* _ReconnectionHandler.run, second part: the attempt has its result *)
RunReconConn(st, t) ==
    LET h == t.h
        again == [t EXCEPT !.k = "Recon"]
    IN CASE mode[Ep(h)] = "refuse" -> IF ClusterShut THEN st ELSE [st EXCEPT !.sched = BagAdd(@, again)]    \* next attempt (run() starts with the cancelled check)
         [] mode[Ep(h)] = "drop"   -> IF ClusterShut THEN Opened(st) ELSE [Opened(st) EXCEPT !.sched = BagAdd(@, again)]
         [] mode[Ep(h)] = "auth"   -> [Opened(st) EXCEPT !.authFailed[h] = TRUE]    \* gives up; stays the host's handler
         [] mode[Ep(h)] = "ok"     ->
              IF t.f1 THEN Opened(st)                                         \* cancelled while connecting: `if not self._cancelled` - the connection is just closed
              ELSE IF ~t.f2 /\ Fine(h) /\ OnUpProceeds(Opened(st), h) THEN OnUpFineE(Opened(st), h, TRUE)
              ELSE LET s1 == IF t.f2 THEN OnAddRefreshE(Opened(st), h) ELSE OnUpE(Opened(st), h)
                   IN Detach(s1, h, FALSE)                                    \* callback: get_and_set_reconnection_handler(None), no cancel

(* ControlConnection._reconnect -> _reconnect_internal: the hosts of the policy's query plan are tried in turn.  The plan *)
(* (taken once) is the live hosts: the contact point first, or - flag "ctlscan" - the subject hosts first and the contact    *)
(* point last.  Only the contact point serves a control connection here: an attempt on a subject host ends with an error    *)
(* whatever the node's mode (its system.local query fails), with a ConnectionException when the node drops the handshake.   *)
CtlNext(plan) == IF "ctlscan" \in Env /\ plan \cap Hosts # {} THEN Min(plan \cap Hosts) ELSE Ctl
CtlDialStart(st, plan) ==                      \* _try_connect(host): connection_factory(...) called, the attempt is in flight
    LET h == CtlNext(plan) IN
    [st EXCEPT !.exec = BagAdd(@, TCtlDial(h)), !.ctlPlan = plan \ {h},
               !.ctlLate = IF ClusterShut THEN @ + 1 ELSE @]
RunCtlReconnect(st) ==
    CtlDialStart([st EXCEPT !.ctlLate = 0], IF "ctlscan" \in Env THEN st.lbpLive ELSE {Ctl})
(* the attempt to host h has its result *)
RunCtlDial(st, t) ==
    LET h == t.h
        stop == [st EXCEPT !.ctlPlan = {}]
    IN IF h = Ctl
       THEN IF ClusterShut THEN Opened(stop)                           \* _try_connect: `if self._is_shutdown: connection.close(); raise`
            ELSE Submit(DoRefresh([Opened(stop) EXCEPT !.ctlPend = TRUE]), TCtlSet)    \* registers, refreshes with the new connection
       ELSE LET s1 == CASE mode[h] = "refuse" -> st                     \* socket error: not a ConnectionException
                        [] mode[h] = "drop"   -> SubmitOnDown(Opened(st), IF KnownObj(st, h) # 0 THEN KnownObj(st, h) ELSE h, FALSE, FALSE)    \* ConnectionException: signal_connection_failure
                        [] OTHER              -> Opened(st)             \* connected (or authentication failed), closed again: some other error
            IN IF ClusterShut THEN [s1 EXCEPT !.ctlPlan = {}]           \* `if self._is_shutdown: raise DriverException` after every failed attempt
               ELSE CtlDialStart(s1, st.ctlPlan)                        \* next host of the plan (the contact point is always left)
(* ... second half: _set_new_connection(conn) *)
RunCtlSet(st) ==
    IF ClusterShut /\ "D3_ctl_after_shutdown" \in Fixed
    THEN [st EXCEPT !.ctlPend = FALSE]                               \* repaired: closed instead of installed
    ELSE [st EXCEPT !.ctlPend = FALSE, !.ctl = "open"]

RunTask(st, t) ==
    CASE t.k = "OnDown"       -> RunOnDown(st, t)
      [] t.k = "AddPool"      -> RunAddPool(st, t)
      [] t.k = "PoolShut"     -> RunPoolShut(st, t)
      [] t.k = "Recon"        -> RunRecon(st, t)
      [] t.k = "ReconConn"    -> RunReconConn(st, t)
      [] t.k = "OnUp"         -> IF Fine(t.h) /\ OnUpProceeds(st, t.h) THEN OnUpFineE(st, t.h, FALSE) ELSE OnUpE(st, t.h)
      [] t.k = "OnUpCont"     -> RunOnUpCont(st, t)
      [] t.k = "RemoveHost"   -> IF st.known[t.h] /\ ~ClusterShut THEN Refresh(OnRemoveE(st, t.h))   \* ControlConnection.on_remove refreshes
                                 ELSE OnRemoveE(st, t.h)
      [] t.k = "RefreshIf"    -> Refresh(st)
      [] t.k = "CtlReconnect" -> RunCtlReconnect(st)
      [] t.k = "CtlSet"       -> RunCtlSet(st)
      [] t.k = "CtlDial"      -> RunCtlDial(st, t)

-----------------------------------------------------------------------------
A(name, t, s, h, x) == [name |-> name, t |-> t, s |-> s, h |-> h, x |-> x]

InitPools == [s \in Sessions |-> [h \in AllHosts |->
                 IF h = Ctl \/ (h \in Known0 \ Ignored /\ s # Max(Sessions)) THEN "open" ELSE "none"]]
InitExec == LET S == {TAddPool(Max(Sessions), h, "init", 0) : h \in Known0 \ Ignored} IN [t \in S |-> 1]

(* The state right after cluster.connect() returned for every session with a queueing executor: the last session *)
(* has its first pool, the others are still initial-connect futures.                                              *)
Init ==
    /\ cs = [known |-> [h \in Objs |-> h \in Known0],
             removed |-> [h \in Objs |-> FALSE],
             up |-> [h \in Objs |-> IF h \in Known0 \ (Ignored \cup Remote) THEN "T" ELSE "N"],   \* on_add of a host still IGNORED does not set_up
             handling |-> [h \in Objs |-> FALSE],
             recon |-> [h \in Objs |-> "none"],
             pools |-> InitPools,
             powner |-> [s \in Sessions |-> [h \in AllHosts |-> h]],     \* the Host object each session's pool was created for
             grp |-> <<>>,
             exec |-> InitExec,
             sched |-> EmptyBag,
             lbpLive |-> Known0 \cup {Ctl},
             ctl |-> "open", ctlPend |-> FALSE, leaked |-> 0,
             emL |-> <<>>, emP |-> <<>>, emC |-> 0, ctlPlan |-> {}, ctlLate |-> 0,
             lsnUp |-> [h \in Objs |-> 0], lsnAdd |-> [h \in Objs |-> 0], lbpUp |-> [h \in Objs |-> 0],
             authFailed |-> [h \in Objs |-> FALSE], wentDown |-> [h \in Objs |-> FALSE], badRecon |-> FALSE]
    /\ mode = [h \in Hosts |-> "ok"]
    /\ peers = Known0
    /\ budget = 0
    /\ phase = 0
    /\ req = [s \in Sessions |-> "none"]
    /\ act = A("Init", NoT, 0, 0, "")

(* a worker thread runs one queued task *)
Exec(t) ==
    /\ t \in DOMAIN exec
    /\ Commit(RunTask([Cur EXCEPT !.exec = BagDel(exec, t)], t))
    /\ act' = A("Exec", t, 0, 0, "")
    /\ UNCHANGED <<mode, peers, budget, phase, req>>

(* the scheduler thread hands a due entry to the executor *)
Fire(e) ==
    /\ e \in DOMAIN sched
    /\ ~ClusterShut
    /\ Commit(Submit([Cur EXCEPT !.sched = BagDel(sched, e)], e))
    /\ act' = A("Fire", e, 0, 0, "")
    /\ UNCHANGED <<mode, peers, budget, phase, req>>

Event == phase = 0 /\ budget < MaxEvents /\ budget' = budget + 1

(* a pool connection breaks and the pool notices (heartbeat: owner.return_connection(connection)):             *)
(* HostConnection.return_connection -> signal_connection_failure -> convicted -> on_down submitted, pool shut *)
ConnFailure(s, h) ==
    /\ "fail" \in Env /\ Event
    /\ pools[s][h] = "open"
    /\ Commit(SubmitOnDown([Cur EXCEPT !.pools[s][h] = "shut"], cs.powner[s][h], FALSE, FALSE))       \* pool.host: the object the pool was made for
    /\ act' = A("ConnFailure", NoT, s, h, "")
    /\ UNCHANGED <<mode, peers, phase, req>>

(* STATUS_CHANGE pushed on the control connection: ControlConnection._handle_status_change *)
StatusEvent(h, x) ==
    /\ "status" \in Env /\ Event
    /\ ctl = "open" /\ KnownObj(cs, h) # 0                          \* metadata.get_host(address): the object in the metadata
    /\ LET o == KnownObj(cs, h) IN
       IF x = "UP"
       THEN Commit(IF TOnUp(o) \in DOMAIN sched THEN Cur ELSE [Cur EXCEPT !.sched = BagAdd(@, TOnUp(o))])    \* schedule_unique
       ELSE Commit(SubmitOnDown(Cur, o, FALSE, FALSE))
    /\ act' = A("StatusEvent", NoT, 0, h, x)
    /\ UNCHANGED <<mode, peers, phase, req>>

(* TOPOLOGY_CHANGE pushed on the control connection: ControlConnection._handle_topology_change *)
TopologyEvent(h, x) ==
    /\ "topo" \in Env /\ Event
    /\ ctl = "open"
    /\ IF x = "NEW_NODE"
       THEN /\ h \notin peers /\ KnownObj(cs, h) = 0 /\ FreshObj(cs, h) # 0
            /\ ~\E t \in DOMAIN sched \cup DOMAIN exec : t.k = "RemoveHost" /\ Ep(t.h) = h     \* the node comes back after its removal was handled
            /\ peers' = peers \cup {h}
            /\ Commit(IF TRefreshIf \in DOMAIN sched THEN Cur ELSE [Cur EXCEPT !.sched = BagAdd(@, TRefreshIf)])
       ELSE /\ h \in peers /\ KnownObj(cs, h) # 0
            /\ peers' = peers \ {h}
            /\ LET o == KnownObj(cs, h) IN
               Commit(IF TRemoveHost(o) \in DOMAIN sched THEN Cur ELSE [Cur EXCEPT !.sched = BagAdd(@, TRemoveHost(o))])
    /\ act' = A("TopologyEvent", NoT, 0, h, x)
    /\ UNCHANGED <<mode, phase, req>>

(* the node starts refusing / accepting / demanding credentials for new connections *)
SetMode(h, m) ==
    /\ Event
    /\ m # mode[h]
    /\ m \in {"ok"} \cup (IF "mode" \in Env THEN {"refuse"} ELSE {}) \cup (IF "auth" \in Env THEN {"auth"} ELSE {})
              \cup (IF "drop" \in Env THEN {"drop"} ELSE {})
    /\ mode' = [mode EXCEPT ![h] = m]
    /\ Commit(Cur)
    /\ act' = A("SetMode", NoT, 0, h, m)
    /\ UNCHANGED <<peers, phase, req>>

(* the control connection breaks and the heartbeat hands it back: ControlConnection.return_connection -> reconnect *)
CtlFail ==
    /\ "ctl" \in Env /\ Event
    /\ ctl = "open" /\ ~ctlPend
    /\ Commit(Submit([Cur EXCEPT !.ctl = "broken"], TCtlReconnect))
    /\ act' = A("CtlFail", NoT, 0, 0, "")
    /\ UNCHANGED <<mode, peers, phase, req>>

(* Cluster.shutdown, always possible, in the three stretches between which worker threads get to run *)
ShutdownA ==                      \* is_shutdown, scheduler.shutdown(), control_connection.shutdown()
    /\ phase = 0
    /\ phase' = 1
    /\ Commit([Cur EXCEPT !.ctl = "closed"])                        \* a connection still being installed is not the one closed
    /\ act' = A("ShutdownA", NoT, 0, 0, "")
    /\ UNCHANGED <<mode, peers, budget, req>>
ShutdownS ==                      \* session.shutdown() for every session: initial futures cancelled, pools shut
    /\ phase = 1
    /\ phase' = 2
    /\ Commit([Cur EXCEPT !.exec = [t \in {x \in DOMAIN @ : ~(x.k = "AddPool" /\ x.kind = "init")} |-> @[t]],
                          !.pools = [s \in Sessions |-> [h \in AllHosts |-> IF @[s][h] = "open" THEN "shut" ELSE @[s][h]]]])
    /\ act' = A("ShutdownS", NoT, 0, 0, "")
    /\ UNCHANGED <<mode, peers, budget, req>>
ShutdownE ==                      \* executor.shutdown(): what is queued still runs, nothing new is accepted
    /\ phase = 2
    /\ phase' = 3
    /\ Commit(Cur)
    /\ act' = A("ShutdownE", NoT, 0, 0, "")
    /\ UNCHANGED <<mode, peers, budget, req>>

Returned == phase = 3 /\ exec = EmptyBag            \* Cluster.shutdown() has returned

(* session.execute_async after shutdown() returned *)
Request(s) ==
    /\ Returned /\ req[s] = "none"
    /\ req' = [req EXCEPT ![s] = IF \E h \in lbpLive : pools[s][h] = "open" THEN "pending" ELSE "refused"]
    /\ Commit(Cur)
    /\ act' = A("Request", NoT, s, 0, "")
    /\ UNCHANGED <<mode, peers, budget, phase>>

ExecAny == \E t \in DOMAIN exec : Exec(t)
FireAny == \E e \in DOMAIN sched : Fire(e)

Next ==
    \/ ExecAny
    \/ FireAny
    \/ \E s \in Sessions, h \in Hosts : ConnFailure(s, h)
    \/ \E h \in Hosts, x \in {"UP", "DOWN"} : StatusEvent(h, x)
    \/ \E h \in Hosts, x \in {"NEW_NODE", "REMOVED_NODE"} : TopologyEvent(h, x)
    \/ \E h \in Hosts, m \in {"ok", "refuse", "auth", "drop"} : SetMode(h, m)
    \/ CtlFail
    \/ ShutdownA \/ ShutdownS \/ ShutdownE
    \/ \E s \in Sessions : Request(s)

Spec == Init /\ [][Next]_vars

-----------------------------------------------------------------------------
NOpenOf(c, cp, lk, pl, ex) ==
    (IF c = "open" THEN 1 ELSE 0) + (IF cp THEN 1 ELSE 0) + lk
    + Cardinality({<<s, h>> \in Sessions \X AllHosts : pl[s][h] = "open"})
    + BagCount(ex, LAMBDA t : (t.k = "PoolShut" /\ t.f1) \/ (t.k = "OnUpCont" /\ t.f1))
NOpen == NOpenOf(ctl, ctlPend, leaked, pools, exec)       \* connections open right now

TypeOK ==
    /\ \A h \in Objs : up[h] \in {"T", "F", "N"} /\ recon[h] \in {"none", "live", "canc"}
    /\ \A s \in Sessions, h \in AllHosts : pools[s][h] \in {"none", "open", "shut"}
    /\ phase \in 0..3 /\ budget \in 0..MaxEvents /\ leaked \in 0..8

(* ---- C25 ---- *)
LiveRecons(h) == BagCount(sched, LAMBDA t : IsRecon(t) /\ t.h = h /\ ~t.f1)
                 + BagCount(exec, LAMBDA t : IsRecon(t) /\ t.h = h /\ ~t.f1)
(* executor drained and nothing due in the scheduler (reconnection attempts are the only delayed entries) *)
Quiescent == phase = 0 /\ exec = EmptyBag /\ \A e \in DOMAIN sched : e.k = "Recon"
Subject(h) == h \in Objs /\ ~Ign(cs, h) /\ known[h] /\ ~authFailed[h]

OneReconnector ==
    Quiescent => \A h \in Objs : (Subject(h) /\ up[h] = "F") => (recon[h] = "live" /\ LiveRecons(h) = 1)
NoStrayReconnector ==
    Quiescent => \A h \in Objs : Subject(h) => LiveRecons(h) <= 1
RemovedNotReconnected ==
    phase = 0 => /\ ~badRecon
                 /\ \A h \in Objs : removed[h] => (recon[h] = "none" /\ LiveRecons(h) = 0)
NotifiedOnce == \A h \in Objs : lsnUp[h] <= 1 /\ lsnAdd[h] <= 1 /\ lbpUp[h] <= 1
UpNotified ==
    phase = 0 => \A h \in Objs : (Subject(h) /\ up[h] = "T" /\ wentDown[h]) => lsnUp[h] + lsnAdd[h] >= 1
UpHasPools ==
    Quiescent => \A h \in Objs : (Subject(h) /\ up[h] = "T") => \A s \in Sessions : pools[s][Ep(h)] = "open"

(* ---- C45 ---- *)
(* a control connection reconnect that finds the cluster shut down gives up: it does not go on to the next host of the plan *)
CtlStopsDialling == ctlLate <= 1
AllClosed == Returned => NOpen = 0
Refused == \A s \in Sessions : req[s] # "pending"

\* vacuity witnesses (each must be violated = reachable)
Witness_Reconnected == ~(\E h \in Hosts : wentDown[h] /\ up[h] = "T" /\ lsnUp[h] = 1)
Witness_ReconRetry == ~(act.name = "Exec" /\ act.t.k = "ReconConn" /\ ~act.t.f1 /\ LiveRecons(act.t.h) = 1 /\ mode[act.t.h] = "refuse")
Witness_ShutdownWithWork == ~(phase = 3 /\ exec # EmptyBag)
Witness_CancelledInFlight == ~(act.name = "Exec" /\ act.t.k = "ReconConn" /\ act.t.f1 /\ mode[act.t.h] = "ok")
Witness_CtlDialFailsAfterShutdown == ~(act.name = "Exec" /\ act.t.k = "CtlDial" /\ act.t.h # Ctl /\ phase >= 1 /\ mode[act.t.h] = "drop")
Witness_ShutdownMidUp == ~(phase = 1 /\ \E h \in Hosts : handling[h])
=============================================================================
