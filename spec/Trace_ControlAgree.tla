------------------------- MODULE Trace_ControlAgree -------------------------
(* Trace validation (code -> spec) for ControlAgree.tla.  A trace is what one *)
(* call of the real wait produced on a scripted timeline of snapshots:        *)
(*   {e: "Start",  mode, cw, given, pc}   cluster-wide wait, whether a        *)
(*        per-call wait was passed, and its value                             *)
(*   {e: "Poll",   at, snap: {local, pv: [...], st: [...]}}   one per round   *)
(*        trip of the two schema-version queries, with the snapshot that was  *)
(*        current at that (virtual) instant                                   *)
(*   {e: "PollLost", at, end}   the two queries sent at `at` got no answer;   *)
(*        the request timed out at `end`                                      *)
(*   {e: "Finish", v: "yes" | "no", at}   the value wait_for_schema_agreement *)
(*        returned ("direct") / ResponseFuture.is_schema_agreed ("ddl_*")     *)
(*   {e: "Abort",  v: "n/a" | "yes" | "no", at}   an exception escaped from   *)
(*        the wait (scripted: the coordinator's connection is closed instead  *)
(*        of answering a poll); v = "n/a" when it reached the caller          *)
(*        ("direct"), else is_schema_agreed of the delivered result           *)
(* The trace is accepted iff it is a behaviour of ControlAgree: any polling   *)
(* schedule with gaps <= MaxGap is, the reported outcome must be the one (a), *)
(* (b), (c) of ControlAgree.tla allow.  KPeers \cup UPeers must be 1..N and   *)
(* KPeers 1..K (JSON arrays are sequences).                                   *)
EXTENDS ControlAgree, TraceLib

VARIABLES tid, l
tvars == <<vars, tid, l>>

Tr == Traces[tid]
SnapOf(j) == [local |-> j.local,
              pv    |-> [p \in KPeers \cup UPeers |-> j.pv[p]],
              st    |-> [p \in KPeers |-> j.st[p]]]

\* the Start event fixes the configuration: it is consumed by the initial state
TraceInit == /\ tid \in 1..NTraces
             /\ l = 2
             /\ Init
             /\ Traces[tid][1].e = "Start" /\ mode = Traces[tid][1].mode
             /\ cfg = [cw |-> Traces[tid][1].cw, given |-> Traces[tid][1].given, pc |-> Traces[tid][1].pc]

TraceNext ==
    /\ l <= Len(Tr)
    /\ l' = l + 1
    /\ UNCHANGED tid
    /\ LET e == Tr[l] IN
       \/ e.e = "Poll"   /\ Poll(SnapOf(e.snap), e.at)
       \/ e.e = "PollLost" /\ PollLost(e.at, e.end)
       \/ e.e = "Finish" /\ (Finish(e.v, e.at) \/ (e.v = "yes" /\ Skip(e.at)))   \* "went on normally": agreed, or bypassed
       \/ e.e = "Abort"  /\ Abort(e.v, e.at)

TraceSpec == TraceInit /\ [][TraceNext]_tvars

Progress == RecordProgress(tid, l)
Done == PrintProgress
=============================================================================
