"""Shared by C34 (and the self-tests of C36): TLC configurations of spec/Calendar.tla, enumeration, vacuity witnesses.

One TLC run enumerates the families of a tier, checks the property's formulas (INVARIANTS) on the specification and - with
`-continue` - the vacuity witnesses in the same run: TLC reports every invariant it finds violated and keeps exploring, so
the dump is complete; a violated INVARIANTS member is a violation of the specification itself, a witness that is NOT
violated is a vacuity failure (machinery).
"""
import os
import re

from harness import tlc
from harness.replay import wire_bind as wb

INVARIANTS = ["TypeOK", "DateRoundTrip", "DateEncoding", "DateRangeExact", "DateBlocks", "PackedIsText", "TimeRoundTrip",
              "TimeRejectJustified", "TimeLongFraction", "UuidLayout", "UuidDecode", "UuidOffset", "UuidBounds", "Uuid100Decode", "OrderSane"]
WITNESSES = {
    "date": ["Witness_LeapCentury", "Witness_NoLeapCentury", "Witness_YearOne", "Witness_Year9999", "Witness_DateOutside"],
    "time": ["Witness_LastNano", "Witness_ShortForms", "Witness_TimeNegative", "Witness_TimeString60", "Witness_TimeOpen", "Witness_LongFraction"],
    "uuid": ["Witness_TimeLowWraps", "Witness_Pre1970", "Witness_SignBitNode", "Witness_Last60"],
    "pair": ["Witness_SignedDiffers"],
    "uuid100": ["Witness_Rem"],
}
FAMILIES = ["date", "time", "uuid", "uuid100", "pair"]
ACTIONS = {"date": 2, "time": 4, "uuid": 1, "uuid100": 1, "pair": 1, "dateall": 1}      # kinds of cases per family (see kinds_seen)
JVM = {"JAVA_TOOL_OPTIONS": "-XX:TieredStopAtLevel=1 -XX:ParallelGCThreads=2 -Xms1g"}
BLOCK = 1024
FIRST_DAY, LAST_DAY = -719162, 2932896


def constants(families, rich, nseeds=16):
    return {"Families": set(families), "Rich": bool(rich), "NSeeds": nseeds, "BlockSize": BLOCK}


def enumerate_cases(ctx, families, rich, label, witnesses=True, timeout=1800):
    """-> list of case states (seeds dropped), or None after reporting a violation of the specification itself"""
    wit = [w for f in families for w in WITNESSES.get(f, ())] if witnesses else []
    cfg = tlc.write_cfg(os.path.join(ctx.scratch, "Calendar_%s.cfg" % re.sub(r"\W+", "_", label)), constants=constants(families, rich),
                        invariants=INVARIANTS + wit, deadlock=False)
    res, states = wb.enumerate_fast(tlc, "Calendar", cfg, ctx.scratch, timeout=timeout, extra=("-continue",),
                                    env=JVM if ctx.quick else None)
    ctx.add_tlc(res, label)
    violated = set(re.findall(r"Invariant (\S+) is violated", res.out))
    real = sorted(violated & set(INVARIANTS))
    if real:
        ctx.violation("TLC: invariant %s violated in Calendar.tla (the reference definitions themselves are inconsistent)" % real,
                      replay={"invariants": real}, signature="spec:" + real[0])
        return None
    if res.left or "Model checking completed" not in res.out:
        raise tlc.MachineryError("TLC did not finish the enumeration %s: %s" % (label, res.out[-1500:]))
    missing = [w for w in wit if w not in violated]
    if missing:
        raise tlc.MachineryError("vacuity witnesses not reached in %s: %s" % (label, missing))
    ctx.count("vacuity_witnesses_reached", len(wit))
    cases = [s for s in states if s["ph"] == "case"]
    seen = {}
    for s in cases:
        seen.setdefault(s["fam"], set()).add(kind_of(s))
    for f in families:
        if len(seen.get(f, ())) < ACTIONS[f]:
            raise tlc.MachineryError("vacuity: family %s produced only the case kinds %s in %s" % (f, sorted(seen.get(f, ())), label))
    return cases


def kind_of(s):
    f, c = s["fam"], s["c"]
    if f == "date":
        return "civil" if c["from"] else "raw"
    if f == "time":
        return c["kind"]
    return f
