"""C37 - cqlengine statements bind every placeholder to its own clause's value (spec/MapperStmt.tla).

Spec : MapperStmt.tla - a statement is a list of clauses, each consuming size(clause) context ids from a running
       counter and rendering fragments that mention exactly those ids; a batch offsets every member by the running
       total.  For every request (a query-set chain, Model.create, an instance save / update / delete, a BatchQuery of
       those) the definition yields the statements that must be sent: their WHERE / IF / SET / DELETE-column / INSERT
       fragments as token sequences and, per id, the value it must be bound to.
TLC  : enumerates the requests (SELECT with 0-3 filters over = > >= < <= != IN CONTAINS LIKE and token() x option
       profiles order/limit/only/defer/allow_filtering/distinct/count/get; queryset update with 1-3 assignments incl.
       set add/remove, list append/prepend, map update/remove, None, empty collections x iff / if_exists / ttl /
       timestamp; queryset delete; create; instance save/update with attribute changes incl. two-id set / list
       differences and map key removal; instance delete; counters; batches of 2-3 members, LOGGED / UNLOGGED / COUNTER)
       and checks on the definition itself: ids unique and dense per string, one value per id, batch offsets.
Bind : every case is built through the PUBLIC cqlengine API against a recording session registered with
       connection.register_connection(session=...); the string and parameter dict that reach session.execute are parsed
       (harness/replay/cql_interp.py) and must satisfy: placeholders of the string == keys of the dict, no placeholder
       twice (also across the members of a batch), and every WHERE / IF / SET / DELETE / INSERT fragment, with each
       placeholder replaced by the value bound to it, equals a fragment of the definition with each id replaced by the
       requested value (the column's own to_database applied) - as multisets per part, i.e. modulo the numbering of
       placeholders and the order of conjuncts / assignments, which the property leaves open.
"""
import os
import re

from harness import tlc
from harness.replay import bind as B

META = {
    "property_id": "C37",
    "engine": "MapperStmt",
    "technique": "TLA+ definition of statement assembly (clauses, context ids, batch offsets); TLC enumerates request shapes and checks "
                 "id discipline on the definition; each shape is built through the public cqlengine API against a recording session "
                 "and the captured string + parameter dict compared fragment by fragment",
    "level": "model_checking",
    "level_text": "Exhaustive over the enumerated request shapes (about 5*10^3 quick, 4*10^4 thorough): all sequences of up to three "
                  "distinct filters from an alphabet of 10 / 20 (every operator cqlengine offers, IN incl. the empty list, "
                  "token() over the composite partition key) with option profiles, all compatible sets of up to 2 / 3 assignments of 18 "
                  "x 10 condition/flag profiles, creates, instance saves with up to 2 / 3 attribute changes of 18, and all batches of 2-3 "
                  "members of 10 / 16 representative statements.  Every statement string and parameter dict that reaches the session is "
                  "checked, so each case decides the property for that shape.",
    "level_note": "Bounded alphabets: Integer / Text / Set / List / Map<int,int> / Counter columns only (to_database is the identity "
                  "on them up to container type); one model with a composite partition key, one clustering column, one static column, "
                  "one renamed column (db_field).  Whole-map assignment through the queryset is left to C35 (its meaning, not its "
                  "binding, is in question).  Calls that send UPDATE + follow-up DELETE with iff conditions on written and unwritten "
                  "columns (in both orders, alone and first / later in a batch) are enumerated; the DELETE is expected to carry the "
                  "conditions except those on columns the UPDATE wrote (the code's stated intent).  ORDER BY / LIMIT / ALLOW FILTERING / column "
                  "lists are varied but not compared (the property speaks of WHERE / IF / SET).  Vacuity witnesses are checked on the "
                  "dumped cases in both tiers and additionally by TLC (Witness_* must be violated) in the thorough tier.  Trusted: TLC, "
                  "the CQL tokenizer/parser of harness/replay/cql_interp.py, the recording session.",
    "design_ref": "5.6 C37 / C35 / C38",
}

INVARIANTS = ["IdsUniqueAndDense", "OneValuePerId", "BatchOffsets", "NotEmpty"]
WITNESSES = ["Witness_TwoIdClause", "Witness_TokenFilter", "Witness_BatchOfThree", "Witness_TwoStatements", "Witness_MayRefuse",
             "Witness_SharedConditionsFirstInBatch", "Witness_TokenThenQuotedName"]


def constants(quick):
    return {"NF": 10 if quick else 22, "MaxFilters": 3, "NProfLong": 2 if quick else 3, "MaxAssign": 2 if quick else 3,
            "MaxMuts": 2 if quick else 3, "MaxCreate": 2 if quick else 3, "MaxBatch": 3, "NBM": 10 if quick else 16}


def witness_classes(case, out):
    """The Witness_* predicates of MapperStmt.tla, evaluated on a dumped case."""
    got = set()
    k = case["kind"]
    if k == "instsave" and any(m["shape"] == "setdiff" and m["add"] and m["rem"] for m in case["muts"]):
        got.add("Witness_TwoIdClause")
    if k == "select" and any(f["shape"] == "token" for f in case["filters"]):
        got.add("Witness_TokenFilter")
    if k == "batch" and len(case["members"]) == 3 and len(out["sent"][0]["stmts"]) >= 4:
        got.add("Witness_BatchOfThree")
    if k == "qsupdate" and len(out["sent"]) == 2 and case["prof"]["conds"]:
        got.add("Witness_TwoStatements")
    if k == "select" and out["mayrefuse"]:
        got.add("Witness_MayRefuse")
    if k == "select" and case["single"]:
        fs = case["filters"]
        if any(fs[i]["shape"] == "token" and fs[j]["shape"] == "rel" and fs[j]["col"] in ("Seq", "order")
               for i in range(len(fs)) for j in range(i + 1, len(fs))):
            got.add("Witness_TokenThenQuotedName")
    if k == "batch" and case["members"][0]["kind"] in ("instsave", "qsupdate"):
        st = out["sent"][0]["stmts"]
        if len(st) >= 3 and st[0]["kind"] == "update" and st[1]["kind"] == "delete" and len(st[0]["iff"]) >= 2 and \
                1 <= len(st[1]["iff"]) < len(st[0]["iff"]) and st[0]["iff"][0][0] != st[1]["iff"][0][0]:
            got.add("Witness_SharedConditionsFirstInBatch")
    return got


def nontrivial(case, out):
    """Non-trivial: more than one clause with a placeholder, or a clause consuming other than one id."""
    n = sum(len(s["ids"]) for g in out["sent"] for s in g["stmts"])
    return n >= 2


def run(ctx):
    from harness.replay import mapper as M
    consts = constants(ctx.quick)
    cfg = tlc.write_cfg(os.path.join(ctx.scratch, "stmt.cfg"), constants=consts, invariants=INVARIANTS, deadlock=False)
    res, states = B.enumerate_cases("MapperStmt", cfg, ctx.scratch, timeout=900 if ctx.quick else 3000)
    ctx.add_tlc(res, "exhaustive (cases are initial states)")
    ctx.note("constants", consts)
    ctx.note("exhaustive", True)
    if res.violation:
        ctx.violation("TLC: %s violated on MapperStmt.tla (the definition of statement assembly itself breaks the id discipline)"
                      % res.invariant, replay={"trace": [dict(s) for _, s in res.trace()]}, signature="spec:%s" % res.invariant)
        return
    if not ctx.quick:
        for w in WITNESSES:
            wcfg = tlc.write_cfg(os.path.join(ctx.scratch, w + ".cfg"), constants=consts, invariants=[w], deadlock=False)
            wres = tlc.check_model("MapperStmt", wcfg, ctx.scratch, timeout=3000)
            if wres.invariant != w:
                raise tlc.MachineryError("vacuity witness %s was not reached" % w)
        ctx.note("vacuity_witnesses_reached_by_tlc", len(WITNESSES))

    env = M.StmtEnv()
    by_signature = {}
    kinds = {}
    seen_witness = set()
    refused_allowed = rendered_though_refusable = 0
    statements = placeholders = 0
    probe = None
    try:
        n = 0
        for st in states:
            case, out = st["case"], st["out"]
            n += 1
            kinds[case["kind"]] = kinds.get(case["kind"], 0) + 1
            seen_witness |= witness_classes(case, out)
            obs = env.run_case(case)
            problems = env.compare_case(case, out, obs)
            if out["mayrefuse"]:
                if obs["refused"]:
                    refused_allowed += 1
                else:
                    rendered_though_refusable += 1
            statements += len(obs["sent"])
            placeholders += sum(len(p or {}) for _, p in obs["sent"])
            if nontrivial(case, out):
                ctx.nontrivial(n)
            if not problems and obs["sent"] and len(obs["sent"][0][1] or {}) >= 4:
                # probe for the binding self-test: preferably a batch of three members, else any conforming case
                if probe is None or (probe["case"]["kind"] != "batch" and case["kind"] == "batch" and len(case["members"]) == 3):
                    probe = st
            if n % 997 == 5 or (case["kind"] == "batch" and kinds["batch"] == 40):
                ctx.sample({"case": _brief(case), "sent": [[" ".join(t.split()), M._show_params(p or {})] for t, p in obs["sent"]]})
            for what, sig in problems:
                by_signature[sig] = by_signature.get(sig, 0) + 1
                if by_signature[sig] == 1:
                    ctx.violation("%s | request: %s" % (what, _brief(case)), replay={"case": case, "out": out}, signature=sig)
        ctx.evaluations = n
        ctx.traces_validated = n
        ctx.note("cases_by_kind", kinds)
        ctx.note("statements_captured", statements)
        ctx.note("placeholders_checked", placeholders)
        ctx.note("refusable_chains", {"refused": refused_allowed, "rendered": rendered_though_refusable})
        ctx.note("failing_cases_by_signature", by_signature)
        missing = [w for w in WITNESSES if w not in seen_witness]
        if missing or any(k not in kinds for k in ("select", "qsupdate", "qsdelete", "create", "instsave", "instdelete", "counter", "batch")):
            raise tlc.MachineryError("vacuity: not enumerated: %s / kinds %s" % (missing, sorted(kinds)))
        ctx.note("vacuity_witnesses_in_dump", len(WITNESSES))
        if probe is None and by_signature:
            ctx.note("binding_selftest", {"skipped": "no conforming case with four placeholders to corrupt (violations reported above)"})
        else:
            selftest(ctx, env, M, probe)
    finally:
        env.close()
    ctx.assumptions += [
        "statements observed at session.execute of a recording session registered via register_connection(session=...)",
        "fragments compared as multisets per part and modulo a renaming of placeholders (order and numbering are left open by the property)",
        "value alphabet: int / text / set<int> / list<int> / map<int,int> / counter; to_database is the identity on it",
        "BatchQuery is given the connection explicitly (docs/cqlengine/connections.rst)",
        "SELECT chains that the documentation's filtering rule forbids may be refused instead of rendered (MayRefuse)",
    ]


def _brief(case):
    """A short, JSON-able description of a case."""
    k = case["kind"]
    if k == "select":
        return {"select": [f["kw"] for f in case["filters"]], "one_filter_call": case.get("single", False), "opt": dict(case["opt"])}
    if k == "qsupdate":
        return {"qsupdate": [a["kw"] + ("=None" if a["null"] else "") for a in case["assigns"]], "prof": _prof(case["prof"])}
    if k == "qsdelete":
        return {"qsdelete": "row" if case["full"] else "partition", "prof": _prof(case["prof"])}
    if k == "create":
        return {"create": [a["attr"] + ("=None/empty" if a["null"] else "") for a in case["values"]], "prof": dict(case["prof"])}
    if k == "instsave":
        return {"inst." + case["how"]: ["%s:%s" % (m["attr"], m["shape"]) for m in case["muts"]], "prof": _prof(case["prof"])}
    if k == "instdelete":
        return {"inst.delete": _prof(case["prof"])}
    if k == "counter":
        return {"counter": case["how"], "delta": case["delta"]}
    return {"batch": case["btype"] or "LOGGED", "members": [_brief(m) for m in case["members"]]}


def _prof(p):
    return {"iff": [c["kw"] for c in p["conds"]], "if_exists": p["ifx"], "ttl": p["ttl"], "timestamp": p["ts"]}


def selftest(ctx, env, M, probe):
    """Binding self-test: corrupted observations / expectations must be noticed."""
    if probe is None:
        raise tlc.MachineryError("binding self-test: no conforming case to probe with")
    case, out = probe["case"], probe["out"]
    obs = env.run_case(case)
    if env.compare_case(case, out, obs):
        raise tlc.MachineryError("binding self-test: probe case does not pass")
    text, params = obs["sent"][0]
    names = sorted(params, key=int)
    rejected = 0
    tried = 0
    # 1. two placeholders swap their values
    a, b = next((x, y) for x in names for y in names if M.canon_value(params[x]) != M.canon_value(params[y]))
    p2 = dict(params)
    p2[a], p2[b] = params[b], params[a]
    # 2. a member of the batch reuses the numbers of the first member (no offset)
    last = names[-1]
    t3 = text.replace("%%(%s)s" % last, "%%(%s)s" % names[0])
    p3 = {k: v for k, v in params.items() if k != last}
    # 3. a value is dropped from the dict; 4. an unused value is added
    p4 = {k: v for k, v in params.items() if k != names[0]}
    p5 = dict(params)
    p5["999"] = 1
    for t, p in ((text, p2), (t3, p3), (text, p4), (text, p5)):
        tried += 1
        rejected += bool(env.compare_case(case, out, {"raised": None, "refused": None, "sent": [(t, p)] + list(obs["sent"][1:])}))
    # 5. the expectation is corrupted: one requested value changes
    st0 = dict(out["sent"][0]["stmts"][0])
    vals = list(st0["vals"])
    vals[0] = {"k": "int", "v": 12345}
    st0["vals"] = tuple(vals)
    bad_out = {"mayrefuse": False, "sent": ({"batch": out["sent"][0]["batch"], "stmts": (st0,) + tuple(out["sent"][0]["stmts"][1:])},) +
               tuple(out["sent"][1:])}
    tried += 1
    rejected += bool(env.compare_case(case, bad_out, obs))
    if rejected != tried:
        raise tlc.MachineryError("binding self-test failed: %d of %d corruptions detected" % (rejected, tried))
    ctx.note("binding_selftest", {"corrupted_rejected": rejected})


def replay(ctx, obj):
    from harness.replay import mapper as M
    env = M.StmtEnv()
    try:
        case, out = obj["case"], obj["out"]
        obs = env.run_case(case)
        print("request:", _brief(case))
        for t, p in obs["sent"]:
            print("sent   :", " ".join(t.split()), " <- ", M._show_params(p or {}))
        if obs["refused"] or obs["raised"]:
            print("mapper :", obs["refused"] or obs["raised"])
        problems = env.compare_case(case, out, obs)
        for what, sig in problems:
            print("differs:", sig, "-", what[:600])
        if problems:
            ctx.violation("replayed: " + problems[0][0], replay=obj, signature=problems[0][1])
    finally:
        env.close()
