"""C21 - load-balancing plans reflect the live cluster membership.

Spec: spec/LBP.tla - membership events as cassandra/cluster.py delivers them (hosts recorded before populate,
      populate in any order, up, down, add, remove, relocate = on_down / location change / on_up) for
      RoundRobin, DCAware (explicit and auto-detected local dc, 0..2 hosts per remote dc), WhiteList, HostFilter
      and Default (target host) policies; the state carries what a plan and distance() must satisfy.
TLC : exhaustive over the whole reachable state space (histories of any length) for N hosts, invariants
      TypeOK, PlanSane, OnlyLive, FilterNeverYieldsExcluded, DCAwarePartition, AutoLocalIsContactDc,
      ExplicitLocalKept; coverage and witnesses against vacuity.
      spec/LBPRace.tla: two membership events for two hosts of one datacenter delivered concurrently (one action
      per critical section); every interleaving replayed with DetSched on the real DCAware policy.
Bind: spec -> code: every edge of the state graph replayed on real policy + Host objects (populate: every
      order), two plans and all distances checked after the call;  code -> spec: random histories driven on the
      real objects, recorded, validated by TLC against spec/Trace_LBP.tla; the Python and the TLA+ formulation
      of the plan constraints must agree on every recorded trace.
"""
import json
import os
import tempfile
import shutil

from harness import tlc
from harness.replay import lbp as L

META = {
    "property_id": "C21",
    "engine": "LBP",
    "technique": "TLA+ model of membership events and plan constraints checked by TLC; every edge of the state graph "
                 "replayed on the real policy objects; recorded random histories validated by TLC (Trace_LBP)",
    "level": "model_checking",
    "level_text": "TLC explores the complete reachable state space of the membership model (all event histories of "
                  "any length over N hosts, every listed policy configuration) and checks the plan/distance "
                  "constraints on the specification itself. Every edge of that graph is replayed onto real policy "
                  "and Host objects (populate in every order) and the real plans (taken twice) and distances must "
                  "satisfy the constraints of the specification's post-state; random histories of the real objects "
                  "are validated by TLC against the same specification. Larger host counts are sampled by TLC "
                  "simulation in the thorough tier.",
    "level_note": "Trusted: TLC; the event model (what cluster.py delivers, read from the code anchors named in "
                  "LBP.tla); the projection (hosts identified by address); small-scope bounds (3 hosts / 2 DCs "
                  "exhaustive in quick, 4 hosts and 3 DCs exhaustive in thorough, 6 hosts x 3 DCs sampled). "
                  "Round-robin rotation and the choice among remote hosts are deliberately not constrained.",
    "design_ref": "5.5 C21",
}

INVARIANTS = ["TypeOK", "PlanSane", "OnlyLive", "FilterNeverYieldsExcluded", "DCAwarePartition",
              "AutoLocalIsContactDc", "ExplicitLocalKept"]
ACTIONS = ["Learn", "Populate", "Up", "Down", "Add", "Remove", "Relocate"]
WITNESSES = ["Witness_RemoteCapped", "Witness_UnlocatedAfterDetect", "Witness_TargetDown", "Witness_ExcludedLive"]
MAX_REPORTED_PER_SIGNATURE = 2


def policies_for(n, full=True):
    P = L.policy
    cp = (1, 2)
    pols = [P("RR")]
    for local in ("A", L.NODC):
        for k in (0, 1, 2):
            pols.append(P("DCAware", local, k, cp=cp))
    allh = tuple(range(1, n + 1))
    if full:
        pols += [P("WhiteList", allowed=()), P("WhiteList", allowed=(1,)), P("WhiteList", allowed=(1, 3)),
                 P("WhiteList", allowed=allh), P("HostFilter", allowed=(2,)), P("HostFilter", allowed=(1, 3)),
                 P("Default", target=0), P("Default", target=2)]
    return pols


class Failures:
    def __init__(self, ctx, n):
        self.ctx = ctx
        self.n = n
        self.by_sig = {}

    def add(self, pol, events, post, obs, fails):
        sig = L.signature(pol, self.n, events, post, fails)
        spec = {"exp": post["exp"], "known": post["known"], "live": post["live"]}
        self.by_sig.setdefault(sig, []).append((len(events), L.pol_name(pol), pol, events, obs, fails, spec))

    def report(self):
        counts = {}
        for sig, lst in sorted(self.by_sig.items()):
            counts[sig] = len(lst)
            lst.sort(key=lambda t: (t[0], t[1], repr(t[3])))
            seen, uniq = set(), []
            for t in lst:
                key = (t[1], repr(t[3]))
                if key not in seen:
                    seen.add(key)
                    uniq.append(t)
            for _, name, pol, events, obs, fails, spec in uniq[:MAX_REPORTED_PER_SIGNATURE]:
                what = "%s after %s: %s" % (name, " ; ".join(fmt_event(e) for e in events), "; ".join(f[1] for f in fails[:3]))
                self.ctx.violation(what, replay={"n": self.n, "policy": pol, "events": events, "observed": obs,
                                                 "spec_post_state": spec, "failures": [list(f) for f in fails]}, signature=sig)
        return counts


def fmt_event(e):
    if e["e"] == "Learn":
        return "known(h%d, dc=%r%s)" % (e["h"], e["d"], "" if e["up"] else ", down")
    if e["e"] == "Populate":
        return "populate(%s)" % ", ".join("h%d" % h for h in e["order"])
    if "d" in e:
        return "%s(h%d, %r)" % (e["e"].lower(), e["h"], e["d"])
    return "%s(h%d)" % (e["e"].lower(), e["h"])


def exhaustive(ctx, tag, n, dcs, pols, fails, walks, walk_len, do_witnesses):
    mc = L.write_mc_module(ctx.scratch, "MC_LBP_%s" % tag, pols)
    consts = {"N": n, "DCs": set(dcs), "Policies": "<- PolSet"}
    cfg = tlc.write_cfg(os.path.join(ctx.scratch, "LBP_%s.cfg" % tag), constants=consts, invariants=INVARIANTS, deadlock=False)
    res, nodes, edges, init = tlc.state_graph(mc, cfg, ctx.scratch, coverage=True, timeout=1500)
    ctx.add_tlc(res, "exhaustive:%s" % tag)
    if res.violation:
        ctx.violation("TLC: invariant %s violated in LBP.tla" % res.invariant,
                      replay={"trace": [s for _, s in res.trace()]}, signature="spec:" + str(res.invariant))
        return None
    cov = res.coverage()
    zero = [a for a in ACTIONS if cov.get(a, (0, 0))[1] == 0]
    ctx.note("coverage_zero_actions", sorted(set(ctx.extra.get("coverage_zero_actions", [])) | set(zero)))
    if zero:
        raise tlc.MachineryError("actions never taken: %s" % zero)
    if do_witnesses:
        P = L.policy
        wmc = L.write_mc_module(ctx.scratch, "MC_LBP_w", [P("DCAware", "A", 1, cp=(1, 2)), P("DCAware", L.NODC, 1, cp=(1, 2)),
                                                          P("WhiteList", allowed=(1,)), P("Default", target=2)])
        wconsts = {"N": 3, "DCs": {"A", "B"}, "Policies": "<- PolSet"}
        for w in WITNESSES:
            wcfg = tlc.write_cfg(os.path.join(ctx.scratch, "%s_%s.cfg" % (w, tag)), constants=wconsts, invariants=[w], deadlock=False)
            wres = tlc.check_model(wmc, wcfg, ctx.scratch, timeout=600, workers=2, heap="1g")
            if wres.invariant != w:
                raise tlc.MachineryError("vacuity witness %s was not reached" % w)
        ctx.note("vacuity_witnesses_reached", len(WITNESSES))

    # ---- spec -> code: every edge
    F = Failures(ctx, n)
    stats = L.replay_graph(nodes, edges, init, n, F.add, sample=ctx.sample, nontrivial=ctx.nontrivial)
    ctx.traces_validated += stats["clean"]
    ctx.evaluations += stats["calls_replayed"]
    for k, v in stats.items():
        ctx.count("replay_" + k, v)

    # ---- whole-cluster histories: start-up and relocations delivered by the real control connection
    cst = L.cluster_histories(nodes, edges, n, dcs, ctx.rng, per_policy=4 if ctx.quick else 12, relocations=4, on_failure=F.add)
    ctx.traces_validated += cst["refreshes_checked"] - cst["failed"]
    for k, v in cst.items():
        ctx.count("cluster_" + k, v)
    if cst["refreshes_checked"] < 5:
        raise tlc.MachineryError("whole-cluster histories could not be matched with specification states: %r" % (cst,))

    # ---- code -> spec: recorded random histories, validated by TLC
    paths = L.random_paths(nodes, edges, init, ctx.rng, walks, walk_len)
    traces, verdicts = [], []
    for p in paths:
        pol, trace, failure = L.record_walk(nodes, p, n, ctx.rng)
        traces.append(trace)
        verdicts.append(failure)
        if failure:
            F.add(pol, failure["events"], failure["post"], failure["obs"], failure["failures"])
    validate(ctx, tag, n, dcs, traces, verdicts)
    fails.append(F)
    return nodes, edges, init


def validate(ctx, tag, n, dcs, traces, verdicts):
    """TLC must accept exactly the traces the Python oracle accepted, and reject the others at their last event."""
    if not traces:
        return
    tcfg = tlc.write_cfg(os.path.join(ctx.scratch, "Trace_LBP_%s.cfg" % tag), init="TraceInit", next="TraceNext",
                         constants={"N": n, "DCs": set(dcs), "Policies": "{}"}, invariants=["TypeOK", "PlanSane", "OnlyLive"],
                         constraints=["Progress"], postcondition="Done", deadlock=False)
    # self-test material: corrupt copies of clean traces, appended after the real ones
    clean = [i for i, v in enumerate(verdicts) if v is None and len(traces[i]) >= 4 and traces[i][-1]["plan1"]]
    corrupted = []
    for i in clean[:3]:
        t = json.loads(json.dumps(traces[i]))
        t[-1]["plan1"] = t[-1]["plan1"] + [t[-1]["plan1"][0]]                  # a repeated host
        corrupted.append(("duplicate", t, len(t)))
    for i in clean[3:6]:
        t = json.loads(json.dumps(traces[i]))
        j = next(k for k, e in enumerate(t) if e["e"] == "Populate")
        del t[j]                                                               # populate call dropped
        corrupted.append(("dropped", t, j + 1))
    allt = traces + [c[1] for c in corrupted]
    res, progress = tlc.validate_traces("Trace_LBP", tcfg, allt, ctx.scratch, timeout=1500)
    if res.violation:
        ctx.violation("TLC: invariant %s violated while validating recorded histories" % res.invariant,
                      replay={"trace": [s for _, s in res.trace()]}, signature="spec-trace:" + str(res.invariant))
        return
    ctx.add_tlc(res, "trace-validation:%s" % tag)
    for i, t in enumerate(traces):
        want = len(t) + 1 if verdicts[i] is None else len(t)
        if progress[i] != want:
            raise tlc.MachineryError("the Python oracle and Trace_LBP.tla disagree on recorded trace %d (TLC stopped at %d, "
                                     "expected %d): %s" % (i, progress[i], want, json.dumps(t)[:1500]))
        if verdicts[i] is None:
            ctx.traces_validated += 1
    st = ctx.extra.setdefault("binding_selftest", {"corrupted_rejected": 0, "dropped_rejected": 0})
    for (kind, t, want), got in zip(corrupted, progress[len(traces):]):
        if got != want:
            raise tlc.MachineryError("binding self-test failed: %s trace not rejected where expected (%d != %d)" % (kind, got, want))
        st["corrupted_rejected" if kind == "duplicate" else "dropped_rejected"] += 1
    ctx.count("traces_recorded", len(traces))
    ctx.count("traces_rejected_by_both_oracles", sum(1 for v in verdicts if v is not None))


def simulate(ctx, tag, n, dcs, pols, fails, num, depth, rounds):
    """Thorough: TLC-generated random histories for a host count too large to enumerate."""
    mc = L.write_mc_module(ctx.scratch, "MC_LBP_%s" % tag, pols)
    consts = {"N": n, "DCs": set(dcs), "Policies": "<- PolSet"}
    cfg = tlc.write_cfg(os.path.join(ctx.scratch, "LBP_%s.cfg" % tag), constants=consts, invariants=INVARIANTS, deadlock=False)
    F = Failures(ctx, n)
    traces, verdicts = [], []
    total = 0
    for rnd in range(rounds):
        d = tempfile.mkdtemp(prefix="sim.", dir=ctx.scratch)
        res = tlc.run_tlc(mc, cfg, ctx.scratch, workers=1, simulate="file=%s/tr,num=%d" % (d, num), depth=depth,
                          seed=ctx.seed * 16 + rnd + 1, timeout=900, deadlock=False)
        if res.violation:
            ctx.violation("TLC (simulation): invariant %s violated in LBP.tla" % res.invariant,
                          replay={"trace": [s for _, s in res.trace()]}, signature="spec:" + str(res.invariant))
            return
        files = sorted(os.listdir(d))
        if not files:
            raise tlc.MachineryError("TLC -simulate wrote no behaviour: %s" % res.out[-2000:])
        for fn in files:
            beh = L.parse_sim_with_actions(os.path.join(d, fn))
            nodes = {i: st for i, (_, st) in enumerate(beh)}
            path = [(i - 1, i, beh[i][0]) for i in range(1, len(beh)) if beh[i][0]]
            if not path:
                continue
            total += 1
            pol, trace, failure = L.record_walk(nodes, path, n, ctx.rng)
            traces.append(trace)
            verdicts.append(failure)
            if failure:
                F.add(pol, failure["events"], failure["post"], failure["obs"], failure["failures"])
            else:
                ctx.nontrivial((L.pol_name(pol), repr(trace[-1:])))
            ctx.evaluations += len(trace)
        shutil.rmtree(d, ignore_errors=True)
    ctx.note("simulate_behaviours", total)
    validate(ctx, tag, n, dcs, traces, verdicts)
    fails.append(F)


def race_domain(ctx):
    """LBPRace.tla: two concurrent membership events for two hosts of one datacenter; every interleaving of the
    specification replayed with DetSched on the real DCAwareRoundRobinPolicy (scheduler-aware _hosts_lock)."""
    cfg = tlc.write_cfg(os.path.join(ctx.scratch, "LBPRace.cfg"), invariants=["TypeOK", "NoEventLost", "BystanderUntouched"], deadlock=False)
    res, nodes, edges, init = tlc.state_graph("LBPRace", cfg, ctx.scratch, coverage=True, workers=2, heap="1g", timeout=600)
    ctx.add_tlc(res, "lbp-race")
    if res.violation:
        ctx.violation("TLC: invariant %s violated in LBPRace.tla" % res.invariant,
                      replay={"trace": [s for _, s in res.trace()]}, signature="spec:" + str(res.invariant))
        return False
    cov = res.coverage()
    zero = [a for a in ("T_Want", "T_Apply", "T_Return") if cov.get(a, (0, 0))[1] == 0]
    if zero:
        raise tlc.MachineryError("LBPRace.tla actions never taken: %s" % zero)
    for w in ("Witness_BothAtTheLock", "Witness_TwoAdditions"):
        wcfg = tlc.write_cfg(os.path.join(ctx.scratch, w + ".cfg"), invariants=[w], deadlock=False)
        wres = tlc.check_model("LBPRace", wcfg, ctx.scratch, timeout=600, workers=2, heap="1g")
        if wres.invariant != w:
            raise tlc.MachineryError("vacuity witness %s was not reached" % w)
    sched = L.race_schedules(nodes, edges, init)
    runs, bad = 0, []
    for nid in sorted(sched):
        st = nodes[nid]
        live0 = sorted(int(h) for h in st["live0"])
        ev = {t: str(st["ev"][t - 1]) for t in (1, 2)}
        expected = sorted((set(live0) | {t for t in ev if ev[t] == "up"}) - {t for t in ev if ev[t] == "down"})
        for path in sched[nid]:
            r = L.run_race(live0, ev, path)
            runs += 1
            ctx.evaluations += 1
            if r["error"] or sorted(r["plan"]) != expected or len(set(r["plan"])) != len(r["plan"]):
                bad.append((live0, ev, path, r, expected))
                continue
            ctx.traces_validated += 1
            ctx.nontrivial(("race", tuple(live0), ev[1], ev[2], tuple(path)))
            if runs % 300 == 7:
                ctx.sample({"live_before": live0, "events": {"h1": ev[1], "h2": ev[2]}, "schedule": path, "plan_afterwards": r["plan"]})
    ctx.note("race_schedule_runs", runs)
    if runs < 100:
        raise tlc.MachineryError("only %d interleavings in the LBPRace.tla graph" % runs)
    ctx.note("race_failures", len(bad))
    bad.sort(key=lambda b: (len(b[0]), repr(b[1]), b[2]))
    for live0, ev, path, r, expected in bad[:MAX_REPORTED_PER_SIGNATURE]:
        ctx.violation("DCAware: hosts %s live, %s(h1) and %s(h2) delivered concurrently (schedule %s): afterwards the plan is %s%s, "
                      "the live hosts are %s" % (live0, "on_" + ev[1], "on_" + ev[2], path, r["plan"],
                                                 (" (%s)" % r["error"]) if r["error"] else "", expected),
                      replay={"race": {"live0": live0, "ev": {str(k): v for k, v in ev.items()}, "schedule": path, "expected": expected}},
                      signature="DCAware.concurrent-events:event-lost")
    # self-test: the verdict depends on the events
    probe = L.run_race([3], {1: "up", 2: "up"}, [1, 1, 1, 2, 2, 2])
    if sorted(probe["plan"]) == [3]:
        raise tlc.MachineryError("binding self-test failed: delivering events does not change the plan")
    return True


def run(ctx):
    L.seed_policy_module(ctx.rng)
    fails = []
    if ctx.quick:
        consts = {"N": 3, "DCs": ["A", "B"]}
        out = exhaustive(ctx, "q", 3, ("A", "B"), policies_for(3), fails, walks=200, walk_len=12, do_witnesses=True)
        if out is None:
            return
    else:
        consts = {"N": 4, "DCs": ["A", "B"], "N_3dc": 4, "DCs_3dc": ["A", "B", "C"], "N_sim": 6}
        out = exhaustive(ctx, "t", 4, ("A", "B"), policies_for(4), fails, walks=1500, walk_len=20, do_witnesses=True)
        if out is None:
            return
        P = L.policy
        out = exhaustive(ctx, "t3", 4, ("A", "B", "C"), [P("DCAware", "A", 1, cp=(1, 2)), P("DCAware", L.NODC, 1, cp=(1, 2)),
                                                          P("DCAware", "A", 2, cp=(1,))],
                         fails, walks=500, walk_len=20, do_witnesses=False)
        if out is None:
            return
        simulate(ctx, "s6", 6, ("A", "B", "C"), policies_for(6), fails, num=400, depth=30, rounds=3)
    ctx.note("constants", consts)
    if not race_domain(ctx):
        return
    counts = {}
    for F in fails:
        for k, v in F.report().items():
            counts[k] = counts.get(k, 0) + v
    ctx.note("failing_calls_by_signature", counts)
    ctx.assumptions += ["hosts are unlocated only while they are contact points; with auto-detected local_dc all contact "
                        "points are in one datacenter (documented requirement)",
                        "populate() receives every host the cluster knows, in arbitrary order",
                        "round-robin rotation, order inside the local part and the choice among remote hosts are not constrained",
                        "distance() is only constrained for hosts the cluster currently knows"]


def replay(ctx, obj):
    L.seed_policy_module(ctx.rng)
    if "race" in obj:
        c = obj["race"]
        r = L.run_race(c["live0"], {int(k): v for k, v in c["ev"].items()}, c["schedule"])
        print("live %s, events %s, schedule %s: plan afterwards %s (error %s), expected %s" % (c["live0"], c["ev"], c["schedule"], r["plan"],
                                                                                         r["error"], c["expected"]))
        if r["error"] or sorted(r["plan"]) != sorted(c["expected"]):
            ctx.violation("replayed: plan %s, live hosts %s" % (r["plan"], c["expected"]), replay=obj,
                          signature="DCAware.concurrent-events:event-lost")
        else:
            print("no mismatch")
        return
    pol, n, events = obj["policy"], obj["n"], obj["events"]
    hz, err = L.run_events(pol, n, events)
    print("policy : %s" % L.pol_name(pol))
    print("calls  : %s" % " ; ".join(fmt_event(e) for e in events))
    if err:
        print("raised : %s" % err)
        ctx.violation("replayed: %s" % err, replay=obj, signature=None)
        return
    obs = hz.observe()
    print("plan   : %s then %s   distance: %s" % (obs["plan1"], obs["plan2"], obs["dist"]))
    spec = obj.get("spec_post_state")
    if spec is None:
        print("(replay file without specification post-state: nothing to compare with)")
        return
    fails = L.check_obs(spec, obs)
    for f in fails:
        print("  %s: %s" % (f[0], f[1]))
    if fails:
        ctx.violation("replayed: " + "; ".join(f[1] for f in fails[:3]), replay=obj)
    else:
        print("the plans and distances satisfy the specification's constraints for this history")
