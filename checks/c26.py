"""C26 - replica sets match Cassandra's replica placement.

Spec: spec/Placement.tla - Cassandra's SimpleStrategy and NetworkTopologyStrategy placement written as
      ring walks (NTS in both of Cassandra's own formulations, checked equal), Lookup = first ring token
      >= key with wrap-around.  The module generates every ring / datacenter+rack layout / replication
      setting of the bounded domain in canonical form (hosts, datacenters, racks named in order of first
      appearance) and carries the expected replica *set* per ring position and per key position.
TLC : exhaustive; invariants TypeOK, SimpleCount, NTSCountPerDc, NTSRackDiversity, ClassicEqualsModern,
      LookupOK on the reference definition itself.
Bind: every "done" state is rebuilt with real Host / Metadata.rebuild_token_map / KeyspaceMetadata objects
      and Metadata.get_replicas(keyspace, key) is compared, as a set and for repetition, for a key at, just
      before and just after every ring token (harness/replay/placement.py).  AlterReplication histories
      (settings installed, every key looked up, new settings installed through Metadata._update_keyspace /
      _rebuild_all as a schema refresh does, ...) must answer with the replicas of the CURRENT settings.
      MoveHost histories (a host changes datacenter/rack, same address and tokens) run on a real Cluster over
      simulated nodes: the real ControlConnection._refresh_node_list_and_token_map learns the move from
      system.local / system.peers; replicas looked up before the move must not survive it.
"""
import os

from harness import tlc
from harness.replay import placement as P

META = {
    "property_id": "C26",
    "engine": "Placement",
    "technique": "TLA+ reference definition of Cassandra's placement enumerated by TLC; every enumerated ring/"
                 "layout/replication instance evaluated on the real Metadata/TokenMap/ReplicationStrategy",
    "level": "model_checking",
    "level_text": "TLC enumerates every instance of the bounded domain (all rings up to MaxRing tokens over up to "
                  "MaxHosts hosts in up to MaxDCs datacenters x MaxRacks racks, every SimpleStrategy rf and every "
                  "per-datacenter NTS rf vector, modulo renaming of hosts/datacenters/racks) and checks the "
                  "sanity invariants of the reference placement; each instance is then built with the real "
                  "driver objects and get_replicas must return exactly the specified set, without repetition, "
                  "for every key position. The thorough tier adds a larger exhaustive domain and TLC-generated "
                  "random instances of the full 6 hosts x 3 racks x 2 DCs x 8 tokens domain.",
    "level_note": "Trusted: TLC; the transcription of Cassandra's calculateNaturalEndpoints/"
                  "calculateNaturalReplicas into Placement.tla (two independent NTS formulations agree on every "
                  "instance); ByteOrderedPartitioner tokens (no hash functions involved); small-scope bounds; "
                  "transient replication not modelled; a datacenter with rf 0 is one not listed in the options.",
    "design_ref": "5.5 C26",
}

INVARIANTS = ["TypeOK", "SimpleCount", "NTSCountPerDc", "NTSRackDiversity", "ClassicEqualsModern", "LookupOK",
              "CurrentSettingsOnly"]
ACTIONS = ["OldToken", "NewToken", "Finish"]
WITNESSES = ["Witness_RackRepeatConsecutive", "Witness_SimpleWraps", "Witness_DcWithoutRf",
             "Witness_AlterChangesReplicas", "Witness_MoveChangesReplicas"]
MAX_REPORTED_PER_SIGNATURE = 2


def consts_for(ctx, which):
    if which == "exhaustive":
        if ctx.quick:
            return {"MaxHosts": 4, "MaxDCs": 2, "MaxRacks": 2, "MaxRing": 5, "MaxRF": 4, "Lens": set(range(1, 6)), "MaxAlters": 0, "MaxMoves": 0, "MaxOps": 0, "ZeroStyles": {"omitted"}}
        return {"MaxHosts": 4, "MaxDCs": 2, "MaxRacks": 3, "MaxRing": 6, "MaxRF": 4, "Lens": set(range(1, 7)), "MaxAlters": 0, "MaxMoves": 0, "MaxOps": 0, "ZeroStyles": {"omitted", "explicit"}}
    if which == "alter":        # histories: settings installed, replicas looked up, settings altered (MaxAlters times)
        if ctx.quick:
            return {"MaxHosts": 3, "MaxDCs": 2, "MaxRacks": 2, "MaxRing": 3, "MaxRF": 2, "Lens": {2, 3}, "MaxAlters": 1, "MaxMoves": 1, "MaxOps": 1, "ZeroStyles": {"omitted", "explicit"}}
        return {"MaxHosts": 3, "MaxDCs": 2, "MaxRacks": 2, "MaxRing": 3, "MaxRF": 2, "Lens": {2, 3}, "MaxAlters": 2, "MaxMoves": 2, "MaxOps": 2, "ZeroStyles": {"omitted", "explicit"}}
    if which == "racks3":       # quick only: five-token rings over up to 5 hosts in 3 racks (a datacenter with more racks than its rf covers)
        return {"MaxHosts": 5, "MaxDCs": 2, "MaxRacks": 3, "MaxRing": 5, "MaxRF": 3, "Lens": {5}, "MaxAlters": 0, "MaxMoves": 0, "MaxOps": 0, "ZeroStyles": {"omitted"}}
    if which == "witness":
        return {"MaxHosts": 3, "MaxDCs": 2, "MaxRacks": 2, "MaxRing": 4, "MaxRF": 3, "Lens": {4}, "MaxAlters": 1, "MaxMoves": 1, "MaxOps": 1, "ZeroStyles": {"omitted"}}
    return {"MaxHosts": 6, "MaxDCs": 2, "MaxRacks": 3, "MaxRing": 8, "MaxRF": 4, "Lens": {5, 6, 7, 8}, "MaxAlters": 0, "MaxMoves": 0, "MaxOps": 0, "ZeroStyles": {"omitted"}}


def signature_of(inst, bad):
    kind = inst["strat"]["kind"]
    if inst.get("log"):                   # a host changed datacenter/rack after replicas had been looked up
        control = any(e["op"] == "move" and e["h"] == 1 for e in inst["log"])
        kind = ("move(control-host)->" if control else "move->") + kind
    elif inst.get("hist"):
        kind = "alter->" + kind           # replication settings altered after replicas had been looked up
    whys = {b["why"] for b in bad}
    if "exception" in whys:
        return "%s:exception" % kind
    if "repeat" in whys:
        return "NTS:skipped-host-repeated" if kind == "NTS" else "Simple:replica-repeated"
    return "%s:replica-set-differs" % kind


def is_nontrivial(inst):
    """A host owning several tokens, or NTS asking for more replicas than a datacenter has racks."""
    ring = inst["ring"]
    if len(set(ring)) < len(ring) or inst.get("hist"):
        return True
    if inst["strat"]["kind"] == "NTS":
        for d, rf in enumerate(inst["strat"]["rfs"], 1):
            racks = {inst["rack"][h - 1] for h in set(ring) if inst["dc"][h - 1] == d}
            if racks and rf > len(racks):
                return True
    return False


def describe(inst, bad):
    b = bad[0]
    settings = " altered to ".join(str(h) for h in inst["hist"]) if inst.get("hist") else str(inst["strat"])
    if inst.get("log"):
        settings = "%s at first in dc %s rack %s, then %s" % (inst["hist"][0], inst["dc0"], inst["rack0"], "; ".join(
            ("host %d moves to dc %d rack %d" % (e["h"], e["d"], e["r"])) if e["op"] == "move" else ("altered to %s" % e["s"])
            for e in inst["log"]))
    return ("ring owners %s, dc %s, rack %s, %s: key position %s (token of position i is 2i): Cassandra's placement "
            "gives %s, get_replicas returns %s (%s)" % (inst["ring"], inst["dc"], inst["rack"], settings,
                                                         b["key"], b["spec"], b["code"], b["why"]))


class Tally:
    def __init__(self):
        self.bad = {}          # signature -> list of (size key, inst, bad)
        self.ok = 0

    def add(self, ctx, inst):
        bad = P.evaluate_history(inst) if inst.get("log") else P.evaluate(inst)
        ctx.evaluations += 1
        if bad:
            sig = signature_of(inst, bad)
            self.bad.setdefault(sig, []).append(((len(inst["ring"]), len(inst["dc"]), repr(inst.get("log") or inst.get("hist") or inst["strat"])), inst, bad))
            return False
        self.ok += 1
        ctx.traces_validated += 1
        if is_nontrivial(inst):
            ctx.nontrivial((tuple(inst["ring"]), tuple(inst["dc"]), tuple(inst["rack"]), repr(inst.get("log") or inst.get("hist") or inst["strat"])))
        return True

    def report(self, ctx):
        counts = {}
        for sig, lst in sorted(self.bad.items()):
            counts[sig] = len(lst)
            lst.sort(key=lambda t: t[0])
            for _, inst, bad in lst[:MAX_REPORTED_PER_SIGNATURE]:
                ctx.violation(describe(inst, bad), replay={"instance": inst, "mismatches": bad[:4]}, signature=sig)
        ctx.note("mismatching_instances", counts)


def done_states(states):
    return [s for s in states if s["phase"] == "done"]


def run(ctx):
    tally = Tally()
    # ---------------------------------------------------------------- exhaustive enumeration
    consts = consts_for(ctx, "exhaustive")
    cfg = tlc.write_cfg(os.path.join(ctx.scratch, "Placement.cfg"), constants=consts, invariants=INVARIANTS,
                        deadlock=False)
    res, states = tlc.enumerate_states("Placement", cfg, ctx.scratch, coverage=True,
                                       timeout=300 if ctx.quick else 1500)
    ctx.add_tlc(res, "exhaustive")
    ctx.note("constants", {k: (sorted(v) if isinstance(v, set) else v) for k, v in consts.items()})
    ctx.note("exhaustive", True)
    if res.violation:
        ctx.violation("TLC: invariant %s violated in Placement.tla (the reference placement itself is inconsistent)"
                      % res.invariant, replay={"trace": [s for _, s in res.trace()]},
                      signature="spec:" + str(res.invariant))
        return
    cov = res.coverage()
    zero = [a for a in ACTIONS if cov.get(a, (0, 0))[1] == 0]
    ctx.note("coverage_zero_actions", zero)
    if zero:
        raise tlc.MachineryError("actions never taken: %s" % zero)
    wconsts = consts_for(ctx, "witness")
    for w in WITNESSES:
        wcfg = tlc.write_cfg(os.path.join(ctx.scratch, w + ".cfg"), constants=wconsts, invariants=[w], deadlock=False)
        wres = tlc.check_model("Placement", wcfg, ctx.scratch, timeout=300, workers=2, heap="1g")
        if wres.invariant != w:
            raise tlc.MachineryError("vacuity witness %s was not reached" % w)
    ctx.note("vacuity_witnesses_reached", len(WITNESSES))

    insts = [P.instance_of(s) for s in done_states(states)]
    del states
    ctx.note("instances_exhaustive", len(insts))
    if not insts:
        raise tlc.MachineryError("TLC produced no instance")
    for n, inst in enumerate(insts):
        ok = tally.add(ctx, inst)
        if ok and is_nontrivial(inst) and n % 1500 == 7:
            ctx.sample({k: inst[k] for k in ("ring", "dc", "rack", "strat", "byKey")})

    if ctx.quick:                # the thorough tier's exhaustive domain and random instances contain these layouts already
        rconsts = consts_for(ctx, "racks3")
        rcfg = tlc.write_cfg(os.path.join(ctx.scratch, "PlacementRacks3.cfg"), constants=rconsts, invariants=INVARIANTS, deadlock=False)
        rres, rstates = tlc.enumerate_states("Placement", rcfg, ctx.scratch, coverage=False, timeout=300)
        ctx.add_tlc(rres, "exhaustive:racks3")
        if rres.violation:
            ctx.violation("TLC: invariant %s violated in Placement.tla (three-rack family)" % rres.invariant,
                          replay={"trace": [s for _, s in rres.trace()]}, signature="spec:" + str(rres.invariant))
            return
        rinsts = [P.instance_of(s) for s in done_states(rstates)]
        del rstates
        ctx.note("instances_racks3", len(rinsts))
        for inst in rinsts:
            if len(set(inst["rack"])) >= 3:          # the two-rack layouts are in the family above
                tally.add(ctx, inst)

    # ---------------------------------------------------------------- histories: settings altered, hosts moved
    aconsts = consts_for(ctx, "alter")
    acfg = tlc.write_cfg(os.path.join(ctx.scratch, "PlacementHist.cfg"), constants=aconsts, invariants=INVARIANTS, deadlock=False)
    ares, astates = tlc.enumerate_states("Placement", acfg, ctx.scratch, coverage=True, timeout=300 if ctx.quick else 1500)
    ctx.add_tlc(ares, "exhaustive:histories")
    if ares.violation:
        ctx.violation("TLC: invariant %s violated in Placement.tla (AlterReplication / MoveHost)" % ares.invariant,
                      replay={"trace": [s for _, s in ares.trace()]}, signature="spec:" + str(ares.invariant))
        return
    for a in ("AlterReplication", "MoveHost"):
        if ares.coverage().get(a, (0, 0))[1] == 0:
            raise tlc.MachineryError("action %s never taken" % a)
    static = {}
    histories, moves, explicit_zero = [], [], []
    for st in done_states(astates):
        inst = P.instance_of(st)
        if inst.get("log"):
            moves.append(inst)
        elif inst.get("hist"):
            histories.append(inst)
        else:
            static[(tuple(inst["ring"]), tuple(inst["dc"]), tuple(inst["rack"]), repr(inst["strat"]))] = inst
            if inst["strat"].get("zero") == "explicit":        # a datacenter listed with rf '0' (not enumerated above in quick)
                explicit_zero.append(inst)
    del astates
    ctx.note("constants_histories", {k: (sorted(v) if isinstance(v, set) else v) for k, v in aconsts.items()})
    ctx.note("altered_histories", len(histories))
    ctx.note("move_histories_enumerated", len(moves))
    if not histories or not moves:
        raise tlc.MachineryError("TLC produced no history with altered replication settings / moved hosts")
    kinds = {(h["hist"][-2]["kind"], h["hist"][-1]["kind"]) for h in histories}
    if kinds != {("Simple", "Simple"), ("Simple", "NTS"), ("NTS", "Simple"), ("NTS", "NTS")}:
        raise tlc.MachineryError("alterations enumerated do not cover all strategy changes: %s" % sorted(kinds))
    ctx.note("explicit_rf0_instances", len(explicit_zero))
    if not any(any(rf == 0 and (d + 1) in i["dc"] for d, rf in enumerate(i["strat"]["rfs"])) for i in explicit_zero):
        raise tlc.MachineryError("no instance lists rf 0 for a datacenter that has hosts")
    for inst in explicit_zero:
        tally.add(ctx, inst)
    for n, inst in enumerate(histories):
        ok = tally.add(ctx, inst)
        if ok and n % 700 == 3:
            ctx.sample({k: inst[k] for k in ("ring", "dc", "rack", "hist", "byKey")})
    # self-test: the expectation of the settings BEFORE the last alteration must be rejected where it differs
    stale = next((h for h in histories if len(h["hist"]) == 2 and h["hist"][0]["kind"] == "Simple" and h["hist"][1]["kind"] == "Simple"
                  and h["hist"][0]["rf"] < h["hist"][1]["rf"] <= len(h["dc"])), None)
    if stale is None:
        raise tlc.MachineryError("no Simple->Simple history for the self-test")
    swapped = dict(stale, hist=[stale["hist"][1], stale["hist"][0]], strat=stale["hist"][0])
    if P.evaluate(swapped) == P.evaluate(stale):
        raise tlc.MachineryError("binding self-test failed: order of replication settings does not influence the verdict")

    # host moves, bound on a real Cluster whose node list is refreshed by the real control connection: all histories
    # in which the (single) move changes some replica set, a quarter (quick) / all (thorough) of the others
    def changes(inst):
        if len(inst["log"]) != 1:
            return True
        before = static.get((tuple(inst["ring"]), tuple(inst["dc0"]), tuple(inst["rack0"]), repr(inst["hist"][0])))
        return before is None or before["byKey"] != inst["byKey"]
    moves.sort(key=lambda m: (m["ring"], m["dc0"], m["rack0"], repr(m["hist"]), repr(m["log"])))
    budget = 1500 if ctx.quick else 12000
    chosen = [m for m in moves if changes(m)]
    rest = [m for m in moves if not changes(m)]
    step = 4 if ctx.quick else 1
    chosen = (chosen + rest[::step])[:budget] if len(chosen) <= budget else chosen[::(len(chosen) // budget + 1)]
    ctx.note("move_histories_bound", len(chosen))
    changed_clean = []
    for n, inst in enumerate(chosen):
        ok = tally.add(ctx, inst)
        if ok and changes(inst) and len(inst["log"]) == 1 and len(changed_clean) < 12:
            changed_clean.append(inst)
        if ok and n % 500 == 7:
            ctx.sample({k: inst[k] for k in ("ring", "dc0", "rack0", "hist", "log", "byKey")})
    # self-test: without the move the same expectations must be rejected
    if changed_clean:
        if not any(P.evaluate_history(dict(c, log=[])) for c in changed_clean):
            raise tlc.MachineryError("binding self-test failed: dropping the host move never influences the verdict")
        selftest_move = 1
    else:
        selftest_move = 0                    # (possible only when the driver under test fails every such history)

    # ---------------------------------------------------------------- binding self-test
    selftest = {"corrupted_rejected": 0, "dropped_rejected": selftest_move}
    probe = next(i for i in insts if len(i["ring"]) >= 3 and len(set(i["ring"])) >= 2 and i["strat"]["kind"] == "Simple"
                 and i["strat"]["rf"] == 1)
    bad1 = dict(probe, byKey=[sorted(set(x) | {h for h in probe["ring"]}) for x in probe["byKey"]])
    bad2 = dict(probe, ring=probe["ring"][1:] + probe["ring"][:1])
    verdict = P.evaluate(probe)            # (non-empty only when the driver under test is broken)
    for b in (bad1, bad2):
        if P.evaluate(b) == verdict:
            raise tlc.MachineryError("binding self-test failed: corrupted instance not detected: %r" % (b,))
        selftest["corrupted_rejected"] += 1
    ctx.note("binding_selftest", selftest)

    # ---------------------------------------------------------------- thorough: TLC-generated random instances
    if not ctx.quick:
        sconsts = consts_for(ctx, "simulate")
        scfg = tlc.write_cfg(os.path.join(ctx.scratch, "PlacementSim.cfg"), constants=sconsts, invariants=INVARIANTS,
                             deadlock=False)
        total = 0
        for rnd in range(3):
            sres, behs = tlc.simulate("Placement", scfg, ctx.scratch, num=5000, depth=10,
                                      seed=ctx.seed * 4 + rnd + 1, timeout=600)
            if sres.violation:
                ctx.violation("TLC (simulation): invariant %s violated in Placement.tla" % sres.invariant,
                              replay={"trace": [s for _, s in sres.trace()]}, signature="spec:" + str(sres.invariant))
                return
            for b in behs:
                if b[-1]["phase"] != "done":
                    continue
                total += 1
                tally.add(ctx, P.instance_of(b[-1]))
        ctx.note("simulate_behaviours", total)
        ctx.note("simulate_constants", {k: (sorted(v) if isinstance(v, set) else v) for k, v in sconsts.items()})
        if total < 1000:
            raise tlc.MachineryError("simulation produced only %d instances" % total)

    tally.report(ctx)
    ctx.assumptions += ["ByteOrderedPartitioner tokens/keys (placement does not depend on the hash function)",
                        "every host owns at least one token; datacenter and rack known for every host",
                        "rf 0 for a datacenter = datacenter absent from the NTS options; transient replication excluded",
                        "replicas compared as sets plus absence of repetition (order not part of the property)"]


def replay(ctx, obj):
    inst = obj["instance"]
    bad = P.evaluate_history(inst) if inst.get("log") else P.evaluate(inst)
    print("instance: ring owners %s dc %s rack %s %s %s" % (inst["ring"], inst["dc"], inst["rack"], inst["strat"], inst.get("log") or inst.get("hist") or ""))
    for b in bad:
        print("  key position %s: spec %s, code %s (%s)" % (b["key"], b["spec"], b["code"], b["why"]))
    if bad:
        ctx.violation("replayed: " + describe(inst, bad), replay=obj, signature=signature_of(inst, bad))
    else:
        print("  no mismatch")
