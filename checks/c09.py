"""C09 - multiplexed requests never receive another request's response (spec/Connection.tla)."""
from checks import _conn, _driver

META = {
    "property_id": "C09",
    "engine": "Connection",
    "technique": "TLA+ spec of stream-id multiplexing checked exhaustively by TLC; every edge of the state graph replayed into the real Connection/HostConnection/ResponseFuture (DetSched), plus recorded random runs validated against the spec",
    "level": "model_checking",
    "level_text": "TLC visits every interleaving of borrow / send / respond (in any order, late included) / client timeout / "
                  "socket error / close for 3 requests on a 3-id connection (thorough: 4 requests, 4 ids) and checks id "
                  "uniqueness, no cross-talk, the id bound, exact in-flight accounting and full recycling at quiescence. "
                  "Every edge of that state graph is replayed on the real objects with the projected state compared after "
                  "each step; random executions with more requests are recorded and validated by TLC (Trace_Connection) "
                  "with all invariants on.",
    "level_note": "Trusted: TLC; the SimConnection/FakeNode doubles (reactor contract, independent codec); the atomicity "
                  "assumption that loop-thread callbacks do not interleave with each other; small scope (ids<=4, requests<=5).",
    "design_ref": "5.2 C09",
}
META["level_text"] += _driver.SYSTEM_LEVEL_TEXT


def run(ctx):
    _conn.run(ctx, "C09")
    _driver.system_tier(ctx, "C09")     # thorough: whole-driver runs against spec/Driver.tla, rejections owned by C09


def replay(ctx, obj):
    if _driver.is_system_replay(obj):
        return _driver.replay_system(ctx, obj)
    _conn.replay(ctx, "C09", obj)
