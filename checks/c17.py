"""C17 - hosts are tried in query-plan order and exhaustion is reported (spec/Request.tla)."""
from checks import _request, _driver

META = {
    "property_id": "C17",
    "engine": "Request",
    "technique": 'TLA+ spec of send_request/_query over all pool-condition vectors checked by TLC; every graph edge replayed on a real Session whose pools are put into those conditions; recorded random runs validated against the spec',
    "level": "model_checking",
    "level_text": "TLC enumerates all 5^3 (thorough 5^4) vectors of per-host pool conditions (missing, shut down, busy, failing, healthy) x explicit target host x speculative executions x retry decisions and checks plan order, a host tried twice only after a RETRY naming it, an error entry of the right class for every skipped host, NoHostAvailable only with the plan exhausted and its errors covering every skipped/failed host, explicit host => only that host. Every edge is replayed on real HostConnection pools put into those conditions (pool entry removed, pool.shutdown(), connection at capacity so that borrow_connection times out under virtual time, connection closed behind the pool's back); attempted_hosts, _errors classes, NoHostAvailable.errors, the remaining plan and the hosts that received messages are compared after each step.",
    "level_note": "Trusted: TLC; the SimConnection/FakeNode/SimExecutor doubles and the independent codec; atomicity of "
                  "loop-thread callbacks, of execute_async/start_fetching_next_page and of each _retry_task; small scope "
                  "(one future, <=4 hosts, <=2 speculative executions, <=2-3 retries, <=2 pages; next page only when no "
                  "attempt of the previous page is outstanding). Where the pinned code deviates the spec keeps the intended "
                  "behaviour and the replay / trace validation reports the deviation.",
    "design_ref": "5.3 C17",
}
META["level_text"] += _driver.SYSTEM_LEVEL_TEXT


def run(ctx):
    _request.run(ctx, "C17")
    _driver.system_tier(ctx, "C17")     # thorough: whole-driver runs against spec/Driver.tla, rejections owned by C17


def replay(ctx, obj):
    if _driver.is_system_replay(obj):
        return _driver.replay_system(ctx, obj)
    _request.replay(ctx, "C17", obj)
