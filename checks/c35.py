"""C35 - cqlengine persists exactly the model state (spec/MapperRow.tla).

Spec : MapperRow.tla - an abstract table (one partition, two clustering keys; columns: two scalars, one of them stored
       under another name, a static column, set<int>, list<int>, map<int,int>; a separate counter table) and the one
       mapper instance the application holds.  Actions = mapper operations (create, load, attribute changes + save /
       update, save under another key, instance delete, queryset update incl. __add / __remove / __append / __prepend /
       __update / None / empty collections, queryset delete of row / partition, if_not_exists / if_exists / iff, batches
       of those, counter increments / decrements).  The state after an action is what the DOCUMENTATION promises.
TLC  : explores every operation sequence up to MaxSteps from four initial histories, checks TypeOK, SaveKeepsSync (an
       instance that agreed with its row agrees with it after change + save) and RefusedChangesNothing (both evaluated by
       the step on (state, successor) and carried in the history variable `sane`), and dumps the state graph.
Bind : EVERY PATH of the graph (every operation sequence; nothing behind a diverging step) is replayed on the real model
       classes: each operation is run through the public API against the recording session; the CQL it emits is EXECUTED by
       harness/replay/cql_interp.py (Cassandra's cell semantics for exactly the emitted subset); afterwards the
       interpreter's table must equal the spec's `db`, the instance's attributes the spec's inst.cur, LWTException must
       be raised exactly when the spec refuses, and whenever the spec says instance and row agree a fresh read of the
       row through the query set must give the instance's attributes.
"""
import collections
import os

from harness import tlc

META = {
    "property_id": "C35",
    "engine": "MapperRow",
    "technique": "TLA+ model of the documented row semantics of mapper operations; TLC explores all bounded operation histories; every "
                 "graph edge is replayed on real cqlengine models, the emitted CQL is executed by an in-memory interpreter and rows + "
                 "instance + read-back compared with the spec state",
    "level": "model_checking",
    "level_text": "TLC exhaustively explores all histories of up to 2 (quick; thorough: 2 with the wide alphabet and 3 with the narrow "
                  "one) operations from four initial histories (empty table; created instance with collections; loaded instance with "
                  "static column; row made by a blind update) over an alphabet of 84 / 231 operations, small value domains (values 1..2, "
                  "lists up to 3).  Each reachable edge is executed on the real mapper and decided by comparing the interpreter's "
                  "table, the instance and a fresh read with the specification; coverage of edges is reported (edges behind a "
                  "diverging edge cannot be replayed).",
    "level_note": "TRUSTED BASE: harness/replay/cql_interp.py - Cassandra's semantics for the emitted CQL subset (row markers, null = "
                  "deleted cell, collection operators, static-column and primary-key rules, LWT conditions) are written there by hand, "
                  "not taken from a server; TTL / timestamps are ignored and a batch is applied member by member (batches whose members "
                  "write the same cell are not generated).  The transcription of the documentation into MapperRow.tla is trusted.  "
                  "Instance saves of a changed collection are only generated while the row still holds what the instance read (the "
                  "documentation does not define the other case).  Collection elements are timestamps (Set / List of DateTime, Map of "
                  "Integer -> DateTime: database form differs from Python form); Date / Time / Decimal / UUID elements are not "
                  "modelled.  Values read back are plain set / list / dict, not the driver's SortedSet / OrderedMap.  In the thorough tier the depth-3 graph is replayed by seeded random walks (coverage reported), "
                  "the depth-2 graphs completely.  Vacuity witnesses: on the graph in both tiers, by TLC in the thorough tier.",
    "design_ref": "5.6 C37 / C35 / C38",
}

ROW_WITNESSES = ["Witness_SyncedAtTheEnd", "Witness_Refused", "Witness_RowWithoutMarker", "Witness_StaticSeenByOtherRow"]
COUNTER_WITNESSES = ["Witness_SyncedAtTheEnd", "Witness_CounterBelowZero"]
DB_NAMES = {"aa": "a", "b": "b", "st": "st", "s": "s", "l": "l", "m": "m", "n": "n"}


def _const(mode, steps, wide, batch):
    return {"Mode": '"%s"' % mode, "MaxSteps": steps, "MaxList": 3, "Wide": wide, "MaxBatch": batch}


def witnesses_on(mode, M, node, max_steps):
    spec = M.RowHarness.spec_projection(mode, node)
    got = set()
    if node["steps"] == max_steps and M.RowHarness.in_sync(mode, spec):
        got.add("Witness_SyncedAtTheEnd")
    if mode == "counter":
        if node["db"]["live"] and node["db"]["v"] < 0:
            got.add("Witness_CounterBelowZero")
        return got
    if not node["ok"]:
        got.add("Witness_Refused")
    rows = spec["db"]["rows"]
    vis = [bool(r["mk"] or r["a"] or r["b"] or r["s"] or r["l"] or any(r["m"])) for r in rows]
    if any(v and not r["mk"] for v, r in zip(vis, rows)):
        got.add("Witness_RowWithoutMarker")
    inst = spec["inst"]
    if inst["has"] and spec["db"]["st"] and any(v for i, v in enumerate(vis, 1) if i != inst["ck"]):
        got.add("Witness_StaticSeenByOtherRow")
    return got


# ------------------------------------------------------------------ one edge

def _parsed(M, statements):
    out = []
    for text, _ in statements:
        try:
            out += M.CI.parse(text)["statements"]
        except Exception:            # noqa
            pass
    return out


def _columns_of(st):
    if st["kind"] == "update":
        return set(DB_NAMES.get(a["col"], a["col"]) for a in st["assignments"])
    if st["kind"] == "insert":
        return set(DB_NAMES.get(c, c) for c in st["columns"])
    if st["kind"] == "delete":
        return set(DB_NAMES.get(t["col"], t["col"]) for t in st["targets"]) if st["targets"] else {"*"}
    return set()


def touched_columns(M, statements):
    """Spec field names the emitted statements write ("*" = a whole row / partition)."""
    cols = set()
    for st in _parsed(M, statements):
        cols |= _columns_of(st)
    return cols


def _norm_invalid(msg):
    msg = msg.split(":")[0]
    for word in (" ck", " k", " aa", " a"):
        if msg.endswith(word):
            msg = msg[:-len(word)]
    return "-".join(msg.lower().split()[:9])


def classify(M, mode, op, pre, post, code, out, ok, readback, statements):
    """None when the edge conforms, else (signature, what)."""
    name = op["name"]
    if out.invalid:
        return "invalid-cql:%s" % _norm_invalid(out.invalid), "Cassandra refuses the emitted CQL: %s" % out.invalid
    if out.raised:
        return "%s:raised:%s" % (name, out.raised.split(":")[0]), "the mapper raised %s" % out.raised
    if out.refused != (not ok):
        what = "LWTException raised although the condition holds" if out.refused else "no LWTException although the condition fails"
        return "%s:%s" % (name, "refused-unexpectedly" if out.refused else "applied-unexpectedly"), what
    diffs = M.diff_projection(post, code)
    if diffs:
        what = "after the operation the specification says %s, the real objects give %s (differs at %s)" % (
            _pick(post, diffs), _pick(code, diffs), ", ".join(diffs))
        db = [d for d in diffs if d.startswith("db")]
        if not db:
            return "%s:instance-differs" % name, what
        if mode == "counter":
            return "%s:counter-differs" % name, what
        fields = sorted(set(d.split(".")[-1] for d in db))
        if name == "qsupdate":
            fo = {"s__add": "s", "s__remove": "s", "l__append": "l", "l__prepend": "l", "m__update": "m", "m__remove": "m"}
            kws = [k["kw"] for k in op["sets"] if fo.get(k["kw"], k["kw"]) in fields] or [k["kw"] for k in op["sets"]]
            empty = [k["kw"] for k in op["sets"] if k["kw"] in kws and k["kw"] in ("m__update", "m__remove") and not any(k["x"])]
            if empty:
                return "qsupdate:map-operation-without-keys:row-differs", what
            return "qsupdate:%s:row-differs" % "+".join(sorted(kws)), what
        if name in ("isave", "batch", "isaveas", "create"):
            touched = touched_columns(M, statements)
            if name == "batch":
                # the members of a generated batch write disjoint cells: a column written by two statements means that
                # a save wrote a column its instance had not modified
                per = [(_columns_of(st), st["kind"]) for st in _parsed(M, statements)]
                twice = [c for p, _ in per for c in p if c not in ("*", "k", "ck") and
                         len(set(k for q, k in per if c in q)) > 1]
                if twice and all(f in twice for f in fields):
                    cls = "+".join(sorted(set({"a": "scalar", "b": "scalar", "st": "static"}.get(f, "collection") for f in fields)))
                    kinds = set(k for q, k in per for f in fields if f in q)
                    return ("save:unmodified-column-deleted" if "delete" in kinds else "save:unmodified-column-assigned:%s" % cls), what
            changed = set(d.split(".")[-1] for d in M.diff_projection(pre["db"], post["db"], "db."))
            cls = "+".join(sorted(set({"a": "scalar", "b": "scalar", "st": "static", "mk": "marker"}.get(f, "collection") for f in fields)))
            extra = [f for f in fields if f not in changed and (f in touched or "*" in touched)]
            if extra:
                deleted = set()
                for st in _parsed(M, statements):
                    if st["kind"] == "delete":
                        deleted |= _columns_of(st)
                if all(f in deleted for f in extra):
                    return "save:unmodified-column-deleted", what
                return "save:unmodified-column-assigned:%s" % cls, what
            if any(f in changed and f not in touched and "*" not in touched for f in fields):
                return "save:modified-column-not-written:%s" % cls, what
            if name in ("isave", "batch"):
                return "save:wrong-value:%s" % "+".join(fields), what
            return "%s:wrong-value:%s" % (name, "+".join(fields)), what
        return "%s:row-differs:%s" % (name, "+".join(fields)), what
    if readback:
        return "%s:read-back-differs" % name, "a fresh read of the instance's row differs from the instance: %s" % readback
    return None


def _pick(proj, paths):
    out = {}
    for p in paths:
        cur = proj
        try:
            for part in p.split("."):
                cur = cur[int(part) - 1] if isinstance(cur, list) else cur[part]
        except (KeyError, IndexError, ValueError):
            cur = "<absent>"
        out[p] = sorted(cur) if isinstance(cur, frozenset) else cur
    return out


class Replayer(object):
    def __init__(self, M, mode, nodes, edges, init, ops, inits):
        self.M, self.mode, self.nodes, self.ops, self.inits, self.init = M, mode, nodes, ops, inits, init
        self.h = M.RowHarness(mode)
        self.succ = collections.defaultdict(list)
        for s, d, lab in edges:
            self.succ[s].append((d, int(lab[lab.index("(") + 1:lab.index(")")])))
        self.edges_total = len(edges)
        self.corrupt = None            # self-test hook: fn(post projection) -> projection

    def close(self):
        self.h.close()

    def setup(self, origin):
        h = self.h
        h.reset()
        for op in self.inits[origin - 1]:
            out = h.apply(op)
            if out.invalid or out.raised or out.refused:
                return out
        return None

    def run_path(self, start, path, skip=None):
        """Execute the initial history of `start` and the operations `path` (list of (dst node id, op index));
        compare after the LAST operation only (the prefix was compared when it was the last).
        -> None | (signature, what, statements)"""
        M, h, mode = self.M, self.h, self.mode
        node = self.nodes[start]
        bad = self.setup(node["origin"])
        if bad is not None:
            return ("setup:%s" % ("invalid-cql" if bad.invalid else "raised"), "initial history failed: %r" % bad, h.statements())
        if not path:
            d = M.diff_projection(M.RowHarness.spec_projection(mode, node), h.project())
            return ("setup:state-differs", "initial history gives another state: %s" % d, []) if d else None
        pre = node
        for n, (dst, oi) in enumerate(path):
            last = n == len(path) - 1
            if skip is not None and n == skip:
                out = M.Outcome()
                h.session.executed = []
            else:
                out = h.apply(self.ops[oi - 1])
            post = self.nodes[dst]
            if last:
                spec_post = M.RowHarness.spec_projection(mode, post)
                if self.corrupt:
                    spec_post = self.corrupt(spec_post)
                code = h.project()
                stmts = h.statements()
                rb = None
                if not M.diff_projection(spec_post, code) and M.RowHarness.in_sync(mode, spec_post):
                    rb = h.readback()
                r = classify(M, mode, self.ops[oi - 1], M.RowHarness.spec_projection(mode, pre), spec_post, code, out,
                             post["ok"], rb, stmts)
                return None if r is None else (r[0], r[1], stmts)
            pre = post
        return None

    def all_paths(self, on_edge):
        """Every operation sequence of the graph (every path from an initial state, not just every edge: two histories
        that reach the same specification state may leave the real instance in different internal states) is
        replayed; nothing is replayed behind a diverging step.    on_edge(start, path, result)
        -> (paths replayed, edges covered)"""
        covered = set()
        replayed = 0
        stack = []
        for i in self.init:
            r = self.run_path(i, [])
            on_edge(i, [], r)
            if r is None:
                stack.append((i, i, []))
        while stack:
            start, u, path = stack.pop()
            for (v, oi) in self.succ.get(u, ()):
                p = path + [(v, oi)]
                r = self.run_path(start, p)
                replayed += 1
                covered.add((u, v, oi))
                on_edge(start, p, r)
                if r is None and self.succ.get(v):
                    stack.append((start, v, p))
        return replayed, len(covered)

    def random_walks(self, rng, count, on_edge):
        """Seeded random maximal walks; every prefix of a walk is compared (run_path compares the last step, so the
        walk is executed prefix by prefix only when a prefix was not seen before)."""
        seen = {}
        walked = 0
        for _ in range(count):
            start = rng.choice(self.init)
            path = []
            u = start
            while self.succ.get(u):
                v, oi = rng.choice(self.succ[u])
                path = path + [(v, oi)]
                key = (start, tuple(path))
                if key not in seen:
                    r = self.run_path(start, path)
                    seen[key] = r is None
                    walked += 1
                    on_edge(start, path, r)
                if not seen[key]:
                    break                       # nothing behind a diverging edge can be compared
                u = v
        return walked, len(set((p[-2][0] if len(p) > 1 else s, p[-1]) for s, p in seen))


# ------------------------------------------------------------------ the check

def explore(ctx, M, mode, steps, wide, batch, label, by_signature, full=True, walks=0):
    consts = _const(mode, steps, wide, batch)
    nxt = "NextCounter" if mode == "counter" else ("Next" if wide else "NextNarrow")
    cfg = tlc.write_cfg(os.path.join(ctx.scratch, "row_%s_%s.cfg" % (mode, label)), constants=consts, next=nxt,
                        invariants=["TypeOK", "SaveKeepsSync", "RefusedChangesNothing"], deadlock=False)
    res, nodes, edges, init = tlc.state_graph("MapperRow", cfg, ctx.scratch, timeout=3000, workers=8)
    ctx.add_tlc(res, "%s, %s" % (mode, label))
    if res.violation:
        ctx.violation("TLC: %s violated on MapperRow.tla (%s, %s): the documented semantics contradict themselves"
                      % (res.invariant, mode, label), replay={"trace": [dict(s) for _, s in res.trace()]},
                      signature="spec:%s" % res.invariant)
        return None
    printed_ops, printed_inits = res.printed("OPS"), res.printed("INITS")
    if not printed_ops or not printed_inits:
        raise tlc.MachineryError("TLC did not print the operation alphabet")
    ops, inits = printed_ops[0][1], printed_inits[0][1]
    elems = res.printed("ELEMS")
    if not elems or dict(elems[0][1]) != M.ELEMS:
        raise tlc.MachineryError("the harness models other collection element types (%s) than the specification (%s)" % (M.ELEMS, elems))
    if len(ops) > {"NextCounter": 16, "NextNarrow": 96, "Next": 320}[nxt]:
        raise tlc.MachineryError("the alphabet has %d operations, %s covers fewer" % (len(ops), nxt))
    taken = set(int(lab[lab.index("(") + 1:lab.index(")")]) for _, _, lab in edges)
    never = [i for i in range(1, len(ops) + 1) if i not in taken]
    if never:
        raise tlc.MachineryError("vacuity: operations never enabled in the %s graph (%s): %s" % (mode, label, [dict(ops[i - 1]) for i in never][:5]))
    if mode == "row":
        # a single save whose list grew at both ends, by different values (one clause with two placeholders)
        both = 0
        for sid, did, lab in edges:
            op = ops[int(lab[lab.index("(") + 1:lab.index(")")]) - 1]
            if op["name"] != "isave":
                continue
            pre, post = tuple(nodes[sid]["inst"]["cur"]["l"]), tuple(nodes[did]["inst"]["cur"]["l"])
            for i in range(1, len(post) - len(pre)):
                if pre and post[i:i + len(pre)] == pre and post[:i] != post[i + len(pre):] and nodes[did]["db"] != nodes[sid]["db"]:
                    both += 1
        # a save of a set / map that keeps some elements and changes others (the difference is what is sent)
        partial = 0
        for sid, did, lab in edges:
            op = ops[int(lab[lab.index("(") + 1:lab.index(")")]) - 1]
            if op["name"] == "isave":
                pre, post = frozenset(nodes[sid]["inst"]["cur"]["s"]), frozenset(nodes[did]["inst"]["cur"]["s"])
                partial += bool(pre & post and pre != post)
        if not both or not partial:
            raise tlc.MachineryError("vacuity: no save of a list that grew at both ends by different values / of a set that "
                                     "kept some of its elements (%s)" % label)
        ctx.note("saves_of_partly_changed_sets_%s" % label.split(",")[0].replace(" ", "_"), partial)
        ctx.note("saves_of_lists_grown_at_both_ends_%s" % label.split(",")[0].replace(" ", "_"), both)
    wanted = ROW_WITNESSES if mode == "row" else COUNTER_WITNESSES
    seen = set()
    for nd in nodes.values():
        seen |= witnesses_on(mode, M, nd, steps)
    if [w for w in wanted if w not in seen]:
        raise tlc.MachineryError("vacuity: %s not reached in the %s graph (%s)" % ([w for w in wanted if w not in seen], mode, label))
    if not ctx.quick and full:
        for w in wanted:
            wcfg = tlc.write_cfg(os.path.join(ctx.scratch, "%s_%s_%s.cfg" % (w, mode, label)), constants=consts, next=nxt,
                                 invariants=[w], deadlock=False)
            wres = tlc.check_model("MapperRow", wcfg, ctx.scratch, timeout=3000, workers=8)
            if wres.invariant != w:
                raise tlc.MachineryError("vacuity witness %s was not reached (%s, %s)" % (w, mode, label))
        ctx.count("vacuity_witnesses_reached_by_tlc", len(wanted))

    rp = Replayer(M, mode, nodes, edges, init, ops, inits)
    stats = {"clean": 0, "diverged": 0}
    sample_every = max(1, len(edges) // 3)

    def on_edge(start, path, r):
        if r is None:
            stats["clean"] += 1
            if path:
                ctx.nontrivial((mode, label, start, tuple(oi for _, oi in path)))
            if path and (stats["clean"] % sample_every) == 1:
                ctx.sample({"mode": mode, "history": [_brief(o) for o in inits[nodes[start]["origin"] - 1]] + [_brief(ops[oi - 1]) for _, oi in path],
                            "last_statements": rp.h.statements(), "table": _jsonable(rp.h.project()["db"])}, limit=6)
            return
        stats["diverged"] += 1
        sig, what, stmts = r
        by_signature[sig] = by_signature.get(sig, 0) + 1
        if by_signature[sig] == 1:
            hist = [_brief(o) for o in inits[nodes[start]["origin"] - 1]] + [_brief(ops[oi - 1]) for _, oi in path]
            ctx.violation("%s | history: %s | statements of the last operation: %s" % (what, hist, stmts),
                          replay={"mode": mode, "consts": consts, "origin": nodes[start]["origin"],
                                  "ops": [ops[oi - 1] for _, oi in path], "signature": sig},
                          signature=sig)
    try:
        if full:
            replayed, covered = rp.all_paths(on_edge)
            cov = {"edges": len(edges), "edges_covered": covered, "paths_replayed": replayed,
                   "edges_conforming": stats["clean"] - len(init), "nodes": len(nodes)}
        else:
            walked, covered = rp.random_walks(ctx.rng, walks, on_edge)
            cov = {"edges": len(edges), "walk_prefixes_replayed": walked, "edges_covered_by_walks": covered,
                   "edges_conforming": stats["clean"], "nodes": len(nodes)}
        cov["operations_executed"] = rp.h.ops_run
        cov["alphabet"] = len(ops)
        ctx.traces_validated += max(cov["edges_conforming"], 0)
        ctx.note("coverage_%s_%s" % (mode, label), cov)
        if full and not stats["diverged"] and cov["edges_covered"] != len(set(edges)):
            raise tlc.MachineryError("no divergence, but only %d of %d edges were replayed" % (cov["edges_covered"], len(set(edges))))
        return rp, nodes, edges, init, ops, inits
    except Exception:
        rp.close()
        raise


def run(ctx):
    from harness.replay import mapper as M
    by_signature = {}
    keep = []
    try:
        if ctx.quick:
            plan = [("row", 2, False, 2, "narrow alphabet, 2 operations", True, 0),
                    ("counter", 3, False, 2, "3 operations", True, 0)]
        else:
            plan = [("row", 2, True, 3, "wide alphabet, 2 operations", True, 0),
                    ("row", 3, False, 2, "narrow alphabet, 3 operations", False, 20000),
                    ("counter", 4, False, 2, "4 operations", True, 0)]
        for mode, steps, wide, batch, label, full, walks in plan:
            got = explore(ctx, M, mode, steps, wide, batch, label, by_signature, full=full, walks=walks)
            if got is None:
                return
            keep.append((mode, got))
        ctx.note("exhaustive", True)
        ctx.note("diverging_edges_by_signature", by_signature)
        ctx.evaluations = sum(g[0].h.ops_run for _, g in keep)
        selftest(ctx, M, keep[0][1])
    finally:
        for _, g in keep:
            g[0].close()
    ctx.assumptions += [
        "the CQL interpreter harness/replay/cql_interp.py is Cassandra for the emitted subset (trusted base)",
        "statements observed at session.execute of a recording session registered via register_connection(session=...)",
        "a batch is given its connection explicitly; an instance created inside a batch is detached from it afterwards (instance.batch(None))",
        "instance saves of changed collections only while the row holds what the instance read; batches without conflicting members",
        "list prepend keeps the given order (Cassandra >= 2.1 semantics)",
    ]


def selftest(ctx, M, got):
    """Binding self-test: a corrupted expectation, a dropped operation and a lossy interpreter must all be noticed."""
    rp, nodes, edges, init, ops, inits = got
    # a conforming path of two operations whose last one writes something
    target = None
    for s, d, lab in edges:
        if s in init:
            continue
        oi = int(lab[lab.index("(") + 1:lab.index(")")])
        if nodes[s]["db"] == nodes[d]["db"] or ops[oi - 1]["name"] not in ("isave", "qsupdate"):
            continue
        for i in init:
            for (v, oj) in rp.succ.get(i, ()):
                if v == s and rp.run_path(i, [(s, oj), (d, oi)]) is None:
                    target = (i, [(s, oj), (d, oi)])
                    break
            if target:
                break
        if target:
            break
    if target is None:
        raise tlc.MachineryError("binding self-test: no conforming two-step path found")
    start, path = target
    rejected = 0

    def flip(proj):
        proj = dict(proj)
        db = dict(proj["db"])
        if rp.mode == "row":
            rows = [dict(r) for r in db["rows"]]
            rows[0]["b"] = 2 if rows[0]["b"] != 2 else 1
            db["rows"] = rows
        else:
            db["v"] = db["v"] + 1
        proj["db"] = db
        return proj
    rp.corrupt = flip
    rejected += rp.run_path(start, path) is not None
    rp.corrupt = None
    rejected += rp.run_path(start, path, skip=len(path) - 1) is not None      # the last operation is not executed
    real = rp.h.session.handler

    def lossy(text, params):
        if text.lstrip().upper().startswith(("UPDATE", "DELETE", "BEGIN")):
            return []
        return real(text, params)
    rp.h.session.handler = lossy
    try:
        rejected += rp.run_path(start, path) is not None
    finally:
        rp.h.session.handler = real
    if rejected != 3:
        raise tlc.MachineryError("binding self-test failed: %d of 3 corruptions detected" % rejected)
    ctx.note("binding_selftest", {"corrupted_rejected": rejected})


def _brief(op):
    op = dict(op)
    n = op["name"]
    if n == "create":
        return "create(ck=%s%s%s)" % (op["ck"], "".join(", %s=%s" % (f, _v(op["vals"][f])) for f in ("a", "b", "st", "s", "l", "m") if f in op["has"]),
                                      ", if_not_exists" if op["lwt"] else "")
    if n == "load":
        return "load(ck=%s)" % op["ck"]
    if n == "isave":
        return "inst[%s].%s()" % ("; ".join("%s %s %s" % (m["f"], m["op"], _v(m["x"])) for m in op["muts"]), op["how"])
    if n == "qsupdate":
        return "objects(ck=%s)%s.update(%s)" % (op["ck"] or "*", {"none": "", "ifexists": ".if_exists()", "iff_a1": ".iff(a=1)"}[op["lwt"]],
                                                ", ".join("%s=%s" % (k["kw"], "None" if k["none"] else _v(k["x"])) for k in op["sets"]))
    if n == "qsdelete":
        return "objects(ck=%s)%s.delete()" % (op["ck"] or "*", ".if_exists()" if op["lwt"] == "ifexists" else "")
    if n == "batch":
        return "batch[%s]" % ", ".join(_brief(m) for m in op["members"])
    if n in ("cqs", "ccreate", "cisave"):
        return "%s(%s%s)" % (n, op["d"], ", " + op["how"] if "how" in op else "")
    if n == "cbatch":
        return "cbatch%s" % (list(op["ds"]),)
    return n


def _v(x):
    if isinstance(x, frozenset):
        return sorted(x)
    if isinstance(x, tuple):
        return list(x)
    return x


def _jsonable(x):
    if isinstance(x, dict):
        return {k: _jsonable(v) for k, v in x.items()}
    if isinstance(x, (list, tuple)):
        return [_jsonable(v) for v in x]
    if isinstance(x, (set, frozenset)):
        return sorted(x)
    return x


def _thaw(x):
    """JSON replay objects -> the shapes the harness expects (sets for `has`, `x` of set keywords)."""
    if isinstance(x, dict):
        return {k: _thaw(v) for k, v in x.items()}
    if isinstance(x, list):
        return tuple(_thaw(v) for v in x)
    return x


def replay(ctx, obj):
    """Re-execute the operations of a replay file on the real mapper + interpreter and re-evaluate them on the spec
    (one TLC run over the same constants to find the path again)."""
    from harness.replay import mapper as M
    consts = obj["consts"]
    mode = obj["mode"]
    cfg = tlc.write_cfg(os.path.join(ctx.scratch, "replay.cfg"), constants=consts, invariants=["TypeOK"], deadlock=False,
                        next="NextCounter" if mode == "counter" else "Next")
    res, nodes, edges, init = tlc.state_graph("MapperRow", cfg, ctx.scratch, timeout=3000, workers=8)
    ops, inits = res.printed("OPS")[0][1], res.printed("INITS")[0][1]
    rp = Replayer(M, mode, nodes, edges, init, ops, inits)
    try:
        from harness.tlaval import to_py
        index = {repr(to_py(o)): i for i, o in enumerate(ops, 1)}
        idx = [index[repr(o)] for o in obj["ops"]]
        start = next(i for i in init if nodes[i]["origin"] == obj["origin"])
        path, u = [], start
        for oi in idx:
            v = next(d for d, j in rp.succ[u] if j == oi)
            path.append((v, oi))
            u = v
        r = rp.run_path(start, path)
        print("history:", [_brief(o) for o in inits[obj["origin"] - 1]] + [_brief(ops[oi - 1]) for oi in idx])
        print("statements of the last operation:", rp.h.statements())
        print("interpreter table:", _jsonable(rp.h.project()["db"]))
        print("specification    :", _jsonable(M.RowHarness.spec_projection(mode, nodes[path[-1][0]])["db"]))
        if r is not None:
            print("differs:", r[0], "-", r[1])
            ctx.violation("replayed: " + r[1], replay=obj, signature=r[0])
    finally:
        rp.close()
