"""C01 - every CQL value survives an encode/decode round trip (bounded scope, see level_note).

Spec: spec/Codec.tla - value grammar + Norm(value), the documented normalisation on decode (sets come back sorted as
      sortedset, maps as ordered maps in wire order, text as str, tuples as tuples, an unregistered UDT as a named tuple).
TLC : enumerates type trees x per-type boundary alphabets x protocol versions; on the specification itself the
      decoder applied to the encoder's output is Norm(value) for every case (RoundTrip) - incl. null elements in
      collections, tuples and UDTs, empty collections and empty strings.
Bind: every state is evaluated on the real code: from_binary(to_binary(python value, pv), pv) must be the object
      Norm(value) denotes, for two input forms per type (natural Python objects; the driver's own classes / alternative
      accepted forms) and for every protocol version the driver lists (1-6, DSE_V1, DSE_V2): the value layer only
      distinguishes < 3 (16-bit collection lengths) from >= 3, so the TLC case at pv 2 is run on {1, 2}, the case at
      3 on {3}, at 4 on {4, 6}, at 5 on {5, DSE_V1, DSE_V2}.
"""
from harness import tlc
from harness.replay import codec
from checks.c02 import SCOPE

META = {
    "property_id": "C01",
    "engine": "Codec",
    "technique": "TLA+ specification of the CQL value grammar and of the normalisation on decode; TLC enumerates type "
                 "trees x boundary values x protocol versions and checks the round trip on the specification; every "
                 "enumerated value is encoded and decoded again by the real cqltypes classes",
    "level": "model_checking",
    "level_text": "TLC exhaustively enumerates the configured type trees (18 scalar types; lists, sets, maps, tuples, UDTs, "
                  "vectors over them; nesting to depth 3; null elements / fields, empty collections, empty strings) x "
                  "boundary alphabets x protocol versions and checks Dec(Enc(v)) = Norm(v) on the specification; every "
                  "case is then round-tripped through the real to_binary / from_binary on all 8 protocol versions the "
                  "driver lists and two input forms, and the decoded object (type and content) must be the one Norm(v) "
                  "denotes. Exhaustive over the enumerated space.",
    "level_note": SCOPE + " Trusted: TLC; Codec.tla's Norm as the reading of 'documented normalisations'; the harness's "
                  "mapping of abstract values to Python objects and of decoded objects to a canonical form "
                  "(harness/replay/codec.py). Versions 1, 6, DSE_V1, DSE_V2 reuse the case of their layout class.",
    "design_ref": "5.7 C01 / C02",
}


def run(ctx):
    drv = codec.Driver.pure()
    runs = codec.enumerate_cases(ctx, tlc)
    if runs is None:
        return
    groups = {}
    cases = []
    versions_run = set()
    for label, states in runs:
        for st in states:
            if st["expect"] != "ok":
                continue
            cases.append(st)
            vs = codec.SAME_LAYOUT[st["pv"]]
            versions_run.update(vs)
            n, devs = codec.judge_roundtrip(drv, st, vs)
            ctx.evaluations += n
            ctx.traces_validated += 1
            if codec.nontrivial(st):
                ctx.nontrivial(codec.case_id(st))
            if len(cases) % 3001 == 1:
                ctx.sample(codec.describe(st))
            for sig, msg, detail in devs:
                groups.setdefault(sig, []).append((st, msg, detail))
    fam, feats = codec.census(cases)
    ctx.note("exhaustive", True)
    ctx.note("cases_per_family", {k: v["ok"] for k, v in fam.items()})
    ctx.note("structural_features", feats)
    ctx.note("protocol_versions_run", sorted(versions_run))
    ctx.note("rule", "one case = one TLC state (type tree, protocol version, abstract value), run on every driver version "
                     "of its layout class x 2 input forms (= evaluations); distinct by the whole case; non-trivial = a "
                     "composite with at least one element or a scalar whose encoding has more than one byte")
    if sorted(versions_run) != sorted(codec.ALL_VERSIONS):
        raise tlc.MachineryError("not every protocol version was run: %s" % sorted(versions_run))
    for need in ("null-field", "null-collection-element", "empty-collection", "aware-timestamp", "v2-unsigned-short-above-32767", "inet-mixed-text", "inet-canonical-text-with-dotted-quad", "wide-integer-64bit-and-beyond", "v2-16bit-collection", "depth-2", "depth-3"):
        if not feats.get(need):
            raise tlc.MachineryError("vacuity: no case with feature %s" % need)
    for k in ("scalar", "list", "set", "map", "tuple", "udt", "vector"):
        if not fam.get(k, {}).get("ok"):
            raise tlc.MachineryError("vacuity: no case for family %s" % k)
    codec.check_witnesses(ctx, tlc)

    # binding self-test: a corrupted expectation must change the judgement (judged as "the verdict changes", so that it
    # also works when the driver under test is itself broken)
    probe = next(s for s in cases if s["ty"] == ["set", ["varint"]] and len(s["val"]) == 2 and s["val"] != s["norm"])
    bad = dict(probe)
    bad["norm"] = probe["val"]                          # "sets come back in the order written"
    probe2 = next(s for s in cases if s["ty"] == ["tuple", [["int"], ["text"]]] and s["val"][0] and not s["val"][1])
    bad2 = dict(probe2)
    bad2["norm"] = [probe2["norm"][0], [[]]]                  # "a null component comes back as an empty string"
    V = codec.verdict
    for good, corrupted in ((probe, bad), (probe2, bad2)):
        if V(codec.judge_roundtrip(drv, good, (4,))[1]) == V(codec.judge_roundtrip(drv, corrupted, (4,))[1]):
            raise tlc.MachineryError("binding self-test failed: corrupted expectation not detected")
    ctx.note("binding_selftest", {"corrupted_rejected": 2})

    for sig in sorted(groups):
        members = groups[sig]
        st, msg, detail = min(members, key=lambda m: (len(m[0]["enc"]), codec.depth(m[0]["ty"]), m[0]["pv"], codec.case_id(m[0])))
        pvs = sorted({v for m in members for v in codec.SAME_LAYOUT[m[0]["pv"]]})
        ctx.violation("%s; %d cases on pv %s; smallest: %s value=%s %s"
                      % (msg, len(members), pvs, codec.cql_name(st["ty"]), st.get("big") or st["val"], detail),
                      replay={"state": st, "cases": len(members), "versions": pvs}, signature=sig)
    ctx.assumptions += [SCOPE, "equality = same Python type and same content as the object Norm(v) denotes "
                               "(Decimal: same digits and exponent; datetime: naive UTC)"]


def replay(ctx, obj):
    drv = codec.Driver.pure()
    st = obj["state"]
    print("case: %s" % codec.describe(st))
    n, devs = codec.judge_roundtrip(drv, st, codec.SAME_LAYOUT[st["pv"]])
    for sig, msg, detail in devs:
        print("  %s: %s %s" % (sig, msg, detail))
    if devs:
        ctx.violation("replayed: still deviates: %s" % [d[0] for d in devs], replay=obj)
    else:
        print("  no deviation")
