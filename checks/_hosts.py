"""Shared driver for C25 / C45 (spec/Hosts.tla bound to the real Cluster, Sessions, Hosts and reconnectors).

Per run:
  1. deviation probes: four fixed schedules run on the real objects decide which of the specification's named
     deviations (behaviours that break a property) the code exhibits; each one present is a violation of its
     property, reported with the schedule as replay file;
  2. TLC checks the intended model (every deviation repaired) against all invariants, exhaustively;
  3. TLC dumps the state graph of the model *as built* (repaired only where the probes found the code repaired);
     walks covering its edges are replayed into the real objects, the projected state compared after every step;
     walks ending after shutdown() returned are followed by the after-return probe (scheduler, timers, executor
     get every chance to run; a request is issued);
  4. seeded random runs of the real objects are recorded and validated by TLC against Trace_Hosts.tla.
"""
import concurrent.futures as cf
import copy
import os
import re
import time
from collections import deque

from harness import tlc

ALL_DEV = ["D1_late_pool", "D2_discount_pool", "D3_ctl_after_shutdown", "D4_recon_removed", "D5_up_loop", "D6_unknown_down"]
PENDING = {"D6_unknown_down": "findings/C25_unknown_host_down_without_reconnector.py"}    # genuine, not yet decided by the lead
DEV_ENV = {"D6_unknown_down": "remote"}
# Observation (recorded, not judged): when a node is removed and added again at the same address, tasks still queued for the
# old Host object act on what the driver keys by endpoint: a late run_add_or_renew_pool of the old object replaces the new
# host's pool by one bound to the old object (its failures are then signalled for the old object only), a failed on_up of the
# old object removes the new host's pools and tells the policies it is down.  The new host can so end up marked up without a
# pool, which UpHasPools would report; the property's clauses about removed hosts (RemovedNotReconnected) and the others hold.
ENV_SKIPS = {"readd": ["UpHasPools"]}       # a deviation that can only show in configurations with this Env flag
DEV_OWNER = {"D1_late_pool": "C45", "D3_ctl_after_shutdown": "C45", "D2_discount_pool": "C25", "D4_recon_removed": "C25", "D5_up_loop": "C25", "D6_unknown_down": "C25"}
DEV_BREAKS = {"D1_late_pool": ["AllClosed", "Refused"], "D2_discount_pool": ["UpHasPools"],
              "D3_ctl_after_shutdown": ["AllClosed"], "D4_recon_removed": ["RemovedNotReconnected"],
              "D5_up_loop": ["NotifiedOnce"], "D6_unknown_down": ["OneReconnector"]}
DEV_WHAT = {
    "D1_late_pool": "run_add_or_renew_pool executed after Session.shutdown() installs a new open pool in the shut-down "
                    "session: its connection is never closed and execute_async after shutdown is sent instead of refused",
    "D2_discount_pool": "a pool that shut itself down after a connection failure is never replaced when Cluster.on_down "
                        "discounts the failure because another session is still connected: host marked up, session without pool",
    "D3_ctl_after_shutdown": "ControlConnection._set_new_connection installs (and never closes) the connection of a reconnect "
                             "that was in progress when Cluster.shutdown() closed the control connection",
    "D5_up_loop": "with two sessions Cluster.on_up attaches _on_up_future_completed to the first pool future before the second is "
                  "in `futures`: when the first pool is ready before the loop goes on, the host is marked up and every listener "
                  "gets on_up, and again when the second pool is ready (two notifications for one down->up transition)",
    "D6_unknown_down": "Cluster.on_down skips a host whose is_up is None (`not was_up`): a host added while the policy still "
                       "answered IGNORED (a remote-datacenter host of DCAwareRoundRobinPolicy(used_hosts_per_remote_dc>0)) is never "
                       "marked up although it gets pools; when its connection breaks it is marked down, keeps a non-ignored distance "
                       "and gets no reconnector",
    "D4_recon_removed": "Cluster._start_reconnector starts a reconnector for a host that was already removed from the metadata "
                        "(on_down queued by a failed pool creation, or a failed on_up, finishing after on_remove)",
}
C25_INV = ["OneReconnector", "NoStrayReconnector", "RemovedNotReconnected", "NotifiedOnce", "UpNotified", "UpHasPools"]
C45_INV = ["AllClosed", "Refused", "CtlStopsDialling"]
ALL_INV = ["TypeOK"] + C25_INV + C45_INV
WITNESSES = {"C25": ["Witness_Reconnected", "Witness_ReconRetry", "Witness_CancelledInFlight"], "C45": ["Witness_ShutdownWithWork", "Witness_ShutdownMidUp", "Witness_CtlDialFailsAfterShutdown"]}
C45_VARS = {"nopen", "ctl", "ctlPend", "flags", "req", "emC"}
ACTIONS = ("Exec", "Fire", "ConnFailure", "StatusEvent", "TopologyEvent", "SetMode", "CtlFail", "ShutdownA", "ShutdownS",
           "ShutdownE", "Request")


def C(hosts, known0, sessions=(1,), ignored=(), events=2, env=(), fine=False):
    return {"Hosts": set(hosts), "Known0": set(known0), "Sessions": set(sessions), "Ignored": set(ignored),
            "MaxEvents": events, "Env": set(env), "FineUp": fine}


def configs(pid, quick):
    if pid == "C25":
        if quick:
            # one subject host (it can fail, flap, refuse, be removed); NEW_NODE / on_add: recorded runs and thorough tier
            return [("1host", C({2}, {2}, events=2, env={"fail", "status", "mode", "topo"})),
                    ("readd", C({2}, {2}, events=3, env={"mode", "topo", "readd"})),
                    ("remote", C({3}, {3}, events=2, env={"fail", "status", "mode", "remote"}))]
        # small graphs first: what they leave of the replay budget goes to the large ones
        return [("2sessions-fine", C({2}, {2}, sessions={1, 2}, events=1, env={"fail", "status", "mode"}, fine=True)),
                ("remote", C({3}, {3}, events=3, env={"fail", "status", "mode", "remote"})),
                ("readd", C({2}, {2}, events=3, env={"fail", "mode", "topo", "readd"})),
                ("ignored", C({2, 3}, {2, 3}, ignored={3}, events=2, env={"fail", "status", "mode"})),
                ("2sessions", C({2}, {2}, sessions={1, 2}, events=2, env={"fail", "status", "mode"})),
                ("1host", C({2}, {2}, events=3, env={"fail", "status", "mode", "auth"})),
                ("topology", C({2, 3}, {2}, events=3, env={"topo", "mode", "fail"}))]
    if quick:
        return [("ctl", C({2}, {2}, events=2, env={"fail", "mode", "ctl", "status"})),
                ("ctlscan", C({2}, {2}, events=2, env={"mode", "ctl", "ctlscan", "drop"}))]
    return [("ctlscan", C({2}, {2}, events=3, env={"fail", "mode", "ctl", "ctlscan", "drop"})),
            ("ctl", C({2}, {2}, events=3, env={"fail", "mode", "ctl", "status"})),
            ("ctl-topology", C({2, 3}, {2}, events=2, env={"ctl", "topo", "fail", "mode"})),
            ("2sessions", C({2}, {2}, sessions={1, 2}, events=2, env={"fail", "mode", "ctl"}))]


def intended_only(pid, quick):
    """Larger instances checked by TLC on the intended model only (no replay)."""
    if quick:
        return []
    if pid == "C25":
        return [("2sessions-3events", C({2}, {2}, sessions={1, 2}, events=3, env={"fail", "status", "mode"}))]
    return [("2hosts-3events", C({2, 3}, {2}, events=3, env={"ctl", "topo", "fail"}))]


# ---------------------------------------------------------------------- deviation probes
def probes():
    from harness.replay.hosts import A, T, task_dict

    def X(*t, **k):
        return A("Exec", task_dict(T(*t, **k)))

    def F(*t, **k):
        return A("Fire", task_dict(T(*t, **k)))
    one = C({2}, {2}, events=9, env={"fail", "status", "mode", "topo", "ctl"})
    two = C({2}, {2}, sessions={1, 2}, events=9, env={"fail", "status", "mode"})
    fine = dict(two, FineUp=True)
    return {
        "D1_late_pool": (one, [
            X("AddPool", s=1, h=2, kind="init"), A("ConnFailure", s=1, h=2), X("OnDown", h=2),
            X("PoolShut", s=1, h=2, f2=True), F("Recon", h=2, kind="att"), X("Recon", h=2, kind="att"), X("ReconConn", h=2, kind="att"),
            A("ShutdownA"), A("ShutdownS"), X("AddPool", s=1, h=2, kind="up"), A("ShutdownE")],
            lambda p, bad: bool(bad.get("connections_still_open"))),
        "D2_discount_pool": (two, [
            X("AddPool", s=2, h=2, kind="init"), A("ConnFailure", s=2, h=2), X("OnDown", h=2)],
            lambda p, bad: p["up"][2] == "T" and p["pools"][2][2] != "open" and not p["exec"]
            and not [t for t in p["sched"] if t[0] != "Recon"]),
        "D3_ctl_after_shutdown": (one, [
            X("AddPool", s=1, h=2, kind="init"), A("CtlFail"), X("CtlReconnect"), X("CtlDial", h=1), A("ShutdownA"), X("CtlSet"),
            A("ShutdownS"), A("ShutdownE")],
            lambda p, bad: bool(bad.get("connections_still_open"))),
        "D5_up_loop": (fine, [
            X("AddPool", s=2, h=2, kind="init"), A("ConnFailure", s=1, h=2), A("ConnFailure", s=2, h=2),
            X("OnDown", h=2), X("OnDown", h=2), X("PoolShut", s=1, h=2, f2=True), X("PoolShut", s=2, h=2, f2=True),
            F("Recon", h=2, kind="att"), X("Recon", h=2, kind="att"), X("ReconConn", h=2, kind="att"), X("AddPool", s=1, h=2, kind="up"),
            X("OnUpCont", h=2, f1=True), X("AddPool", s=2, h=2, kind="up")],
            lambda p, bad: p["_listener_log"].count(("up", 2)) >= 2),
        "D6_unknown_down": (C({3}, {3}, events=9, env={"fail", "status", "mode", "remote"}), [
            X("AddPool", s=1, h=3, kind="init"), A("ConnFailure", s=1, h=3), X("OnDown", h=3)],
            lambda p, bad: p["up"][3] == "F" and 3 in p["lbpLive"] and p["recon"][3] == "none" and not p["exec"]
            and not any(t[0] == "Recon" for t in p["sched"])),
        "D4_recon_removed": (one, [
            A("SetMode", h=2, x="refuse"), X("AddPool", s=1, h=2, kind="init"), A("TopologyEvent", h=2, x="REMOVED_NODE"),
            F("RemoveHost", h=2), X("RemoveHost", h=2), X("OnDown", h=2, f2=True)],
            lambda p, bad: p["removed"][2] and (p["recon"][2] != "none" or any(t[0] == "Recon" and t[2] == 2 and not t[4]
                                                                               for t in p["sched"]))),
    }


def run_probes(ctx):
    from harness.replay import hosts as rh
    present, detail = [], {}
    for dev, (consts, acts, pred) in probes().items():
        events, p, bad, err = rh.run_script(consts, acts)
        if err is not None:
            detail[dev] = "schedule not executable on this code (%s)" % err
            continue
        if pred(p, bad):
            present.append(dev)
            detail[dev] = {"final": {k: rh._show(p[k]) for k in ("up", "recon", "pools", "known", "removed", "nopen")},
                           "listener_notifications": [list(x) for x in p["_listener_log"]],
                           "after_return": bad}
        else:
            detail[dev] = "not exhibited"
    return present, detail


# ---------------------------------------------------------------------- walks
def cover_walks(nodes, edges, init, rng, max_len=40, extra_random=0, deadline=None):
    """Walks from an initial state that together cover every edge (greedy: shortest prefix to an uncovered edge, then
    on through uncovered edges), then `extra_random` random walks."""
    succ = {}
    for s, d, _ in edges:
        succ.setdefault(s, []).append(d)
    parent = {}
    dq = deque()
    for i in init:
        parent[i] = None
        dq.append(i)
    while dq:
        u = dq.popleft()
        for v in succ.get(u, ()):
            if v not in parent:
                parent[v] = u
                dq.append(v)

    def prefix(n):
        p = []
        while n is not None:
            p.append(n)
            n = parent[n]
        return p[::-1]
    uncovered = {}
    for s, d, _ in edges:
        if s in parent:
            uncovered.setdefault(s, set()).add(d)
    order = sorted(uncovered, key=lambda n: -len(prefix(n)))      # deepest sources first: their prefixes cover shallow edges
    walks = []
    for src in order:
        while uncovered.get(src):
            w = prefix(src)
            for a, b in zip(w, w[1:]):
                if b in uncovered.get(a, ()):
                    uncovered[a].discard(b)
            cur = src
            while uncovered.get(cur) and len(w) < max(max_len, len(w) + 1):
                nxt = min(uncovered[cur])
                uncovered[cur].discard(nxt)
                w.append(nxt)
                cur = nxt
                if len(w) >= max_len + 20:
                    break
            walks.append(w)
    for _ in range(extra_random):
        cur = rng.choice(sorted(init))
        w = [cur]
        while len(w) < max_len and succ.get(cur):
            cur = rng.choice(succ[cur])
            w.append(cur)
        walks.append(w)
    return walks


def owner_of(div, state_before):
    act = div["action"]
    name = act["name"] if isinstance(act, dict) else act
    kind = act["t"]["k"] if isinstance(act, dict) else ""
    if name.startswith("Shutdown") or name in ("Request", "CtlFail") or kind in ("CtlReconnect", "CtlSet", "CtlDial"):
        return "C45"
    if state_before is not None and state_before["phase"] >= 1:
        return "C45"
    if set(div["diff"]) <= C45_VARS:
        return "C45"
    return "C25"


def sig_of(div):
    act = div["action"]
    if not isinstance(act, dict):
        return "replay:%s:%s" % (act, ",".join(sorted(div["diff"])))
    kind = act["t"]["k"]
    if kind == "AddPool":
        kind += "." + act["t"]["kind"]
    return "replay:%s%s:%s" % (act["name"], ("(" + kind + ")") if kind != "none" else "", ",".join(sorted(div["diff"])))


# ---------------------------------------------------------------------- the check
def run(ctx, pid):
    from harness.replay import hosts as rh
    quick = ctx.quick
    mine_inv = C25_INV if pid == "C25" else C45_INV

    # ---- 1. which deviations does this code exhibit?
    timing = {}
    t0 = time.time()
    present, detail = run_probes(ctx)
    timing["probes_s"] = round(time.time() - t0, 2)
    ctx.note("deviation_probes", {d: ("PRESENT" if d in present else detail[d]) for d in ALL_DEV})
    known_sigs = set(f.get("signature") for f in getattr(ctx, "_known", []))
    for dev in present:
        if DEV_OWNER[dev] == pid and dev in PENDING and "deviation:%s" % dev not in known_sigs:
            # exposed while extending the model in round 4; the lead decides between a fix in /repo and a known finding.
            # Until the signature is listed (then it is reported like every other deviation) it is printed and recorded.
            print("PENDING-FINDING: property=%s signature=deviation:%s repro=%s  %s" % (pid, dev, PENDING[dev], DEV_WHAT[dev]))
            ctx.note("pending_findings", {dev: {"signature": "deviation:%s" % dev, "repro": PENDING[dev], "what": DEV_WHAT[dev],
                                                "observed": detail[dev]}})
            ctx.nontrivial(("deviation", dev))
            continue
        if DEV_OWNER[dev] == pid:
            consts, acts, _ = probes()[dev]
            _viol(ctx, "%s: %s" % (dev, DEV_WHAT[dev]),
                          replay={"constants": _jc(consts), "actions": acts, "observed": detail[dev]},
                          signature="deviation:%s" % dev)
            ctx.nontrivial(("deviation", dev))
    fixed_built = set(ALL_DEV) - set(present)
    def broken_in(env):
        return set(i for d in present if d not in DEV_ENV or DEV_ENV[d] in env for i in DEV_BREAKS[d])

    def built_inv_for(c):
        skip = set(i for flag, invs in ENV_SKIPS.items() if flag in c["Env"] for i in invs)
        return [i for i in ALL_INV if i not in broken_in(c["Env"]) and i not in skip]
    broken = broken_in({"remote"})

    # ---- 2./3. TLC jobs: as-built graphs first (the replay waits for them), then the rest; a few JVMs at a time
    cfgs = configs(pid, quick)
    deadline = ctx.t0 + (50.0 if quick else 510.0)          # the replay stops early enough to finish around here
    jobs = {}
    pool = cf.ThreadPoolExecutor(max_workers=3)
    workers = 4 if quick else 5
    for name, c in cfgs:
        cb = dict(c, Fixed=fixed_built)
        p = tlc.write_cfg(os.path.join(ctx.scratch, "built_%s.cfg" % name), constants=cb, invariants=built_inv_for(c), deadlock=False)
        jobs["built", name] = pool.submit(tlc.state_graph, "Hosts", p, ctx.scratch,
                                          coverage=(name == cfgs[0][0] and (quick or not present)), timeout=1500, workers=workers)
        time.sleep(0.02)                 # state_graph names its dump after the clock

    # ---- 4a. meanwhile: record random runs of the real objects
    tconsts = dict(C({2, 3}, {2}, sessions={1, 2} if pid == "C25" and not quick else {1}, events=6,
                     env={"fail", "status", "mode", "topo", "auth", "ctl"} | ({"readd"} if pid == "C25" else set()),
                     fine=(pid == "C25" and not quick)), Fixed=fixed_built)
    n_tr = 150 if quick else 1000
    t0 = time.time()
    traces, after_bad = [], []
    for i in range(n_tr):
        ev, bad, final = rh.record(tconsts, ctx.rng, max_events=45)
        traces.append(ev)
        after_bad.append((bad, final))
    good = len(traces)
    timing["recording_s"] = round(time.time() - t0, 2)
    victim = next(i for i, t in enumerate(traces) if len(t) >= 6)
    bad1 = copy.deepcopy(traces[victim])
    bad1[3]["post"]["nopen"] += 1
    bad2 = copy.deepcopy(traces[victim])
    del bad2[2]
    bad3 = copy.deepcopy(traces[victim])
    bad3[4]["post"]["up"] = ["F" if x == "T" else "T" for x in bad3[4]["post"]["up"]]
    tcfg = tlc.write_cfg(os.path.join(ctx.scratch, "trace.cfg"), init="TraceInit", next="TraceNext", constants=tconsts,
                         invariants=built_inv_for(tconsts), constraints=["Progress"], postcondition="Done", deadlock=False)
    jobs["trace"] = pool.submit(tlc.validate_traces, "Trace_Hosts", tcfg, traces + [bad1, bad2, bad3], ctx.scratch, timeout=2400)
    wc = dict(C({2}, {2}, events=2, env={"fail", "mode", "status"} | ({"ctl", "ctlscan", "drop"} if pid == "C45" else set())),
              Fixed=set(ALL_DEV))
    p = tlc.write_cfg(os.path.join(ctx.scratch, "witness.cfg"), constants=wc, invariants=WITNESSES[pid], deadlock=False)
    jobs["witness"] = pool.submit(tlc.run_tlc, "Hosts", p, ctx.scratch, timeout=900, workers=2, extra=["-continue"])
    if present and quick:
        ctx.note("intended_model", "quick tier: invariants %s are broken by the deviations reported above and are model-checked "
                 "on the intended model in the thorough tier only; every other invariant is checked on the as-built model" % sorted(broken))
    if present and not quick:            # without deviations the as-built model is the intended one
        for name, c in cfgs:
            ci = dict(c, Fixed=set(ALL_DEV))
            p = tlc.write_cfg(os.path.join(ctx.scratch, "intended_%s.cfg" % name), constants=ci,
                              invariants=[i for i in ALL_INV if not any(f in c["Env"] and i in v for f, v in ENV_SKIPS.items())],
                              deadlock=False)
            jobs["intended", name] = pool.submit(tlc.check_model, "Hosts", p, ctx.scratch, coverage=(name == cfgs[0][0]),
                                                 timeout=1500, workers=workers)
    for name, c in intended_only(pid, quick):
        ci = dict(c, Fixed=set(ALL_DEV))
        p = tlc.write_cfg(os.path.join(ctx.scratch, "intended_%s.cfg" % name), constants=ci, invariants=ALL_INV, deadlock=False)
        jobs["intended", name] = pool.submit(tlc.check_model, "Hosts", p, ctx.scratch, timeout=2400, workers=workers)

    def spec_violation(res, label):
        own = "C45" if res.invariant in C45_INV else "C25"
        if own == pid or res.invariant not in ALL_INV:
            tr = res.trace()
            _viol(ctx, "TLC: %s violated on Hosts.tla (%s)" % (res.invariant, label),
                  replay={"trace": [dict(s.get("act", {})) for _, s in tr]}, signature="spec:%s" % res.invariant)

    # ---- 3. spec -> code: replay walks covering the edges of every as-built graph, as the graphs arrive
    replayed = steps = 0
    timing["waiting_for_graphs_s"] = 0.0
    timing["replay_s"] = 0.0
    for gi, (name, c) in enumerate(cfgs):
        t0 = time.time()
        res, nodes, edges, init = jobs["built", name].result()
        timing["waiting_for_graphs_s"] = round(timing["waiting_for_graphs_s"] + time.time() - t0, 2)
        ctx.add_tlc(res, "as-built %s %s" % (name, _cs(c)))
        if res.violation:
            spec_violation(res, "as built, %s" % name)
            continue
        consts = dict(c, Fixed=fixed_built)
        if gi == 0 and (quick or not present):
            _check_coverage(ctx, res, c)
        t0 = time.time()
        walks = cover_walks(nodes, edges, init, ctx.rng, extra_random=50 if quick else 300)
        all_edges = set((s, d) for s, d, _ in edges)
        covered = set()
        left = len(cfgs) - gi
        t_end = time.time() + max(14.0 if quick else 45.0, (deadline - time.time()) / left)
        done = 0
        for w in walks:
            if time.time() > t_end:
                break
            states = [nodes[n] for n in w]
            div, bad = rh.replay(consts, states)
            done += 1
            upto = len(w) if div is None else div["step"]
            covered.update(zip(w[:upto], w[1:upto + 1]))
            steps += upto
            acts = [rh.act_of(s) for s in states[1:]]
            names = set(a["name"] for a in acts)
            if done % 400 == 1:
                ctx.sample({"direction": "spec->code", "config": name,
                            "actions": [_short(a) for a in acts[:14]]})
            if "ShutdownA" in names or any(a["t"]["k"] == "Recon" for a in acts):
                ctx.nontrivial((name, tuple(w[-3:])))
            if div is not None:
                before = states[div["step"] - 1] if div["step"] > 0 else None
                if owner_of(div, before) == pid:
                    _viol(ctx, "replay diverges at step %d of a %s walk (%s): %s" % (div["step"], name, _short(div["action"]), div["diff"]),
                          replay={"constants": _jc(consts), "actions": acts[:div["step"]], "divergence": div},
                          signature=sig_of(div))
                continue
            if bad and pid == "C45":
                _after_return(ctx, consts, acts, bad, states[-1], present, name)
        ctx.note("graph_%s" % name, {"states": len(nodes), "edges": len(all_edges), "edges_replayed": len(covered & all_edges),
                                     "walks": done, "exhaustive": all_edges <= covered})
        replayed += done
        timing["replay_s"] = round(timing["replay_s"] + time.time() - t0, 2)
        del nodes, edges, walks
    ctx.traces_validated += replayed
    ctx.note("behaviours_replayed", replayed)
    ctx.note("steps_replayed", steps)

    # ---- 2. the intended model and the vacuity witnesses
    t0 = time.time()
    for key, fut in jobs.items():
        if key[0] == "intended":
            res = fut.result()
            ctx.add_tlc(res, "intended %s" % key[1])
            if key[1] == cfgs[0][0] and not res.violation and not quick:
                _check_coverage(ctx, res, cfgs[0][1])
            if res.violation:
                spec_violation(res, "intended, %s" % key[1])
    wres = jobs["witness"].result()
    hit = set(re.findall(r"Invariant (\S+) is violated", wres.out))
    if not set(WITNESSES[pid]) <= hit:
        raise tlc.MachineryError("vacuity witnesses not reachable: %s\n%s" % (sorted(set(WITNESSES[pid]) - hit), wres.out[-1500:]))
    ctx.note("vacuity_witnesses_reached", WITNESSES[pid])
    ctx.note("model", {"fixed_in_as_built_model": sorted(fixed_built), "invariants_checked_as_built": {n: built_inv_for(c) for n, c in cfgs},
                       "invariants_checked_intended": ALL_INV})
    timing["waiting_for_other_tlc_s"] = round(time.time() - t0, 2)

    t0 = time.time()
    # ---- 4b. code -> spec: the recorded runs against Trace_Hosts.tla
    tres, prog = jobs["trace"].result()
    timing["waiting_for_trace_tlc_s"] = round(time.time() - t0, 2)
    ctx.note("timing", timing)
    pool.shutdown(wait=True)
    ctx.add_tlc(tres, "trace validation %s" % _cs(tconsts))
    if tres.violation:
        own = "C45" if tres.invariant in C45_INV else "C25"
        if own == pid:
            _viol(ctx, "invariant %s violated in a state of a recorded execution" % tres.invariant,
                          replay={"trace": [dict(s.get("act", {})) for _, s in tres.trace()][-12:]},
                          signature="trace-inv:%s" % tres.invariant)
        return
    if prog[good] != 4 or prog[good + 1] > len(bad2) or prog[good + 2] != 5:
        raise tlc.MachineryError("binding self-test failed: corrupted / dropped trace accepted (%s, %s, %s)"
                                 % (prog[good], prog[good + 1], prog[good + 2]))
    ctx.note("binding_selftest", {"corrupted_nopen_rejected": 1, "dropped_event_rejected": 1, "flipped_up_rejected": 1})
    accepted = 0
    for i in range(good):
        t = traces[i]
        if prog[i] == len(t) + 1:
            accepted += 1
            if any(e["e"] == "ShutdownA" for e in t) or any(e.get("t", {}).get("k") == "Recon" for e in t):
                ctx.nontrivial(("trace", i, len(t)))
            bad, final = after_bad[i]
            if bad and pid == "C45":
                _after_return(ctx, tconsts, [_ev_act(e) for e in t], bad, None, present, "recorded", final)
            continue
        ev = t[prog[i] - 1]
        what = ev.get("during", ev)
        phase_before = t[prog[i] - 2]["post"].get("phase", 0) if prog[i] >= 2 else 0
        c45 = (what.get("e", what.get("name", "")).startswith("Shutdown") or what.get("e", what.get("name")) in ("Request", "CtlFail")
               or (what.get("t") or {}).get("k") in ("CtlReconnect", "CtlSet", "CtlDial") or phase_before >= 1)
        own = "C45" if c45 else "C25"
        if own == pid:
            _viol(ctx, "recorded execution rejected by the specification at event %d: %s" % (prog[i], {k: v for k, v in ev.items() if k != "post"}),
                          replay={"constants": _jc(tconsts), "events": t[:prog[i]]},
                          signature="trace:%s%s" % (ev["e"], ("(" + ev["t"]["k"] + ")") if "t" in ev else ""))
    ctx.sample({"direction": "code->spec", "events": [{k: v for k, v in e.items() if k != "post"} for e in traces[0][:12]]})
    ctx.traces_validated += accepted
    ctx.note("traces_recorded", good)
    ctx.note("traces_accepted", accepted)
    ctx.evaluations = replayed + good
    ctx.assumptions += [
        "each executor task (with the done-callbacks it triggers) is atomic: interleavings of two worker threads inside "
        "one task (e.g. on_up's submit loop racing with a pool future, reconnector callback racing with on_down) are not explored",
        "ControlConnection._reconnect is split once, before _set_new_connection; Cluster.shutdown in three stretches",
        "the control host never fails and hosts removed from the metadata are not added again",
        "SimConnection/FakeNode reproduce the reactors' contract; SimExecutor/SimScheduler the pool's and scheduler's",
        "small scope: <= 2 subject hosts, <= 2 sessions, <= 3 environment events exhaustively (6 in recorded runs)",
    ]


def _check_coverage(ctx, res, c):
    """Vacuity: every action the configuration allows is taken somewhere in the exhaustive run."""
    cov = res.coverage()
    expect = {"ExecAny", "FireAny", "ShutdownA", "ShutdownS", "ShutdownE", "Request", "SetMode"}
    expect |= {"ConnFailure"} if "fail" in c["Env"] else set()
    expect |= {"StatusEvent"} if "status" in c["Env"] else set()
    expect |= {"TopologyEvent"} if "topo" in c["Env"] else set()
    expect |= {"CtlFail"} if "ctl" in c["Env"] else set()
    zero = sorted(a for a in expect if a in cov and cov[a][1] == 0)
    missing = sorted(a for a in expect if a not in cov)
    if zero or missing:
        raise tlc.MachineryError("actions never taken in the exhaustive model: %s (not reported: %s)" % (zero, missing))
    ctx.note("coverage_actions_taken", sorted(expect))


_SEEN = {}


def _viol(ctx, what, replay=None, signature=None):
    """At most three replay files per failure class (a broken driver diverges on thousands of walks)."""
    n = _SEEN.get((ctx.pid, signature), 0)
    _SEEN[ctx.pid, signature] = n + 1
    if n < 3:
        ctx.violation(what, replay=replay, signature=signature)
    else:
        ctx.count("violations_not_filed_same_signature")


def _after_return(ctx, consts, acts, bad, spec_final, present, where, real_final=None):
    """Findings of the after-return probe: anything not explained by a deviation already reported is a violation."""
    explained = set()
    if "D1_late_pool" in present or "D3_ctl_after_shutdown" in present:
        if spec_final is not None:
            from harness.replay.hosts import spec_view
            if spec_view(spec_final, consts)["nopen"] > 0:       # the as-built model predicts the open connection
                explained |= {"connections_still_open", "node_side_open"}
                if "D1_late_pool" in present:
                    explained |= {"request_not_refused"}
        else:
            explained |= {"connections_still_open", "node_side_open"}
            if "D1_late_pool" in present:
                explained |= {"request_not_refused"}
    left = sorted(k for k in bad if k not in explained)
    if left:
        _viol(ctx, "after shutdown() returned (%s): %s" % (where, {k: bad[k] for k in left}),
                      replay={"constants": _jc(consts), "actions": acts, "after_return": bad},
                      signature="after-shutdown:%s" % ",".join(left))


def _ev_act(e):
    from harness.replay.hosts import A
    return A(e["e"], e.get("t"), e.get("s", 0), e.get("h", 0), e.get("x", ""))


def _short(a):
    if not isinstance(a, dict):
        return a
    out = {"name": a["name"]}
    if a["t"]["k"] != "none":
        out["t"] = {k: v for k, v in a["t"].items() if v not in (0, "", False)}
    for k in ("s", "h", "x"):
        if a.get(k) not in (0, "", None):
            out[k] = a[k]
    return out


def _jc(c):
    return {k: (sorted(v) if isinstance(v, (set, frozenset)) else v) for k, v in c.items()}


def _cs(c):
    return "hosts=%s known0=%s sessions=%d ignored=%s events=%d env=%s" % (
        sorted(c["Hosts"]), sorted(c["Known0"]), len(c["Sessions"]), sorted(c["Ignored"]), c["MaxEvents"], "+".join(sorted(c["Env"])))


def replay(ctx, pid, obj):
    """Re-execute a replay file (no TLC): print every step with the projected state of the real objects."""
    from harness.replay import hosts as rh
    consts = obj["constants"]
    for k in ("Hosts", "Known0", "Sessions", "Ignored", "Env", "Fixed"):
        if k in consts:
            consts[k] = set(consts[k])
    acts = obj.get("actions")
    if acts is None:
        acts = [_ev_act(e) for e in obj.get("events", [])]
    if obj.get("divergence"):
        acts = acts + [obj["divergence"]["action"]]
    h = rh.HostsHarness(consts)
    try:
        print("   ", _state_line(h.project()))
        for a in acts:
            print("->", _short(a))
            try:
                p = h.do(a)
            except Exception as ex:
                print("    cannot be performed: %s: %s" % (type(ex).__name__, ex))
                break
            print("   ", _state_line(p))
        if h.returned():
            print("after shutdown() returned:", h.after_return_probe() or "nothing left open, nothing ran, requests refused")
    finally:
        h.close()


def _state_line(p):
    p = dict(p)
    from harness.replay.hosts import _show
    return {k: _show(p[k]) for k in ("up", "recon", "handling", "known", "pools", "exec", "sched", "flags", "ctl", "nopen", "req", "emL", "emP")}
