"""System-level check: spec/Driver.tla (the composed driver model) against whole-driver runs.

run_system(ctx, pid=None)
  1. TLC on Driver.tla, small constants: random behaviours (TLC simulation mode) with every system invariant on, and one
     simulation per vacuity witness (each Witness_* must be violated = its situation reached);
  2. records N seeded random whole-driver runs on the real Cluster / Session (harness/replay/driver.py: quick 150,
     thorough 3000) and validates them with TLC against Trace_Driver.tla (invariants on), in batches;
  3. binding self-test: an accepted trace with a forged stream id, with a dropped event and with a wrong in-flight count
     must be rejected exactly there;
  4. every rejected trace / violated invariant is reported through ctx.violation with signature
     "system:<property>:<invariant or event>"; with pid given, only what is attributed to that property.

Attribution of a rejected event to a property.  The rejected runs are validated again with one part of the logged
post-state left out at a time (Trace_Driver's constant Check); the part whose omission lets the event through is where
the real driver left the specification:
  errs (error map), att (attempts, plan, _connection/_req_id)   C17
  out (state, outcome, number of outcomes, timer)               C14
  ks (session / connection keyspaces)                           C20
  conn (open, installed, handlers, orphans, owed, free ids)     C09; C10 when the event closes connections (Kill, PoolShut,
                                                                AddPool, ShutdownS)
  host (Hosts.tla's state: up/down, pools, reconnectors, tasks) C25; C45 from the first shutdown step on
When no single part explains it, by the kind of event: StartReq / Retry / Reprepare / AfterPrep C17, Answer and Drop C09
(setks C20), FireTimer C14 (speculative) or C09 (timeout), Kill C10, host tasks / Fire / StatusEvent / SetMode C25,
Shutdown* C45.  A violated invariant is attributed by its name (C14_OneOutcome -> C14, ...; TypeOK / PoolsAndConns -> C25).
"""
import copy
import os
import re
import time

from harness import tlc

INV = ["TypeOK", "C14_OneOutcome", "C09_StreamsNotShared", "C09_AnswerToSender", "C17_PlanOrder", "C17_ErrorMap",
       "C17_LivePool", "C10_NoneLeftPending", "C19_ResentOnce", "C25_Reconnectors", "C45_Shutdown", "C45_Refused",
       "C20_KeyspaceFollows", "PoolsAndConns"]
WITNESSES = ["Witness_RetriedAfterKill", "Witness_LateAnswer", "Witness_IdReused", "Witness_HostBackUp",
             "Witness_KeyspaceSwitched", "Witness_RefusedAfterShutdown", "Witness_LostAtShutdown", "Witness_SpeculativeWon",
             "Witness_RetryAfterSuccess", "Witness_Reprepared", "Witness_PrepareLostConnection"]
PROPS = ("C09", "C10", "C14", "C17", "C19", "C20", "C25", "C45")
MODEL_CONSTS = {"Hosts": {2, 3}, "MaxEvents": 3, "NReqs": 3, "MaxId": 1, "Keyspaces": {"ks", "ks2"}, "Rots": {0, 1, 2},
                "SpecMax": 1}
WITNESS_CONSTS = {"Hosts": {2}, "MaxEvents": 2, "NReqs": 2, "MaxId": 1, "Keyspaces": {"ks"}, "Rots": {0, 1}, "SpecMax": 1}
NEEDS_THREE_HOSTS = {"Witness_RetryAfterSuccess"}
STALE_SIG = "system:C09:FireTimer-stale-stream-id"


def _sim_states(out):
    m = re.findall(r"The number of states generated: (\d+)", out)
    return int(m[-1]) if m else 0


def owner_of_invariant(name):
    m = re.match(r"(C\d\d)_", name or "")
    return m.group(1) if m else "C25"


def owner_of_event(ev):
    e = ev["e"] if ev["e"] != "Anomaly" else ev["during"].get("name", ev["during"].get("e", "?"))
    src = ev if ev["e"] != "Anomaly" else ev["during"]
    if e == "Answer":
        return "C20" if src.get("x") == "setks" else "C09"
    if e in ("Drop",):
        return "C09"
    if e == "FireTimer":
        return "C14" if src.get("kind") == "spec" else "C09"
    if e == "StartReq":
        return "C17"
    if e == "Exec":
        return "C17" if src["t"]["k"] in ("Retry", "Reprepare", "AfterPrep") else "C25"
    if e == "Kill":
        return "C10"
    if e.startswith("Shutdown"):
        return "C45"
    return "C25"


def event_label(ev):
    src = ev if ev["e"] != "Anomaly" else ev["during"]
    e = src.get("e") or src.get("name")
    if e == "Exec" or e == "Fire":
        e += ":" + src["t"]["k"]
    elif e == "Answer":
        e += ":" + str(src.get("x"))
    return ("Anomaly:" if ev["e"] == "Anomaly" else "") + e


PARTS = ("host", "conn", "out", "att", "errs", "ks")
CLOSERS = ("Kill", "Exec:PoolShut", "Exec:AddPool", "ShutdownS")


def owner_of_part(part, ev, phase_before):
    if part in ("errs", "att"):
        return "C17"
    if part == "out":
        return "C14"
    if part == "ks":
        return "C20"
    if part == "conn":
        return "C10" if event_label(ev) in CLOSERS else "C09"
    return "C45" if (phase_before or 0) >= 1 or event_label(ev).startswith("Shutdown") else "C25"


def localise(ctx, tconsts, rejected, pool):
    """rejected: list of (trace, k).  Returns for each the parts of the post-state whose omission lets event k through."""
    cut = [t[:k + 1] for t, k in rejected]
    jobs = {}
    for part in PARTS:
        wd = os.path.join(ctx.scratch, "loc_" + part)
        os.makedirs(wd, exist_ok=True)
        cfg = tlc.write_cfg(os.path.join(wd, "loc.cfg"), init="TraceInit", next="TraceNext",
                            constants=dict(tconsts, Check=set(PARTS) - {part}), constraints=["Progress"],
                            postcondition="Done", deadlock=False)
        jobs[part] = pool.submit(tlc.validate_traces, "Trace_Driver", cfg, cut, wd, timeout=600, heap="2g")
    out = [[] for _ in rejected]
    for part, f in jobs.items():
        try:
            _, prog = f.result()
        except tlc.MachineryError:
            continue
        for i, (t, k) in enumerate(rejected):
            if prog and prog[i] == k + 2:
                out[i].append(part)
    return out


def stale_stream_id(t, k):
    """Is the FireTimer event t[k] the timeout of a request whose (connection, stream id) is in use by another request?"""
    ev = t[k]
    if ev["e"] != "FireTimer" or k == 0:
        return False
    pre = t[k - 1]["post"]
    q = pre["reqs"][ev["r"] - 1]
    if q["timer"] != "to" or not q["lc"]:
        return False
    conn = pre["conns"][q["lc"] - 1]
    return any(x[0] == q["lid"] and x[1] != ev["r"] for x in conn["reg"])


def reprepare_other_connection(t, k):
    """Does event t[k] queue an _execute_after_prepare task that names another connection than the one the PREPARE of
    that request was registered on?  (findings/C09_reprepare_returns_the_wrong_connection.py)"""
    if k == 0 or "post" not in t[k] or "post" not in t[k - 1]:
        return False
    pre, post = t[k - 1]["post"], t[k]["post"]
    before = [(x["s"], x["n"]) for x in pre["exec"] if x["k"] == "AfterPrep"]
    for x in post["exec"]:
        if x["k"] != "AfterPrep" or (x["s"], x["n"]) in before:
            continue
        on = [i for i, c in enumerate(pre["conns"], 1) if any(y[1] == x["n"] and y[2] == "P" for y in c["reg"])]
        if on and x["s"] not in on:
            return True
    return False


REPREP_SIG = "system:C09:AfterPrep-names-other-connection"


def run_system(ctx, pid=None):
    from harness.replay import driver as dr
    t_start = time.time()
    report = lambda prop: pid is None or pid == prop              # noqa: E731

    # ---- 1. the model by itself: random behaviours with every invariant on; vacuity witnesses
    cfg = tlc.write_cfg(os.path.join(ctx.scratch, "driver_sim.cfg"), constants=MODEL_CONSTS, invariants=INV, deadlock=False)
    n_sim = 1500 if ctx.quick else 6000
    res = tlc.run_tlc("Driver", cfg, ctx.scratch, workers=8, simulate="num=%d" % n_sim, depth=70, seed=ctx.seed + 1,
                      timeout=600)
    states = _sim_states(res.out)
    if res.invariant:
        own = owner_of_invariant(res.invariant)
        if report(own):
            ctx.violation("TLC: %s violated on Driver.tla (simulation)" % res.invariant,
                          replay={"trace": [dict(s.get("act", {})) for _, s in res.trace()]},
                          signature="system:%s:%s" % (own, res.invariant))
        return
    if res.rc != 0 or not states:
        raise tlc.MachineryError("TLC simulation of Driver.tla failed: %s\n%s" % (res.error, res.out[-2500:]))
    res.generated = res.distinct = states
    ctx.add_tlc(res, "Driver.tla simulation, %d behaviours x 8 workers, depth 70" % n_sim)
    ctx.note("system_model_constants", {k: (sorted(v) if isinstance(v, set) else v) for k, v in MODEL_CONSTS.items()})

    from concurrent.futures import ThreadPoolExecutor

    def reach(w):
        wcfg = tlc.write_cfg(os.path.join(ctx.scratch, w + ".cfg"), invariants=[w], deadlock=False,
                             constants=MODEL_CONSTS if w in NEEDS_THREE_HOSTS else WITNESS_CONSTS)
        wd = os.path.join(ctx.scratch, "w_" + w)
        os.makedirs(wd, exist_ok=True)
        r = None
        for attempt in range(2):                      # a JVM that dies (memory pressure on a busy machine) is started again
            r = tlc.run_tlc("Driver", wcfg, wd, workers=4, simulate="num=400000", depth=70, seed=ctx.seed + 2 + attempt,
                            timeout=900, heap="2g")
            if r.invariant == w:
                break
        return w, r
    pool = ThreadPoolExecutor(max_workers=4)
    witness_runs = [pool.submit(reach, w) for w in WITNESSES]        # TLC processes; meanwhile the runs are recorded

    # ---- 2. whole-driver runs, recorded and validated
    import random
    n_tr = 150 if ctx.quick else 3000
    nreqs = 4
    traces = []
    t0 = time.time()
    for i in range(n_tr):
        ev, _ = dr.record(random.Random(ctx.seed * 1000003 + i), nreqs=nreqs)
        traces.append(ev)
    ctx.note("system_record_s", round(time.time() - t0, 1))
    tconsts = {"Hosts": set(dr.HOSTS), "MaxEvents": dr.MAX_EVENTS, "NReqs": nreqs, "MaxId": dr.MAXID,
               "Keyspaces": set(dr.KEYSPACES), "Rots": {0, 1, 2}, "SpecMax": dr.SPECMAX, "Check": set(PARTS)}
    tcfg = tlc.write_cfg(os.path.join(ctx.scratch, "driver_trace.cfg"), init="TraceInit", next="TraceNext",
                         constants=tconsts, invariants=INV, constraints=["Progress"], postcondition="Done", deadlock=False)
    for f in witness_runs:
        w, wres = f.result()
        if wres.invariant != w:
            raise tlc.MachineryError("vacuity witness %s of Driver.tla not reached by simulation (%s)\n%s"
                                     % (w, wres.error, wres.out[-1500:]))
    ctx.note("system_witnesses_reached", len(WITNESSES))
    progress = []
    batch = 500
    chunks = [traces[b:b + batch] for b in range(0, len(traces), batch)]
    jobs = []
    for b, chunk in enumerate(chunks):                                   # independent JVMs side by side, own directories
        wd = os.path.join(ctx.scratch, "batch%d" % b)
        os.makedirs(wd, exist_ok=True)
        jobs.append(pool.submit(tlc.validate_traces, "Trace_Driver", tcfg, chunk, wd, timeout=1200, heap="2g"))
    for b, f in enumerate(jobs):
        tres, prog = f.result()
        ctx.add_tlc(tres, "trace validation, batch %d (%d runs)" % (b + 1, len(chunks[b])))
        if tres.violation:
            own = owner_of_invariant(tres.invariant)
            if report(own):
                ctx.violation("system invariant %s violated in a state of a recorded whole-driver run" % tres.invariant,
                              replay={"trace": [dict(s) for _, s in tres.trace()][-3:]},
                              signature="system:%s:%s" % (own, tres.invariant))
            pool.shutdown(wait=False)
            return
        progress += prog
    accepted, by_sig, kinds = 0, {}, {}
    first_accepted = None
    rejected = []
    for i, t in enumerate(traces):
        for e in t:
            kinds[event_label(e)] = kinds.get(event_label(e), 0) + 1
        if progress[i] == len(t) + 1 and t[-1]["e"] != "Anomaly":
            accepted += 1
            if first_accepted is None and len(t) >= 12 and any(e["e"] == "StartReq" and e["post"]["reqs"][e["r"] - 1]["att"]
                                                               for e in t[:10]):
                first_accepted = t
            if sum(1 for e in t if e["e"] in ("Kill", "FireTimer") or (e["e"] == "Answer" and e["x"] != "rows")) >= 2:
                ctx.nontrivial(("system", i, len(t)))
            continue
        rejected.append((i, t, min(progress[i], len(t)) - 1))
    # where did the real driver leave the specification?  (at most 60 rejected runs are localised)
    loc = {}
    todo = [(i, t, k) for i, t, k in rejected if t[k]["e"] != "Anomaly" and not stale_stream_id(t, k)
            and not reprepare_other_connection(t, k)][:60]
    if todo:
        parts = localise(ctx, tconsts, [(t, k) for _, t, k in todo], pool)
        loc = {i: p for (i, _, _), p in zip(todo, parts)}
    pool.shutdown(wait=True)
    for i, t, k in rejected:
        ev = t[k]
        phase_before = t[k - 1]["post"].get("phase") if k and "post" in t[k - 1] else 0
        parts = loc.get(i, [])
        if stale_stream_id(t, k):
            own, sig = "C09", STALE_SIG
        elif reprepare_other_connection(t, k):
            own, sig = "C09", REPREP_SIG
        elif len(parts) == 1:
            own = owner_of_part(parts[0], ev, phase_before)
            sig = "system:%s:%s/%s" % (own, event_label(ev), parts[0])
        else:
            if ev["e"] == "FireTimer" and k:
                ev = dict(ev, kind=t[k - 1]["post"]["reqs"][ev["r"] - 1]["timer"])
            own = owner_of_event(ev)
            sig = "system:%s:%s" % (own, event_label(ev))
        by_sig[sig] = by_sig.get(sig, 0) + 1
        if by_sig[sig] == 1 and report(own):
            shown = {x: y for x, y in ev.items() if x != "post"}
            ctx.violation("whole-driver run %d rejected by Driver.tla at event %d: %s%s; the real objects afterwards: reqs=%s conns=%s"
                          % (i, k + 1, shown, (" (differs in: %s)" % ",".join(parts)) if parts else "",
                             ev.get("post", {}).get("reqs"), ev.get("post", {}).get("conns")),
                          replay={"system": True, "seed": ctx.seed, "run": i, "nreqs": nreqs,
                                  "system_trace": [{x: y for x, y in e.items() if x != "post"} for e in t[:k + 1]],
                                  "post_before": t[k - 1].get("post") if k else None, "post_after": ev.get("post")},
                          signature=sig)
    ctx.traces_validated += accepted
    ctx.note("system_traces_recorded", len(traces))
    ctx.note("system_traces_accepted", accepted)
    ctx.note("system_rejections_by_signature", by_sig)
    ctx.note("system_events_by_kind", dict(sorted(kinds.items())))
    ctx.sample({"direction": "code->spec (system)", "events": [{x: y for x, y in e.items() if x != "post"} for e in traces[0][:16]]})

    # ---- 3. binding self-test
    if first_accepted is not None:
        base = first_accepted
        k = next(i for i, e in enumerate(base) if e["e"] == "StartReq" and e["post"]["reqs"][e["r"] - 1]["att"])
        bad1 = copy.deepcopy(base)
        a = bad1[k]["post"]["reqs"][bad1[k]["r"] - 1]["att"][-1]
        a[2] = (a[2] + 1) % (dr.MAXID + 1)                               # claims another stream id than the connection shows
        bad2 = copy.deepcopy(base)
        del bad2[k]                                                      # the request was never started
        bad3 = copy.deepcopy(base)
        j = len(bad3) - 1
        bad3[j]["post"]["conns"][0]["infl"] += 1 if bad3[j]["post"]["conns"][0]["open"] else 0
        bad3[j]["post"]["sks"] = bad3[j]["post"]["sks"] + "x"
        sres, sprog = tlc.validate_traces("Trace_Driver", tcfg, [base, bad1, bad2, bad3], ctx.scratch, timeout=600)
        want = [len(base) + 1, k + 1, k + 1, len(bad3)]
        if sres.violation or list(sprog) != want:
            raise tlc.MachineryError("system binding self-test failed: progress %s, expected %s" % (sprog, want))
        ctx.note("system_binding_selftest", {"accepted_again": 1, "forged_stream_id_rejected": 1, "dropped_event_rejected": 1,
                                             "wrong_final_state_rejected": 1})
    else:
        ctx.note("system_binding_selftest", "skipped: no recorded run was accepted in full")
    ctx.note("system_wall_s", round(time.time() - t_start, 1))
    ctx.assumptions += [
        "system model: host 1 (control connection) never fails; one session; no topology events; the environment answers a "
        "USE only when every pool connection has a free slot and kills no connection while a keyspace switch is pending",
        "system runs: executor tasks, scheduler entries, timers and node answers are run one at a time by a seeded random "
        "scheduler (loop-thread callbacks and executor tasks atomic); pool connections have stream ids 0..%d" % dr.MAXID,
    ]


SYSTEM_LEVEL_TEXT = (" Thorough tier additionally: the composed system model spec/Driver.tla (Hosts.tla instanced + pool "
                     "connections + requests + session keyspace) is explored by TLC in simulation mode with its invariants "
                     "on, and 3000 whole-driver runs over three simulated nodes (seeded random scheduler) are recorded and "
                     "validated event by event against spec/Trace_Driver.tla; rejections attributed to this property are "
                     "reported (trace validation, not exhaustive).")


def system_tier(ctx, pid):
    """The thorough tier of the checks whose property the system model speaks about runs the whole-driver machinery too
    and reports what is attributed to that property."""
    if not ctx.quick:
        run_system(ctx, pid)


def is_system_replay(obj):
    return isinstance(obj, dict) and bool(obj.get("system"))


def replay_system(ctx, obj):
    """Record the named whole-driver run again (the scheduler is seeded) and validate it against Trace_Driver.tla."""
    import random
    from harness.replay import driver as dr
    nreqs = obj.get("nreqs", 4)
    ev, _ = dr.record(random.Random(obj["seed"] * 1000003 + obj["run"]), nreqs=nreqs)
    tconsts = {"Hosts": set(dr.HOSTS), "MaxEvents": dr.MAX_EVENTS, "NReqs": nreqs, "MaxId": dr.MAXID,
               "Keyspaces": set(dr.KEYSPACES), "Rots": {0, 1, 2}, "SpecMax": dr.SPECMAX, "Check": set(PARTS)}
    tcfg = tlc.write_cfg(os.path.join(ctx.scratch, "driver_trace.cfg"), init="TraceInit", next="TraceNext",
                         constants=tconsts, invariants=INV, constraints=["Progress"], postcondition="Done", deadlock=False)
    tres, prog = tlc.validate_traces("Trace_Driver", tcfg, [ev], ctx.scratch, timeout=600)
    for j, e in enumerate(ev):
        print("%3d %s" % (j + 1, {x: y for x, y in e.items() if x != "post"}))
    if tres.violation:
        ctx.violation("replayed whole-driver run: invariant %s violated" % tres.invariant, replay=obj)
    elif prog[0] != len(ev) + 1 or ev[-1]["e"] == "Anomaly":
        k = min(prog[0], len(ev)) - 1
        print("rejected at event %d; real objects afterwards: %s" % (k + 1, ev[k].get("post")))
        ctx.violation("replayed whole-driver run: still rejected by Driver.tla at event %d" % (k + 1), replay=obj)
    else:
        print("accepted by Driver.tla (%d events)" % len(ev))
