"""C20 - switching the session keyspace is applied everywhere or reported (spec/SessionKeyspace.tla)."""
import copy
import os
from concurrent.futures import ThreadPoolExecutor

from harness import tlc
from checks._pool import cover_walks, Reporter

META = {
    "property_id": "C20",
    "engine": "SessionKeyspace",
    "technique": "TLA+ spec of the keyspace fan-out (Session._set_keyspace_for_all_pools over 1-4 pools, each with a connection / "
                 "without one at the moment / shut down, per-pool USE outcome ok / invalid / other error / connection death, any "
                 "completion order) checked exhaustively by TLC; every behaviour replayed into a real Session over FakeNodes with "
                 "a real ResponseFuture executing USE; recorded random runs validated against the spec",
    "level": "model_checking",
    "level_text": "TLC enumerates every configuration and completion order and checks that the switch completes exactly once and "
                  "whenever no answer is owed any more, that it reports success iff every pool that had a connection succeeded, "
                  "and that after success every connection borrowed later from every pool (a pool that had no connection gets one "
                  "from its _replace task first) has the new keyspace. Every edge of that graph is replayed on the real Session / "
                  "HostConnection / Connection / ResponseFuture: the nodes answer the fanned-out USE queries in the behaviour's "
                  "order, the future's callbacks/errbacks are counted, then a connection is borrowed from every pool and its "
                  "keyspace read.",
    "level_note": "Trusted: TLC; the SimConnection/FakeNode/SimExecutor doubles; callbacks of the loop thread atomic w.r.t. each "
                  "other; v3+ pools only (one connection per pool); pools added concurrently (add_or_renew_pool) are outside the "
                  "model. Start and PoolFinish are specified as C20 needs them (INTENDED) where the pinned code differs; those "
                  "show as replay divergences with stable signatures.",
    "design_ref": "5.4 C20",
}
from checks import _driver
META["level_text"] += _driver.SYSTEM_LEVEL_TEXT

INV = ["CompletesOnce", "AlwaysCompletes", "ErrorIffSomePoolFailed", "KeyspaceEverywhereAfterSuccess", "NoneOnlyWhenShutdown"]
WITNESSES = ["Witness_SuccessWithPoolWithoutConnection", "Witness_ErrorThenOkLast", "Witness_DiedOnly",
             "Witness_AllBorrowedAfterSuccess", "Witness_SwitchBetweenUseAndPublish", "Witness_SwitchWhileConnecting"]
ACTIONS = ["Start", "PoolFinish", "Reconnect", "Borrow", "RCheck", "ROpen", "RUse", "RPublish"]

WHAT = {
    "HostConnection._replace:keyspace-switch-between-USE-and-publication-of-the-replacement-lost":
        "HostConnection._replace selects pool._keyspace on the new connection and publishes it later without looking again "
        "(pool.py 512-517): a keyspace switch recorded in between finds no connection (reports success) and the pool then "
        "installs a connection on the old keyspace",
    "Session._set_keyspace_for_all_pools:never-completes-when-a-pool-has-no-connection-or-is-shut-down":
        "HostConnection._set_keyspace_for_all_conns returns without calling back when the pool is shut down or has no "
        "connection (pool.py 552-553), so Session._set_keyspace_for_all_pools never completes the USE future",
    "Session._set_keyspace_for_all_pools:reports-only-the-last-pool's-errors":
        "Session._set_keyspace_for_all_pools passes the last pool's host_errors to the completion instead of the accumulated "
        "errors (cluster.py 3456): an earlier pool's failure is reported as success",
    "Connection.set_keyspace_async:connection-death-during-USE-reported-as-success":
        "set_keyspace_async passes the return value of self.defunct(...) as the error (connection.py 1575); defunct() returns "
        "None when the connection is already defunct/closed, so a connection that died with the USE outstanding reports success",
    "HostConnection._set_keyspace_for_all_conns:keyspace-not-recorded-without-connection":
        "a pool without connection returns before recording the keyspace (pool.py 552-560): the connection its _replace task "
        "opens next selects the old keyspace",
}


def _fmt(d):
    return {k: {"spec": repr(v["spec"]), "code": repr(v["code"])} for k, v in d.items()}


def _cfg_of(state):
    from harness.replay import keyspace as rk
    return {"pstate": rk._fn(state["pstate"]), "outcome": rk._fn(state["outcome"]), "rph": rk._fn(state["rph"])}


def _has_replacement(nodes, w):
    return any(v != "none" for v in nodes[w[0]]["rph"])


def run(ctx):
    from harness.replay import keyspace as rk
    rep = Reporter(ctx, "C20")
    sizes = [2, 3] if ctx.quick else [1, 2, 3]
    budget = {3: 500} if ctx.quick else {}          # cover walks replayed for the larger instance in quick (all otherwise)
    if not ctx.quick:
        cfg4 = tlc.write_cfg(os.path.join(ctx.scratch, "ks4.cfg"), constants={"NPools": 4}, invariants=INV, deadlock=False)
        res4 = tlc.check_model("SessionKeyspace", cfg4, ctx.scratch, timeout=1500)
        ctx.add_tlc(res4, "exhaustive NPools=4 (not replayed)")
        if res4.violation:
            rep.report("C20", "spec:%s" % res4.invariant, "TLC: %s violated on SessionKeyspace.tla (NPools=4)" % res4.invariant,
                       {"kind": "spec", "trace": [dict(s.get("act", {})) for _, s in res4.trace()]})
            return rep.finish()
    replayed = clean = 0
    selftested = False
    for n in sizes:
        cfg = tlc.write_cfg(os.path.join(ctx.scratch, "ks%d.cfg" % n), constants={"NPools": n}, invariants=INV, deadlock=False)
        res, nodes, edges, init = tlc.state_graph("SessionKeyspace", cfg, ctx.scratch, coverage=True, timeout=900)
        ctx.add_tlc(res, "exhaustive NPools=%d" % n)
        if res.violation:
            rep.report("C20", "spec:%s" % res.invariant, "TLC: %s violated on SessionKeyspace.tla (NPools=%d)" % (res.invariant, n),
                       {"kind": "spec", "trace": [dict(s.get("act", {})) for _, s in res.trace()]})
            return rep.finish()
        cov = res.coverage()
        need = ACTIONS if n >= 2 else ACTIONS[:4]          # a single pool executes the USE itself: it is never being replaced
        zero = [a for a in need if a not in cov or cov[a][1] == 0]
        if zero:
            raise tlc.MachineryError("actions never taken (NPools=%d): %s" % (n, zero))
        # ---- spec -> code: every edge of the graph (every configuration, every order)
        walks = cover_walks(edges, init, max_len=40)
        needed = len(walks)
        if n in budget and needed > budget[n]:
            ctx.rng.shuffle(walks)
            first = [w for w in walks if _has_replacement(nodes, w)]      # half of the sample: a replacement in progress
            walks = (first[:budget[n] // 2] + [w for w in walks if not _has_replacement(nodes, w)])[:budget[n]]
        covered = set()
        for w in walks:
            states = [nodes[i] for i in w]
            divs = rk.replay(states)
            replayed += 1
            covered.update(zip(w, w[1:]))
            acts = [dict(s["act"]) for s in states[1:]]
            conf = _cfg_of(states[0])
            ctx.nontrivial((n, tuple(sorted(conf["pstate"].items())), tuple(sorted(conf["outcome"].items())),
                            tuple(sorted(conf["rph"].items())), tuple((a["name"][:2], a["p"]) for a in acts if a["name"] != "Borrow")))
            if replayed % 150 == 1:
                ctx.sample({"direction": "spec->code", "configuration": conf, "actions": acts})
            if not divs:
                clean += 1
                if not selftested and len(states) >= 3:
                    # binding self-test: the same behaviour with one flipped expectation must be noticed
                    bad = list(states)
                    flipped = dict(bad[-1])
                    flipped["completions"] = flipped["completions"] + 1
                    bad[-1] = flipped
                    d2 = rk.replay(bad)
                    if not (d2 and d2[0]["step"] == len(bad) - 1 and "completions" in d2[0]["diff"]):
                        raise tlc.MachineryError("binding self-test failed: a flipped expectation was not noticed by the replay")
                    selftested = True
                    ctx.note("binding_selftest_replay_flipped_expectation_noticed", 1)
            for d in divs:
                sig = d["signature"]
                rep.report("C20", sig, "%sreplay diverges at step %d (%s) in configuration %s: %s"
                           % (WHAT[sig] + ". " if sig in WHAT else "", d["step"], d["action"], conf, _fmt(d["diff"])),
                           {"kind": "walk", "configuration": {k: {str(p): v for p, v in x.items()} for k, x in conf.items()},
                            "actions": acts, "divergence": {"step": d["step"], "action": d["action"], "signature": sig,
                                                            "diff": _fmt(d["diff"])}})
        ctx.note("graph_edges_NPools=%d" % n, len(set((s, d) for s, d, _ in edges)))
        ctx.note("graph_edges_replayed_NPools=%d" % n, len(covered))
        ctx.note("cover_walks_NPools=%d" % n, {"needed_for_every_edge": needed, "replayed": len(walks)})
    ctx.note("exhaustive_up_to_NPools", max(k for k in sizes if k not in budget))
    ctx.traces_validated += clean
    ctx.note("behaviours_replayed", replayed)
    ctx.note("behaviours_replayed_without_divergence", clean)

    def one(w):
        wcfg = tlc.write_cfg(os.path.join(ctx.scratch, w + ".cfg"), constants={"NPools": 3}, invariants=[w], deadlock=False)
        return w, tlc.check_model("SessionKeyspace", wcfg, ctx.scratch, workers=2, timeout=300, heap="1g")
    with ThreadPoolExecutor(max_workers=4) as ex:
        for w, wres in ex.map(one, WITNESSES):
            if wres.invariant != w:
                raise tlc.MachineryError("vacuity witness %s not reachable" % w)
    ctx.note("vacuity_witnesses_reached", len(WITNESSES))

    # ---- code -> spec: recorded random runs validated against Trace_SessionKeyspace.tla
    n_tr = 150 if ctx.quick else 1000
    accepted = recorded = 0
    for n in ([3] if ctx.quick else [2, 3]):
        traces = [rk.record(n, ctx.rng) for _ in range(n_tr)]
        good = len(traces)
        victims = [i for i, t in enumerate(traces) if len(t) >= 5][:8]
        for i in victims:
            bad1 = copy.deepcopy(traces[i])
            bad1[2]["post"]["completions"] += 1
            bad2 = copy.deepcopy(traces[i])
            del bad2[1]                           # Start dropped
            traces += [bad1, bad2]
        tcfg = tlc.write_cfg(os.path.join(ctx.scratch, "kstrace%d.cfg" % n), init="TraceInit", next="TraceNext",
                             constants={"NPools": n}, invariants=INV, constraints=["Progress"], postcondition="Done", deadlock=False)
        tres, prog = tlc.validate_traces("Trace_SessionKeyspace", tcfg, traces, ctx.scratch, timeout=1200)
        ctx.add_tlc(tres, "trace validation NPools=%d" % n)
        if tres.violation:
            rep.report("C20", "trace-inv:%s" % tres.invariant, "invariant %s violated in a state of a recorded execution" % tres.invariant,
                       {"kind": "trace-inv", "trace": [dict(s) for _, s in tres.trace()][-3:]})
            return rep.finish()
        tested = 0
        for j, i in enumerate(victims):
            if prog[i] >= 4:
                if prog[good + 2 * j] != 3 or prog[good + 2 * j + 1] > 2:
                    raise tlc.MachineryError("binding self-test failed: corrupted/dropped trace accepted (%s, %s)"
                                             % (prog[good + 2 * j], prog[good + 2 * j + 1]))
                tested += 1
        if not tested:
            raise tlc.MachineryError("binding self-test could not run: no victim trace accepted far enough")
        ctx.count("binding_selftest_cases", tested)
        for i in range(good):
            t = traces[i]
            recorded += 1
            if prog[i] == len(t) + 1:
                accepted += 1
                continue
            k = prog[i] - 1
            sig = rk.classify_event(t, k)
            rep.report("C20", sig, "%srecorded execution rejected by the specification at event %d: %s (configuration %s)"
                       % (WHAT[sig] + ". " if sig in WHAT else "", prog[i], {a: b for a, b in t[k].items() if a != "post"},
                          {a: t[0][a] for a in ("pstate", "outcome", "rph")}),
                       {"kind": "trace", "events": t[:prog[i]]})
        if n == 3:
            ctx.sample({"direction": "code->spec", "events": [{k: v for k, v in e.items() if k != "post"} for e in traces[0]]})
    ctx.note("binding_selftest", {"corrupted_rejected": ctx.extra.get("binding_selftest_cases", 0),
                                  "dropped_rejected": ctx.extra.get("binding_selftest_cases", 0)})
    v12_replayed, v12_recorded = _run_v12(ctx, rep)
    replayed += v12_replayed
    recorded += v12_recorded
    ctx.traces_validated += accepted
    ctx.note("traces_recorded", recorded)
    ctx.note("traces_accepted", accepted)
    ctx.evaluations = replayed + recorded
    rep.finish()
    from checks import _driver
    _driver.system_tier(ctx, "C20")     # thorough: whole-driver runs against spec/Driver.tla, rejections owned by C20
    ctx.assumptions += [
        "callbacks of the loop thread (SET_KEYSPACE result, answers to the fanned-out USE) are atomic w.r.t. each other",
        "v3+ pools (HostConnection); pools added while the switch is in progress are not modelled (DESIGN 13, C20)",
        "'later request' = a borrow after the USE future completed; a pool without connection first runs its queued _replace task",
        "SimConnection/FakeNode reproduce the reactor contract and the protocol; <= 4 pools",
    ]


V12_INV = ["CompletesOnce", "AlwaysCompletes", "ErrorIffSomeConnectionFailed", "KeyspaceEverywhereAfterSuccess"]
V12_WITNESSES = ["Witness_EarlierConnectionFailedLastOk", "Witness_Success"]


def _run_v12(ctx, rep):
    """Second level: the fan-in of a protocol-v1/v2 pool over its connections (spec/SessionKeyspaceV12.tla, bound to a
    real HostConnectionPool with 2-3 connections)."""
    from harness.replay import keyspace_v12 as rv
    replayed = clean = 0
    for nh, nc in ([(1, 3)] if ctx.quick else [(1, 2), (1, 3)]):
        k = {"NHosts": nh, "NConn": nc}
        cfg = tlc.write_cfg(os.path.join(ctx.scratch, "ksv12_%d_%d.cfg" % (nh, nc)), constants=k, invariants=V12_INV, deadlock=False)
        res, nodes, edges, init = tlc.state_graph("SessionKeyspaceV12", cfg, ctx.scratch, coverage=True, timeout=900)
        ctx.add_tlc(res, "exhaustive v1/v2 pool fan-in NHosts=%d NConn=%d" % (nh, nc))
        if res.violation:
            rep.report("C20", "spec:v12:%s" % res.invariant, "TLC: %s violated on SessionKeyspaceV12.tla" % res.invariant,
                       {"kind": "spec", "trace": [dict(s.get("act", {})) for _, s in res.trace()]})
            return replayed, 0
        cov = res.coverage()
        if any(a not in cov or cov[a][1] == 0 for a in ("Start", "ConnFinish")):
            raise tlc.MachineryError("actions never taken in SessionKeyspaceV12")
        walks = cover_walks(edges, init, max_len=20)
        for w in walks:
            states = [nodes[i] for i in w]
            d = rv.replay(states)
            replayed += 1
            conf = rv.config_of(states[0])
            acts = [dict(s["act"]) for s in states[1:]]
            ctx.nontrivial(("v12", nh, nc, repr(sorted((h, tuple(sorted(v.items()))) for h, v in conf.items())),
                            tuple((a["h"], a["i"]) for a in acts)))
            if d is None:
                clean += 1
                continue
            rep.report("C20", d["signature"], "replay (v1/v2 pool with %d connections) diverges at step %d (%s) in configuration %s: %s"
                       % (nc, d["step"], d["action"], conf, _fmt(d["diff"])),
                       {"kind": "walk-v12", "configuration": {str(h): {str(i): o for i, o in v.items()} for h, v in conf.items()},
                        "actions": acts, "divergence": {"step": d["step"], "action": d["action"], "signature": d["signature"],
                                                        "diff": _fmt(d["diff"])}})
        ctx.note("v12_graph_edges_NConn=%d" % nc, {"edges": len(set((a, b) for a, b, _ in edges)), "cover_walks": len(walks)})
    if not ctx.quick:
        cfg = tlc.write_cfg(os.path.join(ctx.scratch, "ksv12_22.cfg"), constants={"NHosts": 2, "NConn": 2}, invariants=V12_INV, deadlock=False)
        res = tlc.check_model("SessionKeyspaceV12", cfg, ctx.scratch, timeout=900)
        ctx.add_tlc(res, "exhaustive v1/v2 pool fan-in NHosts=2 NConn=2 (not replayed)")
        if res.violation:
            rep.report("C20", "spec:v12:%s" % res.invariant, "TLC: %s violated on SessionKeyspaceV12.tla" % res.invariant, {"kind": "spec"})
            return replayed, 0

    def one(w):
        wcfg = tlc.write_cfg(os.path.join(ctx.scratch, "v12_" + w + ".cfg"), constants={"NHosts": 1, "NConn": 3}, invariants=[w], deadlock=False)
        return w, tlc.check_model("SessionKeyspaceV12", wcfg, ctx.scratch, workers=2, timeout=900, heap="1g")
    with ThreadPoolExecutor(max_workers=2) as ex:
        for w, wres in ex.map(one, V12_WITNESSES):
            if wres.invariant != w:
                raise tlc.MachineryError("vacuity witness %s (SessionKeyspaceV12) not reachable" % w)
    # code -> spec
    nh, nc = 1, 3
    traces = [rv.record(nh, nc, ctx.rng) for _ in range(60 if ctx.quick else 600)]
    good = len(traces)
    victims = [i for i, t in enumerate(traces) if len(t) >= 4][:4]
    for i in victims:
        bad = copy.deepcopy(traces[i])
        bad[2]["post"]["completions"] += 1
        traces.append(bad)
    tcfg = tlc.write_cfg(os.path.join(ctx.scratch, "ksv12_trace.cfg"), init="TraceInit", next="TraceNext",
                         constants={"NHosts": nh, "NConn": nc}, invariants=V12_INV, constraints=["Progress"], postcondition="Done", deadlock=False)
    tres, prog = tlc.validate_traces("Trace_SessionKeyspaceV12", tcfg, traces, ctx.scratch, timeout=1200)
    ctx.add_tlc(tres, "trace validation v1/v2 pool fan-in")
    if tres.violation:
        rep.report("C20", "trace-inv:v12:%s" % tres.invariant, "invariant %s violated in a recorded v1/v2 execution" % tres.invariant, {"kind": "trace-inv"})
        return replayed, good
    if not any(prog[i] >= 4 and prog[good + j] == 3 for j, i in enumerate(victims)):
        raise tlc.MachineryError("binding self-test failed (v1/v2 fan-in): corrupted trace accepted or no victim")
    accepted = 0
    for i in range(good):
        t = traces[i]
        if prog[i] == len(t) + 1:
            accepted += 1
            continue
        ev = t[prog[i] - 1]
        rep.report("C20", "trace:v12ks:%s" % ev["e"], "recorded v1/v2 execution rejected by the specification at event %d: %s (outcomes %s)"
                   % (prog[i], {a: b for a, b in ev.items() if a != "post"}, t[0]["outcome"]), {"kind": "trace", "events": t[:prog[i]]})
    ctx.traces_validated += clean + accepted
    ctx.note("v12_behaviours_replayed", replayed)
    ctx.note("v12_behaviours_replayed_without_divergence", clean)
    ctx.note("v12_traces", {"recorded": good, "accepted": accepted})
    ctx.assumptions += ["v1/v2 fan-in: one pool with 2-3 connections is bound to the real HostConnectionPool (the simulated node's v2 "
                        "system.peers rows are not decodable, so a v2 cluster has one host); two pools are model-checked only"]
    return replayed, good


def _replay_v12(obj):
    from harness.replay import keyspace_v12 as rv
    conf = {int(h): {int(i): o for i, o in v.items()} for h, v in obj["configuration"].items()}
    print("configuration:", conf)
    h = rv.KsV12Harness(conf)
    for a in obj["actions"]:
        print("->", a["name"], a["h"], a["i"])
        try:
            h.do(a)
        except Exception as ex:
            print("   cannot perform: %s: %s" % (type(ex).__name__, ex))
            break
        print("  ", h.project())
    print("recorded divergence:", obj.get("divergence"))
    h.teardown()


def replay(ctx, obj):
    from harness.replay import keyspace as rk
    from checks import _driver
    if _driver.is_system_replay(obj):
        return _driver.replay_system(ctx, obj)
    if obj.get("kind") == "walk-v12":
        return _replay_v12(obj)
    if obj.get("kind") == "walk":
        conf = obj["configuration"]
        pstate = {int(p): v for p, v in conf["pstate"].items()}
        outcome = {int(p): v for p, v in conf["outcome"].items()}
        rph = {int(p): v for p, v in conf.get("rph", {}).items()}
        print("configuration:", pstate, outcome, rph)
        h = rk.KsHarness(pstate, outcome, rph)
        print("  ", h.project())
        for a in obj["actions"]:
            print("->", a["name"], a["p"])
            try:
                h.do(a)
            except Exception as ex:
                print("   cannot perform: %s: %s" % (type(ex).__name__, ex))
                break
            print("  ", h.project())
        print("recorded divergence:", obj.get("divergence"))
        h.teardown()
    else:
        for e in obj.get("events", obj.get("trace", [])):
            print(e)
