"""C31 - client-side timestamps strictly increase across all threads.

Spec: spec/Timestamps.tla (threads x calls x nondeterministic clock x generator configuration - warn_on_drift,
      warning threshold / interval -; Acquire / ReadClock / Compute (+ warning) / Release).
TLC : exhaustive for N=3, K=2, M=3 (quick: N=3, K=2, M=1 plus the instances whose graphs are replayed), invariants Mutex, StrictlyIncreasing,
      NotBehindClock, LastIsMax; termination.
Bind: spec -> code: every edge of the state graphs of smaller instances replayed into the real generator under
      DetSched line mode (lock replaced by an instrumented DLock, cassandra.timestamps.time scripted), with the
      blocked-where-disabled check; code -> spec: random line-level schedules recorded as acq/read/set/rel/ret
      events and validated by TLC against Trace_Timestamps.tla.
"""
import copy
import os

from harness import tlc
from harness.tlaval import to_py
from harness.replay import timestamps as rt
from harness.replay._walks import covering_walks

META = {
    "property_id": "C31",
    "engine": "Timestamps",
    "technique": "TLA+ spec of the locked timestamp generator with a nondeterministic clock, checked exhaustively by TLC; "
                 "every interleaving of small instances replayed line by line into the real generator (DetSched), random "
                 "line-level schedules validated as traces",
    "level": "model_checking",
    "level_text": "TLC visits every interleaving of 3 threads x 2 calls with every clock reading in 0..3 per call and checks "
                  "that returned values strictly increase in lock order and are never behind the clock value read. Every "
                  "edge of the state graphs of smaller instances is replayed on the real MonotonicTimestampGenerator under "
                  "line-level deterministic scheduling: the events of each step, the lock owner, `last` and all returned "
                  "values must match, and threads must be blocked exactly where the spec disables Acquire. Random "
                  "line-level schedules are recorded and accepted by TLC only if they are behaviours of the spec.",
    "level_note": "Trusted: TLC; DetSched (greenlet threads, sys.settrace line pre-emption, DLock); the scripted clock "
                  "(microsecond integers 0..M); small scope (3 threads, 2-3 calls, clock values 0..5); atomicity below "
                  "source-line granularity is not explored.",
    "design_ref": "5.6 C31",
}

INV = ["TypeOK", "Mutex", "StrictlyIncreasing", "NotBehindClock", "LastIsMax", "ConfIrrelevant"]
WITNESSES = ["Drift", "BackwardsClock", "Contention", "AllDone", "Warned", "DriftTwiceSilently"]
ALL, DEFAULT, EAGER = "<- AllConfs", "<- DefaultConf", "<- EagerConfs"      # generator configurations (Timestamps.tla)
CONFS = [{"warn": w, "eager": e} for w in (True, False) for e in (False, True)]


def cfg_for(ctx, name, consts, invariants=INV, **kw):
    return tlc.write_cfg(os.path.join(ctx.scratch, name + ".cfg"), constants=consts, invariants=invariants,
                         deadlock=False, **kw)


def run(ctx):
    # ---- which design does the code follow?  (where the clock is read is not part of the property)
    probed = rt.probe_design()
    outside = bool(probed)                 # undetermined -> the pinned design; the replay will then diverge
    ctx.note("design_probe", {"clock_read_before_lock_acquisition": probed, "ReadOutsideLock": outside})
    # ---- the specification, exhaustively, for BOTH designs (the property must hold whichever the code follows)
    big = [{"N": 3, "K": 2, "M": 1, "Confs": ALL, "ReadOutsideLock": outside},
           {"N": 3, "K": 2, "M": 1, "Confs": DEFAULT, "ReadOutsideLock": not outside}] if ctx.quick else \
          [{"N": 3, "K": 2, "M": 3 if not outside else 2, "Confs": DEFAULT, "ReadOutsideLock": outside},
           {"N": 3, "K": 2, "M": 2 if not outside else 1, "Confs": EAGER, "ReadOutsideLock": outside},
           {"N": 3, "K": 2, "M": 2, "Confs": DEFAULT, "ReadOutsideLock": not outside}]
    reached = set()
    for consts in big:
        res = tlc.check_model("Timestamps", cfg_for(ctx, "ts_big", consts, next="NextW"), ctx.scratch, coverage=True,
                              timeout=1500)
        ctx.add_tlc(res, "exhaustive %s" % consts)
        if res.violation:
            ctx.violation("TLC: %s violated on Timestamps.tla" % res.invariant,
                          replay={"trace": [dict(s["act"]) for _, s in res.trace() if "act" in s]},
                          signature="spec:%s" % res.invariant)
            return
        cov = res.coverage()
        zero = [a for a in ("Acquire", "ReadClock", "Compute", "Release") if a not in cov or cov[a][1] == 0]
        if zero:
            raise tlc.MachineryError("actions never taken: %s (coverage keys %s)" % (zero, sorted(cov)))
        if consts["ReadOutsideLock"] == outside:
            reached.update(w for w in WITNESSES if cov.get("W_" + w, (0, 0))[1] > 0)
    if reached != set(WITNESSES):
        raise tlc.MachineryError("vacuity witnesses not reachable: %s" % sorted(set(WITNESSES) - reached))
    ctx.note("vacuity_witnesses_reached", len(WITNESSES))
    # ---- spec -> code: every edge of the state graph of small instances
    # (every generator configuration: warn_on_drift on / off x warning threshold & interval 0 / default)
    small = [{"N": 2, "K": 2, "M": 2, "Confs": EAGER}, {"N": 3, "K": 1, "M": 2, "Confs": ALL}] if ctx.quick else \
            [{"N": 2, "K": 2, "M": 3, "Confs": ALL}, {"N": 3, "K": 1, "M": 3, "Confs": ALL},
             {"N": 3, "K": 2, "M": 1, "Confs": EAGER}]
    if outside:            # more interleavings when the reading is not serialized: smaller clock domain, same threads
        small = [{"N": 2, "K": 2, "M": 1, "Confs": EAGER}, {"N": 3, "K": 1, "M": 1, "Confs": ALL}] if ctx.quick else \
                [{"N": 2, "K": 2, "M": 2, "Confs": ALL}, {"N": 3, "K": 1, "M": 3, "Confs": ALL},
                 {"N": 3, "K": 2, "M": 1, "Confs": DEFAULT}]
    for c in small:
        c["ReadOutsideLock"] = outside
    replayed = blocked_total = diverged = 0
    all_covered = True
    seen = set()
    first_walk = None
    for consts in small:
        # the same run checks termination (<>[]Finished under weak fairness of Next)
        res, nodes, edges, init = tlc.state_graph("Timestamps", cfg_for(ctx, "ts_small", consts, spec="FairSpec",
                                                                        properties=["Terminates"]), ctx.scratch, timeout=900)
        ctx.add_tlc(res, "graph + termination %s" % consts)
        if res.violation:
            ctx.violation("TLC: %s violated on Timestamps.tla" % res.invariant, replay={"constants": consts},
                          signature="spec:%s" % res.invariant)
            return
        walks = covering_walks(edges, init)
        covered = set()
        for w in walks:
            covered.update(zip(w, w[1:]))
        all_covered = all_covered and len(covered) == len(set((s, d) for s, d, _ in edges))
        ctx.count("graph_edges", len(edges))
        ctx.count("graph_edges_replayed", len(covered))
        for w in walks:
            states = [nodes[n] for n in w]
            # the threads' way to their first lock request is interleaved differently from behaviour to behaviour
            d, nb = rt.replay(consts, states, start_rounds=[None, 0, 1, 2, 3, 4, 5, 6][replayed % 8])
            replayed += 1
            blocked_total += nb
            if first_walk is None and len(states) > 8:
                first_walk = (consts, states)
            acts = [dict(s["act"]) for s in states[1:]]
            order = [a["t"] for a in acts if a["name"] == "Acquire"]
            vs = [a["v"] for a in acts if a["name"] == "ReadClock"]
            if len(set(order)) > 1 and vs != sorted(vs):
                ctx.nontrivial(("walk", consts["N"], consts["K"], tuple(sorted(states[0]["conf"].items())), tuple(order), tuple(vs)))
            if replayed % 400 == 1:
                ctx.sample({"direction": "spec->code", "constants": consts, "actions": acts})
            if d:
                diverged += 1
                sig = "replay:%s:%s" % (d["action"]["name"], d["kind"])
                if sig not in seen:
                    seen.add(sig)
                    ctx.violation("replay diverges at step %d (%s): %s" % (d["step"], d["action"], d["diff"]),
                                  replay={"constants": consts, "states": [to_py(s) for s in states[:d["step"] + 1]],
                                          "divergence": d}, signature=sig)
    ctx.traces_validated += replayed - diverged
    ctx.note("behaviours_replayed", replayed)
    ctx.note("blocked_checks", blocked_total)
    ctx.note("exhaustive", all_covered)
    if diverged == 0:
        # (meaningful only when the unmodified behaviours replay cleanly; a misbehaving driver is reported above)
        if blocked_total == 0:
            raise tlc.MachineryError("no blocked-where-disabled check was ever made")
        # binding self-test (replay): a corrupted expectation must be noticed
        consts, states = first_walk
        k = next(i for i, s in enumerate(states) if s["act"]["name"] == "Compute")
        d, _ = rt.replay(consts, states, corrupt=(k, "last", states[k]["last"] + 1))
        if not d or d["step"] != k:
            raise tlc.MachineryError("binding self-test failed: corrupted expectation not detected by the replayer")

    # ---- code -> spec: random line-level schedules
    tconsts = {"N": 3, "K": 2, "M": 3, "Confs": ALL} if ctx.quick else {"N": 3, "K": 3, "M": 5, "Confs": ALL}
    tconsts["ReadOutsideLock"] = outside
    n_tr = 200 if ctx.quick else 3000
    traces, rets = [], []
    for _ in range(n_tr):
        t, r = rt.record(tconsts, ctx.rng, conf=ctx.rng.choice(CONFS))
        traces.append(t)
        rets.append(r)
    good = len(traces)
    # sensitivity self-test: the same generator with a lock that does not lock
    nolock = [rt.record(tconsts, ctx.rng, null_lock=True, conf=ctx.rng.choice(CONFS)) for _ in range(40)]
    dup = sum(1 for _, r in nolock if len(set(r)) < len(r))
    # binding self-test (traces): corrupted value, read moved before its acquire
    victim = copy.deepcopy(traces[0])
    i_set = next(i for i, e in enumerate(victim) if e["e"] == "set")
    victim[i_set]["x"] += 1
    swapped = copy.deepcopy(traces[0])
    swapped[1], swapped[2] = swapped[2], swapped[1]
    extra = [victim, swapped] + [t for t, _ in nolock]
    tcfg = tlc.write_cfg(os.path.join(ctx.scratch, "trace.cfg"), init="TraceInit", next="TraceNext", constants=tconsts,
                         invariants=INV, constraints=["Progress"], postcondition="Done", deadlock=False)
    tres, prog = tlc.validate_traces("Trace_Timestamps", tcfg, traces + extra, ctx.scratch, timeout=1800)
    ctx.add_tlc(tres, "trace validation")
    if tres.violation:
        ctx.violation("invariant %s violated in a state of a recorded execution" % tres.invariant,
                      replay={"trace": [dict(s) for _, s in tres.trace()][-3:]}, signature="trace-inv:%s" % tres.invariant)
        return
    accepted = 0
    for i in range(good):
        t = traces[i]
        if prog[i] == len(t) + 1 and len(rets[i]) == tconsts["N"] * tconsts["K"]:
            accepted += 1
            reads = [e["v"] for e in t if e["e"] == "read"]
            order = [e["t"] for e in t if e["e"] == "acq"]
            if reads != sorted(reads) and len(set(order[:3])) > 1:
                ctx.nontrivial(("trace", t[0]["warn"], t[0]["eager"], tuple(order), tuple(reads)))
            continue
        pos = min(prog[i], len(t))
        ev = t[pos - 1]
        sig = "trace:%s" % ev["e"]
        if sig not in seen:
            seen.add(sig)
            ctx.violation("recorded line-level execution rejected by the specification at event %d: %s (returned %s)"
                          % (pos, ev, rets[i]), replay={"constants": tconsts, "events": t[:pos], "returned": rets[i]},
                          signature=sig)
    if accepted == good:
        # the self-tests are meaningful only when the unmodified recordings are behaviours of the spec
        if prog[good] != i_set + 1 or prog[good + 1] != 2:
            raise tlc.MachineryError("binding self-test failed: corrupted / reordered trace accepted (%s, %s)"
                                     % (prog[good], prog[good + 1]))
        rejected_nolock = sum(1 for j, (t, _) in enumerate(nolock) if prog[good + 2 + j] != len(t) + 1)
        if rejected_nolock != len(nolock) or dup == 0:
            raise tlc.MachineryError("sensitivity self-test failed: %d/%d lock-less executions rejected, %d with duplicate "
                                     "timestamps" % (rejected_nolock, len(nolock), dup))
        ctx.note("binding_selftest", {"corrupted_state_detected": 1, "corrupted_trace_rejected": 1, "reordered_trace_rejected": 1,
                                      "lockless_traces_rejected": rejected_nolock, "lockless_runs_with_duplicates": dup})
    ctx.sample({"direction": "code->spec", "constants": tconsts, "events": traces[0][:15], "returned": rets[0]})
    ctx.traces_validated += accepted
    ctx.note("traces_recorded", good)
    ctx.note("traces_accepted", accepted)
    ctx.evaluations = replayed + good
    ctx.note("rule", "a replayed behaviour / recorded trace is non-trivial when at least two threads take the lock and the "
                     "clock readings are not monotone (the clock stood still or jumped backwards); distinct by lock order "
                     "and clock readings")
    ctx.assumptions += [
        "where the clock is read (under the lock or before requesting it) is a design choice the property leaves open: "
        "both designs are model checked, a probe on the real code selects the one it is bound to",
        "pre-emption at source-line granularity inside __call__ / _next_timestamp and at lock operations",
        "clock readings are microsecond integers in 0..M (M <= 5); last starts at 0",
        "generator configurations: warn_on_drift True/False x (warning_threshold, warning_interval) = (0, 0) / (1, 1)",
        "small scope: 3 threads, up to 3 calls each",
    ]


def replay(ctx, obj):
    consts = obj["constants"]
    if "states" in obj:
        d, nb = rt.replay(consts, obj["states"])
        for s in obj["states"][1:]:
            print("->", s["act"])
        print("divergence:", d)
        if d:
            ctx.violation("replayed: still diverges: %s" % d, replay=obj)
    else:
        for e in obj["events"]:
            print(e)
        print("returned:", obj.get("returned"))
