"""C13 - replacing an overloaded connection never abandons live requests (spec/Pool.tla)."""
from checks import _pool

META = {
    "property_id": "C13",
    "engine": "Pool",
    "technique": "action properties and invariants on the TLA+ spec of the HostConnection pool (no close of a connection somebody "
                 "still waits on unless defunct/shutdown; borrows go to the published replacement; a trashed connection with "
                 "only orphaned streams left is closed by the step that drains it) checked exhaustively by TLC; every graph edge "
                 "replayed into the real pool under DetSched with the connections' close log checked; recorded runs validated "
                 "against the spec",
    "level": "model_checking",
    "level_text": "Same model and binding as C12. TLC checks on every transition that a connection closed while the pool is "
                  "alive and the connection is not defunct has no borrowed or sent request left and errors nobody, that a borrow "
                  "picks the pool's current connection (never a trashed one) and that after ReplacePublish the current "
                  "connection is the new one, and as an invariant that an open trashed connection always has a live request "
                  "(so the step making live = 0 closed it). The replay compares closed/trash/picked connection of the real "
                  "objects after every step and reads SimConnection.close's log (in_flight vs orphans at close time).",
    "level_note": "Trusted base and bounds as C12 (threshold 1-2, capacity 2-3, <=4 requests, <=3 connections).",
    "design_ref": "5.2 C13",
}


def run(ctx):
    _pool.run(ctx, "C13")


def replay(ctx, obj):
    _pool.replay(ctx, "C13", obj)
