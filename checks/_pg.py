"""Helpers shared by C18 / C19."""
import os
from concurrent.futures import ThreadPoolExecutor

from harness import tlc


def reach_witnesses(ctx, module, consts, witnesses, timeout=600):
    """Vacuity guard: every Witness_* predicate (a negated reachability claim) must be VIOLATED by TLC.
    One TLC process per witness, started side by side (they are independent and short)."""
    def one(w):
        cfg = tlc.write_cfg(os.path.join(ctx.scratch, w + ".cfg"), constants=consts, invariants=[w], deadlock=False)
        return w, tlc.run_tlc(module, cfg, ctx.scratch, workers=2, timeout=timeout, heap="1g")
    with ThreadPoolExecutor(max_workers=4) as ex:
        results = list(ex.map(one, witnesses))
    for w, res in results:
        if res.invariant != w:
            raise tlc.MachineryError("vacuity witness %s not reachable in %s (%s)" % (w, module, res.error or "no violation"))
    ctx.note("vacuity_witnesses_reached", len(witnesses))


def widen_reprepare_trace(trace, from_n, to_n):
    """A behaviour of Reprepare with from_n hosts in which the plan is never exhausted is also one with to_n hosts."""
    extra = ["h%d" % i for i in range(from_n + 1, to_n + 1)]
    for ev in trace:
        ev["post"]["plan"] = list(ev["post"]["plan"]) + extra
        for h in extra:
            ev["post"]["pool"][h] = "ok"
    return trace


def follow(nodes, edges, start, steps):
    """The path from node `start` whose i-th edge leads to a state whose `act` matches steps[i] (a dict of act fields).
    Returns the list of node ids, or raises MachineryError when the specification has no such behaviour."""
    succ = {}
    for s, d, _ in edges:
        succ.setdefault(s, []).append(d)
    path = [start]
    for want in steps:
        nxt = [d for d in succ.get(path[-1], ()) if all(nodes[d]["act"].get(k) == v for k, v in want.items())]
        if not nxt:
            raise tlc.MachineryError("self-test behaviour not in the state graph at step %r" % (want,))
        path.append(nxt[0])
    return path
