"""C18 - paged results yield every row exactly once, in order (spec/Paging.tla)."""
import copy
import os

from harness import tlc
from checks import _pg

META = {
    "property_id": "C18",
    "engine": "Paging",
    "technique": "TLA+ spec of node-side paging, ResponseFuture page fetching and the ResultSet consumer API checked exhaustively by "
                 "TLC over all page layouts; every edge of the state graph replayed on a real Session/ResponseFuture/ResultSet "
                 "over a simulated node, plus recorded random consumer programs validated against the spec",
    "level": "model_checking",
    "level_text": "TLC enumerates every page layout (1-4 pages of 0-2 rows, empty pages included; quick: 1-3 pages) and every "
                  "interleaving of the consumer operations iter / next / list()/all() / fetch_next_page / rs[i] / rs == x on it, plus the "
                  "documented callback-chained consumer (add_callbacks; the callback reads has_more_pages and calls "
                  "start_fetching_next_page inside the completion of each page, registered before or after the first page), and "
                  "checks: requests carry exactly the token returned with the previous page, pages are served once and in order, "
                  "nothing is requested after a token-less page, current_rows is the page just fetched, every iteration yields a "
                  "gap-free, duplicate-free run of the result's rows in server order that ends only at the last row, and list mode "
                  "holds the same rows. Every edge of that graph is replayed on the real objects (paging_state decoded from each "
                  "QUERY frame the node received, row ids, iterator position, pure reads compared after every step). Random "
                  "programs over larger layouts (<= 6 pages of <= 3 rows) are recorded and validated by TLC (Trace_Paging), invariants on.",
    "level_note": "Trusted: TLC; the SimConnection/FakeNode doubles and the independent codec in harness/wire.py; one consumer thread "
                  "(page fetch = one atomic step because result() blocks); small scope. For mixtures the checked claim is per "
                  "iteration: iter(rs) restarts at the first row of the current page (as the code does), so 'next() a few rows, "
                  "then list(rs)' repeats the consumed rows of the current page - the statement is silent on it and the check "
                  "accepts it. fetch_next_page() after materialisation (list mode) is outside the explored scope.",
    "design_ref": "5.3 C18",
}

INV = ["TypeOK", "TokenChain", "ServedInOrder", "NoRequestAfterLast", "CurIsPage", "Contiguous", "Complete", "ListAgrees",
       "CallbackPages"]
PROPS = ["StopsAfterLast"]
WITNESSES = ["Witness_EmptyMiddlePage", "Witness_ListAfterPartialIter", "Witness_ListModeFourPages", "Witness_RuntimeError",
             "Witness_ManualToEnd", "Witness_CallbackEarly", "Witness_CallbackLate"]
ACTIONS = ("Execute", "Iter", "Next_", "Fetch", "List", "ListMode", "ExecAsync", "AddCallback", "Deliver")
RULE = ("spec->code: one case = one walk through the exhaustive state graph (layout + operation sequence), the walks together "
        "cover every edge; code->spec: one case = one random program over a random layout. Non-trivial = the behaviour fetched "
        "at least two pages (>= 2 requests) and handed rows to the consumer; distinct by (layout, operations).")


def _acts(states):
    return [dict(s["act"]) for s in states[1:]]


def _sig(d):
    act = d["action"]
    name = act["name"] if isinstance(act, dict) else act
    return "replay:%s:%s" % (name, ",".join(sorted(d["diff"])))


def run(ctx):
    from harness.replay import paging as rp
    consts = {"MaxPages": 3 if ctx.quick else 4, "MaxRows": 2, "MaxIdx": 1}
    cfg = tlc.write_cfg(os.path.join(ctx.scratch, "paging.cfg"), constants=consts, invariants=INV, properties=PROPS,
                        deadlock=False)
    res, nodes, edges, init = tlc.state_graph("Paging", cfg, ctx.scratch, coverage=True, timeout=1200)
    ctx.add_tlc(res, "exhaustive MaxPages=%d MaxRows=2" % consts["MaxPages"])
    ctx.note("constants", consts)
    ctx.note("rule", RULE)
    ctx.note("layouts", len(init))
    if res.violation:
        ctx.violation("TLC: %s violated on Paging.tla" % res.invariant,
                      replay={"trace": [dict(s.get("act", {})) for _, s in res.trace()]}, signature="spec:%s" % res.invariant)
        return
    cov = res.coverage()
    zero = [a for a in ACTIONS if a not in cov or cov[a][1] == 0]
    if zero:
        raise tlc.MachineryError("actions never taken in the exhaustive model: %s" % zero)
    _pg.reach_witnesses(ctx, "Paging", consts, WITNESSES)

    # ---- spec -> code: replay walks covering every edge of the exhaustive graph
    walks = rp.cover_walks(nodes, edges, init)
    covered = set()
    for w in walks:
        covered.update(zip(w, w[1:]))
    all_edges = set((s, d) for s, d, _ in edges)
    ctx.note("graph_edges", len(all_edges))
    ctx.note("graph_edges_replayed", len(covered))
    ctx.note("exhaustive", covered == all_edges)
    if covered != all_edges:
        raise tlc.MachineryError("walks cover %d of %d edges" % (len(covered), len(all_edges)))
    replayed = 0
    reported = set()
    for w in walks:
        states = [nodes[n] for n in w]
        try:
            d = rp.replay(states)
        except Exception as ex:           # noqa: BLE001 - real objects left the envelope the harness can drive
            d = {"step": -1, "action": "harness", "diff": {"exception": "%s: %s" % (type(ex).__name__, ex)}}
            rp.Env.discard()
        replayed += 1
        last = states[-1]
        if len(last["reqs"]) >= 2 and (len(last["yielded"]) > 0 or last["mode"] == "list" or last["cb"]["calls"] >= 2):
            ctx.nontrivial((tuple(last["layout"]),) + tuple((a["name"], a["arg"]) for a in _acts(states)))
        if replayed % 4000 == 1:
            ctx.sample({"direction": "spec->code", "layout": list(states[0]["layout"]), "actions": _acts(states)})
        if d:
            sig = _sig(d)
            if sig not in reported or len(reported) < 5:
                reported.add(sig)
                ctx.violation("replay diverges at step %s (%s) on layout %s: %s"
                              % (d["step"], d["action"], list(states[0]["layout"]), d["diff"]),
                              replay={"layout": list(states[0]["layout"]), "actions": _acts(states)[:max(d["step"], 0)],
                                      "divergence": d}, signature=sig)
            else:
                ctx.count("further_divergences")
    ctx.traces_validated += replayed
    ctx.note("behaviours_replayed", replayed)
    ctx.note("fetch_size_seen_by_node", sorted(str(x) for x in rp.Env.get().page_sizes))

    # binding self-test (spec -> code): a wrong expectation must be noticed
    start = next(i for i in init if tuple(nodes[i]["layout"]) == (2, 2))
    sw = _pg.follow(nodes, edges, start, [{"name": "Execute"}, {"name": "Iter"}] + [{"name": "Next"}] * 5)
    forged = [dict(nodes[n]) for n in sw]
    forged[-1]["reqs"] = tuple(forged[-1]["reqs"][:-1]) + (forged[-1]["reqs"][-1] + 1,)
    try:
        noticed = rp.replay(forged) is not None
    except Exception:                     # noqa: BLE001 - a broken driver may also break this replay
        noticed = True
        rp.Env.discard()
    if not noticed:
        raise tlc.MachineryError("binding self-test failed: forged token expectation was not noticed by replay")

    # ---- code -> spec: recorded random programs validated by TLC against Trace_Paging.tla
    tconsts = {"MaxPages": 6, "MaxRows": 3, "MaxIdx": 1}
    n_tr = 800 if ctx.quick else 20000
    traces, kinds = [], []
    for _ in range(n_tr):
        kind, ev = rp.record(ctx.rng)
        traces.append(ev)
        kinds.append(kind)
    good = len(traces)
    # binding self-test (code -> spec) on a trace synthesized from a specification behaviour, so that it does not depend
    # on the code under test: accepted as it is; rejected with a forged token, a dropped event, a wrong pure read
    synth = rp.trace_of_states([nodes[n] for n in sw])
    bad1 = copy.deepcopy(synth)
    bad1[3]["post"]["reqs"] = bad1[3]["post"]["reqs"] + [7]
    bad2 = copy.deepcopy(synth)
    del bad2[2]
    bad3 = copy.deepcopy(synth)
    bad3[-1]["reads"]["more"] = not bad3[-1]["reads"]["more"]
    traces += [synth, bad1, bad2, bad3]
    tcfg = tlc.write_cfg(os.path.join(ctx.scratch, "trace.cfg"), init="TraceInit", next="TraceNext", constants=tconsts,
                         invariants=INV, constraints=["Progress"], postcondition="Done", deadlock=False)
    tres, prog = tlc.validate_traces("Trace_Paging", tcfg, traces, ctx.scratch, timeout=1800)
    ctx.add_tlc(tres, "trace validation")
    if tres.violation:
        ctx.violation("invariant %s violated in a state of a recorded execution" % tres.invariant,
                      replay={"trace": [dict(s) for _, s in tres.trace()][-3:]}, signature="trace-inv:%s" % tres.invariant)
        return
    if prog[good] != len(synth) + 1 or prog[good + 1] != 4 or prog[good + 2] != 3 or prog[good + 3] != len(bad3):
        raise tlc.MachineryError("binding self-test failed: synthesized trace rejected or corrupted/dropped/misread trace "
                                 "accepted (%s, expected %s)" % (prog[good:], [len(synth) + 1, 4, 3, len(bad3)]))
    ctx.note("binding_selftest", {"forged_expectation_noticed": 1, "synthesized_accepted": 1, "corrupted_rejected": 1,
                                  "dropped_rejected": 1, "wrong_read_rejected": 1})
    accepted = 0
    by_kind = {}
    for i in range(good):
        t = traces[i]
        if prog[i] == len(t) + 1 and (not t or t[-1]["e"] != "Anomaly"):
            accepted += 1
            by_kind[kinds[i]] = by_kind.get(kinds[i], 0) + 1
            if t and len(t[-1]["post"]["reqs"]) >= 2:
                ctx.nontrivial(("trace", tuple(t[0]["layout"]), tuple((e["e"], e["arg"]) for e in t)))
            continue
        ev = t[min(prog[i], len(t)) - 1]
        name = ev["e"] if ev["e"] != "Anomaly" else "Anomaly:" + ev["during"]["e"]
        ctx.violation("recorded execution (%s program, layout %s) rejected by the specification at event %d: %s"
                      % (kinds[i], t[0].get("layout"), prog[i], ev),
                      replay={"layout": t[0].get("layout") or t[0].get("during", {}).get("layout"),
                              "events": t[:prog[i]]}, signature="trace:%s" % name)
    ctx.sample({"direction": "code->spec", "program": kinds[0],
                "events": [{k: v for k, v in e.items() if k not in ("post", "reads")} for e in traces[0][:14]]})
    ctx.traces_validated += accepted
    ctx.note("traces_recorded", good)
    ctx.note("traces_accepted", accepted)
    ctx.note("traces_by_program", by_kind)
    ctx.evaluations = replayed + good
    ctx.assumptions += [
        "the consumer is a single application thread; a page fetch (request, answer on the loop thread, ResultSet update) is one step "
        "because ResultSet.fetch_next_page blocks in ResponseFuture.result()",
        "the node is stateless and serves the page its paging state designates; tokens are non-empty and distinct per page",
        "SimConnection/FakeNode reproduce the reactor contract; harness/wire.py decodes the QUERY frames correctly",
        "per-iteration reading of the statement: iter(rs) restarts at the first row of the current page",
        "small scope: <= 4 pages of <= 2 rows exhaustively, <= 6 pages of <= 3 rows in recorded runs; fetch_next_page in list mode not explored",
    ]
    rp.Env.discard()


def replay(ctx, obj):
    from harness.replay import paging as rp
    h = rp.PagingHarness(obj["layout"])
    acts = obj.get("actions")
    if acts is None:
        acts = [{"name": e["e"], "arg": e.get("arg", 0)} if e["e"] != "Anomaly" else
                {"name": e["during"]["e"], "arg": e["during"].get("arg", 0)} for e in obj["events"]]
    print("layout", obj["layout"])
    for a in acts:
        out = h.do(a)
        print("->", a.get("name"), a.get("arg"), "returned", out)
        print("   ", h.project())
    if obj.get("divergence"):
        print("expected by the specification:", obj["divergence"]["diff"])
    rp.Env.discard()
