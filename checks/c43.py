"""C43 - schema agreement is reported only when all live nodes agree.

Spec: spec/ControlAgree.tla - Poll(snapshot, instant) is one round trip of the two schema_version queries, Finish(v,
      instant) the reported outcome (return value / ResponseFuture.is_schema_agreed).  The polling SCHEDULE is an
      environment choice: any schedule whose polls are at most MaxGap apart is a behaviour; what is fixed is C43:
      (a) agreement is reported exactly when the snapshot polled last is uniform over the control node and the known
      peers not marked down, (b) otherwise "no agreement" only when no polled snapshot was uniform, not before the wait
      has elapsed and with the last poll not earlier than the wait minus one poll gap, (c) the request's result
      records the outcome.
TLC : exhaustive over all schedules x all per-poll snapshots (control node version, version of every peers row,
      Host.is_up of every known peer: up / down / undetermined, a peer unknown to the metadata) for the three ways the
      wait is used; invariants AgreementOnlyWhenUniform, UniformIsReported, NoAgreementOnlyAfterWait, KeepsPolling,
      FutureRecords, liveness Terminates (thorough).
Bind: code -> spec.  The cluster state is scripted over virtual time (timelines of snapshots: every single snapshot,
      every pair (disagreeing snapshot, any snapshot) with the change between the driver's polls, seeded longer
      timelines); the real ControlConnection.wait_for_schema_agreement runs on it - directly, and through a CREATE
      TABLE request whose SCHEMA_CHANGE result goes through the real ResponseFuture and refresh_schema_and_set_result
      (schema metadata enabled and disabled) - polling whenever it likes; each poll sees the snapshot current at that
      instant and takes a small positive virtual time.  The recorded run (instant and snapshot of every poll, outcome,
      instant of the outcome) is validated by TLC against Trace_ControlAgree.tla.  Fault: the k-th poll is answered by
      closing the coordinator's connection, so an exception escapes from the wait (Abort): the request's result must
      then say that agreement was not reached.  Fault: the node leaves the schema-version queries unanswered for a
      while (PollLost: a poll that sees nothing); a wait whose every poll was lost must report "no agreement".
"""
import os

from harness import tlc

META = {
    "property_id": "C43",
    "engine": "ControlAgree",
    "technique": "TLA+ spec of the agreement wait (any polling schedule, fixed reporting rule) checked exhaustively by TLC; runs of "
                 "the real wait_for_schema_agreement / ResponseFuture on scripted snapshot timelines (virtual clock) recorded and "
                 "validated by TLC against the spec",
    "level": "model_checking",
    "level_text": "TLC explores every polling schedule (gaps up to the poll interval plus a round trip) and every per-poll "
                  "snapshot (2 known peers each up/down/undetermined and reporting one of two versions, one peer unknown to the "
                  "metadata) for a direct wait and for a schema-changing request with schema metadata on and off, and checks that "
                  "agreement is reported exactly when the polled live versions form a single version, that 'no agreement' is "
                  "reported only after polling until the wait has elapsed, and that the request's result records the outcome. "
                  "The real driver is then run on every one- and two-snapshot timeline (and seeded longer ones) with waits of "
                  "0.3/0.5(/0.7) s, and TLC accepts or rejects each recorded run against the specification.",
    "level_note": "Trusted: TLC; FakeNode answering the two schema-version queries with a fixed 0.05 s virtual round trip (no "
                  "OperationTimedOut inside the loop); Host.is_up set directly by the harness; 'keeps polling' read as: no gap "
                  "between polls longer than 0.2 s + a round trip (+0.05 s discretisation); max_schema_agreement_wait = 0 "
                  "(wait disabled) not covered.",
    "design_ref": "5.4 C43",
}

INVARIANTS = ["TypeOK", "AgreementOnlyWhenUniform", "UniformIsReported", "NoAgreementOnlyAfterWait", "KeepsPolling",
              "FutureRecords"]
WITNESSES = ["Witness_AgreeLater", "Witness_DownIgnored", "Witness_NoneCounts", "Witness_Timeout", "Witness_DenseSchedule",
             "Witness_FutureYesNoMeta", "Witness_AbortAfterPolls", "Witness_NothingSeen", "Witness_Bypass"]
MODES = ["direct", "ddl_meta", "ddl_nometa"]
MAX_REPORT_PER_SIGNATURE = 2
VERS = ("A", "B")
STATES = ("up", "down", "none")


def _harnesses(kpeers, upeers):
    from harness.replay import control as rc
    return {"meta": rc.AgreeHarness(kpeers, upeers, True), "nometa": rc.AgreeHarness(kpeers, upeers, False)}


def all_snapshots(n_known=2, n_unknown=1, local=("A",)):
    """Every snapshot of Snaps in ControlAgree.tla (the data model shared with the spec)."""
    import itertools
    out = []
    for lo in local:
        for pv in itertools.product(VERS, repeat=n_known + n_unknown):
            for st in itertools.product(STATES, repeat=n_known):
                out.append({"local": lo, "pv": list(pv), "st": list(st)})
    return out


def timelines(ctx, rc):
    """(mode, wait in ticks, timeline) cases. Exhaustive part: every single snapshot, every pair (s1, s2) with the
    change placed between the driver's first polls; seeded part: longer timelines with arbitrary change instants."""
    snaps = all_snapshots()
    rng = ctx.rng
    cases = []
    waits = [6, 10] if ctx.quick else [6, 10, 14]
    n = 0
    for w in waits:
        for s in snaps:
            for m in MODES:
                cases.append((m, w, [(0, s)]))
    for s1 in snaps:
        for s2 in snaps:
            if s1 == s2:
                continue
            for change in ((3,) if ctx.quick else (3, 5)):
                for m in (MODES if not ctx.quick else (MODES[n % 3],)):
                    cases.append((m, 6 if change == 3 else 10, [(0, s1), (change, s2)]))
                n += 1
    for _ in range(1500 if ctx.quick else 12000):
        w = rng.choice(waits)
        k = rng.choice((2, 3, 3, 4))
        cuts = sorted(rng.sample(range(1, w + 3), k - 1))
        tl = [(0, rng.choice(snaps))] + [(c, rng.choice(snaps)) for c in cuts]
        cases.append((rng.choice(MODES), w, tl))
    cases = [c + (None, None, -1) for c in cases]
    # the wait is cut short: the k-th poll is answered by closing the coordinator's connection (after k disagreeing polls)
    disagreeing = [s for s in snaps if not rc._uniform(s)]
    n = 0
    for s in disagreeing:
        for k in ((1,) if ctx.quick else (0, 1, 2)):
            for m in ((MODES[1 + n % 2],) if ctx.quick else MODES):
                cases.append((m, 14 if k == 2 else 10, [(0, s)], k, None, -1))
            n += 1
    for s in disagreeing[:6]:
        cases.append(("direct", 10, [(0, s)], 1, None, -1))
        cases.append(("ddl_meta", 6, [(0, s)], 0, None, -1))
    # polls that see nothing: the node does not answer the schema-version queries for a while (snapshot None); the
    # driver's query timeout is 2 s (one lost poll eats the rest of the wait) or 0.1-0.15 s (several lost polls)
    some = [snaps[0], disagreeing[0], disagreeing[len(disagreeing) // 2], snaps[-1]] if ctx.quick else snaps
    for w in waits:
        for m in MODES:
            for qt in (None, 2, 3):
                cases.append((m, w, [(0, None)], None, qt, -1))                   # every poll of the wait is lost
                for s in some:
                    cases.append((m, w, [(0, None), (4, s)], None, qt, -1))       # lost, then answered
                    if not rc._uniform(s):
                        cases.append((m, w, [(0, s), (3, None)], None, qt, -1))   # answered (disagreeing), then lost
    # the application refreshes the schema metadata itself (Cluster.refresh_schema_metadata), without a wait of its own
    # (-1), with max_schema_agreement_wait=0 ("do not wait") or with a wait shorter than the cluster-wide one
    for pc in (-1, 0, 6):
        for s in snaps:
            cases.append(("refresh", 10, [(0, s)], None, None, pc))
        for s1 in (disagreeing[::5] if ctx.quick else disagreeing):
            for s2 in (snaps[::7] if ctx.quick else snaps):
                cases.append(("refresh", 10, [(0, s1), (3, s2)], None, None, pc))
                if not ctx.quick:
                    cases.append(("refresh", 10, [(0, s1), (8, s2)], None, None, pc))
    return cases


def run(ctx):
    from harness.replay import control as rc
    import copy
    import time
    quick = ctx.quick
    base = {"KPeers": {1, 2}, "UPeers": {3}, "Vers": set(VERS), "LocalVers": {"A"}, "Modes": set(MODES) | {"refresh"}, "MaxGap": rc.MAX_GAP,
            "PerCall": {0, 6}}
    timing = {}

    # ---- the specification itself: every schedule x every snapshot
    t0 = time.time()
    # (1) small configuration, one worker, all vacuity witnesses recorded
    econsts = dict(base, Waits={6}, UPeers=set(), PerCall={0, 4}) if quick else \
        dict(base, Waits={6}, Modes={"ddl_nometa", "refresh"}, PerCall={0, 4})
    wit = WITNESSES + ([] if quick else ["Witness_UnknownIgnored"])
    cfg = tlc.write_cfg(os.path.join(ctx.scratch, "agree.cfg"), spec="Spec", constants=econsts, invariants=INVARIANTS,
                        properties=() if quick else ("Terminates",), constraints=["RecordWitnesses"],
                        postcondition="PrintWitnesses", deadlock=False)
    res = tlc.check_model("ControlAgree", cfg, ctx.scratch, workers=1, timeout=3000)
    ctx.add_tlc(res, "exhaustive: all schedules x all snapshots (%s, witnesses)" % ("safety" if quick else "safety + termination"))
    ctx.note("constants", {k: (sorted(v) if isinstance(v, set) else v) for k, v in econsts.items()})
    ctx.note("exhaustive", True)
    if res.violation:
        ctx.violation("TLC: %s violated in ControlAgree.tla" % res.invariant,
                      replay={"trace": [s for _, s in res.trace()]}, signature="spec:%s" % res.invariant)
        return
    rc.witnesses_in(res, wit, "ControlAgree")
    ctx.note("vacuity_witnesses_reached", len(wit))
    if not quick:
        # (2) the larger configuration: unknown peer, wait 0.5 s, three modes (safety)
        bconsts = dict(base, Waits={10}, Modes=set(MODES))      # "refresh" and the per-call waits are in run (1)
        bcfg = tlc.write_cfg(os.path.join(ctx.scratch, "agree_big.cfg"), spec="Spec", constants=bconsts, invariants=INVARIANTS,
                             deadlock=False)
        bres = tlc.check_model("ControlAgree", bcfg, ctx.scratch, timeout=6000)
        ctx.add_tlc(bres, "exhaustive: all schedules x all snapshots, wait 0.5 s, unknown peer, 3 modes (safety)")
        if bres.violation:
            ctx.violation("TLC: %s violated in ControlAgree.tla" % bres.invariant,
                          replay={"trace": [s for _, s in bres.trace()]}, signature="spec:%s" % bres.invariant)
            return
    timing["tlc_exhaustive"] = round(time.time() - t0, 1)

    # ---- code -> spec: real runs on scripted timelines, validated by TLC
    t0 = time.time()
    hs = _harnesses([1, 2], [3])
    cases = timelines(ctx, rc)
    traces = []
    for i, (mode, w, tl, fault, qt, pc) in enumerate(cases):
        tr, got = rc.agree_trace(hs, mode, w, tl, fault, qt, pc)
        traces.append(tr)
        npolls = sum(1 for e in tr if e["e"] == "Poll")
        if npolls >= 2 or any(s is None or x != "up" for _, s in tl for x in (s or {"st": []})["st"]):
            ctx.nontrivial(i)
        if i % 2503 == 11:
            ctx.sample({"mode": mode, "wait_s": w * rc.TICK, "per_call_wait_s": None if pc == -1 else pc * rc.TICK, "timeline": [(f * rc.TICK, s) for f, s in tl],
                        "connection_closed_at_poll": fault, "query_timeout_s": None if qt is None else qt * rc.TICK, "recorded": [{k: v for k, v in e.items()} for e in tr[1:]]})
    for h in hs.values():
        h.shutdown()
    timing["real_runs"] = round(time.time() - t0, 1)
    good = len(traces)
    # binding self-test: a flipped outcome, a dropped poll, a schedule with a hole must be rejected
    v1 = next((t for t in traces if t[0]["mode"] == "direct" and t[-1].get("v") == "yes" and len(t) >= 4), None)
    v2 = next((t for t in traces if t[0]["mode"] == "ddl_meta" and t[-1].get("v") == "no" and t[0]["cw"] >= 10
               and len(t) >= 4), None)
    selftest = []
    if v1 is not None and v2 is not None:
        b1 = copy.deepcopy(v1)
        b1[-1]["v"] = "no"
        b2 = copy.deepcopy(v1)
        del b2[-2]                                    # the agreeing poll is gone: "yes" on a disagreeing snapshot
        b3 = copy.deepcopy(v2)
        del b3[-2]                                    # gave up polling long before the wait elapsed
        b4 = copy.deepcopy(v2)
        b4[-1]["v"] = "yes"
        selftest = [v1, v2, b1, b2, b3, b4]
    t0 = time.time()
    tconsts = dict(base, Waits={6, 10, 14})
    tcfg = tlc.write_cfg(os.path.join(ctx.scratch, "agree_trace.cfg"), init="TraceInit", next="TraceNext", constants=tconsts,
                         invariants=INVARIANTS, constraints=["Progress"], postcondition="Done", deadlock=False)
    tres, prog = tlc.validate_traces("Trace_ControlAgree", tcfg, traces + selftest, ctx.scratch, timeout=3000)
    ctx.add_tlc(tres, "trace validation of %d real runs" % good)
    timing["tlc_traces"] = round(time.time() - t0, 1)
    if tres.violation:
        ctx.violation("invariant %s violated in a state of a recorded execution" % tres.invariant,
                      replay={"trace": [dict(s) for _, s in tres.trace()][-3:]}, signature="trace-inv:%s" % tres.invariant)
        return
    by_sig = {}
    accepted = 0
    for i in range(good):
        t = traces[i]
        ctx.evaluations += 1
        if prog[i] == len(t) + 1:
            accepted += 1
            continue
        at = prog[i] - 1
        sig = rc.agree_signature(t, at)
        by_sig[sig] = by_sig.get(sig, 0) + 1
        if by_sig[sig] <= MAX_REPORT_PER_SIGNATURE:
            mode, w, tl, fault, qt, pc = cases[i]
            ctx.violation("%s, wait %.2f s" % (mode, w * rc.TICK) + ("" if pc == -1 else " (per-call wait %.2f s)" % (pc * rc.TICK)) +
                          ", timeline %s%s: the recorded run %s is not a behaviour of ControlAgree.tla (rejected at "
                          "event %d: %s)" % ([(f * rc.TICK, s) for f, s in tl],
                                             "" if fault is None else ", connection closed instead of answering poll #%d" % fault,
                                             t[1:], at, t[at]),
                          replay={"mode": mode, "wait": w, "timeline": [[f, s] for f, s in tl], "fault_at_poll": fault,
                                  "query_timeout_ticks": qt, "per_call": pc,
                                  "recorded": t, "rejected_at": at},
                          signature=sig)
    ctx.traces_validated += accepted
    ctx.note("real_runs", good)
    ctx.note("real_runs_accepted", accepted)
    if by_sig:
        ctx.note("divergences_by_signature", by_sig)
    if selftest:
        ok_probe = prog[good] == len(v1) + 1 and prog[good + 1] == len(v2) + 1
        rejected = [prog[good + 2 + j] <= len(selftest[2 + j]) for j in range(4)]
        if ok_probe and not all(rejected):
            raise tlc.MachineryError("binding self-test failed: corrupted traces accepted: %s" % rejected)
        ctx.note("binding_selftest", {"corrupted_rejected": sum(rejected)} if ok_probe else
                 {"skipped": "the code under test diverges on the probes"})
    elif not by_sig:
        raise tlc.MachineryError("binding self-test: no probe runs found")
    ctx.note("timing_s", timing)
    ctx.note("rule", "one case = one run of the real wait on one scripted timeline; non-trivial = at least two polls, or some "
                     "known peer is down / undetermined somewhere on the timeline")
    ctx.assumptions += [
        "each poll (the two schema-version queries) takes 0.05 s of virtual time and is always answered (no OperationTimedOut)",
        "'keeps polling until the configured wait elapses' is read as: no gap between polls (or before the first one) longer than "
        "0.2 s + one round trip + 0.05 s, the last poll not earlier than the wait minus that gap, 'no agreement' not reported "
        "before the wait has elapsed; the schedule inside that envelope is free",
        "max_schema_agreement_wait in {0.3, 0.5, 0.7} s; 0 (disabled) not covered",
        "peers rows always carry a schema version; the control node always reports one (version A: versions are interchangeable)",
    ]


def replay(ctx, obj):
    from harness.replay import control as rc
    hs = _harnesses([1, 2], [3])
    tl = [(f, s) for f, s in obj["timeline"]]
    tr, got = rc.agree_trace(hs, obj["mode"], obj["wait"], tl, obj.get("fault_at_poll"), obj.get("query_timeout_ticks"),
                             obj.get("per_call", -1))
    for h in hs.values():
        h.shutdown()
    print("mode=%s wait=%.2fs" % (obj["mode"], obj["wait"] * rc.TICK))
    for f, s in tl:
        print("  from %.2fs the cluster is %s" % (f * rc.TICK, s))
    for e in tr[1:]:
        print("  recorded:", e)
    cfg = tlc.write_cfg(os.path.join(ctx.scratch, "agree_trace.cfg"), init="TraceInit", next="TraceNext",
                        constants={"KPeers": {1, 2}, "UPeers": {3}, "Vers": set(VERS), "LocalVers": {"A"}, "Modes": set(MODES) | {"refresh"},
                                   "MaxGap": rc.MAX_GAP, "Waits": {6, 10, 14}, "PerCall": {0, 6}},
                        invariants=INVARIANTS, constraints=["Progress"], postcondition="Done", deadlock=False)
    tres, prog = tlc.validate_traces("Trace_ControlAgree", cfg, [tr], ctx.scratch, timeout=900)
    if prog[0] != len(tr) + 1:
        at = prog[0] - 1
        ctx.violation("replayed: the run is still rejected by ControlAgree.tla at event %d: %s" % (at, tr[at]), replay=obj,
                      signature=rc.agree_signature(tr, at))
    else:
        print("accepted by ControlAgree.tla")
