"""C43 - schema agreement is reported only when all live nodes agree.

Spec: spec/ControlAgree.tla - Poll(snapshot) is one iteration of the wait loop (two schema_version queries, compare,
      sleep 0.2 s), SetResult records the verdict in the schema-changing request's future.
TLC : exhaustive over all sequences of snapshots (control node version, version of every peers row, Host.is_up of
      every known peer: up / down / undetermined, one peer unknown to the metadata) within the wait budget, for the
      three ways the wait is used; invariants AgreedIffSingle, PollTimes, KeepsPolling, FutureRecords, liveness
      Terminates; the state graph is dumped.
Bind: walks covering every edge of that graph, each extended to a terminal state, are executed on the real
      ControlConnection.wait_for_schema_agreement of a simulated cluster (virtual clock) - directly, and through a
      CREATE TABLE request whose SCHEMA_CHANGE result goes through the real ResponseFuture and
      refresh_schema_and_set_result (schema metadata enabled and disabled).  Compared: the virtual time of every
      poll, the returned verdict, ResponseFuture.is_schema_agreed.
"""
import os

from harness import tlc

META = {
    "property_id": "C43",
    "engine": "ControlAgree",
    "technique": "TLA+ spec of the agreement wait loop checked exhaustively by TLC; every edge of the state graph replayed "
                 "(as complete behaviours) on the real wait_for_schema_agreement / ResponseFuture with a virtual clock",
    "level": "model_checking",
    "level_text": "TLC explores every sequence of per-poll snapshots (2 known peers each up/down/undetermined and reporting "
                  "one of two versions, one peer unknown to the metadata, waits of 0.3/0.5(/0.7) s = 2-4 polls) for a direct "
                  "wait and for a schema-changing request with schema metadata on and off, and checks that agreement is "
                  "reported exactly at the first poll whose live versions form a single version, that polling continues "
                  "every 0.2 s until the wait has elapsed otherwise, and that the request's result records the verdict. "
                  "Every edge of the graph is replayed on the real driver: poll times, verdict and is_schema_agreed must "
                  "equal the specification's.",
    "level_note": "Trusted: TLC; FakeNode answering the two schema-version queries synchronously (no query latency, no "
                  "query timeouts); Host.is_up set directly by the harness; waits chosen so that no poll falls on the "
                  "deadline; max_schema_agreement_wait = 0 (wait disabled) not covered.",
    "design_ref": "5.4 C43",
}

INVARIANTS = ["TypeOK", "AgreedIffSingle", "PollTimes", "KeepsPolling", "FutureRecords"]
WITNESSES = ["Witness_AgreeLater", "Witness_DownIgnored", "Witness_UnknownIgnored", "Witness_NoneCounts", "Witness_Timeout",
             "Witness_FutureFalse", "Witness_FutureTrueNoMeta"]
MODES = {"direct", "ddl_meta", "ddl_nometa"}
MAX_REPORT_PER_SIGNATURE = 2


def complete_walks(nodes, edges, init, rng):
    """Walks from an initial state that together cover every edge, each extended by random successors to a
    terminal state (the real call cannot be stopped half way)."""
    from collections import deque
    succ = {}
    for s, d, _ in edges:
        succ.setdefault(s, []).append(d)
    parent = {}
    dq = deque()
    for i in init:
        parent[i] = None
        dq.append(i)
    while dq:
        u = dq.popleft()
        for v in succ.get(u, ()):
            if v not in parent:
                parent[v] = u
                dq.append(v)
    uncovered = set((s, d) for s, d, _ in edges if s in parent)
    order = sorted(uncovered)
    rng.shuffle(order)
    walks = []
    for s, d in order:
        if (s, d) not in uncovered:
            continue
        w = [d, s]
        while parent[w[-1]] is not None:
            w.append(parent[w[-1]])
        w.reverse()
        while succ.get(w[-1]):
            nxt = [v for v in succ[w[-1]] if (w[-1], v) in uncovered]
            w.append(rng.choice(nxt or succ[w[-1]]))
        uncovered.difference_update(zip(w, w[1:]))
        walks.append(w)
    return walks


def _harnesses(consts):
    from harness.replay import control as rc
    return {"meta": rc.AgreeHarness(consts["KPeers"], consts["UPeers"], True),
            "nometa": rc.AgreeHarness(consts["KPeers"], consts["UPeers"], False)}


def run(ctx):
    from harness.replay import control as rc
    import time
    consts = {"KPeers": {1, 2}, "UPeers": {3}, "Vers": {"A", "B"}, "LocalVers": {"A"},
              "Waits": {3, 5} if ctx.quick else {3, 5, 7}, "Modes": MODES}
    cfg = tlc.write_cfg(os.path.join(ctx.scratch, "agree.cfg"), spec="Spec", constants=consts, invariants=INVARIANTS,
                        properties=["Terminates"], constraints=["RecordWitnesses"], postcondition="PrintWitnesses",
                        deadlock=False)
    t0 = time.time()
    res, nodes, edges, init = tlc.state_graph("ControlAgree", cfg, ctx.scratch, workers=1, timeout=600 if ctx.quick else 3000)
    ctx.add_tlc(res, "exhaustive (safety + termination), graph dumped")
    ctx.note("constants", {k: sorted(v) for k, v in consts.items()})
    ctx.note("exhaustive", True)
    timing = {"tlc_graph": round(time.time() - t0, 1)}
    if res.violation:
        ctx.violation("TLC: %s violated in ControlAgree.tla" % res.invariant,
                      replay={"trace": [s for _, s in res.trace()]}, signature="spec:%s" % res.invariant)
        return
    rc.witnesses_in(res, WITNESSES, "ControlAgree")
    ctx.note("vacuity_witnesses_reached", len(WITNESSES))

    if not ctx.quick:
        big = dict(consts, KPeers={1, 2, 3}, UPeers={4}, LocalVers={"A"}, Waits={3, 5})
        bcfg = tlc.write_cfg(os.path.join(ctx.scratch, "agree_big.cfg"), spec="Spec", constants=big, invariants=INVARIANTS,
                             deadlock=False)
        bres = tlc.check_model("ControlAgree", bcfg, ctx.scratch, timeout=3000)
        ctx.add_tlc(bres, "exhaustive, 3 known peers + 1 unknown (spec only, safety)")
        if bres.violation:
            ctx.violation("TLC: %s violated in ControlAgree.tla (3 known peers)" % bres.invariant,
                          replay={"trace": [s for _, s in bres.trace()]}, signature="spec:%s" % bres.invariant)
            return

    # ---- spec -> code
    t0 = time.time()
    walks = complete_walks(nodes, edges, init, ctx.rng)
    all_edges = set((s, d) for s, d, _ in edges)
    covered = set()
    for w in walks:
        covered.update(zip(w, w[1:]))
    ctx.note("graph_edges", len(all_edges))
    ctx.note("graph_edges_replayed", len(covered & all_edges))
    if covered & all_edges != all_edges:
        raise tlc.MachineryError("walks do not cover the graph: %d of %d edges" % (len(covered & all_edges), len(all_edges)))
    hs = _harnesses(consts)
    by_sig = {}
    for i, w in enumerate(walks):
        states = [nodes[n] for n in w]
        got, d = rc.agree_run(hs, states)
        ctx.evaluations += 1
        polls = [s for s in states[1:] if s["act"]["name"] == "Poll"]
        if len(polls) >= 2 or any(x != "up" for s in polls for x in s["snap"]["st"]):
            ctx.nontrivial(tuple(w))
        if i % 2503 == 11:
            ctx.sample({"mode": states[0]["mode"], "wait_tenths": states[0]["wait"], "polls": [dict(s["snap"]) for s in polls],
                        "poll_times_tenths": [s["at"] for s in polls], "verdict": states[-1]["verdict"],
                        "is_schema_agreed": states[-1]["future"]})
        if not d:
            ctx.traces_validated += 1
            continue
        sig = rc.agree_signature(states, d)
        by_sig[sig] = by_sig.get(sig, 0) + 1
        if by_sig[sig] <= MAX_REPORT_PER_SIGNATURE:
            ctx.violation("%s, wait %.1f s, polls %s: %s" % (states[0]["mode"], states[0]["wait"] / 10.0,
                                                              [dict(s["snap"]) for s in polls], d),
                          replay={"kpeers": sorted(consts["KPeers"]), "upeers": sorted(consts["UPeers"]), "walk": states, "diff": d},
                          signature=sig)
    timing["replay"] = round(time.time() - t0, 1)
    ctx.note("behaviours_replayed", len(walks))
    ctx.note("timing_s", timing)
    if by_sig:
        ctx.note("divergences_by_signature", by_sig)

    # ---- binding self-test: flipped expectations must be noticed
    def find(pred):
        for w in walks:
            ss = [nodes[x] for x in w]
            if pred(ss) and not rc.agree_run(hs, ss)[1]:
                return ss
        return None
    w1 = find(lambda ss: ss[0]["mode"] == "direct" and ss[-1]["verdict"] == "yes" and ss[-1]["k"] >= 2)
    w2 = find(lambda ss: ss[0]["mode"] == "ddl_meta" and ss[-1]["future"] == "no")
    if w1 is None or w2 is None:
        if not by_sig:
            raise tlc.MachineryError("binding self-test: no conforming probe behaviour")
        ctx.note("binding_selftest", {"skipped": "the code under test diverges on every probe"})
    else:
        n = 0
        bad = [dict(s) for s in w1]
        bad[-1]["verdict"] = "no"
        n += bool(rc.agree_run(hs, bad)[1])
        bad = [dict(s) for s in w1]
        bad[1]["at"] = 1
        n += bool(rc.agree_run(hs, bad)[1])
        bad = [dict(s) for s in w1][:-1]                 # drop the agreeing poll: the code polls once more than expected
        n += bool(rc.agree_run(hs, bad)[1])
        bad = [dict(s) for s in w2]
        bad[-1]["future"] = "yes"
        n += bool(rc.agree_run(hs, bad)[1])
        if n != 4:
            raise tlc.MachineryError("binding self-test failed: only %d of 4 corrupted expectations were rejected" % n)
        ctx.note("binding_selftest", {"corrupted_rejected": n})
    for h in hs.values():
        h.shutdown()
    ctx.note("rule", "one case = one complete behaviour (sequence of per-poll snapshots to a verdict); non-trivial = at "
                     "least two polls, or some known peer is down / undetermined in some poll")
    ctx.assumptions += [
        "the schema-version queries are answered at once (no latency, no OperationTimedOut inside the loop)",
        "max_schema_agreement_wait in {0.3, 0.5, 0.7} s: no poll falls exactly on the deadline; 0 (disabled) not covered",
        "peers rows always carry a schema version; the control node always reports one",
        "schema versions are interchangeable (the control node always reports version A in the replayed graph)",
    ]


def _fix(obj):
    if isinstance(obj, dict):
        return {(int(k) if isinstance(k, str) and k.lstrip("-").isdigit() else k): _fix(v) for k, v in obj.items()}
    if isinstance(obj, list):
        return [_fix(x) for x in obj]
    return obj


def replay(ctx, obj):
    from harness.replay import control as rc
    obj = _fix(obj)
    hs = _harnesses({"KPeers": obj["kpeers"], "UPeers": obj["upeers"]})
    walk = obj["walk"]
    got, d = rc.agree_run(hs, walk)
    polls = [s for s in walk[1:] if s["act"]["name"] == "Poll"]
    print("mode=%s wait=%.1fs" % (walk[0]["mode"], walk[0]["wait"] / 10.0))
    for s in polls:
        print("  poll at %.1fs sees %s" % (s["at"] / 10.0, s["snap"]))
    print("spec: verdict=%s is_schema_agreed=%s" % (walk[-1]["verdict"], walk[-1]["future"]))
    print("code:", got)
    for h in hs.values():
        h.shutdown()
    if d:
        ctx.violation("replayed: still differs: %s" % d, replay=obj, signature=rc.agree_signature(walk, d))
