"""XDRIVER - extension beyond the listed properties: the composed system model (spec/Driver.tla).

Hosts.tla (instanced) + pool connections + requests (retry on the next host, speculative executions, re-preparation,
USE fan-out) + session keyspace, at event granularity.  Random behaviours of the model are checked by TLC simulation
with the C09/C10/C14/C17/C19/C20/C25/C45 invariants on; whole-driver runs over three simulated nodes are recorded
under a seeded random scheduler and validated against spec/Trace_Driver.tla.  `./check XDRIVER [--tier thorough]`
runs it unfiltered; the thorough tiers of C09, C10, C14, C17, C20, C25 and C45 run the same machinery and report the
rejections attributed to their property."""
from checks import _driver

META = {
    "property_id": "XDRIVER",
    "engine": "Driver",
    "technique": "TLA+ system spec (Driver.tla, instancing Hosts.tla) checked by TLC simulation; recorded whole-driver runs validated against Trace_Driver.tla by TLC",
    "level": "model_checking",
    "level_text": "TLC simulation (not exhaustive: the composed model has millions of states already for one request) of "
                  "Driver.tla with 14 invariants and 11 vacuity witnesses; recorded whole-driver runs (3 simulated nodes, "
                  "4 requests, seeded random scheduler over 12 kinds of steps) validated event by event with the full "
                  "projected post-state by Trace_Driver.tla.",
    "level_note": "Extension. Host 1 (control connection) never fails; one session; no topology events.",
    "design_ref": "17 (extensions)",
    "extension": True,
}


def run(ctx):
    _driver.run_system(ctx)


def replay(ctx, obj):
    print("replay of a system trace: re-run ./check XDRIVER --seed <seed>; the rejected run is in the replay file")
