"""C22 - token-aware plans put live local replicas first without losing hosts.

Spec: spec/TokenAware.tla - TokenAwarePlan(reps, child, up, dist, shuffle) = replicas that are up and LOCAL in
      get_replicas order (any order when shuffling) followed by the child plan minus those, child order kept.
      TLC enumerates every input combination for N hosts (host states True/False/None and distances are free,
      including hosts the child still lists whose is_up is not True) and checks NoRepeat, ChildCovered,
      ExactHosts, HeadIsLiveLocalReplicas, HeadInRingOrder, TailInChildOrder on the definition.
      spec/Placement.tla supplies the rings: a small exhaustive set of ring / layout / replication instances.
      Placement.tla AlterReplication: the keyspace's settings change between plans; the head must follow the
      CURRENT settings (histories enumerated by TLC, installed through Metadata._update_keyspace / _rebuild_all).
      spec/ReplicaCache.tla: the lazy build of the keyspace's replica map by the first plan, concurrent with an
      alteration of the settings (one action per critical section); every interleaving replayed with DetSched on
      the real TokenMap (scheduler-aware _rebuild_lock, yield inside the map computation).
      Keyspace choice: (session keyspace, statement keyspace) pairs over two keyspaces with different replicas for
      the key: the statement's keyspace wins when it names one (StatementKeyspaceWins); bound on a real Metadata
      with two NetworkTopologyStrategy keyspaces.
      Shared addresses: hosts are endpoints (address + port); combinations in which hosts share an IP address.
Bind: every enumerated input combination is evaluated on the real TokenAwarePolicy wrapping a fixed-plan child
      policy, over a real Metadata whose token map and keyspace come from a Placement.tla instance whose real
      get_replicas list for the chosen key has the enumerated length (hosts renamed so that the lists coincide);
      the statement carries routing_key and keyspace.
"""
import os

from harness import tlc
from harness.replay import lbp as L
from harness.replay import placement as PL

META = {
    "property_id": "C22",
    "engine": "TokenAware",
    "technique": "TLA+ reference definition of the token-aware plan enumerated by TLC over all replica lists, child "
                 "plans, host states, distances and the shuffle flag; every combination evaluated on the real "
                 "TokenAwarePolicy over a real Metadata built from TLC-enumerated Placement.tla rings",
    "level": "model_checking",
    "level_text": "TLC enumerates every input combination of the bounded domain and checks the statement's clauses "
                  "(no repeat, child plan covered, head = live local replicas in ring order, tail in child order) on "
                  "the reference definition; each combination is then evaluated on the real TokenAwarePolicy with "
                  "real Host/Metadata/TokenMap/Statement objects and must produce exactly the specified plan (any "
                  "permutation of the head when shuffling).",
    "level_note": "Trusted: TLC; the fixed-plan child policy of the harness (the wrapped policy is an input of the "
                  "property); replica lists come from the real get_replicas over rings enumerated by Placement.tla "
                  "(ring/host-state product is joined per replica-list length, not a full cross product); bounds: "
                  "3 hosts, <= 2 replicas quick; 3 hosts x <= 3 replicas and 4 hosts x <= 2 replicas thorough.",
    "design_ref": "5.5 C22",
}

INVARIANTS = ["TypeOK", "NoRepeat", "ChildCovered", "ExactHosts", "HeadIsLiveLocalReplicas", "HeadInRingOrder",
              "TailInChildOrder"]
WITNESSES = ["Witness_DownLocalReplicaInChild", "Witness_RemoteReplicaInChild", "Witness_TwoLiveLocalReplicas"]
MAX_REPORTED_PER_SIGNATURE = 2


def ring_index(ctx, n):
    """Placement.tla instances -> {replica-list length: [(instance, key position)]} using the real get_replicas;
    instances on which the real replica list is not the specified set (C26's concern) are left out."""
    consts = {"MaxHosts": n, "MaxDCs": 2, "MaxRacks": 2, "MaxRing": 4, "MaxRF": 3, "Lens": {1, 2, 3, 4}, "MaxAlters": 0, "MaxMoves": 0, "MaxOps": 0, "ZeroStyles": {"omitted"}}
    cfg = tlc.write_cfg(os.path.join(ctx.scratch, "PlacementRings.cfg"), constants=consts,
                        invariants=["TypeOK", "SimpleCount", "NTSCountPerDc", "LookupOK"], deadlock=False)
    res, states = tlc.enumerate_states("Placement", cfg, ctx.scratch, timeout=900)
    ctx.add_tlc(res, "placement-rings")
    if res.violation:
        raise tlc.MachineryError("Placement.tla invariant %s violated" % res.invariant)
    index, skipped = {}, 0
    for st in states:
        if st["phase"] != "done":
            continue
        inst = PL.instance_of(st)
        if PL.evaluate(inst):
            skipped += 1
            continue
        for k in range(1, 2 * len(inst["ring"]) + 2, 2):          # keys strictly between tokens (and before the first)
            index.setdefault(len(inst["byKey"][k - 1]), []).append((inst, k))
    for v in index.values():
        v.sort(key=lambda t: (repr(t[0]["strat"]), t[0]["ring"], t[0]["dc"], t[0]["rack"], t[1]))
    ctx.note("ring_instances_N%d" % n, {str(k): len(v) for k, v in sorted(index.items())})
    ctx.count("ring_instances_left_to_C26", skipped)
    return index


class Binder:
    def __init__(self, n):
        self.n = n
        self.cache = {}

    def get(self, inst):
        key = (tuple(inst["ring"]), tuple(inst["dc"]), tuple(inst["rack"]), repr(inst["strat"]))
        b = self.cache.get(key)
        if b is None:
            b = self.cache[key] = L.TokenAwareBinding(inst, self.n)
        return b


def evaluate(binder, st, inst, key, n):
    """One TokenAware.tla state on one ring.  Returns (failures, details)."""
    reps = [int(x) for x in st["reps"]]
    child = [int(x) for x in st["child"]]
    up = {h + 1: str(v) for h, v in enumerate(st["up"])}
    dist = {h + 1: str(v) for h, v in enumerate(st["dist"])}
    shuffle = bool(st["shuffle"])
    head = [int(x) for x in st["head"]]
    tail = [int(x) for x in st["tail"]]
    if reps:
        b = binder.get(inst)
        real_reps = b.replicas(key)
        if len(real_reps) != len(reps) or len(set(real_reps)) != len(real_reps):
            return None, None                                    # replica list not usable (C26's concern)
        # rename: spec host reps[i] <-> ring host real_reps[i]; the others in increasing order
        to_ring = dict(zip(reps, real_reps))
        rest_spec = [h for h in range(1, b.n + 1) if h not in to_ring]
        rest_ring = [h for h in range(1, b.n + 1) if h not in to_ring.values()]
        to_ring.update(zip(rest_spec, rest_ring))
    else:
        b = binder.get(inst)
        to_ring = {h: h for h in range(1, b.n + 1)}
    from_ring = {v: k for k, v in to_ring.items()}
    known_empty = (not reps) and b.replicas(key) == []          # a key without replicas in a known keyspace
    ks_key = key if (reps or known_empty) else None
    if reps or known_empty:
        plan, err = b.plan(key, [to_ring[h] for h in child], {to_ring[h]: v for h, v in up.items()},
                           {to_ring[h]: v for h, v in dist.items()}, shuffle)
    else:
        # no replicas: a keyspace the metadata does not know
        saved = b.ks
        b.ks = "unknown_keyspace"
        try:
            plan, err = b.plan(1, [to_ring[h] for h in child], {to_ring[h]: v for h, v in up.items()},
                               {to_ring[h]: v for h, v in dist.items()}, shuffle)
        finally:
            b.ks = saved
    details = {"reps": reps, "child": child, "up": up, "dist": dist, "shuffle": shuffle, "head": head, "tail": tail,
               "ring_instance": {k: inst[k] for k in ("ring", "dc", "rack", "strat")}, "key_position": ks_key,
               "host_renaming_spec_to_ring": to_ring}
    if err:
        details["error"] = err
        return [("exception", err)], details
    real = [from_ring.get(h, 0) for h in plan]
    details["plan"] = real
    fails = L.tokenaware_failures(real, head, tail, child, reps, up, dist, shuffle)
    if shuffle and (reps or known_empty):
        # concurrent requests for the same token: a plan consumed lazily while another one is created must still be a plan,
        # and shuffling must not disturb the replica order the metadata reports
        before = b.replicas(key)
        plan2, err2 = b.plan(key, [to_ring[h] for h in child], {to_ring[h]: v for h, v in up.items()},
                             {to_ring[h]: v for h, v in dist.items()}, shuffle, interleave=True)
        if err2:
            fails = fails + [("exception", err2)]
        else:
            real2 = [from_ring.get(h, 0) for h in plan2]
            details["plan_interleaved"] = real2
            fails = fails + [("interleaved:" + k, t) for k, t in
                             L.tokenaware_failures(real2, head, tail, child, reps, up, dist, shuffle)]
        if b.replicas(key) != before:
            fails = fails + [("replica-order-mutated", "get_replicas order changed from %s to %s after a shuffled plan" % (before, b.replicas(key)))]
    return fails, details


ALTER_INVARIANTS = ["TypeOK", "SimpleCount", "NTSCountPerDc", "LookupOK", "CurrentSettingsOnly"]


def alter_plans(inst, shuffle, down):
    """One Placement.tla history (replication settings altered after plans were made) on the real TokenAwarePolicy.
    All hosts LOCAL, child plan = every host in increasing order, host `down` (0 = none) has is_up False.
    Returns failures [(type, text, details)]."""
    hist = inst["hist"]
    L_ = len(inst["ring"])
    b = L.TokenAwareBinding(dict(inst, strat=hist[0]), len(inst["dc"]))
    hosts = list(range(1, b.n + 1))
    up = {h: ("F" if h == down else "T") for h in hosts}
    dist = {h: "LOCAL" for h in hosts}
    keys = range(1, 2 * L_ + 2)
    for n, s in enumerate(hist[1:]):
        for k in keys:                                            # plans under the old settings (replica cache filled)
            _, err = b.plan(k, hosts, up, dist, shuffle)
            if err:
                return [("exception", err, {"key": k})]
        try:
            b.alter(s, via="rebuild_all" if (n + L_) % 2 else "update")
        except Exception as ex:
            return [("exception", "%s: %s" % (type(ex).__name__, ex), {})]
    out = []
    for k in keys:
        exp = [h for h in inst["byKey"][k - 1] if up[h] == "T"]
        plan, err = b.plan(k, hosts, up, dist, shuffle)
        if err:
            out.append(("exception", err, {"key": k}))
            continue
        tail = [h for h in hosts if h not in exp]
        if len(set(plan)) != len(plan):
            out.append(("host-repeated", "plan %s repeats a host" % (plan,), {"key": k, "plan": plan}))
        elif sorted(plan[:len(exp)]) != sorted(exp) or plan[len(exp):] != tail:
            out.append(("stale-replicas-after-alter",
                        "key position %d: under the current settings %s the live local replicas are %s, so the plan must be "
                        "those (any order) then %s; the real plan is %s" % (k, hist[-1], sorted(exp), tail, plan),
                        {"key": k, "plan": plan, "expected_head": sorted(exp), "expected_tail": tail}))
    return out


def alter_domain(ctx, by_sig):
    """AlterReplication between plans: TLC-enumerated rings x settings histories, bound on the real objects."""
    consts = ({"MaxHosts": 3, "MaxDCs": 2, "MaxRacks": 2, "MaxRing": 3, "MaxRF": 2, "Lens": {2, 3}, "MaxAlters": 1, "MaxMoves": 0, "MaxOps": 1, "ZeroStyles": {"omitted"}} if ctx.quick else
              {"MaxHosts": 3, "MaxDCs": 2, "MaxRacks": 2, "MaxRing": 4, "MaxRF": 2, "Lens": {2, 3, 4}, "MaxAlters": 1, "MaxMoves": 0, "MaxOps": 1, "ZeroStyles": {"omitted"}})
    cfg = tlc.write_cfg(os.path.join(ctx.scratch, "PlacementAlter.cfg"), constants=consts, invariants=ALTER_INVARIANTS, deadlock=False)
    res, states = tlc.enumerate_states("Placement", cfg, ctx.scratch, coverage=True, timeout=900)
    ctx.add_tlc(res, "placement-alter-histories")
    if res.violation:
        ctx.violation("TLC: invariant %s violated in Placement.tla (AlterReplication)" % res.invariant,
                      replay={"trace": [s for _, s in res.trace()]}, signature="spec:" + str(res.invariant))
        return False
    if res.coverage().get("AlterReplication", (0, 0))[1] == 0:
        raise tlc.MachineryError("action AlterReplication never taken")
    wcfg = tlc.write_cfg(os.path.join(ctx.scratch, "WitnessAlter.cfg"), constants=consts, invariants=["Witness_AlterChangesReplicas"],
                         deadlock=False)
    wres = tlc.check_model("Placement", wcfg, ctx.scratch, timeout=600, workers=2, heap="1g")
    if wres.invariant != "Witness_AlterChangesReplicas":
        raise tlc.MachineryError("vacuity witness Witness_AlterChangesReplicas was not reached")
    hists = [PL.instance_of(s) for s in states if s["phase"] == "done" and len(s["hist"]) > 1]
    static = {}
    for s in states:
        if s["phase"] == "done" and len(s["hist"]) == 1:
            i0 = PL.instance_of(s)
            static[(tuple(i0["ring"]), tuple(i0["dc"]), tuple(i0["rack"]), repr(i0["strat"]))] = i0
    kinds = {(h["hist"][-2]["kind"], h["hist"][-1]["kind"]) for h in hists}
    if kinds != {("Simple", "Simple"), ("Simple", "NTS"), ("NTS", "Simple"), ("NTS", "NTS")}:
        raise tlc.MachineryError("alterations enumerated do not cover all strategy changes: %s" % sorted(kinds))
    hists.sort(key=lambda h: (h["ring"], h["dc"], h["rack"], repr(h["hist"])))
    ctx.note("constants_alter", {k: (sorted(v) if isinstance(v, set) else v) for k, v in consts.items()})
    ctx.note("altered_histories", len(hists))
    plans = 0
    for i, inst in enumerate(hists):
        for shuffle, down in ((False, 0), (True, inst["ring"][i % len(inst["ring"])])):
            fails = alter_plans(inst, shuffle, down)
            ctx.evaluations += 1
            plans += 2 * len(inst["ring"]) + 1
            if fails:
                det = {"n": len(inst["dc"]), "reps": [], "child": list(range(1, len(inst["dc"]) + 1)), "up": {}, "dist": {},
                       "shuffle": shuffle, "head": [], "tail": [], "key_position": fails[0][2].get("key"),
                       "ring_instance": {k: inst[k] for k in ("ring", "dc", "rack", "strat")}, "alter": {"instance": inst, "down": down}}
                by_sig.setdefault("TokenAware:" + fails[0][0], []).append((len(inst["ring"]) + len(inst["hist"]), det, [f[:2] for f in fails]))
                continue
            ctx.traces_validated += 1
            ctx.nontrivial(("alter", tuple(inst["ring"]), tuple(inst["dc"]), tuple(inst["rack"]), repr(inst["hist"]), shuffle, down))
            if i % 400 == 9 and not shuffle:
                ctx.sample({"ring": inst["ring"], "dc": inst["dc"], "rack": inst["rack"], "settings_history": inst["hist"],
                            "replicas_by_key_under_current_settings": inst["byKey"]})
    ctx.note("plans_after_alteration_checked", plans)
    # self-test: the same history judged against the settings in the opposite order must get a different verdict
    probes = [h for h in hists if len(h["hist"]) == 2 and h["hist"][0]["kind"] == "Simple" and h["hist"][1]["kind"] == "Simple"
              and h["hist"][0]["rf"] < h["hist"][1]["rf"] <= len(h["dc"])][:40]
    noticed = 0
    for probe in probes:
        swapped = dict(probe, hist=[probe["hist"][1], probe["hist"][0]])
        if [f[:1] for f in alter_plans(swapped, False, 0)] != [f[:1] for f in alter_plans(probe, False, 0)]:
            noticed += 1
    if not noticed:
        raise tlc.MachineryError("binding self-test failed: order of replication settings never influences the verdict "
                                 "(%d Simple->Simple histories tried)" % len(probes))
    st = ctx.extra.setdefault("binding_selftest", {"corrupted_rejected": 0})
    st["corrupted_rejected"] += 1
    return cache_domain(ctx, by_sig, hists, static)


CACHE_INVARIANTS = ["TypeOK", "CacheCurrent", "BuilderPlanFromRealSettings", "NoStalePublish"]
CACHE_WITNESSES = ["Witness_UpdateWhileComputing", "Witness_UpdaterRebuilds", "Witness_UpdaterFindsNothing"]


def expected_plan(replicas, n):
    head = sorted(replicas)
    return head, [h for h in range(1, n + 1) if h not in head]


def plan_matches(plan, replicas, n):
    head, tail = expected_plan(replicas, n)
    return len(set(plan)) == len(plan) and sorted(plan[:len(head)]) == head and plan[len(head):] == tail


def cache_domain(ctx, by_sig, hists, static):
    """ReplicaCache.tla: the first token-aware plan of a keyspace (lazy build of the replica map) concurrent with a
    change of its replication settings; every interleaving of the specification replayed with DetSched."""
    cfg = tlc.write_cfg(os.path.join(ctx.scratch, "ReplicaCache.cfg"), constants={"WarmChoices": "{TRUE, FALSE}"},
                        invariants=CACHE_INVARIANTS, deadlock=False)
    res, nodes, edges, init = tlc.state_graph("ReplicaCache", cfg, ctx.scratch, coverage=True, workers=2, heap="1g", timeout=600)
    ctx.add_tlc(res, "replica-cache")
    if res.violation:
        ctx.violation("TLC: invariant %s violated in ReplicaCache.tla" % res.invariant,
                      replay={"trace": [s for _, s in res.trace()]}, signature="spec:" + str(res.invariant))
        return False
    cov = res.coverage()
    zero = [a for a in ("B_Lookup", "B_Enter", "B_Publish", "B_Return", "U_Install", "U_Enter", "U_Publish", "U_Return")
            if cov.get(a, (0, 0))[1] == 0]
    if zero:
        raise tlc.MachineryError("ReplicaCache.tla actions never taken: %s" % zero)
    for w in CACHE_WITNESSES:
        wcfg = tlc.write_cfg(os.path.join(ctx.scratch, w + ".cfg"), constants={"WarmChoices": "{TRUE, FALSE}"}, invariants=[w], deadlock=False)
        wres = tlc.check_model("ReplicaCache", wcfg, ctx.scratch, timeout=600, workers=2, heap="1g")
        if wres.invariant != w:
            raise tlc.MachineryError("vacuity witness %s was not reached" % w)
    schedules = L.schedules_of_graph(nodes, edges, init)
    ctx.note("cache_schedules", len(schedules))
    if len(schedules) < 10:
        raise tlc.MachineryError("only %d schedules in the ReplicaCache.tla graph" % len(schedules))
    # histories (old settings -> new settings on one ring) in which some key's plan changes
    cands = []
    for h in hists:
        if len(h["hist"]) != 2:
            continue
        old = static.get((tuple(h["ring"]), tuple(h["dc"]), tuple(h["rack"]), repr(h["hist"][0])))
        if old is None:
            continue
        n = len(h["dc"])
        diff = [k for k in range(1, 2 * len(h["ring"]) + 2) if expected_plan(old["byKey"][k - 1], n) != expected_plan(h["byKey"][k - 1], n)]
        if diff:
            cands.append((h, old, diff[0]))
    step = max(1, len(cands) // (30 if ctx.quick else 300))
    chosen = cands[::step]
    ctx.note("cache_histories", len(chosen))
    if not chosen:
        raise tlc.MachineryError("no history whose plans change with the replication settings")
    runs = 0
    exact = 0
    for h, old, bkey in chosen:
        n = len(h["dc"])
        inst_old = dict(h, strat=h["hist"][0], hist=None)
        for warm, sched in schedules:
            r = L.run_cache_schedule(inst_old, h["hist"][1], warm, sched, n, bkey=bkey)
            runs += 1
            ctx.evaluations += 1
            fails = []
            if r["error"]:
                fails.append(("exception", r["error"]))
            else:
                stale = [k for k, p in sorted(r["final_plan"].items()) if not plan_matches(p, h["byKey"][k - 1], n)]
                if stale:
                    k = stale[0]
                    fails.append(("stale-replicas-after-concurrent-alter",
                                  "replication %s altered to %s while the first plan of the keyspace was being made (schedule %s%s): "
                                  "afterwards the plan for key position %d is %s, the current settings put %s first"
                                  % (h["hist"][0], h["hist"][1], "".join(sched), ", map built before" if warm else "", k,
                                     r["final_plan"][k], sorted(h["byKey"][k - 1]))))
                bp = r["builder_plan"].get(bkey)
                if bp is None or not (plan_matches(bp, old["byKey"][bkey - 1], n) or plan_matches(bp, h["byKey"][bkey - 1], n)):
                    fails.append(("concurrent-plan-from-no-settings",
                                  "the plan made concurrently with the alteration, %s, follows neither the old (%s) nor the new (%s) replicas"
                                  % (bp, sorted(old["byKey"][bkey - 1]), sorted(h["byKey"][bkey - 1]))))
            if fails:
                det = {"n": n, "reps": [], "child": list(range(1, n + 1)), "up": {}, "dist": {}, "shuffle": False, "head": [], "tail": [],
                       "key_position": bkey, "ring_instance": {k: h[k] for k in ("ring", "dc", "rack", "strat")},
                       "cache": {"instance": h, "old_byKey": old["byKey"], "warm": warm, "schedule": sched, "bkey": bkey}}
                by_sig.setdefault("TokenAware:" + fails[0][0], []).append((len(h["ring"]) + len(sched), det, fails))
                continue
            ctx.traces_validated += 1
            exact += 1 if r["skipped"] == 0 else 0
            ctx.nontrivial(("cache", tuple(h["ring"]), repr(h["hist"]), warm, "".join(sched)))
            if runs % 400 == 11:
                ctx.sample({"ring": h["ring"], "settings": h["hist"], "map_built_before": warm, "schedule": "".join(sched),
                            "concurrent_plan": r["builder_plan"], "plans_afterwards": r["final_plan"]})
    ctx.note("cache_schedule_runs", runs)
    ctx.note("cache_schedule_runs_in_step_with_spec", exact)
    return True


KS_WITNESSES = ["Witness_StatementOverridesSession", "Witness_SessionKeyspaceUsed"]
ONE_KS = {"SessionKs": {"none"}, "StmtKs": {"a"}, "KeyChoices": "{TRUE}", "ShareAddr": "{FALSE}"}


class KeyspacePair:
    """Real Metadata with two keyspaces of different replication over one ring: host h alone in datacenter h, one
    token each; keyspace "a"/"b" = NetworkTopologyStrategy with rf 1 in the datacenter of its single replica (or in a
    datacenter without hosts: no replica)."""

    def __init__(self, n, reps, reps2, addr=None):
        self.n = n
        self.P = L.repo_import("cassandra.policies")
        self.Q = L.repo_import("cassandra.query")
        if addr is None:
            self.hosts = PL.make_hosts(list(range(1, n + 1)), [1] * n)
        else:                                  # several hosts on one IP address: endpoints differ by port
            pool, conn = L.repo_import("cassandra.pool"), L.repo_import("cassandra.connection")
            self.hosts = {}
            for h in range(1, n + 1):
                host = pool.Host(conn.DefaultEndPoint("10.0.1.%d" % addr[h - 1], 9042 + h), self.P.SimpleConvictionPolicy)
                host.set_location_info(PL.dc_name(h), PL.rack_name(1))
                self.hosts[h] = host

        def strat(r):
            if len(r) >= 2:                     # ring walk from r[0]: SimpleStrategy
                return {"kind": "Simple", "rf": len(r)}
            rfs = [0] * (n + 1)
            rfs[(r[0] - 1) if r else n] = 1
            return {"kind": "NTS", "rfs": rfs}
        self.md, names = PL.build_metadata(list(range(1, n + 1)), self.hosts, [strat(reps), strat(reps2)])
        self.names = {"a": names[0], "b": names[1], "none": None}
        self.inv = {v.endpoint: k for k, v in self.hosts.items()}
        self.key = PL.key_bytes(2 * reps[0] - 1 if len(reps) >= 2 else 1)

    def replicas(self, ks):
        return [self.inv.get(r.endpoint, 0) for r in self.md.get_replicas(self.names[ks], self.key)]

    def plan(self, sks, qks, has_key, child, up, dist, shuffle):
        HD = self.P.HostDistance
        names = {"LOCAL": HD.LOCAL, "REMOTE": HD.REMOTE, "IGNORED": HD.IGNORED}
        try:
            for h, host in self.hosts.items():
                host.is_up = {"T": True, "F": False, "N": None}[up[h]]
            fixed = L.make_fixed_child({self.hosts[h]: names[d] for h, d in dist.items()}, [self.hosts[h] for h in child])
            pol = self.P.TokenAwarePolicy(fixed, shuffle_replicas=shuffle)
            pol.populate(L._Cluster(self.md, []), list(self.hosts.values()))
            stmt = self.Q.SimpleStatement("SELECT v FROM t WHERE k = 0", routing_key=self.key if has_key else None,
                                          keyspace=self.names[qks])
            return [self.inv.get(getattr(h, "endpoint", None), 0) for h in pol.make_query_plan(self.names[sks], stmt)], None
        except Exception as ex:
            return [], "%s: %s" % (type(ex).__name__, ex)


def ks_state(st):
    n = len(st["up"])
    return {"n": n, "reps": [int(x) for x in st["reps"]], "reps2": [int(x) for x in st["reps2"]],
            "child": [int(x) for x in st["child"]], "up": {h + 1: str(v) for h, v in enumerate(st["up"])},
            "dist": {h + 1: str(v) for h, v in enumerate(st["dist"])}, "shuffle": bool(st["shuffle"]),
            "head": [int(x) for x in st["head"]], "tail": [int(x) for x in st["tail"]],
            "sks": str(st["sks"]), "qks": str(st["qks"]), "hasKey": bool(st["hasKey"]),
            "addr": [int(x) for x in st["addr"]]}


def ks_evaluate(d, cache=None):
    """One (session keyspace, statement keyspace) combination on the real policy. Returns failures or None (unbound)."""
    shared = d.get("addr") and d["addr"] != list(range(1, d["n"] + 1))
    key = (d["n"], tuple(d["reps"]), tuple(d["reps2"]), tuple(d["addr"]) if shared else None)
    kp = cache.get(key) if cache is not None else None
    if kp is None:
        kp = KeyspacePair(d["n"], d["reps"], d["reps2"], d["addr"] if shared else None)
        if cache is not None:
            cache[key] = kp
    if kp.replicas("a") != d["reps"] or kp.replicas("b") != d["reps2"]:
        return None
    plan, err = kp.plan(d["sks"], d["qks"], d["hasKey"], d["child"], d["up"], d["dist"], d["shuffle"])
    if err:
        return [("exception", err)]
    eff = d["qks"] if d["qks"] != "none" else d["sks"]
    effreps = {"a": d["reps"], "b": d["reps2"], "none": []}[eff] if d["hasKey"] else []
    fails = L.tokenaware_failures(plan, d["head"], d["tail"], d["child"], effreps, d["up"], d["dist"], d["shuffle"])
    if fails and d["hasKey"] and d["qks"] != "none" and d["sks"] not in ("none", d["qks"]):
        fails = [("wrong-keyspace", "session keyspace %r (replicas %s), statement keyspace %r (replicas %s): the plan %s does not "
                  "follow the statement's keyspace, which asks for %s then %s"
                  % (d["sks"], {"a": d["reps"], "b": d["reps2"]}[d["sks"]], d["qks"], {"a": d["reps"], "b": d["reps2"]}[d["qks"]],
                     plan, d["head"], d["tail"]))] + fails
    d["plan"] = plan
    return fails


def addr_domain(ctx, by_sig):
    """Hosts sharing an IP address (endpoint = address + port): the plan is made of hosts, none of the wrapped plan's
    hosts may disappear because it shares its address with a replica already yielded."""
    domains = [{"N": 2, "MaxReps": 2}] if ctx.quick else [{"N": 2, "MaxReps": 2}, {"N": 3, "MaxReps": 1}]
    for dom in domains:
        consts = dict(dom, **ONE_KS)
        consts["ShareAddr"] = "{TRUE}"
        tag = "N%d_R%d" % (dom["N"], dom["MaxReps"])
        cfg = tlc.write_cfg(os.path.join(ctx.scratch, "TokenAwareAddr_%s.cfg" % tag), constants=consts, invariants=INVARIANTS, deadlock=False)
        res, states = tlc.enumerate_states("TokenAware", cfg, ctx.scratch, timeout=1200)
        ctx.add_tlc(res, "exhaustive:shared-addresses:" + tag)
        if res.violation:
            ctx.violation("TLC: invariant %s violated in TokenAware.tla" % res.invariant,
                          replay={"trace": [s for _, s in res.trace()]}, signature="spec:" + str(res.invariant))
            return False
        if dom is domains[0]:
            w = "Witness_NonReplicaSharesAddressWithHead"
            wcfg = tlc.write_cfg(os.path.join(ctx.scratch, w + ".cfg"), constants=consts, invariants=[w], deadlock=False)
            wres = tlc.check_model("TokenAware", wcfg, ctx.scratch, timeout=600, workers=2, heap="1g")
            if wres.invariant != w:
                raise tlc.MachineryError("vacuity witness %s was not reached" % w)
        cache, unbound, done = {}, 0, 0
        states.sort(key=lambda s: repr(sorted(s.items())))
        for i, st in enumerate(states):
            d = ks_state(st)
            fails = ks_evaluate(d, cache)
            if fails is None:
                unbound += 1
                continue
            ctx.evaluations += 1
            done += 1
            if fails:
                det = {"n": d["n"], "reps": d["reps"], "child": d["child"], "up": d["up"], "dist": d["dist"], "shuffle": d["shuffle"],
                       "head": d["head"], "tail": d["tail"], "key_position": 1, "ring_instance": {}, "keyspaces": d}
                fails = [(fails[0][0], "hosts with IP addresses %s: %s" % (d["addr"], fails[0][1]))] + fails[1:]
                by_sig.setdefault("TokenAware:" + fails[0][0], []).append((len(d["child"]) + len(d["reps"]), det, fails))
                continue
            ctx.traces_validated += 1
            ctx.nontrivial(("addr", repr(sorted(d.items(), key=repr))))
            if i % 900 == 17:
                ctx.sample({k: d[k] for k in ("addr", "reps", "child", "up", "dist", "shuffle", "plan")})
        ctx.count("shared_address_combinations_checked", done)
        if unbound > len(states) // 3:
            raise tlc.MachineryError("%d of %d shared-address combinations could not be bound" % (unbound, len(states)))
    return True


def ks_domain(ctx, by_sig):
    """(session keyspace, statement keyspace) pairs over two keyspaces with different replicas for the key."""
    consts = {"N": 2, "MaxReps": 1}
    if ctx.quick:
        consts.update({"SessionKs": {"none", "a"}, "StmtKs": {"none", "b"}, "KeyChoices": "{TRUE}", "ShareAddr": "{FALSE}"})
    else:
        consts.update({"SessionKs": {"none", "a", "b"}, "StmtKs": {"none", "a", "b"}, "KeyChoices": "{TRUE, FALSE}", "ShareAddr": "{FALSE}"})
    cfg = tlc.write_cfg(os.path.join(ctx.scratch, "TokenAwareKs.cfg"), constants=consts, invariants=INVARIANTS + ["StatementKeyspaceWins"],
                        deadlock=False)
    res, states = tlc.enumerate_states("TokenAware", cfg, ctx.scratch, timeout=1200)
    ctx.add_tlc(res, "exhaustive:keyspaces")
    if res.violation:
        ctx.violation("TLC: invariant %s violated in TokenAware.tla" % res.invariant,
                      replay={"trace": [s for _, s in res.trace()]}, signature="spec:" + str(res.invariant))
        return False
    for w in KS_WITNESSES:
        wc = dict(consts, SessionKs={"none", "a", "b"}, StmtKs={"none", "a", "b"})
        wcfg = tlc.write_cfg(os.path.join(ctx.scratch, w + ".cfg"), constants=wc, invariants=[w], deadlock=False)
        wres = tlc.check_model("TokenAware", wcfg, ctx.scratch, timeout=600, workers=2, heap="1g")
        if wres.invariant != w:
            raise tlc.MachineryError("vacuity witness %s was not reached" % w)
    ctx.note("constants_keyspaces", {k: (sorted(v) if isinstance(v, set) else v) for k, v in consts.items()})
    cache, unbound, done = {}, 0, 0
    states.sort(key=lambda s: repr(sorted(s.items())))
    for i, st in enumerate(states):
        d = ks_state(st)
        fails = ks_evaluate(d, cache)
        if fails is None:
            unbound += 1
            continue
        ctx.evaluations += 1
        done += 1
        if fails:
            det = {"n": d["n"], "reps": d["reps"], "child": d["child"], "up": d["up"], "dist": d["dist"], "shuffle": d["shuffle"],
                   "head": d["head"], "tail": d["tail"], "key_position": 1, "ring_instance": {}, "keyspaces": d}
            by_sig.setdefault("TokenAware:" + fails[0][0], []).append((len(d["child"]) + len(d["reps"]) + len(d["reps2"]), det, fails))
            continue
        ctx.traces_validated += 1
        if d["sks"] != "none" and d["qks"] != "none" and d["reps"] != d["reps2"]:
            ctx.nontrivial(("ks", repr(sorted(d.items(), key=repr))))
        if i % 2500 == 13:
            ctx.sample({k: d[k] for k in ("sks", "qks", "hasKey", "reps", "reps2", "child", "up", "dist", "plan")})
    ctx.note("keyspace_combinations_checked", done)
    if unbound > len(states) // 10:
        raise tlc.MachineryError("%d of %d keyspace combinations could not be bound" % (unbound, len(states)))
    # self-test: judged against the other keyspace's replicas the verdict must change
    probe = next((ks_state(s) for s in states if str(s["sks"]) == "a" and str(s["qks"]) == "b" and len(s["reps"]) == 1 and len(s["reps2"]) == 1
                  and s["reps"] != s["reps2"] and len(s["head"]) == 1 and len(s["child"]) == 2 and bool(s["hasKey"])), None)
    if probe is None:
        raise tlc.MachineryError("no (session a, statement b) combination for the self-test")
    swapped = dict(probe, head=[probe["reps"][0]], tail=[h for h in probe["child"] if h != probe["reps"][0]])
    if ks_evaluate(dict(swapped)) == ks_evaluate(dict(probe)):
        raise tlc.MachineryError("binding self-test failed: the keyspace whose replicas are expected does not influence the verdict")
    st = ctx.extra.setdefault("binding_selftest", {"corrupted_rejected": 0})
    st["corrupted_rejected"] += 1
    return True


def run(ctx):
    L.seed_shuffle(ctx.rng)
    wconsts = dict({"N": 2, "MaxReps": 2}, **ONE_KS)
    for w in WITNESSES:
        wcfg = tlc.write_cfg(os.path.join(ctx.scratch, w + ".cfg"), constants=wconsts, invariants=[w], deadlock=False)
        wres = tlc.check_model("TokenAware", wcfg, ctx.scratch, timeout=600, workers=2, heap="1g")
        if wres.invariant != w:
            raise tlc.MachineryError("vacuity witness %s was not reached" % w)
    ctx.note("vacuity_witnesses_reached", len(WITNESSES))
    ctx.note("coverage_zero_actions", [])
    ctx.note("exhaustive", True)
    configs = [(3, 2, 1)] if ctx.quick else [(3, 3, 2), (4, 2, 1)]          # (hosts, max replicas, rings per combination)
    ctx.note("constants", [{"N": n, "MaxReps": m} for n, m, _ in configs])
    by_sig = {}
    for n, maxreps, per_state in configs:
        if not one_domain(ctx, n, maxreps, per_state, by_sig):
            return
    if not alter_domain(ctx, by_sig):
        return
    if not ks_domain(ctx, by_sig):
        return
    if not addr_domain(ctx, by_sig):
        return
    counts = {}
    for sig, lst in sorted(by_sig.items()):
        counts[sig] = len(lst)
        lst.sort(key=lambda t: (t[0], repr(t[1]["reps"]), repr(t[1]["child"]), repr(t[1]["up"]), repr(t[1]["dist"])))
        seen, uniq = set(), []
        for t in lst:
            k = repr([t[1][f] for f in ("reps", "child", "up", "dist")])
            if k not in seen:
                seen.add(k)
                uniq.append(t)
        for _, det, fails in uniq[:MAX_REPORTED_PER_SIGNATURE]:
            if "keyspaces" in det:
                ctx.violation(fails[0][1], replay={"keyspaces": det["keyspaces"], "failures": [list(f) for f in fails]}, signature=sig)
                continue
            if "cache" in det:
                ctx.violation(fails[0][1], replay={"cache": det["cache"], "failures": [list(f) for f in fails]}, signature=sig)
                continue
            if "alter" in det:
                a = det["alter"]["instance"]
                ctx.violation("ring owners %s, dc %s, rack %s, replication %s, plans made, then altered to %s (host down: %s, shuffle %s): %s"
                              % (a["ring"], a["dc"], a["rack"], a["hist"][:-1], a["hist"][-1], det["alter"]["down"] or "none",
                                 det["shuffle"], fails[0][1]),
                              replay={"alter": det["alter"], "shuffle": det["shuffle"], "failures": [list(f) for f in fails]},
                              signature=sig)
                continue
            ctx.violation("replicas %s, child plan %s, is_up %s, distance %s, shuffle %s: %s"
                          % (det["reps"], det["child"], det["up"], det["dist"], det["shuffle"], fails[0][1]),
                          replay={"n": det["n"], "state": {k: det[k] for k in ("reps", "child", "up", "dist", "shuffle", "head", "tail")},
                                  "instance": dict(det["ring_instance"], byKey=[]), "key": det["key_position"] or 1,
                                  "failures": [list(f) for f in fails]}, signature=sig)
    ctx.note("failing_combinations_by_signature", counts)
    ctx.assumptions += ["the wrapped policy is an input: fixed plan without IGNORED hosts, arbitrary distances",
                        "ring order = the order the real Metadata.get_replicas returns (hosts renamed accordingly)",
                        "is_up of hosts that are not replicas and distance of hosts in neither list are never read: canonical values"]


def one_domain(ctx, n, maxreps, per_state, by_sig):
    consts = dict({"N": n, "MaxReps": maxreps}, **ONE_KS)
    cfg = tlc.write_cfg(os.path.join(ctx.scratch, "TokenAware_%d_%d.cfg" % (n, maxreps)), constants=consts,
                        invariants=INVARIANTS, deadlock=False)
    res, states = tlc.enumerate_states("TokenAware", cfg, ctx.scratch, timeout=2400)
    ctx.add_tlc(res, "exhaustive:N=%d,MaxReps=%d" % (n, maxreps))
    if res.violation:
        ctx.violation("TLC: invariant %s violated in TokenAware.tla" % res.invariant,
                      replay={"trace": [s for _, s in res.trace()]}, signature="spec:" + str(res.invariant))
        return False
    index = ring_index(ctx, n)
    binder = Binder(n)
    unbound = 0
    states.sort(key=lambda s: (tuple(s["reps"]), tuple(s["child"]), tuple(s["up"]), tuple(s["dist"]), bool(s["shuffle"])))
    for i, st in enumerate(states):
        r = len(st["reps"])
        cands = index.get(r) if r else ((index.get(0) if i % 2 else None) or index.get(1))
        if not cands:
            unbound += 1
            continue
        for j in range(per_state):
            inst, key = cands[(i * per_state + j) % len(cands)]
            fails, det = evaluate(binder, st, inst, key, n)
            if fails is None:
                unbound += 1
                continue
            det["n"] = n
            ctx.evaluations += 1
            if fails:
                sig = "TokenAware:" + fails[0][0]
                by_sig.setdefault(sig, []).append((len(det["child"]) + len(det["reps"]), det, fails))
                continue
            ctx.traces_validated += 1
            if any(det["up"][h] != "T" or det["dist"][h] != "LOCAL" for h in det["reps"]):
                ctx.nontrivial((n, tuple(det["reps"]), tuple(det["child"]), tuple(sorted(det["up"].items())),
                                tuple(sorted(det["dist"].items())), det["shuffle"]))
            if ctx.evaluations % 3001 == 5:
                ctx.sample({k: det[k] for k in ("reps", "child", "up", "dist", "shuffle", "plan", "ring_instance", "key_position")})
    ctx.count("states_without_matching_ring", unbound)
    if unbound > len(states) // 10:
        raise tlc.MachineryError("%d of %d input combinations could not be bound to a ring" % (unbound, len(states)))

    # binding self-test: a corrupted expectation must be noticed
    probe = next(s for s in states if len(s["reps"]) == 2 and len(s["head"]) == 2 and len(s["tail"]) >= 1 and not s["shuffle"])
    inst, key = index[2][0]
    ok, _ = evaluate(binder, probe, inst, key, n)
    bad1 = dict(probe)
    bad1["head"] = tuple(reversed(probe["head"]))
    bad2 = dict(probe)
    bad2["tail"] = tuple(probe["tail"]) + (probe["head"][0],)
    r1, _ = evaluate(binder, bad1, inst, key, n)
    r2, _ = evaluate(binder, bad2, inst, key, n)
    if r1 == ok or r2 == ok:        # the verdict must depend on the expectation (`ok` is non-empty only for a broken driver)
        raise tlc.MachineryError("binding self-test failed: corrupted expectations not noticed (%r %r %r)" % (ok, r1, r2))
    st = ctx.extra.setdefault("binding_selftest", {"corrupted_rejected": 0})
    st["corrupted_rejected"] += 2
    return True


def replay(ctx, obj):
    L.seed_shuffle(ctx.rng)
    if "keyspaces" in obj:
        d = obj["keyspaces"]
        d["up"] = {int(k): v for k, v in d["up"].items()}
        d["dist"] = {int(k): v for k, v in d["dist"].items()}
        fails = ks_evaluate(d)
        print("session keyspace %s, statement keyspace %s, replicas a=%s b=%s, child %s: plan %s, specified %s + %s"
              % (d["sks"], d["qks"], d["reps"], d["reps2"], d["child"], d.get("plan"), d["head"], d["tail"]))
        if fails:
            ctx.violation("replayed: %s" % fails[0][1], replay=obj, signature="TokenAware:" + fails[0][0])
        else:
            print("no mismatch")
        return
    if "cache" in obj:
        c = obj["cache"]
        h = c["instance"]
        n = len(h["dc"])
        r = L.run_cache_schedule(dict(h, strat=h["hist"][0], hist=None), h["hist"][1], c["warm"], c["schedule"], n, bkey=c["bkey"])
        print("ring owners %s dc %s rack %s, %s altered to %s, schedule %s" % (h["ring"], h["dc"], h["rack"], h["hist"][0], h["hist"][1],
                                                                              "".join(c["schedule"])))
        print("concurrent plan %s ; plans afterwards %s ; error %s" % (r["builder_plan"], r["final_plan"], r["error"]))
        stale = [k for k, p in sorted(r["final_plan"].items()) if not plan_matches(p, h["byKey"][int(k) - 1], n)]
        if r["error"] or stale:
            ctx.violation("replayed: %s" % (r["error"] or "plans for key positions %s do not follow the current settings" % stale),
                          replay=obj, signature="TokenAware:stale-replicas-after-concurrent-alter")
        else:
            print("no mismatch")
        return
    if "alter" in obj:
        inst = obj["alter"]["instance"]
        fails = alter_plans(inst, obj["shuffle"], obj["alter"]["down"])
        print("ring owners %s dc %s rack %s settings history %s" % (inst["ring"], inst["dc"], inst["rack"], inst["hist"]))
        for f in fails:
            print("  %s: %s" % (f[0], f[1]))
        if fails:
            ctx.violation("replayed: %s" % fails[0][1], replay=obj, signature="TokenAware:" + fails[0][0])
        else:
            print("no mismatch")
        return
    st = obj["state"]
    state = {"reps": tuple(st["reps"]), "child": tuple(st["child"]),
             "up": tuple(st["up"][str(h)] if str(h) in st["up"] else st["up"][h] for h in range(1, obj["n"] + 1)),
             "dist": tuple(st["dist"][str(h)] if str(h) in st["dist"] else st["dist"][h] for h in range(1, obj["n"] + 1)),
             "shuffle": st["shuffle"], "head": tuple(st["head"]), "tail": tuple(st["tail"])}
    fails, det = evaluate(Binder(obj["n"]), state, obj["instance"], obj["key"], obj["n"])
    print("replicas %s child %s is_up %s distance %s shuffle %s" % (st["reps"], st["child"], st["up"], st["dist"], st["shuffle"]))
    print("specified plan: %s + %s ; real plan: %s" % (st["head"], st["tail"], det and det.get("plan")))
    if fails:
        ctx.violation("replayed: %s" % fails[0][1], replay=obj, signature="TokenAware:" + fails[0][0])
    else:
        print("no mismatch")
