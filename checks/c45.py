"""C45 - shutdown releases every connection and stops accepting work (spec/Hosts.tla, Shutdown always enabled)."""
from checks import _hosts, _driver

META = {
    "property_id": "C45",
    "engine": "Hosts",
    "technique": "TLA+ spec of Cluster/Session host-state handling with Cluster.shutdown (three stretches) enabled in every "
                 "state, checked exhaustively by TLC; edges of the state graph replayed into a real Cluster over simulated "
                 "nodes, executor and scheduler, followed by an after-return probe; recorded random runs validated against the spec",
    "level": "model_checking",
    "level_text": "Cluster.shutdown() is injected (as scheduler+control-connection stop, sessions shutdown, executor shutdown, "
                  "with worker tasks running in between and afterwards, as ThreadPoolExecutor.shutdown(wait=True) lets them) at "
                  "every state of the connect / failure / reconnect / pool re-creation / control-connection-reconnect "
                  "histories TLC enumerates for up to 2 hosts, 2 sessions, 3 events.  Invariants: once shutdown() has returned no "
                  "connection (control, pool, detached pool, pending control reconnect) is open and execute_async is refused.  "
                  "Every edge is replayed on the real driver objects comparing hosts, pools, queues, shutdown flags and the number "
                  "of open simulated connections after each step; after the last step of a walk that ends with shutdown "
                  "returned, every scheduler entry, reactor timer and left-over task is given the chance to run: nothing may "
                  "run, no connection may be opened, none may remain open on the driver or node side, and a new request must "
                  "fail at once.  Recorded random runs (with shutdown at random points) are validated by TLC (Trace_Hosts).",
    "level_note": "Trusted: TLC; the simulation doubles; executor tasks atomic except ControlConnection._reconnect (split "
                  "before _set_new_connection); requests in flight at shutdown are C10's; pool-internal replacement/trash races "
                  "are C12's; small scope.",
    "design_ref": "5.4 C45",
}
META["level_text"] += _driver.SYSTEM_LEVEL_TEXT


def run(ctx):
    _hosts.run(ctx, "C45")
    _driver.system_tier(ctx, "C45")     # thorough: whole-driver runs against spec/Driver.tla, rejections owned by C45


def replay(ctx, obj):
    if _driver.is_system_replay(obj):
        return _driver.replay_system(ctx, obj)
    _hosts.replay(ctx, "C45", obj)
