"""C06 - protocol v5 segments are reassembled exactly and corruption is detected.

Spec: spec/Segments.tla (EXTENDS Framing) - the protocol-correct receiver of checksummed segments: header length
      fixed by the connection's codec (3 / 5) + CRC24, payload + CRC32, self-contained segments (possibly holding
      two frames), large frames in MaxPayload pieces, per-segment "left uncompressed" choice of the sender, one
      corruption in any region of any segment.  Scaled sizes (MaxPayload = 4), real header / CRC lengths.
TLC : exhaustive over every configuration and every read split; Framing's invariants on the messages plus
      Inv_SegNoLoss, Inv_SegEager, Inv_NoSpuriousCrc, Inv_Complete, Inv_Detect.
Bind: spec -> code  every edge of the state graph replayed into a real v5 SimConnection (real handshake, real
                    _enable_checksumming, stand-in compressor through SegmentCodec), real MAX_PAYLOAD_LENGTH, segment
                    bytes and CRCs from the independent encoder; model offsets mapped to real offsets class by class;
                    corruptions = one flipped bit (thorough: every bit of every header and CRC, sampled payload bits).
      code -> spec  random real message sizes / segmentations / chunkings recorded and validated by TLC against
                    Trace_Segments.tla.
"""
import copy
import os
import re
import time

from harness import tlc

META = {
    "property_id": "C06",
    "engine": "Segments",
    "technique": "TLA+ spec of the v5 segment layer over tagged bytes (on top of Framing.tla) checked exhaustively by TLC; "
                 "every edge of the state graph replayed into a real v5 connection with real-size segments from an "
                 "independent encoder, single-bit corruptions included; recorded random runs validated against the spec",
    "level": "model_checking",
    "level_text": "TLC enumerates every configuration (1-2 messages of sizes tiny / small / exactly MaxPayload / MaxPayload+1 / "
                  "2*MaxPayload+small, responses and pushes, two tiny messages sharing a segment, plain or compressing "
                  "codec, the sender's per-segment compressed flag, one corruption in header / header CRC / payload / "
                  "payload CRC of any segment) and every way to cut the byte stream into reads; it checks that messages "
                  "are delivered exactly, in order, as soon as their last segment is there, that the connection never "
                  "fails without a corruption, and that a corruption fails it at the corrupted segment with only "
                  "messages wholly before it delivered. Every edge of the graph is replayed on the real connection "
                  "(real MAX_PAYLOAD_LENGTH; each model offset class mapped to first / last / middle / random real "
                  "offsets), comparing buffers, consumed segments, handler invocations and everything handed to "
                  "process_msg after each read.",
    "level_note": "Trusted: TLC; harness/wire.py (independent segment encoder, CRC24/CRC32); the offset-class mapping "
                  "between the scaled model and real sizes; a zlib-based stand-in for lz4 behind the same SegmentCodec "
                  "interface; CRC arithmetic itself is exercised only on the flipped bits tried. Scope: <=2 messages "
                  "exhaustive (3 in recorded runs), <=4 segments.",
    "design_ref": "5.1 C06",
}

F_INV = ["TypeOK", "Inv_Sync", "Inv_Prefix", "Inv_Exact", "Inv_AllWatchers", "Inv_NoPartial", "Inv_Terminal"]
S_INV = ["TypeOK_S", "Inv_SegNoLoss", "Inv_SegEager", "Inv_Eager_S", "Inv_NoSpuriousCrc", "Inv_Complete", "Inv_Detect"]
INVARIANTS = F_INV + S_INV
WITNESSES = ["Witness_Defunct", "Witness_MultiSeg", "Witness_Packed", "Witness_PlainInComp", "Witness_ZInComp",
             "Witness_WaitPayload", "Witness_AllDone_S", "Witness_Lag"]
REPORT_PER_SIGNATURE = 2


def _consts(pos, neg, lo, hi, codecs, maxsegs, regs, free):
    return {"Vers": {5}, "PosLens": set(pos), "NegLens": set(neg), "PushIds": {1}, "Watchers": {"bad", "good1", "good2"}, "Raising": {"bad"}, "MinFrames": lo, "MaxFrames": hi, "AbsHdr": 2,
            "MaxPayload": 4, "CLen": 2, "Codecs": set(codecs), "MaxSegs": maxsegs,
            "CorruptRegs": set(regs) if regs else "{}", "FreeFlags": free}


def _cfg(ctx, name, consts, invariants):
    return tlc.write_cfg(os.path.join(ctx.scratch, name), init="Init_S", next="Next_S", constants=consts,
                         invariants=invariants, deadlock=False)


def _spec_violation(ctx, res, label):
    ctx.violation("TLC: %s violated on Segments.tla (%s)" % (res.invariant, label),
                  replay={"kind": "spec", "trace": [dict(s) for _, s in res.trace()][-4:]},
                  signature="spec:%s" % res.invariant)


def _config_of(state):
    return {"frames": [{"ver": 5, "neg": bool(f["neg"]), "blen": int(f["blen"]), "sid": int(f["sid"])} for f in state["frames"]],
            "codec": str(state["codec"]),
            "segs": [{"lo": int(s["lo"]), "hi": int(s["hi"]), "sc": bool(s["sc"]), "z": bool(s["z"])} for s in state["segs"]],
            "corrupt": {"seg": int(state["corrupt"]["seg"]), "reg": str(state["corrupt"]["reg"])}}


class Reporter:
    """Divergences grouped by signature; the first few of each class become VIOLATION lines."""

    def __init__(self, ctx):
        self.ctx = ctx
        self.by_sig = {}

    def add(self, what, replay, signature):
        n = self.by_sig.get(signature, 0)
        self.by_sig[signature] = n + 1
        if n < REPORT_PER_SIGNATURE:
            self.ctx.violation(what, replay=replay, signature=signature)
        self.ctx.note("divergences_by_signature", dict(self.by_sig))


def run(ctx):
    from harness.replay.framing import CodeUnderTestFailure
    try:
        _run(ctx)
    except tlc.MachineryError:
        if not ctx.violations:
            raise
        ctx.note("aborted_after_violations", "a later stage could not complete on the misbehaving driver")
    except CodeUnderTestFailure as exc:
        ctx.violation("the connection cannot be brought up over the read path under test: %s" % exc,
                      replay={"kind": "handshake", "what": str(exc)}, signature="handshake-over-read-path-fails")
    except Exception as exc:                     # anything else a misbehaving driver makes a later stage trip over
        if not ctx.violations:
            raise
        ctx.note("aborted_after_violations", "%s: %s" % (type(exc).__name__, exc))


def _run(ctx):
    from harness.replay import segments as rs
    h = rs.SegHarness()
    h._fresh("plain")   # fail fast when the driver cannot even complete a v5 handshake over this read path
    rep = Reporter(ctx)
    t0 = time.time()
    phases = {}

    def phase(name):
        nonlocal t0
        phases[name] = round(phases.get(name, 0) + time.time() - t0, 1)
        t0 = time.time()
        ctx.note("phase_wall_s", dict(phases))

    both = ("plain", "comp")
    regs = ("h", "c", "p", "q")
    if ctx.quick:
        models = [("no corruption: 1 msg, sizes 2/3/4/5/10, flags free",
                   _consts((0, 1, 2, 3, 8), (0,), 1, 1, both, 3, (), True)),
                  ("no corruption: 2 msgs, sizes 2/5, <=3 segments, flags free",
                   _consts((0, 3), (0,), 2, 2, both, 3, (), True)),
                  ("one corruption: 1-2 msgs, sizes 2/5, <=2 segments, flags all-or-nothing",
                   _consts((0, 3), (0,), 1, 2, both, 2, regs, False)),
                  ("one corruption: 2 msgs, sizes 2/5, <=3 segments, plain codec",
                   _consts((0, 3), (), 2, 2, ("plain",), 3, regs, False)),
                  ("no corruption: 3 tiny msgs, two of them sharing a segment",
                   _consts((0,), (0,), 3, 3, both, 2, (), False))]
    else:
        models = [("no corruption: 1-2 msgs, sizes 2/3/4/5/10, <=3 segments, flags free",
                   _consts((0, 1, 2, 3, 8), (0,), 1, 2, both, 3, (), True)),
                  ("no corruption: 2 msgs, sizes 5/10, pushes 2, <=5 segments, flags all-or-nothing",
                   _consts((3, 8), (0,), 2, 2, both, 5, (), False)),
                  ("one corruption: 2 msgs, sizes 2/5, <=3 segments, flags all-or-nothing",
                   _consts((0, 3), (0,), 2, 2, both, 3, regs, False)),
                  ("one corruption: 1 msg, sizes 2/5/10, flags free",
                   _consts((0, 3, 8), (0,), 1, 1, both, 3, regs, True)),
                  ("no corruption: 3 msgs, sizes 2/4, two of them sharing a segment, 2 segments",
                   _consts((0, 2), (0,), 3, 3, both, 2, (), False))]
    graphs = []
    for n, (label, consts) in enumerate(models):
        res, nodes, edges, init = tlc.state_graph("Segments", _cfg(ctx, "seg_%d.cfg" % n, consts, INVARIANTS), ctx.scratch,
                                                  coverage=True, timeout=2400, workers=4)
        ctx.add_tlc(res, "exhaustive " + label)
        if res.violation:
            _spec_violation(ctx, res, label)
            return
        cov = res.coverage()
        if not cov.get("Next_S") or cov["Next_S"][1] == 0:
            raise tlc.MachineryError("SRead never taken in model %s: %s" % (label, cov))
        graphs.append((label, nodes, edges, init))
    wconsts = _consts((0, 3), (), 1, 3, both, 2, ("c",), False)
    wcfg = tlc.write_cfg(os.path.join(ctx.scratch, "witness.cfg"), init="Init_S", next="Next_S", constants=wconsts,
                         constraints=["WitnessScan_S"], deadlock=False)
    wres = tlc.check_model("Segments", wcfg, ctx.scratch, timeout=900, workers=1)
    reached = set(v[1] for v in wres.printed("WITNESS") if isinstance(v, tuple) and len(v) == 2)
    if reached != set(WITNESSES):
        raise tlc.MachineryError("vacuity witnesses not reachable: %s" % sorted(set(WITNESSES) - reached))
    ctx.note("vacuity_witnesses_reached", len(WITNESSES))
    if not ctx.quick:
        big = _consts((0, 2, 3, 8), (0,), 3, 3, both, 5, (), False)
        bres = tlc.check_model("Segments", _cfg(ctx, "seg_big.cfg", big, INVARIANTS), ctx.scratch, timeout=3000)
        ctx.add_tlc(bres, "exhaustive no corruption: 3 msgs, <=5 segments, flags all-or-nothing (no graph)")
        if bres.violation:
            _spec_violation(ctx, bres, "3 msgs")
            return
    phase("tlc_exhaustive")

    # ------------------------------------------------------------------ spec -> code: every edge of every graph
    replayed = feeds = diverged = 0
    total_edges = covered_edges = 0
    selftest = 0
    bits_used = {}                    # (config key) -> set of bits flipped
    walks_by_cfg = {}                 # corrupt configs: key -> (init state, nodes, list of walks)

    def cfg_key(c):
        return repr(c)

    def run_walk(nodes, w, P, bit=None, retry=None):
        """Replay one walk (node ids). Returns index of the diverging step or None."""
        nonlocal replayed, feeds, diverged
        st0 = nodes[w[0]]
        lay = rs.layout_from_state(st0, rng=ctx.rng, bit=bit)
        positions = [nodes[n]["nsent"] for n in w[1:]]
        expected = [P(n) for n in w[1:]]
        reals = []
        d = rs.replay_positions(h, lay, positions, expected, rng=ctx.rng, reals=reals)
        replayed += 1
        feeds += len(reals)
        if lay.corrupt:
            bits_used.setdefault(cfg_key(_config_of(st0)), set()).add(lay.corrupt[2])
        big = any(len(f.raw) > rs.MAX for f in lay.frames)
        if big or lay.corrupt or any(s["z"] for s in lay.segs):
            ctx.nontrivial((cfg_key(_config_of(st0))[:200], tuple(positions)))
        if replayed % 5000 == 1:
            ctx.sample({"direction": "spec->code", "config": _config_of(st0), "model_offsets": positions,
                        "real_offsets": reals, "real_frame_bytes": [len(f.raw) for f in lay.frames],
                        "flipped_bit": lay.corrupt})
        if d:
            diverged += 1
            rep.add("real v5 connection diverges from Segments.tla at read #%d (model offset %d = real offset %d of %d; "
                    "codec %s, real frames %s, segments %s%s): %s%s" % (
                        d["step"] + 1, d["a"], d["r"], lay.rlen, lay.codec, [len(f.raw) for f in lay.frames],
                        [("z" if s["z"] else "p", s["P"]) for s in lay.segs],
                        (", flipped bit %s" % (lay.corrupt,)) if lay.corrupt else "", d["diff"],
                        (" last_error=%s" % d["err"]) if d.get("err") else ""),
                    {"kind": "positions", "config": _config_of(st0), "bit": lay.corrupt[2] if lay.corrupt else None,
                     "real_offsets": reals, "divergence": d},
                    d["signature"])
            return d["step"]
        return None

    for label, nodes, edges, init in graphs:
        proj = {}

        def P(nid, nodes=nodes, proj=proj):
            p = proj.get(nid)
            if p is None:
                p = proj[nid] = rs.spec_projection(nodes[nid])
            return p
        eset = set((s, d) for s, d, _ in edges)
        total_edges += len(eset)
        walks = rs.rf.cover_walks(edges, init, rank=lambda nid, nodes=nodes: nodes[nid]["nsent"])
        term = {}
        for s, d in eset:
            if nodes[d]["net"] == () or nodes[d]["defunct"]:
                term.setdefault(s, d)
        done = set()
        pending = []

        def ckey(st):
            return (st["frames"], st["segs"], st["codec"], st["corrupt"])
        init_of = {ckey(nodes[i]): i for i in init}
        for w in walks:
            if len(w) < 2:
                continue
            st0 = nodes[w[0]]
            if st0["corrupt"]["seg"] != 0 and len(st0["frames"]) == 1:
                walks_by_cfg.setdefault(cfg_key(_config_of(st0)), (st0, nodes, P, []))[3].append(w)
            if selftest < 2 and len(w) >= 3 and st0["corrupt"]["seg"] == 0:
                # binding self-test: a flipped expectation must be noticed
                lay = rs.layout_from_state(st0)
                exp = [copy.deepcopy(P(n)) for n in w[1:]]
                if selftest == 0:
                    exp[-1]["segbuf"] += 1
                else:
                    exp[0]["nseg"] += 1
                if not rs.replay_positions(h, lay, [nodes[n]["nsent"] for n in w[1:]], exp):
                    raise tlc.MachineryError("binding self-test failed: altered expectation not noticed by replay")
                selftest += 1
            bad = run_walk(nodes, w, P)
            ok_upto = len(w) - 1 if bad is None else bad
            done.update(zip(w[:ok_upto + 1], w[1:ok_upto + 1]))
            if bad is not None:
                done.add((w[bad], w[bad + 1]))
                pending += list(zip(w[bad + 1:], w[bad + 2:]))
        # edges hidden behind a divergence: replay them directly (init -> source in one read, the edge, then to the end)
        for (u, v) in pending:
            if (u, v) in done:
                continue
            i0 = init_of[ckey(nodes[u])]
            w = [i0] + ([u] if u != i0 else []) + [v]
            if v in term and term[v] != v and (v, term[v]) in eset:
                w.append(term[v])
            if any((a, b) not in eset for a, b in zip(w, w[1:])):
                continue
            bad = run_walk(nodes, w, P)
            if bad is None or bad >= w.index(v) - 1:
                done.add((u, v))
        covered_edges += len(done & eset)
    ctx.note("graph_edges", total_edges)
    ctx.note("graph_edges_replayed", covered_edges)
    ctx.note("exhaustive", covered_edges == total_edges)
    ctx.note("behaviours_replayed_graph", replayed)
    phase("replay_graph")

    # ------------------------------------------------------------------ thorough: every bit of every header and CRC
    if not ctx.quick:
        swept = 0
        for key in sorted(walks_by_cfg):
            st0, nodes, P, ws = walks_by_cfg[key]
            lay0 = rs.layout_from_state(st0, bit=0)
            reg = lay0.corrupt[1]
            nbits = lay0.region(lay0.corrupt[0], reg)[1] * 8
            if reg == "p":
                want = sorted(set([0, 7, nbits - 1, nbits - 8, nbits // 2] + [ctx.rng.randrange(nbits) for _ in range(6)]))
            else:
                want = list(range(nbits))
            used = bits_used.get(key, set())
            for j, b in enumerate(x for x in want if x not in used):
                run_walk(nodes, ws[j % len(ws)], P, bit=b)
                swept += 1
        ctx.note("bit_sweep_extra_runs", swept)
        full = all(len(bits_used.get(k, ())) >= rs.layout_from_state(walks_by_cfg[k][0], bit=0).region(
            walks_by_cfg[k][0]["corrupt"]["seg"], walks_by_cfg[k][0]["corrupt"]["reg"])[1] * 8
            for k in walks_by_cfg if walks_by_cfg[k][0]["corrupt"]["reg"] != "p")
        ctx.note("every_header_and_crc_bit_flipped", bool(full))
        phase("bit_sweep")
    ctx.note("bit_sweep_configs", len(walks_by_cfg))
    ctx.note("bits_flipped", sum(len(v) for v in bits_used.values()))
    ctx.traces_validated += replayed - diverged
    ctx.note("behaviours_replayed", replayed)
    ctx.note("behaviours_diverged", diverged)
    ctx.note("reads_replayed", feeds)

    # ------------------------------------------------------------------ code -> spec: recorded runs validated by TLC
    n_tr = 150 if ctx.quick else 1000
    traces, lays = [], []
    for i in range(n_tr):
        lay = rs.random_layout(ctx.rng, max_frames=3, corrupt_p=0.0 if ctx.quick else 0.2)
        traces.append(rs.record(h, lay, rs.random_real_cuts(ctx.rng, lay)))
        lays.append(lay)
    good = len(traces)
    clean_lay = rs.Layout([rs.sframe(1, False, 8, 1), rs.sframe(2, True, 36, 1)], [True, True], "plain", [False, False])
    victim = rs.record(rs.SegHarness(), clean_lay, [6, 20, clean_lay.rlen - 1, clean_lay.rlen])
    # the victim is a run of the real connection on clean input; a driver that misbehaves there gives a short
    # trace (recording stops at defunct): then the victim itself is rejected below and reported as a divergence
    usable = len(victim) >= 5
    bad1 = copy.deepcopy(victim)
    bad2 = copy.deepcopy(victim)
    if usable:
        bad1[3]["post"]["segbuf"] += 1
        del bad2[2]
    traces += [bad1, bad2, victim]
    tconsts = _consts((0,), (0,), 1, 1, both, 8, (), True)
    tcfg = tlc.write_cfg(os.path.join(ctx.scratch, "trace.cfg"), init="TraceInit", next="TraceNext", constants=tconsts,
                         invariants=INVARIANTS, constraints=["Progress"], postcondition="Done", deadlock=False)
    tres, prog = tlc.validate_traces("Trace_Segments", tcfg, traces, ctx.scratch, timeout=1800)
    ctx.add_tlc(tres, "trace validation")
    phase("trace_validation")
    if tres.violation:
        ctx.violation("invariant %s violated in a state of a recorded execution" % tres.invariant,
                      replay={"kind": "spec", "trace": [dict(s) for _, s in tres.trace()][-3:]},
                      signature="trace-inv:%s" % tres.invariant)
        return
    # the self-test traces come from a run of the real connection; if that run itself misbehaves (defective
    # driver) the corrupted copies are rejected even earlier, which is all the self-test needs
    victim_ok = prog[good + 2] == len(victim) + 1
    if not victim_ok:
        ev = victim[min(max(prog[good + 2], 2), len(victim)) - 1]
        post = ev.get("post", {})
        rep.add("recorded execution (two small messages, plain codec, reads ending at real offsets %s) rejected by "
                "Segments.tla at event %d: post-state %s" % ([e["r"] for e in victim[1:]], prog[good + 2], post),
                {"kind": "positions", "config": clean_lay.abs_config(), "bit": None,
                 "real_offsets": [e["r"] for e in victim[1:]]},
                rs.classify(clean_lay, ev.get("r", 0), post, False, ("trace",)))
    elif not usable:
        raise tlc.MachineryError("self-test run of the real connection is too short but was accepted")
    elif prog[good] != 4 or prog[good + 1] > len(bad2):
        raise tlc.MachineryError("binding self-test failed: corrupted/dropped trace accepted (%s, %s)" % (prog[good], prog[good + 1]))
    ctx.note("binding_selftest", {"flipped_expectation_noticed": selftest, "corrupted_trace_rejected": int(victim_ok),
                                  "dropped_event_rejected": int(victim_ok)})
    accepted = 0
    for i in range(good):
        t, lay = traces[i], lays[i]
        if prog[i] == len(t) + 1:
            accepted += 1
            if len(lay.segs) >= 2:
                ctx.nontrivial(("trace", i, len(t)))
            continue
        ev = t[max(prog[i], 2) - 1]
        post = ev.get("post", {})
        sig = rs.classify(lay, ev.get("r", 0), post, bool(lay.corrupt) and post.get("defunct", False), ("trace",))
        rep.add("recorded execution rejected by Segments.tla at event %d (read up to real offset %s of %d; codec %s, real "
                "frames %s, segments %s): post-state %s" % (
                    prog[i], ev.get("r"), lay.rlen, lay.codec, [len(f.raw) for f in lay.frames],
                    [("z" if s["z"] else "p", s["P"]) for s in lay.segs], post),
                {"kind": "positions", "config": lay.abs_config(), "bit": lay.corrupt[2] if lay.corrupt else None,
                 "real_frame_bytes": [len(f.raw) for f in lay.frames],
                 "real_offsets": [e["r"] for e in t[1:max(prog[i], 2)]]}, sig)
    ctx.sample({"direction": "code->spec", "config": traces[0][0], "reads": [{"k": e["k"], "real_offset": e["r"]} for e in traces[0][1:]][:15]})
    ctx.traces_validated += accepted
    ctx.note("traces_recorded", good)
    ctx.note("traces_accepted", accepted)
    ctx.note("connections_opened", h.opened)
    ctx.evaluations = replayed + good
    ctx.assumptions += [
        "the read handler is atomic with respect to other loop-thread callbacks (one reactor thread)",
        "harness/wire.py encodes segments and CRCs as the v5 specification says",
        "a zlib-based compressor/decompressor pair behind cassandra.segment.SegmentCodec stands in for lz4 (not installed); "
        "the segment code treats both as opaque callables",
        "after a detected corruption only 'connection failed' and 'nothing altered handed over' are required (DESIGN 13)",
        "real offsets are sampled per model offset class (first / last / middle / random), not enumerated",
    ]


def replay(ctx, obj):
    from harness.replay import segments as rs
    if obj.get("kind") == "handshake":
        rs.open_connection(5)
        print("handshake completed")
        return
    if obj.get("kind") != "positions":
        for s in obj.get("trace", []):
            print(s)
        return
    cfg = obj["config"]
    lay = rs.layout_from_state(cfg, bit=obj.get("bit"))
    if obj.get("real_frame_bytes") and obj["real_frame_bytes"] != [len(f.raw) for f in lay.frames]:
        print("note: recorded run used real frames of %s bytes; replaying the model configuration's standard sizes %s"
              % (obj["real_frame_bytes"], [len(f.raw) for f in lay.frames]))
    print("codec:", lay.codec, "real frames:", [len(f.raw) for f in lay.frames],
          "segments:", [("z" if s["z"] else "p", s["P"], len(s["raw"])) for s in lay.segs], "flipped:", lay.corrupt)
    h = rs.SegHarness()
    h.start(lay)
    for r in obj["real_offsets"]:
        r = min(r, lay.rlen)
        h.read_to(r)
        p = h.project()
        print("read up to %d ->" % r, {k: p[k] for k in ("nsent", "segbuf", "nseg", "buflen", "order", "altered", "defunct", "err")})
    if obj.get("divergence"):
        print("expected (spec):", {k: v["spec"] for k, v in obj["divergence"]["diff"].items()})
