"""XCPAGE - extension beyond the listed properties: DSE continuous paging from the session side
(spec/ContinuousPaging.tla): ContinuousPagingSession page queue / condition / back-pressure window / cancel /
error delivery / stream release, consumed through ResultSet iteration.

Not registered in MANIFEST.json (the property list is fixed); run with `./check XCPAGE [--tier thorough]`.
Findings on the pinned tree are reported through ctx.violation with stable signatures (see checks/_cpaging.py:
SIG_LATE, SIG_BUSY) and reproduced standalone by findings/XCPAGE_*.py."""
from checks import _cpaging

META = {
    "property_id": "XCPAGE",
    "engine": "ContinuousPaging",
    "technique": "TLA+ spec of the continuous-paging session (node window, loop-thread delivery, consumer generator steps, "
                 "cancel, connection death) checked exhaustively by TLC incl. liveness under fairness; every edge of the state "
                 "graphs replayed into the real ContinuousPagingSession/Connection/ResultSet (DetSched); recorded random runs "
                 "validated by TLC",
    "level": "model_checking",
    "level_text": _cpaging.LEVEL_TEXT,
    "level_note": "Extension, not a listed property. Trusted: TLC; the SimConnection/FakeNode doubles; the node model kept in "
                  "harness/replay/cpaging.py (FIFO socket, window accounting, one terminal frame after a cancel); the "
                  "projection; small scope (<=4 pages, max_queue_size <=4, one session per connection).",
    "design_ref": "17 (extensions)",
    "extension": True,
}


def run(ctx):
    _cpaging.run_cpaging(ctx)


def replay(ctx, obj):
    _cpaging.replay_cpaging(ctx, obj)
