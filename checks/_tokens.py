"""Shared code of C08: TLC runs over spec/Tokens.tla, vacuity census, judgement of the real token code."""
import json
import os
import re
import subprocess
import sys
import time

from harness import tlaval
from harness import tlc
from harness.replay import tokens

INVARIANTS = ["TypeOK", "NeverMinimum", "TailSigns", "RPRange", "BOPOrder"]
WITNESSES = ["Witness_AllTailNegative2Blocks", "Witness_RPMostNegative"]
ALL_FAMILIES = {"anchor", "const", "onehot", "signs", "lcg", "minmap", "rp", "rpkey", "bop"}


def tiers(ctx):
    """-> list of (label, constants).  Sized from measurements: one hash costs TLC about 6 ms (no full block) to 20 ms
    (4 blocks) of CPU on one worker; see the module text of checks/c08.py."""
    if ctx.quick:
        return [("main", {"Families": set(ALL_FAMILIES), "MaxBlocks": 2, "OneHotBlocks": False, "SignsBlocks": {0, 2},
                          "SignsMaxTail": 7, "SignPairIds": {1}, "LcgSeeds": {1, 2, 3}})]
    return [("main", {"Families": set(ALL_FAMILIES), "MaxBlocks": 4, "OneHotBlocks": True, "SignsBlocks": {0, 1, 2},
                      "SignsMaxTail": 10, "SignPairIds": {1, 2, 3}, "LcgSeeds": set(range(1, 41))}),
            ("sign-lattice", {"Families": {"signs"}, "MaxBlocks": 0, "OneHotBlocks": False, "SignsBlocks": {0},
                              "SignsMaxTail": 15, "SignPairIds": {1}, "LcgSeeds": {1}})]


_HDR = re.compile(r'^State (\d+):\s*$', re.M)


def enumerate_done(label, consts, ctx):
    """one exhaustive TLC run -> (TLCResult, computed states, number of initial states)"""
    cfg = tlc.write_cfg(os.path.join(ctx.scratch, "Tokens_%s.cfg" % label), constants=consts, invariants=INVARIANTS,
                        deadlock=False)
    dump = os.path.join(ctx.scratch, "tokens_%s" % label)
    res = tlc.check_model("Tokens", cfg, ctx.scratch, dump=dump, timeout=900 if ctx.quick else 3000)
    path = dump if os.path.exists(dump) else dump + ".dump"
    done, cases = [], 0
    if os.path.exists(path):
        with open(path) as f:
            parts = _HDR.split(f.read())
        os.unlink(path)
        for i in range(2, len(parts), 2):
            body = parts[i]
            if 'stage = "case"' in body:
                cases += 1
            elif body.strip():
                done.append(tlaval.to_py(tlaval.parse_state(body.strip())))
    return res, done, cases


def witnesses(consts, ctx):
    """each Witness_* must be VIOLATED on the initial states (NEXT Halt: nothing is computed, the case set is what counts;
    enumerate_done's caller requires one computed state per initial state)"""
    for w in WITNESSES:
        cfg = tlc.write_cfg(os.path.join(ctx.scratch, w + ".cfg"), constants=consts, invariants=[w], next="Halt", deadlock=False)
        res = tlc.check_model("Tokens", cfg, ctx.scratch, timeout=600, workers=1)
        if res.invariant != w:
            raise tlc.MachineryError("vacuity witness %s was not reached" % w)
    return len(WITNESSES)


def census(states, max_blocks):
    """what the enumerated m3 cases cover; raises MachineryError when something that matters is missing"""
    tails = {}
    negpos = {}
    neg_block = two_blocks = flips = 0
    fam = {}
    for st in states:
        fam[st["fam"]] = fam.get(st["fam"], 0) + 1
        if st["fam"] != "m3":
            continue
        f = tokens.features(st)
        tails.setdefault(f["blocks"], set()).add(f["tail"])
        negpos.setdefault(f["blocks"], set()).update(f["neg_tail"])
        neg_block += f["neg_block"]
        two_blocks += f["blocks"] >= 2
        if f["neg_tail"] and any(j not in f["neg_tail"] for j in range(f["neg_tail"][0] + 1, f["tail"])):
            flips += 1
    out = {"cases_per_family": fam, "m3_cases_with_2_or_more_blocks": two_blocks, "m3_cases_with_sign_bit_inside_a_block": neg_block,
           "m3_cases_with_a_non_negative_byte_above_a_negative_tail_byte": flips,
           "tail_sizes_per_block_count": {str(k): len(v) for k, v in sorted(tails.items())},
           "negative_tail_positions_per_block_count": {str(k): len(v) for k, v in sorted(negpos.items())}}
    return out, tails, negpos


def require_coverage(states, max_blocks):
    out, tails, negpos = census(states, max_blocks)
    for nb in range(max_blocks + 1):
        if tails.get(nb, set()) != set(range(16)):
            raise tlc.MachineryError("vacuity: with %d blocks only the tail sizes %s are enumerated" % (nb, sorted(tails.get(nb, ()))))
        if negpos.get(nb, set()) != set(range(15)):
            raise tlc.MachineryError("vacuity: with %d blocks a negative byte is enumerated only at tail positions %s"
                                     % (nb, sorted(negpos.get(nb, ()))))
    if not out["m3_cases_with_2_or_more_blocks"] or not out["m3_cases_with_sign_bit_inside_a_block"] or \
            not out["m3_cases_with_a_non_negative_byte_above_a_negative_tail_byte"]:
        raise tlc.MachineryError("vacuity: %s" % out)
    rp = [bytes(st["key"]) for st in states if st["fam"] == "rp"]
    if not (any(d[0] >= 128 for d in rp) and any(d[0] < 128 for d in rp) and b"\x80" + b"\0" * 15 in rp):
        raise tlc.MachineryError("vacuity: RandomPartitioner digests lack sign set / clear / most negative")
    mm = [st for st in states if st["fam"] == "minmap" and tokens.word(st["key"]) == -2 ** 63]
    if not mm or tokens.signed(mm[0]["res"]["token"]) != 2 ** 63 - 1:
        raise tlc.MachineryError("vacuity: the MIN_VALUE -> MAX_VALUE case is missing")
    if not any(st["fam"] == "bop" and st["res"]["cmp"] == "lt" and bytes(st["key"])[:1] == b"\x7f" and bytes(st["aux"])[:1] == b"\x80"
               for st in states):
        raise tlc.MachineryError("vacuity: no ByteOrdered pair 0x7f.. < 0x80..")
    return out


# ------------------------------------------------------------------ the compiled build
def compiled_build(ctx):
    """-> (build_dir, info) or (None, reason)"""
    try:
        from checks import c07
        return c07.build_compiled(ctx)
    except tlc.MachineryError as ex:
        return None, "build unavailable: %s" % str(ex)[:300]
    except Exception as ex:                                  # no compiler, no Cython, read-only cache ...
        return None, "build unavailable: %s: %s" % (type(ex).__name__, str(ex)[:300])


def run_compiled(ctx, build_dir, states):
    sp = os.path.join(ctx.scratch, "c08_states_%d.json" % int(time.time() * 1000 % 10**9))
    op = sp.replace("c08_states_", "c08_out_")
    with open(sp, "w") as f:
        json.dump(states, f)
    code = "import sys; sys.path.insert(0, %r); from harness.replay import tokens; tokens.worker_main(sys.argv[1:])" % tlc.VERIF
    env = dict(os.environ, PYTHONHASHSEED="0", PYTHONDONTWRITEBYTECODE="1")
    env.pop("CASS_DRIVER_NO_EXTENSIONS", None)
    try:
        p = subprocess.run([sys.executable, "-c", code, build_dir, sp, op], cwd=ctx.scratch, env=env,
                           stdout=subprocess.PIPE, stderr=subprocess.STDOUT, timeout=3000, text=True, errors="replace")
    except subprocess.TimeoutExpired:
        raise tlc.MachineryError("the compiled-build subprocess timed out")
    if p.returncode != 0 or not os.path.exists(op):
        raise tlc.MachineryError("the compiled-build subprocess failed (rc=%s):\n%s" % (p.returncode, p.stdout[-3000:]))
    with open(op) as f:
        out = json.load(f)
    os.unlink(sp)
    os.unlink(op)
    return out


# ------------------------------------------------------------------ judgement
def signature(st, dev):
    """stable class of a failure: implementation, function, structural class of the case"""
    what = re.sub(r"\(.*\)$", "", dev["what"])
    return "%s:%s:%s" % (dev["impl"], what, tokens.failure_class(st))


def report(ctx, states, devs):
    groups = {}
    # a wrong hash function shows again in Murmur3Token.hash_fn / from_key of the same case: report the root only
    root = {(d["i"], d["impl"], d["got"]) for d in devs if not d["what"].startswith(("Murmur3Token", "MD5Token", "BytesToken"))}
    devs = [d for d in devs if not (d["what"].startswith("Murmur3Token") and (d["i"], d["impl"], d["got"]) in root)]
    for d in devs:
        groups.setdefault(signature(states[d["i"]], d), []).append(d)
    for sig in sorted(groups):
        members = groups[sig]
        d = min(members, key=lambda m: (len(states[m["i"]]["key"]), m["i"]))
        st = states[d["i"]]
        ctx.violation("%s (%s build) differs from the specification on %d enumerated cases of class %s; smallest: %s -> "
                      "specification %s, code %s"
                      % (d["what"], d["impl"], len({m["i"] for m in members}), tokens.failure_class(st),
                         tokens.describe(st), d["expected"], d["got"]),
                      replay={"state": st, "impl": d["impl"], "what": d["what"], "expected": d["expected"], "got": d["got"],
                              "cases": len({m["i"] for m in members})},
                      signature=sig)
    return len(groups)


def selftest(impl, states):
    """corrupted expectations must be noticed (judged as 'the verdict changes', so that it also works on a broken driver -
    even one that behaves exactly like the corruption)"""
    def devset(st):
        return {(d["what"], d["got"], str(d["expected"])) for d in tokens.evaluate(impl, st)[1]}
    n = 0
    m3 = next(s for s in states if s["fam"] == "m3" and tokens.features(s)["neg_tail"] and s["res"]["legal"])
    bad = json.loads(json.dumps(m3))
    bad["res"]["h"]["digits"][-1] = (bad["res"]["h"]["digits"][-1] + 1) % 10             # last digit of the hash
    bad2 = json.loads(json.dumps(m3))
    bad2["res"]["token"]["neg"] = not bad2["res"]["token"]["neg"]                       # sign of the token
    rp = next(s for s in states if s["fam"] == "rp" and s["key"][0] >= 128)
    bad3 = json.loads(json.dumps(rp))
    bad3["res"]["token"]["neg"] = True                                                  # "the digest's own sign"
    mm = next(s for s in states if s["fam"] == "minmap" and tokens.word(s["key"]) == -2 ** 63)
    bad4 = json.loads(json.dumps(mm))
    bad4["res"]["token"] = bad4["res"]["h"]                                             # "no mapping"
    bo = next(s for s in states if s["fam"] == "bop" and s["res"]["cmp"] == "lt")
    bad5 = json.loads(json.dumps(bo))
    bad5["res"]["cmp"] = "gt"
    for good, corrupted in ((m3, bad), (m3, bad2), (rp, bad3), (mm, bad4), (bo, bad5)):
        if devset(corrupted) == devset(good):
            raise tlc.MachineryError("binding self-test failed: corrupted expectation not detected on %s" % tokens.describe(good))
        n += 1
    return n
