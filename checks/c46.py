"""C46 - per-statement options override profile and session defaults (spec/Options.tla).

Spec : layered lookup (call > statement > prepared statement > profile / session > documented default) for the
       eight options; every configuration of set/unset layers x statement kind x configuration mode is a state.
TLC  : enumerates all configurations, checks the precedence formulas on the spec.
Bind : each state is built on a real (simulated, socket-free) Cluster / Session / ExecutionProfile / Statement,
       Session._create_response_future is called, and the ResponseFuture's attributes AND the fields of the
       encoded request (decoded by the independent codec harness/wire.py) must carry the winning layer's value.
"""
import os

from harness import tlc, wire

META = {
    "property_id": "C46",
    "engine": "Options",
    "technique": "TLA+ layered-lookup spec; TLC enumerates every set/unset configuration; each is built on a real Session and the ResponseFuture attributes and the encoded request are compared with the spec's winner",
    "level": "model_checking",
    "level_text": "Exhaustive over the lattice of set/unset layers (call, statement, prepared statement, profile or legacy "
                  "session/cluster attribute, default) for consistency, serial consistency, retry policy, fetch size, timeout, "
                  "row factory, load balancer, speculative policy x {simple, bound, batch} x {legacy, default profile, named "
                  "profile}; every state evaluated on real objects incl. the bytes of the encoded QUERY/EXECUTE/BATCH.",
    "level_note": "Trusted: TLC; the value assignment of the harness (distinct values per layer, or winner-vs-rest where a "
                  "type has only two values); quick tier gives cl/serial/retry/fetch the same layer set (all subsets still occur per option) and ties the "
                  "three profile-only options; protocol v4 encoding only.",
    "design_ref": "5.4 C46",
}

INV = ["StatementWins", "CallWins", "PreparedNext", "LevelNext", "DefaultLast", "WinnerIsSet"]
PROPS = ["Stateless"]


class Env:
    """Caches simulated clusters per (mode, level-set) configuration."""

    def __init__(self):
        from harness.sim import simcluster as sc
        self.sc = sc
        self.cache = {}
        import cassandra
        from cassandra import policies, query, cluster
        self.cas, self.pol, self.q, self.cl = cassandra, policies, query, cluster
        CL = cassandra.ConsistencyLevel
        self.CL = CL

        class TaggedRetry(policies.RetryPolicy):
            def __init__(self, tag):
                self.tag = tag

            def __repr__(self):
                return "Retry<%s>" % self.tag
        self.TaggedRetry = TaggedRetry

    def value(self, opt, layer, winner):
        CL = self.CL
        if opt == "cl":
            return {"stmt": CL.TWO, "prepared": CL.THREE, "level": CL.QUORUM, "other": CL.ALL, "default": CL.LOCAL_ONE}[layer]
        if opt == "serial":
            if layer == "default":
                return None
            return CL.SERIAL if layer == winner else CL.LOCAL_SERIAL
        if opt == "fetch":
            return {"stmt": 11, "prepared": 22, "level": 33, "default": 5000}[layer]
        if opt == "timeout":
            return {"call": 7.0, "level": 3.5, "other": 99.0, "default": 10.0}[layer]
        raise KeyError(opt)

    def cluster_for(self, mode, level, level_none=False):
        """level: frozenset of options set at profile / session level.  level_none: the timeout set at that level is
        an explicit None ("never time out on the client") instead of a number - a value like any other, which must
        not be mistaken for "not set"."""
        level_none = bool(level_none and "timeout" in level)
        key = (mode, level, level_none)
        if key in self.cache:
            return self.cache[key]
        sc, pol, q = self.sc, self.pol, self.q
        from cassandra.cluster import ExecutionProfile, EXEC_PROFILE_DEFAULT
        w = sc.SimWorld()
        w.add_node(sc.FakeNode("10.0.0.1"))
        sc.install(w)
        sc.SimCluster.sim_inline = True
        objs = {"retry_level": self.TaggedRetry("level"), "retry_other": self.TaggedRetry("other"),
                "lbp_level": pol.RoundRobinPolicy(), "lbp_other": pol.RoundRobinPolicy(),
                "spec_level": pol.ConstantSpeculativeExecutionPolicy(0.125, 2),
                "spec_other": pol.ConstantSpeculativeExecutionPolicy(0.5, 3)}
        base = dict(contact_points=["10.0.0.1"], protocol_version=4, connection_class=sc.SimConnection,
                    schema_metadata_enabled=False, idle_heartbeat_interval=0, monitor_reporting_enabled=False,
                    connect_timeout=5, control_connection_timeout=2.0)

        def profile(kind):
            kw = {}
            if kind == "other":
                kw = dict(load_balancing_policy=objs["lbp_other"], retry_policy=objs["retry_other"],
                          consistency_level=self.CL.ALL, serial_consistency_level=self.CL.LOCAL_SERIAL, request_timeout=99.0,
                          row_factory=q.dict_factory, speculative_execution_policy=objs["spec_other"])
            else:
                if "lbp" in level:
                    kw["load_balancing_policy"] = objs["lbp_level"]
                if "retry" in level:
                    kw["retry_policy"] = objs["retry_level"]
                if "cl" in level:
                    kw["consistency_level"] = self.CL.QUORUM
                if "serial" in level:
                    kw["serial_consistency_level"] = "SERIAL_PLACEHOLDER"
                if "timeout" in level:
                    kw["request_timeout"] = None if level_none else 3.5
                if "rowf" in level:
                    kw["row_factory"] = q.tuple_factory
                if "spec" in level:
                    kw["speculative_execution_policy"] = objs["spec_level"]
            return kw
        if mode == "legacy":
            kw = dict(base)
            if "lbp" in level:
                kw["load_balancing_policy"] = objs["lbp_level"]
            if "retry" in level:
                kw["default_retry_policy"] = objs["retry_level"]
            c = sc.SimCluster(**kw)
        else:
            lv = profile("level")
            ser = lv.pop("serial_consistency_level", None)
            p_level = ExecutionProfile(**lv)
            p_other = ExecutionProfile(**profile("other"))
            profiles = {EXEC_PROFILE_DEFAULT: p_level, "named": p_other} if mode == "profile_default" else \
                       {EXEC_PROFILE_DEFAULT: p_other, "named": p_level}
            c = sc.SimCluster(execution_profiles=profiles, **base)
            objs["p_level"] = p_level
            objs["serial_in_profile"] = ser is not None
        sc.SimCluster.current = c
        s = c.connect()
        if mode == "legacy":
            if "timeout" in level:
                s.default_timeout = None if level_none else 3.5
            if "cl" in level:
                s.default_consistency_level = self.CL.QUORUM
            if "rowf" in level:
                s.row_factory = q.tuple_factory
        if "fetch" in level:
            s.default_fetch_size = 33
        self.cache[key] = (c, s, objs)
        return self.cache[key]

    def close(self):
        for c, s, _ in self.cache.values():
            try:
                c.shutdown()
            except Exception:
                pass


def evaluate(env, st, again=False):
    """Build the configuration of one spec state on real objects. Returns (expected, observed) dicts.
    again=True: the statement object is executed a first time as configured and then a SECOND time under the
    other profile (profile modes) / after the session defaults changed (legacy mode); the second request is
    the one observed, and its "level" layer carries the other values."""
    q, CL = env.q, env.CL
    kind, mode = st["kind"], st["mode"]
    sets = {o: frozenset(st["set"][o]) for o in st["set"]}
    winner = dict(st["winner"])
    level = frozenset(o for o in sets if "level" in sets[o])
    level_none = bool(st["callNone"]) and "timeout" in level and "call" not in sets["timeout"]
    c, s, objs = env.cluster_for(mode, level, level_none)
    # serial level value depends on the winner: set it on the profile / session now
    ser_level = env.value("serial", "level", winner["serial"]) if "serial" in level else None
    if mode == "legacy":
        s.default_serial_consistency_level = ser_level
    else:
        objs["p_level"].serial_consistency_level = ser_level
    retry = {"stmt": env.TaggedRetry("stmt"), "prepared": env.TaggedRetry("prepared")}

    def sv(o, layer):
        if layer not in sets[o]:
            return None
        if o == "retry":
            return retry[layer]
        return env.value(o, layer, winner[o])
    stmt_kw = dict(retry_policy=sv("retry", "stmt"), consistency_level=sv("cl", "stmt"),
                   serial_consistency_level=sv("serial", "stmt"))
    if kind == "simple":
        f = sv("fetch", "stmt")
        query = q.SimpleStatement("SELECT x", is_idempotent=True, fetch_size=q.FETCH_SIZE_UNSET if f is None else f, **stmt_kw)
    elif kind == "bound":
        prep = q.PreparedStatement(column_metadata=[], query_id=b"\x01\x02", routing_key_indexes=[], query="SELECT x",
                                   keyspace=None, protocol_version=4, result_metadata=[], result_metadata_id=None)
        prep.is_idempotent = True
        for o, attr in (("cl", "consistency_level"), ("serial", "serial_consistency_level"), ("retry", "retry_policy"),
                        ("fetch", "fetch_size")):
            v = sv(o, "prepared")
            if v is not None:
                setattr(prep, attr, v)
        f = sv("fetch", "stmt")
        query = q.BoundStatement(prep, fetch_size=q.FETCH_SIZE_UNSET if f is None else f, **stmt_kw)
    else:
        query = q.BatchStatement(**stmt_kw)
        query.add(q.SimpleStatement("INSERT x"))
        query.is_idempotent = True
    timeout = env.cl._NOT_SET
    if "call" in sets["timeout"]:
        timeout = None if st["callNone"] else 7.0      # (callNone names the highest configured layer: here the call's)
    ep = "named" if mode == "profile_named" else env.cl.EXEC_PROFILE_DEFAULT
    legacy_saved = None
    if again:
        first = s._create_response_future(query, None, False, None, timeout, execution_profile=ep)
        first._cancel_timer()
        if mode == "legacy":
            legacy_saved = (s.default_consistency_level, s.default_serial_consistency_level, s.default_timeout,
                            s.row_factory, s.default_fetch_size)
            s.default_consistency_level = CL.ALL
            s.default_serial_consistency_level = CL.LOCAL_SERIAL if winner["serial"] == "level" else ser_level
            s.default_timeout = 99.0
            s.row_factory = q.dict_factory
            s.default_fetch_size = 44
        else:
            ep = env.cl.EXEC_PROFILE_DEFAULT if ep == "named" else "named"
            if kind != "batch":
                legacy_saved = ("fetch", s.default_fetch_size)
                s.default_fetch_size = 44
    # the second execution is "a later page": it carries a paging state, which sits between the page size and the
    # serial consistency level in the encoded request - the options must still read back as resolved
    paging = b"\x07\x08\x09" if (again and kind != "batch") else None
    fut = s._create_response_future(query, None, False, None, timeout, execution_profile=ep, paging_state=paging)
    if legacy_saved is not None:
        if legacy_saved[0] == "fetch":
            s.default_fetch_size = legacy_saved[1]
        else:
            (s.default_consistency_level, s.default_serial_consistency_level, s.default_timeout,
             s.row_factory, s.default_fetch_size) = legacy_saved
    try:
        msg = fut.message
        frame = env.cl.ProtocolHandler.encode_message(msg, 1, 4, None, False)
        frames, _ = wire.parse_frames(bytes(frame))
        enc = wire.parse_request(frames[0])
        obs = {
            "timeout": fut.timeout,
            "cl": msg.consistency_level, "cl_wire": enc.get("consistency"),
            "serial": msg.serial_consistency_level, "serial_wire": enc.get("serial_consistency"),
            "retry": repr(fut._retry_policy) if isinstance(fut._retry_policy, env.TaggedRetry) else type(fut._retry_policy).__name__,
            "rowf": fut.row_factory.__name__,
            "lbp": "level" if fut._load_balancer is objs["lbp_level"] else "other" if fut._load_balancer is objs["lbp_other"] else type(fut._load_balancer).__name__,
        }
        if kind != "batch":
            obs["fetch"] = msg.fetch_size
            obs["fetch_wire"] = enc.get("page_size")
            obs["paging_wire"] = enc.get("paging_state")
        if mode != "legacy":
            plan = fut._spec_execution_plan
            obs["spec"] = getattr(plan, "delay", type(plan).__name__)
    finally:
        fut._cancel_timer()
    exp = {}
    w = winner["timeout"]
    exp["timeout"] = (None if st["callNone"] else 7.0) if w == "call" else \
        (None if (w == "level" and level_none) else env.value("timeout", w, w))
    exp["cl"] = exp["cl_wire"] = env.value("cl", winner["cl"], winner["cl"])
    exp["serial"] = exp["serial_wire"] = env.value("serial", winner["serial"], winner["serial"])
    w = winner["retry"]
    exp["retry"] = "Retry<%s>" % w if w != "default" else "RetryPolicy"
    exp["rowf"] = "tuple_factory" if winner["rowf"] == "level" else "named_tuple_factory"
    exp["lbp"] = "level" if winner["lbp"] == "level" else "TokenAwarePolicy"
    if kind != "batch":
        exp["fetch"] = exp["fetch_wire"] = env.value("fetch", winner["fetch"], winner["fetch"])
        exp["paging_wire"] = b"\x07\x08\x09" if again else None
    if mode != "legacy":
        exp["spec"] = 0.125 if winner["spec"] == "level" else "NoSpeculativeExecutionPlan"
    if again:
        # the "level" layer (and what was the documented default, since the other profile / the changed session
        # sets everything) now holds the OTHER values; statement / prepared / call layers are untouched
        def lvl(o):
            return winner[o] in ("level", "default")
        if lvl("timeout"):
            exp["timeout"] = 99.0
        if lvl("cl"):
            exp["cl"] = exp["cl_wire"] = CL.ALL
        if lvl("serial"):
            if mode == "legacy":
                v = CL.LOCAL_SERIAL if winner["serial"] == "level" else None
            else:
                v = CL.LOCAL_SERIAL
            exp["serial"] = exp["serial_wire"] = v
        if kind != "batch" and lvl("fetch"):
            exp["fetch"] = exp["fetch_wire"] = 44
        if mode == "legacy":
            exp["rowf"] = "dict_factory"
            # retry policy and load balancer are cluster attributes in legacy mode: unchanged by the second run
        else:
            if lvl("retry"):
                exp["retry"] = "Retry<other>"
            exp["rowf"] = "dict_factory"
            exp["lbp"] = "other"
            exp["spec"] = 0.5
    return exp, obs


def compare(env, st):
    exp, obs = evaluate(env, st, again=(st.get("phase") == "again"))
    diff = {k: {"spec": exp[k], "code": obs.get(k)} for k in exp if exp[k] != obs.get(k)}
    return diff


def run(ctx):
    consts = {"TieStmt": ctx.quick, "TiePrepared": False, "TieExtras": ctx.quick}
    cfg = tlc.write_cfg(os.path.join(ctx.scratch, "opt.cfg"), constants=consts, invariants=INV, properties=PROPS, deadlock=False)
    res, states = tlc.enumerate_states("Options", cfg, ctx.scratch, timeout=3000)
    ctx.add_tlc(res, "exhaustive %s" % consts)
    ctx.note("constants", consts)
    if res.violation:
        ctx.violation("TLC: %s violated on Options.tla" % res.invariant, replay={"trace": [dict(s) for _, s in res.trace()]},
                      signature="spec:%s" % res.invariant)
        return
    states = [s for s in states if s["phase"] in ("done", "again")]
    # vacuity: the interesting antecedents must occur among the enumerated states
    if not any(s["kind"] == "bound" and s["winner"]["cl"] == "prepared" and "level" in s["set"]["cl"] for s in states) or \
            not any(s["mode"] == "legacy" and s["winner"]["retry"] == "level" for s in states):
        raise tlc.MachineryError("vacuity: prepared-wins / legacy-level configurations were not enumerated")
    env = Env()
    try:
        n = 0
        for st in states:
            try:
                diff = compare(env, st)
            except Exception as ex:      # a mutated driver may raise while resolving options
                diff = {"_exception": {"spec": "no exception", "code": "%s: %s" % (type(ex).__name__, ex)}}
            n += 1
            cfgkey = (st["phase"], st["kind"], st["mode"], tuple(sorted((o, tuple(sorted(v))) for o, v in st["set"].items())), st["callNone"])
            if any(st["winner"][o] != "default" for o in st["winner"]):
                ctx.nontrivial(cfgkey)
            if n % 5000 == 1:
                ctx.sample({"phase": st["phase"], "kind": st["kind"], "mode": st["mode"], "set": st["set"], "callNone": st["callNone"], "winner": st["winner"]})
            if diff:
                opts = sorted(k.replace("_wire", "") for k in diff)
                ctx.violation("%s statement, %s: %s" % (st["kind"], st["mode"], diff),
                              replay={"state": st, "diff": diff}, signature="%s%s:%s:%s" % ("second-execution:" if st["phase"] == "again" else "", st["kind"], st["mode"], ",".join(sorted(set(opts)))))
        ctx.evaluations = n
        ctx.traces_validated = n
        ctx.note("exhaustive", True)
        # binding self-test: a wrong expectation must be noticed
        probe = dict(next(s for s in states if s["winner"]["cl"] == "stmt"))
        bad = dict(probe)
        w = dict(probe["winner"])
        w["cl"] = "default"
        bad["winner"] = w
        if not compare(env, bad):
            raise tlc.MachineryError("binding self-test failed")
        ctx.note("binding_selftest", {"corrupted_rejected": 1})
        ctx.note("clusters_built", len(env.cache))
    finally:
        env.close()


def replay(ctx, obj):
    from harness import tlaval
    env = Env()
    st = obj["state"]
    st["set"] = {o: frozenset(v) for o, v in st["set"].items()}
    print(evaluate(env, st))
    env.close()
