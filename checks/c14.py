"""C14 - every request completes exactly once (spec/Request.tla)."""
from checks import _request, _callbacks, _driver

META = {
    "property_id": "C14",
    "engine": "Request",
    "technique": 'TLA+ spec of one ResponseFuture (plan, retries, speculative executions, timeout, pages) checked exhaustively by TLC; every edge of the state graphs replayed into a real Session/ResponseFuture over simulated nodes; recorded random runs validated against the spec',
    "level": "model_checking",
    "level_text": 'TLC visits every interleaving of answers (rows / void / retryable error x policy decision / fatal error / connection error), speculative-timer firings, the client timeout, queued retry tasks and late answers for 0-2 speculative executions and <=1 granted retry (thorough: 2 retries, 2 pages, a failing pool; millions of states) and checks on the spec: callback+errback at most once per page epoch and never both, result() equal to the delivered outcome, outcome delivered as soon as no attempt and no retry task is left or the timeout fired. Every edge of the quick graphs is replayed on the real objects (callback/errback counters per epoch, outcome handed to them, result(), _final_result/_final_exception) with the projected state compared after each step; random executions are recorded and validated by TLC (Trace_Request) with all invariants on.',
    "level_note": "Trusted: TLC; the SimConnection/FakeNode/SimExecutor doubles and the independent codec; atomicity of "
                  "loop-thread callbacks, of execute_async/start_fetching_next_page and of each _retry_task; small scope "
                  "(one future, <=4 hosts, <=2 speculative executions, <=2-3 retries, <=2 pages; next page only when no "
                  "attempt of the previous page is outstanding). Where the pinned code deviates the spec keeps the intended "
                  "behaviour and the replay / trace validation reports the deviation.",
    "design_ref": "5.3 C14",
}
META["level_text"] += _driver.SYSTEM_LEVEL_TEXT


def run(ctx):
    _request.run(ctx, "C14")
    _callbacks.run(ctx)          # the add_callback || _set_final_* race at lock / line granularity (spec/Callbacks.tla)
    _driver.system_tier(ctx, "C14")     # thorough: whole-driver runs against spec/Driver.tla, rejections owned by C14


def replay(ctx, obj):
    if _driver.is_system_replay(obj):
        return _driver.replay_system(ctx, obj)
    if obj.get("callbacks"):
        _callbacks.replay(ctx, obj)
    else:
        _request.replay(ctx, "C14", obj)
