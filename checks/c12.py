"""C12 - connection pools keep exact accounting and close what they open (spec/Pool.tla)."""
from checks import _pool, _poolv12

META = {
    "property_id": "C12",
    "engine": "Pool",
    "technique": "TLA+ specs of both pools (PoolV12.tla: the v1/v2 HostConnectionPool with its copy-on-write connection list, "
                 "creation / replacement tasks, trashing and shutdown; Pool.tla:) the v3+ HostConnection pool (borrow / send / respond / timeout-orphaning / connection failure / "
                 "_replace task in its four phases / shutdown in its three phases) checked exhaustively by TLC; every edge of "
                 "the state graph replayed into the real HostConnection/Connection/ResponseFuture under DetSched, plus recorded "
                 "random runs validated against the spec (Trace_Pool)",
    "level": "model_checking",
    "level_text": "TLC visits every interleaving of client borrows (pick | take | send), responses in any order (late ones "
                  "included), client timeouts, socket errors with either conviction verdict, the _replace executor task split "
                  "at check | open (may fail) | publish | retire and shutdown() split at mark | close current | close trash, "
                  "for up to 4 requests, 3 connections, capacity 3, and checks capacity, non-negative and exact in-flight "
                  "accounting, refusal of borrows after shutdown and that at quiescence after shutdown every connection ever "
                  "opened is closed. Every edge of the exhaustive graph of a smaller instance is replayed on the real objects "
                  "with the projected state compared after each step; random executions are recorded and validated by TLC "
                  "with all invariants on.",
    "level_note": "Trusted: TLC; the SimConnection/FakeNode/SimExecutor doubles; interleaving at critical-section grain (threads "
                  "are suspended only outside locks); loop-thread callbacks atomic w.r.t. each other; stream ids abstracted to "
                  "requests; small scope. Four steps of the spec are the behaviour C12 needs (INTENDED) where the pinned code "
                  "leaks a connection; those show as replay divergences with stable signatures.",
    "design_ref": "5.2 C12",
}


def run(ctx):
    _pool.run(ctx, "C12")          # v3+ pool (HostConnection), spec/Pool.tla
    _poolv12.run(ctx)              # v1/v2 pool (HostConnectionPool), spec/PoolV12.tla


def replay(ctx, obj):
    if obj.get("kind") == "walk-v12":
        _poolv12.replay(ctx, obj)
    else:
        _pool.replay(ctx, "C12", obj)
