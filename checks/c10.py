"""C10 - a failed connection fails every pending request exactly once (spec/Connection.tla)."""
from checks import _conn, _driver

META = {
    "property_id": "C10",
    "engine": "Connection",
    "technique": "TLA+ spec with the failure actions always enabled (fault at every state), TLC exhaustive; all graph edges replayed into the real connection; recorded runs validated against the spec",
    "level": "model_checking",
    "level_text": "SocketError and Close are enabled in every state of the C09 model, so TLC injects the failure at every "
                  "event point of every bounded history and checks: each handler errored at most once, every request "
                  "outstanding at the failure is errored, nothing is delivered afterwards, a later send is refused. All "
                  "graph edges are replayed on the real objects (errback counts, exception classes, in-flight) and random "
                  "executions are validated by TLC.",
    "level_note": "Trusted: TLC; SimConnection.close mirrors the reactors' close contract; error callbacks counted are "
                  "ResponseFuture errbacks receiving ConnectionShutdown; continuous-paging sessions and the separate-thread "
                  "erroring path (>=100 requests) are not exercised at these constants.",
    "design_ref": "5.2 C10",
}
META["level_text"] += (" The clause about continuous-paging sessions is additionally decided from the session's side: the "
                       "model spec/ContinuousPaging.tla (node, loop thread, consuming application thread, cancel, socket "
                       "error / close) is checked by TLC and every edge of its state graphs is replayed on the real "
                       "ContinuousPagingSession (both tiers; the same machinery as ./check XCPAGE, restricted to what "
                       "concerns a failing or closing connection).")
META["level_text"] += _driver.SYSTEM_LEVEL_TEXT


class _SessionSide:
    """ctx as seen by the continuous-paging model (spec/ContinuousPaging.tla, ./check XCPAGE) when it runs for C10:
    the property's clause about paging sessions ("failed exactly once, nothing delivered afterwards") is decided
    there from the session's side.  Findings of that model that are not about a failing / closing connection (the
    recorded XCPAGE finding about ConnectionBusy) are not C10's business and are left to ./check XCPAGE."""

    NOT_C10 = ("Busy:",)

    def __init__(self, ctx):
        self.__dict__["_ctx"] = ctx

    def __getattr__(self, name):
        return getattr(self._ctx, name)

    def __setattr__(self, name, value):
        setattr(self._ctx, name, value)

    def violation(self, what, replay=None, signature=None):
        if signature and signature.startswith(self.NOT_C10):
            self._ctx.note("session_side_findings_left_to_XCPAGE", signature)
            return
        if isinstance(replay, dict):
            replay = dict(replay, cpaging=True)
        return self._ctx.violation(what, replay=replay, signature=signature)

    def note(self, key, value):
        return self._ctx.note("cp_" + key, value)


def run(ctx):
    _conn.run(ctx, "C10")
    from checks import _cpaging
    _cpaging.run_cpaging(_SessionSide(ctx))     # the paging sessions' side of a failing / closing connection
    _driver.system_tier(ctx, "C10")     # thorough: whole-driver runs against spec/Driver.tla, rejections owned by C10


def replay(ctx, obj):
    if isinstance(obj, dict) and obj.get("cpaging"):
        from checks import _cpaging
        return _cpaging.replay_cpaging(ctx, obj)
    if _driver.is_system_replay(obj):
        return _driver.replay_system(ctx, obj)
    _conn.replay(ctx, "C10", obj)
