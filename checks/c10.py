"""C10 - a failed connection fails every pending request exactly once (spec/Connection.tla)."""
from checks import _conn, _driver

META = {
    "property_id": "C10",
    "engine": "Connection",
    "technique": "TLA+ spec with the failure actions always enabled (fault at every state), TLC exhaustive; all graph edges replayed into the real connection; recorded runs validated against the spec",
    "level": "model_checking",
    "level_text": "SocketError and Close are enabled in every state of the C09 model, so TLC injects the failure at every "
                  "event point of every bounded history and checks: each handler errored at most once, every request "
                  "outstanding at the failure is errored, nothing is delivered afterwards, a later send is refused. All "
                  "graph edges are replayed on the real objects (errback counts, exception classes, in-flight) and random "
                  "executions are validated by TLC.",
    "level_note": "Trusted: TLC; SimConnection.close mirrors the reactors' close contract; error callbacks counted are "
                  "ResponseFuture errbacks receiving ConnectionShutdown; continuous-paging sessions and the separate-thread "
                  "erroring path (>=100 requests) are not exercised at these constants.",
    "design_ref": "5.2 C10",
}
META["level_text"] += _driver.SYSTEM_LEVEL_TEXT


def run(ctx):
    _conn.run(ctx, "C10")
    _driver.system_tier(ctx, "C10")     # thorough: whole-driver runs against spec/Driver.tla, rejections owned by C10


def replay(ctx, obj):
    if _driver.is_system_replay(obj):
        return _driver.replay_system(ctx, obj)
    _conn.replay(ctx, "C10", obj)
