"""C42 - node-list refreshes make cluster metadata mirror the system tables.

Spec: spec/ControlRefresh.tla - Refresh(snapshot, force) processes system.local / system.peers rows like
      _refresh_node_list_and_token_map does (found set, add or update, removal pass) and rebuilds the token map
      whenever membership or a token set changed; the properties (Mirror, AddedOnce, RemovedOnce, LocationReached,
      RebuiltWhenChanged, RingFresh) are stated declaratively on the snapshot.
TLC : base case from Init (every snapshot as the first refresh made by Cluster.connect) and inductive step from
      InitAny (any metadata state with a fresh token map) x every snapshot: every (state before, snapshot) pair
      of the enumerated host set is checked once, which covers snapshot sequences of any length; plus scripted
      random sequences over 4 (quick) / 5 (thorough) peers whose expected states TLC computes
      (Script_ControlRefresh.tla, invariants on).
      Concurrent refreshes (spec/ControlRefreshConc.tla): two threads discovering the same new peers; one action =
      one Metadata.add_or_return_host critical section; invariants AnnouncedAtMostOnce, AnnouncedIffKnown; on the real
      cluster two logical threads (DetSched, Metadata._hosts_lock as the yield point) run the refresh under every
      "pause one thread at its k-th lock acquisition, run the other to completion" schedule and seeded random ones:
      hosts and on_add counts must be a terminal state of the specification.
Bind: every such pair is executed on the real ControlConnection of a simulated cluster (chains of refreshes, each
      edge starting where the previous one ended; first edges through Cluster.connect): FakeNode's system tables
      are rewritten from the snapshot, then refresh_node_list_and_token_map(); compared after each step: the set
      of hosts, dc/rack and host_id of each, on_add / on_remove counts of a registered HostStateListener,
      down(old location)/up(new location) seen by the load-balancing policy, the token ring of
      Metadata.token_map.
"""
import json
import os

from harness import tlc

META = {
    "property_id": "C42",
    "engine": "ControlRefresh",
    "technique": "TLA+ spec of the refresh loop checked by TLC inductively (any fresh metadata state x every snapshot); "
                 "every (state, snapshot) pair replayed on the real ControlConnection/Metadata in chained refreshes, plus "
                 "scripted random sequences over more peers with TLC-computed expectations",
    "level": "model_checking",
    "level_text": "TLC checks the six C42 formulas on every (metadata state, snapshot) pair over 2 peers with valid, "
                  "invalid (tokens missing; thorough: every kind of missing column on 1 peer, mixed valid+invalid "
                  "rows, a row duplicating the control node, forced rebuilds, 3 peers), duplicated rows, 2 locations and 2 "
                  "token sets per host, as base case (first refresh at connect) and inductive step, so sequences of any "
                  "length over these hosts are covered. Every pair is then executed on the real "
                  "driver and the projected metadata, listener notifications, policy notifications and token ring must "
                  "equal the specification's post-state; seeded random 3-snapshot sequences over 4/5 peers are evaluated "
                  "by TLC (invariants on) and replayed the same way.",
    "level_note": "Trusted: TLC; FakeNode's system tables (independent codec); all peers reachable (pools open, so on_add "
                  "is delivered); duplicate rows of one endpoint carry the same data (the statement does not say which row "
                  "wins); exhaustive part bounded to 2-3 peers, 2 locations, 2 token-set variants.",
    "design_ref": "5.4 C42",
}

INVARIANTS = ["TypeOK", "Mirror", "AddedOnce", "RemovedOnce", "LocationReached", "RebuiltWhenChanged", "RingFresh",
              "TokensDisjoint"]
WITNESSES = ["Witness_TokenOnlyChange", "Witness_Duplicate", "Witness_InvalidIgnored", "Witness_Moved",
             "Witness_AddAndRemove", "Witness_NoRebuild"]
ALL_SHAPES = ["absent", "valid", "noaddr", "nohid", "nodc", "norack", "notok", "dup", "inv_valid", "valid_inv"]
MAX_REPORT_PER_SIGNATURE = 2


def _configs(quick):
    base = {"Locs": {"a", "b"}, "TokVs": {1, 2}, "LocalTokVs": {1, 2}, "Forces": {False}, "SameAddr": set()}
    if quick:
        return [
            ("2 peers, 4 row shapes", dict(base, Peers={1, 2}, Shapes={"absent", "valid", "notok", "dup"},
                                           LocalLocs={"a"}, CtlDups={False}), "v1"),
        ]
    return [
        ("2 peers, 5 row shapes", dict(base, Peers={1, 2},
                                       Shapes={"absent", "valid", "nohid", "dup", "inv_valid"},
                                       LocalLocs={"a", "b"}, CtlDups={False}), "v1"),
        ("1 peer, all row shapes, control duplicate, forced", dict(base, Peers={1}, Shapes=set(ALL_SHAPES),
                                                                   LocalLocs={"a", "b"}, CtlDups={False, True},
                                                                   Forces={False, True}), "both"),
        ("3 peers, present/absent, one location", dict(base, Peers={1, 2, 3}, Shapes={"absent", "valid"}, Locs={"a"},
                                                       LocalLocs={"a"}, CtlDups={False}), "both"),
        ("2 peers, token ownership moves between hosts (replacement node takes over the tokens; a token changes owner)",
         dict(base, Peers={1, 2}, Shapes={"absent", "valid"}, Locs={"a"}, LocalLocs={"a"}, CtlDups={False},
              TokVs={1, 2, 4, 5}, LocalTokVs={1, 3}), "v1"),
        ("2 peers, one behind the control node's address (peers_v2 native_port)",
         dict(base, Peers={1, 2}, Shapes={"absent", "valid", "dup"}, LocalLocs={"a"}, CtlDups={False, True}, SameAddr={2}), "v2"),
    ]


class Reporter:
    def __init__(self, ctx, label_of):
        self.ctx, self.label_of = ctx, label_of
        self.by_sig = {}
        self.fatal = 0          # divergences other than a stale token map (those end a chain of refreshes)
        self.v2, self.same_addr = False, ()

    def __call__(self, st, d, sig, history):
        n = self.by_sig[sig] = self.by_sig.get(sig, 0) + 1
        if set(d) != {"ring"}:
            self.fatal += 1
        if n <= MAX_REPORT_PER_SIGNATURE:
            self.ctx.violation(
                "%s: after Refresh the real metadata differs from the specification: %s (state before: %s; snapshot: %s)"
                % (self.label_of(), d, dict(st["prev"]), dict(st["act"]["snap"])),
                replay={"peers": sorted(h for h in st["added"] if h != 0), "history": history,
                        "peers_v2": bool(self.v2), "same_addr": sorted(self.same_addr) if self.v2 else [],
                        "expected": {k: st[k] for k in ("known", "prev", "added", "removed", "moves", "ring", "rebuilt")},
                        "diff": d},
                signature=sig)

    def too_many(self):
        return self.fatal > 300


def _is_nontrivial(st):
    snap = st["act"]["snap"]
    return (any(sh not in ("absent", "valid") for sh in snap["shape"]) or any(st["removed"].values())
            or bool(st["moves"] and any(m[1] != "none" for m in st["moves"])) or
            (set(st["known"]) == set(st["prev"]) and any(st["known"][h]["tok"] != st["prev"][h]["tok"] for h in st["known"])))


def _gen_scripts(rng, n_scripts, n_peers, steps=3):
    from harness.replay.control import token_numbers
    locs, toks, ltoks = ["a", "b", "c"], [1, 2, 3, 4, 5], [1, 2, 3]
    valid = ("valid", "dup", "inv_valid", "valid_inv")

    def repair(s):
        """No token may have two owners in one snapshot: a peer claiming its predecessor's token gives it up when the
        predecessor is described with it."""
        owned = set(token_numbers(0, s["local"]["tok"]))
        for p in range(1, n_peers + 1):
            if s["shape"][p - 1] not in valid:
                continue
            i = s["info"][p - 1]
            if owned & set(token_numbers(p, i["tok"])):
                i["tok"] = 1 if not (owned & set(token_numbers(p, 1))) else 3
            owned |= set(token_numbers(p, i["tok"]))
        return s
    weights = [("valid", 50), ("absent", 14), ("noaddr", 3), ("nohid", 3), ("nodc", 3), ("norack", 5), ("notok", 3),
               ("dup", 7), ("inv_valid", 7), ("valid_inv", 7)]
    bag = [s for s, w in weights for _ in range(w)]

    def rand_snap():
        return repair({"local": {"loc": rng.choice(locs), "tok": rng.choice(ltoks)},
                       "info": [{"loc": rng.choice(locs), "tok": rng.choice(toks)} for _ in range(n_peers)],
                       "shape": [rng.choice(bag) for _ in range(n_peers)], "ctlDup": rng.random() < 0.15})

    def handover(s):
        """Ownership changes, the set of tokens does not: peer p (owning 16p) is replaced by / hands that token to p+1."""
        cand = [p for p in range(1, n_peers) if s["shape"][p - 1] in valid and s["info"][p - 1]["tok"] in (1, 2)]
        if not cand:
            return False
        p = rng.choice(cand)
        a, b = s["info"][p - 1], s["info"][p]
        if a["tok"] == 1 and s["shape"][p] not in valid:            # p dies, the new node p+1 takes over exactly its token
            s["shape"][p - 1], s["shape"][p] = "absent", "valid"
            b["tok"], b["loc"] = 4, a["loc"]
            return True
        if a["tok"] == 2 and s["shape"][p] in valid and b["tok"] == 1:   # token 16p moves from p to p+1
            a["tok"], b["tok"] = 3, 5
            return True
        return False

    def mutate(s):
        s = json.loads(json.dumps(s))
        if rng.random() < 0.30 and handover(s):
            return repair(s)
        for _ in range(rng.choice((1, 1, 2))):
            k = rng.random()
            p = rng.randrange(n_peers)
            if k < 0.40:
                tgt = s["local"] if rng.random() < 0.25 else s["info"][p]
                tgt["tok"] = rng.choice([t for t in (ltoks if tgt is s["local"] else toks) if t != tgt["tok"]])
            elif k < 0.60:
                tgt = s["local"] if rng.random() < 0.25 else s["info"][p]
                tgt["loc"] = rng.choice([x for x in locs if x != tgt["loc"]])
            elif k < 0.90:
                s["shape"][p] = rng.choice(bag)
            else:
                s["ctlDup"] = not s["ctlDup"]
        return repair(s)
    scripts = []
    for _ in range(n_scripts):
        sc = [rand_snap()]
        while len(sc) < steps:
            sc.append(mutate(sc[-1]) if rng.random() < 0.7 else rand_snap())
        scripts.append([{"snap": s, "force": False} for s in sc])
    return scripts


def run(ctx):
    from harness.replay import control as rc
    import time
    label = ["?"]
    rep = Reporter(ctx, lambda: label[0])
    ctx.note("exhaustive", True)
    timing = {}

    if not ctx.quick:
        # vacuity: every witness reachable (separate small run; in the quick tier the first configuration records them)
        wconst = {"Locs": {"a", "b"}, "TokVs": {1, 2, 4}, "LocalTokVs": {1, 3}, "Forces": {False}, "Peers": {1, 2},
                  "Shapes": {"absent", "valid", "norack", "dup"}, "LocalLocs": {"a"}, "CtlDups": {False}, "SameAddr": {2}}
        rc.witnesses_reached("ControlRefresh", ctx.scratch, WITNESSES + ["Witness_SharedAddressRemoved", "Witness_OwnerOnlyChange"], init="InitBoth",
                             next="NextOnce", constants=wconst)
        ctx.note("vacuity_witnesses_reached", len(WITNESSES) + 2)

    # ---- exhaustive configurations: TLC (base case + inductive step), then every pair replayed
    total_edges = covered_edges = 0
    for name, consts, tables in _configs(ctx.quick):
        label[0] = name
        t0 = time.time()
        first = ctx.quick and name == _configs(ctx.quick)[0][0]     # quick: this run doubles as the witness run
        cfg = tlc.write_cfg(os.path.join(ctx.scratch, "refresh.cfg"), init="InitBoth", next="NextOnce", constants=consts,
                            invariants=INVARIANTS, deadlock=False,
                            constraints=["RecordWitnesses"] if first else (), postcondition="PrintWitnesses" if first else None)
        res, states = rc.dump_states("ControlRefresh", cfg, ctx.scratch, keep=lambda b: '"Refresh"' in b,
                                     timeout=600 if ctx.quick else 3000, workers=1 if first else 16)
        ctx.add_tlc(res, "%s: base case (first refresh) + inductive step (any state x any snapshot)" % name)
        if res.violation:
            ctx.violation("TLC: %s violated in ControlRefresh.tla (%s)" % (res.invariant, name),
                          replay={"trace": [s for _, s in res.trace()]}, signature="spec:%s" % res.invariant)
            return
        if first:
            rc.witnesses_in(res, WITNESSES, "ControlRefresh")      # vacuity: every witness reachable
            ctx.note("vacuity_witnesses_reached", len(WITNESSES))
        timing["tlc:" + name] = round(time.time() - t0, 1)
        t0 = time.time()
        for v2 in {"v1": (False,), "both": (False, True), "v2": (True,)}[tables]:
            rep.v2, rep.same_addr = v2, consts["SameAddr"]
            rp = rc.RefreshReplayer(consts["Peers"], rep, v2=v2, same_addr=consts["SameAddr"])
            cov, tot = rc.cover_refresh_edges(states, rp, ctx.rng, stop=rep.too_many)
            total_edges += tot
            covered_edges += cov
            ctx.traces_validated += rp.conforming
            ctx.evaluations += rp.applied
            ctx.count("refresh_chains", rp.chains)
        for i, st in enumerate(states):
            if _is_nontrivial(st):
                ctx.nontrivial((name, rc.node_key(st["prev"]), repr(sorted(st["act"]["snap"].items()))))
            if i % 4001 == 17:
                ctx.sample({"config": name, "before": dict(st["prev"]), "snapshot": dict(st["act"]["snap"]),
                            "rows": list(st["act"]["rows"]), "after": dict(st["known"]), "ring": dict(st["ring"]),
                            "on_add": dict(st["added"]), "on_remove": dict(st["removed"]), "moves": sorted(st["moves"]),
                            "rebuilt": st["rebuilt"]})
        timing["replay:" + name] = round(time.time() - t0, 1)
    ctx.note("pairs_state_x_snapshot", total_edges)
    ctx.note("pairs_replayed", covered_edges)
    if covered_edges != total_edges and not rep.too_many():
        raise tlc.MachineryError("edge coverage incomplete: %d of %d" % (covered_edges, total_edges))

    # ---- scripted sequences over more peers: TLC computes the expected states, the harness replays
    n_peers = 4 if ctx.quick else 5
    n_scripts = 300 if ctx.quick else 4500
    label[0] = "scripted sequences over %d peers" % n_peers
    scripts = _gen_scripts(ctx.rng, n_scripts, n_peers)
    sconsts = {"Peers": set(range(1, n_peers + 1)), "Locs": {"a", "b", "c"}, "TokVs": {1, 2, 3, 4, 5}, "LocalTokVs": {1, 2, 3},
               "Shapes": set(ALL_SHAPES),
               "LocalLocs": {"a", "b", "c"}, "CtlDups": {False, True}, "Forces": {False}, "SameAddr": {n_peers}}
    t0 = time.time()
    cfg = tlc.write_cfg(os.path.join(ctx.scratch, "script.cfg"), init="ScriptInit", next="ScriptNext", constants=sconsts,
                        invariants=INVARIANTS, deadlock=False)
    sts = []
    BATCH = 5000
    for b0 in range(0, n_scripts, BATCH):
        sf = os.path.join(ctx.scratch, "scripts_%d.json" % b0)
        with open(sf, "w") as f:
            json.dump(scripts[b0:b0 + BATCH], f)
        res, part = rc.dump_states("Script_ControlRefresh", cfg, ctx.scratch, keep=lambda b: '"Refresh"' in b,
                                   env={"TRACE_FILE": sf}, workers=1, timeout=600 if ctx.quick else 3000)
        ctx.add_tlc(res, "scripted 3-snapshot sequences, %d peers, scripts %d.." % (n_peers, b0 + 1))
        if res.violation:
            ctx.violation("TLC: %s violated on a scripted sequence" % res.invariant,
                          replay={"trace": [s for _, s in res.trace()]}, signature="spec:%s" % res.invariant)
            return
        for st in part:
            st = dict(st)
            st["sid"] += b0
            sts.append(st)
    timing["tlc:scripts"] = round(time.time() - t0, 1)
    by_sid = {}
    for st in sts:
        by_sid.setdefault(st["sid"], []).append(st)
    if len(by_sid) != n_scripts or any(len(v) != 3 for v in by_sid.values()):
        raise tlc.MachineryError("TLC evaluated %d scripts (expected %d x 3 states)" % (len(by_sid), n_scripts))
    # vacuity (Witness_SharedAddressRemoved on the scripted runs): a host behind the control node's address vanishes,
    # in a script that goes through system.peers_v2
    shared_removed = sum(1 for st in sts if st["sid"] % 2 == 0 and st["removed"].get(n_peers))
    ctx.note("scripted_removals_of_a_host_sharing_the_control_address", shared_removed)
    if not shared_removed:
        raise tlc.MachineryError("no scripted sequence removes the host that shares the control node's address")
    # vacuity (Witness_OwnerOnlyChange on the scripted runs): same set of tokens before and after, another owner
    def _owner_only(st):
        before = {}
        for h, i in st["prev"].items():
            for t in rc.token_numbers(h, i["tok"]):
                before[t] = h
        after = dict(st["ring"])
        return bool(before) and set(before) == set(after) and before != after
    owner_only = sum(1 for st in sts if _owner_only(st))
    ctx.note("scripted_refreshes_changing_only_token_owners", owner_only)
    if not owner_only:
        raise tlc.MachineryError("no scripted refresh changes the owner of a token while keeping the set of tokens")
    t0 = time.time()
    ok_scripts = 0
    for sid in sorted(by_sid):
        seq = sorted(by_sid[sid], key=lambda s: s["l"])
        # even scripts through system.peers_v2 (where the last peer sits behind the control node's address, own native
        # port), odd ones through system.peers (no port column: every host has its own address)
        rep.v2, rep.same_addr = (sid % 2 == 0), sconsts["SameAddr"]
        rp = rc.RefreshReplayer(sconsts["Peers"], rep, v2=(sid % 2 == 0), same_addr=sconsts["SameAddr"])
        rp.fresh()
        good = True
        for st in seq:
            if rp.cur is None:
                good = False
                break
            good = rp.apply(st) and good
        rp.close()
        ctx.evaluations += rp.applied
        if good:
            ok_scripts += 1
            ctx.traces_validated += 1
        if any(_is_nontrivial(st) for st in seq):
            ctx.nontrivial(("script", sid))
        if sid in (1, 2):
            ctx.sample({"scripted": [dict(s["act"]["snap"]) for s in seq], "after": [dict(s["known"]) for s in seq]})
        if rep.too_many():
            break
    timing["replay:scripts"] = round(time.time() - t0, 1)
    ctx.note("scripts", n_scripts)
    ctx.note("scripts_conforming", ok_scripts)
    ctx.note("timing_s", timing)
    if rep.by_sig:
        ctx.note("divergences_by_signature", rep.by_sig)

    # ---- concurrent refreshes (spec/ControlRefreshConc.tla): two threads discover the same new peers
    t0 = time.time()
    cconsts = {"Threads": {1, 2}, "NewPeers": {1, 2}}
    ccfg = tlc.write_cfg(os.path.join(ctx.scratch, "conc.cfg"), spec="Spec", constants=cconsts,
                         invariants=["AnnouncedAtMostOnce", "AnnouncedIffKnown", "AllKnownAtTheEnd"],
                         properties=["Terminates"], deadlock=False)
    cres, cstates = rc.dump_states("ControlRefreshConc", ccfg, ctx.scratch, timeout=900)
    ctx.add_tlc(cres, "concurrent refreshes: all interleavings of the add_or_return_host critical sections")
    if cres.violation:
        ctx.violation("TLC: %s violated in ControlRefreshConc.tla" % cres.invariant,
                      replay={"trace": [s for _, s in cres.trace()]}, signature="spec:conc:%s" % cres.invariant)
        return
    def _fn(v):            # a TLA+ function with domain 1..n is parsed as a tuple
        return dict(enumerate(v, 1)) if isinstance(v, tuple) else dict(v)
    finals = [st for st in cstates if all(not v for v in _fn(st["todo"]).values())]
    outcomes = set((tuple(sorted(st["hosts"])), tuple(sorted(_fn(st["announced"]).items()))) for st in finals)
    if not finals:
        raise tlc.MachineryError("ControlRefreshConc: no terminal state in the dump")
    n_y = rc.concurrent_refresh([1, 2], ("count",))["yields"]
    if not n_y:
        raise tlc.MachineryError("a refresh never reaches the hosts lock: no yield point to interleave at")
    schedules = [("pause", first, k) for first in ("T1", "T2") for k in range(1, n_y + 1)]
    schedules += [("random", i) for i in range(20 if ctx.quick else 300)]
    conc_ok = 0
    for sc in schedules:
        rng = __import__("random").Random(ctx.seed * 1000 + sc[1]) if sc[0] == "random" else None
        pj = rc.concurrent_refresh([1, 2], sc[:1] if sc[0] == "random" else sc, rng)
        got = (tuple(sorted(pj["known"])), tuple(sorted((p, pj["added"].get(p, 0)) for p in (1, 2))))
        ctx.evaluations += 1
        ctx.nontrivial(("concurrent", sc))
        if pj["error"] is None and got in outcomes:
            conc_ok += 1
            continue
        sig = "refresh:concurrent:%s" % ("raised" if pj["error"] else
                                         "host-announced-%s" % ("twice" if any(n > 1 for _, n in got[1]) else "wrongly"))
        rep.by_sig[sig] = rep.by_sig.get(sig, 0) + 1
        if rep.by_sig[sig] <= MAX_REPORT_PER_SIGNATURE:
            ctx.violation("two concurrent node-list refreshes discovering peers 1 and 2, schedule %s: hosts %s, on_add counts %s%s; "
                          "ControlRefreshConc.tla ends with %s" % (sc, got[0], dict(got[1]),
                                                                     "" if not pj["error"] else " (%s)" % pj["error"], sorted(outcomes)),
                          replay={"concurrent": True, "schedule": list(sc), "seed": ctx.seed}, signature=sig)
    ctx.traces_validated += conc_ok
    ctx.note("concurrent_refresh_schedules", len(schedules))
    ctx.note("concurrent_refresh_yield_points_per_refresh", n_y)
    ctx.sample({"concurrent_refreshes": {"new_peers": [1, 2], "schedules": [list(x) for x in schedules[:4]],
                                         "expected_end": [list(map(list, o)) for o in sorted(outcomes)]}})
    timing["concurrent"] = round(time.time() - t0, 1)
    ctx.note("timing_s", timing)

    # ---- binding self-test: corrupted expectations must be noticed by the comparison
    probe = proj = None
    for cand in [s for s in sts if len(s["known"]) >= 3 and s["l"] == 2][:25]:
        h = rc.RefreshHarness(sconsts["Peers"])
        pj = h.refresh(cand["act"])
        h.shutdown()
        if not rc.refresh_diff(cand, pj, None):
            probe, proj = cand, pj
            break
    if probe is None:
        if rep.by_sig:
            ctx.note("binding_selftest", {"skipped": "the code under test diverges on every probe"})
            return
        raise tlc.MachineryError("binding self-test: no conforming probe among the scripted sequences")
    n = 0
    victim = sorted(x for x in probe["known"] if x != 0)[0]
    for field, corrupt in (
            ("known", lambda s: {k: v for k, v in s["known"].items() if k != victim}),
            ("ring", lambda s: dict(list(s["ring"].items())[1:])),
            ("added", lambda s: {k: (v if k != victim else 1 - v) for k, v in s["added"].items()}),
            ("moves", lambda s: set(s["moves"]) | {(victim, "a", "b")})):
        bad = dict(probe)
        bad[field] = corrupt(probe)
        if not rc.refresh_diff(bad, proj, None):
            raise tlc.MachineryError("binding self-test failed: corrupted %s accepted" % field)
        n += 1
    ctx.note("binding_selftest", {"corrupted_rejected": n})
    ctx.note("rule", "one case = one (metadata state, snapshot) pair or one scripted sequence; non-trivial = the snapshot has "
                     "an invalid/duplicate/mixed row, or a host vanishes, or a known host changes location, or only token "
                     "sets change")
    ctx.assumptions += [
        "every peer is reachable when it is discovered (its pool opens, so Cluster.on_add completes)",
        "rows that duplicate an endpoint carry the same dc/rack/tokens/host_id as the first one",
        "the refresh always obtains the system.local row of the control node",
        "only content is compared for the token map (extra rebuilds are allowed)",
    ]


def _fix(obj):
    """JSON round trip turned integer keys into strings and tuples into lists."""
    if isinstance(obj, dict):
        return {(int(k) if isinstance(k, str) and k.lstrip("-").isdigit() else k): _fix(v) for k, v in obj.items()}
    if isinstance(obj, list):
        return [_fix(x) for x in obj]
    return obj


def replay(ctx, obj):
    from harness.replay import control as rc
    obj = _fix(obj)
    if obj.get("concurrent"):
        sc = tuple(obj["schedule"])
        rng = __import__("random").Random(obj.get("seed", 0) * 1000 + sc[1]) if sc[0] == "random" else None
        pj = rc.concurrent_refresh([1, 2], sc[:1] if sc[0] == "random" else sc, rng)
        print("schedule %s -> hosts %s, on_add counts %s, error %s" % (sc, sorted(pj["known"]), pj["added"], pj["error"]))
        if pj["error"] or any(pj["added"].get(p, 0) != 1 for p in (1, 2)) or sorted(pj["known"]) != [0, 1, 2]:
            ctx.violation("replayed: a newly seen host is not announced exactly once", replay=obj,
                          signature="refresh:concurrent:host-announced-%s" % ("twice" if any(n > 1 for n in pj["added"].values()) else "wrongly"))
        return
    h = rc.RefreshHarness(obj["peers"], v2=obj.get("peers_v2", False), same_addr=obj.get("same_addr", ()))
    proj = None
    for act in obj["history"]:
        proj = h.refresh(act)
        print("refresh", act["snap"])
        print("   hosts=%s ring=%s on_add=%s on_remove=%s" % (proj["known"], proj["ring"], proj["added"], proj["removed"]))
    h.shutdown()
    exp = obj["expected"]
    exp["moves"] = set(tuple(m) for m in exp["moves"])
    d = rc.refresh_diff(exp, proj, None)
    print("expected: hosts=%s ring=%s" % ({k: v["loc"] for k, v in exp["known"].items()}, exp["ring"]))
    if d:
        ctx.violation("replayed: still differs: %s" % d, replay=obj, signature=rc.refresh_signature(exp, d))
