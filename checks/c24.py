"""C24 - reconnection schedules respect their delay bounds and attempt limits.

Spec: spec/Reconnect.tla (schedule = generator state machine [emitted, k]; Emit within the band of its
      index, Stop exactly at the attempt limit; capped doubling index).
TLC : exhaustive over policy x base/max in {0,1,2,5,60} x attempts in {None,0,1,2,3,64}, band end points and
      middle, invariants Length, NeverEndsWithoutLimit, DelayBounds, BandNonEmpty, IndexBounded,
      CappedIsExact, FollowsCurve.
Bind: trace validation - the first 2000 items of the real new_schedule() (all of them if it ends) for every
      parameter tuple, plus float / large-integer parameters, under seeded, all-low and all-high jitter,
      are validated by TLC against Trace_Reconnect.tla; the real _ReconnectionHandler is driven with the
      same schedules and must make exactly `max_attempts` attempts.
"""
import copy
import os

from harness import tlc
from harness.replay import reconnect as rr

META = {
    "property_id": "C24",
    "engine": "Reconnect",
    "technique": "TLA+ generator spec of reconnection schedules checked by TLC; the first 2000 items of every real "
                 "schedule validated as traces against the spec (band evaluated by TLC), handler attempts counted",
    "level": "model_checking",
    "level_text": "TLC checks on the specification that a limited schedule yields exactly max_attempts delays (0 => none, "
                  "None => never ends), that every delay is the constant / lies between base and max on the doubling curve "
                  "+/-15 %, and that the doubling index saturates (no overflow). Every parameter tuple of the property's "
                  "domain (plus float bases reaching the OverflowError path at i >= 1024 and large integer bases) is run on "
                  "the real policies for 2000 items under seeded and extreme jitter; TLC accepts the trace only if each item "
                  "lies in the spec's band for its index and the end of the iterator coincides with Stop.",
    "level_note": "Trusted: TLC; the exact-rational conversion of float delays to integer enclosures (1e-9 relative snapping); "
                  "jitter sampled (seeded + both extremes), not enumerated; first 2000 items only; dyadic float parameters only.",
    "design_ref": "5.5 C24",
}

MC_INV = ["TypeOK", "Length", "NeverEndsWithoutLimit", "NotStuck", "Independent", "DelayBounds", "BandNonEmpty", "IndexBounded",
          "CappedIsExact", "FollowsCurve"]
TR_INV = ["TypeOK", "Length", "NeverEndsWithoutLimit", "DelayBounds", "BandNonEmpty", "IndexBounded"]
WITNESSES = ["Saturated", "ZeroAttempts", "ClampMax", "ClampBase", "LongUnlimited", "SecondScheduleComplete",
             "TwoSchedulesInterleaved"]
DELAYS = [0, 1, 2, 5, 60]
ATTEMPTS = [None, 0, 1, 2, 3, 64]
CONSTS_BASE = {"Delays": set(DELAYS), "AttemptChoices": {0, 1, 2, 3, 64}, "Horizon": 70}


def parameter_tuples():
    """[(kind, params)] - the property's domain plus float / large-integer extras."""
    out = []
    for d in DELAYS + [0.5, 1.5, 2 ** 40]:
        for a in ATTEMPTS:
            out.append(("constant", (d, a)))
    pairs = [(b, m) for b in DELAYS for m in DELAYS if b <= m]
    pairs += [(1.5, 60.0), (1.5, 600.0), (0.5, 0.5), (0.25, 64.0), (1.5, 2.0 ** 20),     # float bases: OverflowError path
              (2 ** 62, 2 ** 63), (3 * 2 ** 70, 5 * 2 ** 70), (1, 10 ** 7), (2 ** 40, 2 ** 40 * 1000)]
    for b, m in pairs:
        # float bases: attempt limits that cross the index (i = 1024) where 2 ** i no longer converts to float -
        # the item produced by the OverflowError handler itself counts towards the limit
        for a in ATTEMPTS + ([1024, 1025, 1026, 1100] if isinstance(b, float) else []):
            out.append(("exponential", (b, m, a)))
    return out


def classify(trace, pos):
    """Stable reason why event `pos` (1-based) of a trace was rejected - no band arithmetic here."""
    new, ev = trace[0], trace[pos - 1]
    sch = ev.get("s", 1)
    emitted = sum(1 for e in trace[1:pos - 1] if e["e"] == "Emit" and e.get("s", 1) == sch)
    att = new["attempts"]
    later = ":later-schedule" if sch > 1 else ""          # a schedule taken from a policy object that already gave one out
    if ev["e"] == "Emit":
        if att != -1 and emitted >= att:
            return "extra-item" + later
        return "out-of-band" + later
    if ev["e"] == "Stop":
        return ("ends-without-limit" if att == -1 else "early-stop") + later
    if ev["e"] == "Raise":
        return "raise:%s" % ev.get("cls")
    return ev["e"]


def att_class(a):
    return "None" if a is None else ("0" if a == 0 else "n")


def run(ctx):
    CONSTS = dict(CONSTS_BASE, MaxSched=2 if ctx.quick else 3, MultiHorizon=2 if ctx.quick else 3)
    # ---- the specification itself
    # NextW = Next plus stuttering witness probes (vacuity guard through the coverage statistics)
    cfg = tlc.write_cfg(os.path.join(ctx.scratch, "Reconnect.cfg"), next="NextW", constants=CONSTS, invariants=MC_INV,
                        constraints=["Bounded"], deadlock=False)
    res = tlc.check_model("Reconnect", cfg, ctx.scratch, coverage=True, timeout=600)
    ctx.add_tlc(res, "exhaustive parameters x band end points")
    ctx.note("constants", {"Delays": DELAYS, "AttemptChoices": ["None", 0, 1, 2, 3, 64], "Horizon": 70,
                           "MaxSched": CONSTS["MaxSched"], "MultiHorizon": CONSTS["MultiHorizon"]})
    if res.violation:
        ctx.violation("TLC: %s violated on Reconnect.tla" % res.invariant,
                      replay={"trace": [dict(s) for _, s in res.trace()]}, signature="spec:%s" % res.invariant)
        return
    cov = res.coverage()
    zero = [a for a in ("SchedMC", "EmitAny", "StopAny") if a not in cov or cov[a][1] == 0]
    if zero:
        raise tlc.MachineryError("actions never taken in the exhaustive model: %s" % zero)
    unreached = [w for w in WITNESSES if cov.get("W_" + w, (0, 0))[1] == 0]
    if unreached:
        raise tlc.MachineryError("vacuity witnesses not reachable: %s" % unreached)
    ctx.note("vacuity_witnesses_reached", len(WITNESSES))

    # ---- code -> spec: record the real schedules
    tuples = parameter_tuples()
    n_rng = 1 if ctx.quick else 6
    traces, meta = [], []
    items_total = 0
    for kind, params in tuples:
        modes = ["rng"] if kind == "constant" else (["low", "high"] + ["rng"] * n_rng)
        if ctx.quick and params[-1] is not None and params[-1] > 150:
            modes = ["rng"]                      # long limited schedules (overflow index): jitter is irrelevant there
        for mode in modes:
            # quick tier: the forced-extreme jitter runs stop after 150 items (the band is constant from the cap on)
            limit = 150 if (ctx.quick and mode != "rng" and (params[-1] is None or params[-1] <= 150)) else rr.LIMIT
            t, items = rr.record(kind, params, jitter=mode, rng=ctx.rng, limit=limit)
            traces.append(t)
            meta.append({"kind": kind, "params": list(params), "jitter": mode, "items": len(items), "limit": limit,
                         "ended": t[-1]["e"] == "Stop", "head": [repr(x) for x in items[:4]]})
            items_total += len(items)
    # several schedules from ONE policy object (a host down again, several hosts down at once), consumed interleaved
    n_multi = 0
    for kind, params in tuples:
        n = params[-1]
        if n is not None and n > 64:
            continue
        for _ in range(1 if ctx.quick else 3):
            per_limit = 30 if n is None else n + 5
            t, counts = rr.record_multi(kind, params, jitter="rng", rng=ctx.rng, nsched=3, per_limit=per_limit)
            traces.append(t)
            meta.append({"kind": kind, "params": list(params), "jitter": "rng/3-schedules", "items": sum(counts.values()),
                         "limit": 0, "ended": True, "head": [repr(counts)], "multi": True})
            items_total += sum(counts.values())
            n_multi += 1
    ctx.note("multi_schedule_traces", n_multi)
    good = len(traces)
    ctx.note("parameter_tuples", len(tuples))
    ctx.note("items_observed", items_total)
    overflow = [m for m in meta if isinstance(m["params"][0], float) and m["kind"] == "exponential"
                and m["params"][-1] is None and m["items"] > 1025]
    ctx.note("overflow_path_traces", len(overflow))

    # binding self-test on hand-written traces (independent of the code under test): two valid controls,
    # an out-of-band delay late and early, an extra item before Stop, a missing item before Stop
    def emit(d, sch=1):
        return {"e": "Emit", "s": sch, "dlo": d, "dhi": d}

    def ev(name, sch):
        return {"e": name, "s": sch, "dlo": 0, "dhi": 0}
    ok_unl = [{"e": "New", "s": 0, "policy": "exponential", "base": 1, "max": 60, "attempts": -1}, ev("Sched", 1)] + \
             [emit(100 * 2 ** i) for i in range(6)] + [emit(6000)] * 1494
    ok_fin = [{"e": "New", "s": 0, "policy": "exponential", "base": 2, "max": 60, "attempts": 3}, ev("Sched", 1),
              emit(200), emit(400), emit(800), ev("Stop", 1)]
    bad1 = copy.deepcopy(ok_unl)
    bad1[1501] = emit(6001)                                  # item index 1499: band is [5100, 6000]
    bad2 = copy.deepcopy(ok_fin)
    bad2.insert(5, emit(1600))
    bad3 = copy.deepcopy(ok_fin)
    del bad3[4]
    bad4 = copy.deepcopy(ok_unl)
    bad4[4] = emit(169)                                      # index 2: raw 4 -> [340, 460]
    # two schedules of one constant policy (delay 2, 2 attempts), interleaved; and what a shared position looks like
    ok_multi = [{"e": "New", "s": 0, "policy": "constant", "base": 2, "max": 2, "attempts": 2}, ev("Sched", 1), emit(200, 1),
                ev("Sched", 2), emit(200, 2), emit(200, 1), ev("Stop", 1), emit(200, 2), ev("Stop", 2)]
    bad5 = ok_multi[:5] + [ev("Stop", 1), ev("Stop", 2)]     # both end after one item each: rejected at Stop(1)
    selftests = [(ok_unl, len(ok_unl) + 1), (ok_fin, len(ok_fin) + 1), (ok_multi, len(ok_multi) + 1),
                 (bad1, 1502), (bad2, 6), (bad3, 5), (bad4, 5), (bad5, 6)]
    traces_all = traces + [b for b, _ in selftests]

    tcfg = tlc.write_cfg(os.path.join(ctx.scratch, "trace.cfg"), init="TraceInit", next="TraceNext", constants=CONSTS,
                         invariants=TR_INV, constraints=["Progress"], postcondition="Done", deadlock=False)
    tres, prog = tlc.validate_traces("Trace_Reconnect", tcfg, traces_all, ctx.scratch, timeout=1800)
    ctx.add_tlc(tres, "trace validation")
    if tres.violation:
        ctx.violation("invariant %s violated in a state of a recorded schedule" % tres.invariant,
                      replay={"trace": [dict(s) for _, s in tres.trace()][-3:]}, signature="trace-inv:%s" % tres.invariant)
        return
    for j, (b, where) in enumerate(selftests):
        if prog[good + j] != where:
            raise tlc.MachineryError("binding self-test %d failed: corrupted trace stopped at %s, expected %s"
                                     % (j + 1, prog[good + j], where))
    ctx.note("binding_selftest", {"valid_controls_accepted": 3, "out_of_band_rejected": 2, "extra_item_rejected": 1,
                                  "missing_item_rejected": 1, "shared_position_rejected": 1})

    accepted = 0
    seen = {}

    def report(what, replay, signature):
        seen[signature] = seen.get(signature, 0) + 1
        if seen[signature] == 1:
            ctx.violation(what, replay=replay, signature=signature)
    for i in range(good):
        t, m = traces[i], meta[i]
        ok = prog[i] == len(t) + 1
        # the end of the trace must coincide with Stop: a trace without Stop is complete only at the item limit
        if ok and not m["ended"] and m["items"] < m["limit"]:
            ok = False
        if ok:
            accepted += 1
            p = m["params"]
            if p[-1] != 0 and (m["kind"] == "constant" or (p[0] != 0 and p[1] != p[0])):
                ctx.nontrivial((m["kind"], repr(p), m["jitter"], i))
            continue
        pos = min(prog[i], len(t))
        reason = classify(t, pos) if prog[i] <= len(t) else "incomplete"
        report("%s schedule %r (jitter %s): item/event %d rejected by the specification (%s): %r; first items %s"
                      % (m["kind"], m["params"], m["jitter"], pos - 1, reason, t[pos - 1], m["head"]),
                      replay={"kind": m["kind"], "params": m["params"], "jitter": m["jitter"], "rejected_event": pos,
                              "reason": reason},
                      signature="%s:attempts=%s:%s" % (m["kind"], att_class(m["params"][-1]), reason))
    ctx.traces_validated += accepted
    ctx.note("traces_recorded", good)
    ctx.note("traces_accepted", accepted)
    def find(pred):
        return next(i for i, m in enumerate(meta) if pred(m))
    i_unl = find(lambda m: m["kind"] == "exponential" and m["params"] == [1, 60, None] and m["jitter"] == "rng")
    i_fin = find(lambda m: m["kind"] == "exponential" and m["params"] == [2, 60, 3] and m["jitter"] == "rng")
    i_mul = find(lambda m: m["kind"] == "constant" and m["params"] == [2, 3] and m.get("multi"))
    if not overflow and not seen:
        raise tlc.MachineryError("no recorded schedule went through the OverflowError path (float base, i >= 1024)")
    for i in [i_unl, i_fin, i_mul] + [meta.index(m) for m in overflow[:1]]:
        ctx.sample({"schedule": {k: (repr(v) if k == "params" else v) for k, v in meta[i].items()},
                    "events": traces[i][:6] + (traces[i][-2:] if len(traces[i]) > 8 else [])})

    # ---- the consumer: _ReconnectionHandler makes exactly max_attempts attempts
    handler_runs = 0
    for kind, params in tuples:
        n = params[-1]
        if n is None:
            continue
        out = rr.drive_handler(kind, params, jitter="rng", rng=ctx.rng, limit=max(200, n + 50))
        handler_runs += 1
        bad = None
        if out["attempts"] != n or out["truncated"]:
            bad = "extra-item" if (out["attempts"] > n or out["truncated"]) else "early-stop"
            if out["per_handler"][0] == n and not out["truncated"]:
                bad += ":later-schedule"           # the first handler of the policy object was served correctly
        if bad:
            report("%s policy %r: three _ReconnectionHandlers of one policy object made %s attempts%s, max_attempts=%d each"
                          % (kind, params, out["per_handler"], " (and go on)" if out["truncated"] else "", n),
                          replay={"kind": kind, "params": list(params), "jitter": "rng", "handler": True, "reason": bad},
                          signature="%s:attempts=%s:%s" % (kind, att_class(n), bad))
    ctx.note("handler_runs", handler_runs)
    ctx.note("rejections_by_signature", seen)
    ctx.evaluations = items_total + handler_runs
    ctx.note("rule", "one trace per (policy, parameters, jitter mode); non-trivial = at least one attempt allowed and, for "
                     "the exponential policy, 0 < base < max (the curve actually doubles)")
    ctx.assumptions += [
        "float delays compared after exact rational conversion with 1e-9 relative snapping",
        "jitter sampled: seeded randint plus the all-85 and all-115 extremes",
        "first 2000 items of each schedule",
        "an empty schedule makes _ReconnectionHandler.start() raise StopIteration; counted as 'no attempts'",
    ]


def replay(ctx, r):
    if r.get("handler"):
        out = rr.drive_handler(r["kind"], tuple(r["params"]), jitter="rng", rng=ctx.rng,
                               limit=max(200, (r["params"][-1] or 0) + 50))
        print("handlers of one policy object:", {k: v for k, v in out.items() if k != "delays"})
        n = r["params"][-1]
        if out["attempts"] != n or out["truncated"]:
            ctx.violation("replayed: %d attempts for max_attempts=%s" % (out["attempts"], n), replay=r)
        return
    if str(r["jitter"]).endswith("3-schedules"):
        n = r["params"][-1]
        t, counts = rr.record_multi(r["kind"], tuple(r["params"]), jitter="rng", rng=ctx.rng, nsched=3,
                                    per_limit=30 if n is None else n + 5)
        print("three schedules of one policy object:", [(e["e"], e["s"]) for e in t[:40]])
        print("items per schedule:", counts, "max_attempts:", n)
        if n is not None and any(c != n for c in counts.values()):
            ctx.violation("replayed: schedules of one policy object yield %s items, max_attempts=%s" % (counts, n), replay=r)
        return
    t, items = rr.record(r["kind"], tuple(r["params"]), jitter=r["jitter"], rng=ctx.rng)
    print("kind=%s params=%r jitter=%s items=%d ended=%s" % (r["kind"], r["params"], r["jitter"], len(items), t[-1]["e"] == "Stop"))
    print("first items:", items[:8])
    print("events:", t[:4], "...", t[-2:])
    n = r["params"][-1]
    if (n is None) != (t[-1]["e"] != "Stop") or (n is not None and len(items) != n):
        ctx.violation("replayed: %d items, ended=%s for max_attempts=%s" % (len(items), t[-1]["e"] == "Stop", n), replay=r)
