"""C23 - built-in retry policies make bounded, consistency-safe decisions.

Spec: spec/Retry.tla (decision tables from the documentation + the retry chain of one request).
TLC : exhaustive over all policies x consistency levels x coordinator-feasible failure descriptions
      x retry chains up to MaxRetries, invariants DefaultRetriesAtMostOnce, FallthroughNeverRetries,
      NeverRetryNeverRetriesTimeouts, DowngradingSafe.
Bind: every reachable (policy, event, retry_num) state is evaluated on the real policy object
      (cassandra.policies); decision and consistency must equal the specification's.
"""
import os
import warnings

from harness import tlc
from harness.pyenv import repo_import

META = {
    "property_id": "C23",
    "engine": "Retry",
    "technique": "TLA+ decision-table spec checked by TLC; every reachable spec state replayed on the real policy objects",
    "level": "model_checking",
    "level_text": "TLC exhaustively explores every retry chain (4 policies x 11 levels x all coordinator-feasible "
                  "failure descriptions with replica counts 0..MaxCount x retry_num 0..MaxRetries) and checks the "
                  "documented bounds as invariants; each reachable state is then evaluated on the real policy and must "
                  "retry only where, and at the consistency level at which, the specification retries (the property "
                  "bounds retrying from above: a decision that retries less, or RETHROW versus IGNORE, is recorded as an "
                  "observation, not a violation). Exhaustive over the bounded domain, which is the whole "
                  "domain the property quantifies over except larger replica counts.",
    "level_note": "Trusted: TLC, the transcription of the documentation into Retry.tla, the feasibility predicate "
                  "(what a coordinator can report), replica counts bounded by MaxCount (5 quick / 7 thorough).",
    "design_ref": "5.5 C23",
}

INVARIANTS = ["TypeOK", "DefaultRetriesAtMostOnce", "DowngradingRetriesAtMostOnce", "FallthroughNeverRetries",
              "NeverRetryNeverRetriesTimeouts", "DowngradingSafe"]


def real_policies():
    pol = repo_import("cassandra.policies")
    with warnings.catch_warnings():
        warnings.simplefilter("ignore")
        return {
            "Default": pol.RetryPolicy(),
            "Fallthrough": pol.FallthroughRetryPolicy(),
            "Downgrading": pol.DowngradingConsistencyRetryPolicy(),
            "NeverRetry": pol.NeverRetryPolicy(),
        }


def evaluate(policies, pname, ev, retry_num):
    cas = repo_import("cassandra")
    pol = repo_import("cassandra.policies")
    CL = cas.ConsistencyLevel
    p = policies[pname]
    cl = CL.name_to_value[ev["cl"]]
    k = ev["kind"]
    if k == "read_timeout":
        d = p.on_read_timeout(None, cl, ev["required"], ev["received"], ev["data"], retry_num)
    elif k == "write_timeout":
        d = p.on_write_timeout(None, cl, cas.WriteType.name_to_value[ev["wt"]], ev["required"], ev["received"], retry_num)
    elif k == "unavailable":
        d = p.on_unavailable(None, cl, ev["required"], ev["alive"], retry_num)
    else:
        errs = {"overloaded": cas.OperationTimedOut, "bootstrapping": cas.OperationTimedOut}
        err = {"connection": repo_import("cassandra.connection").ConnectionShutdown("x")}.get(ev["err"], Exception(ev["err"]))
        d = p.on_request_error(None, cl, err, retry_num)
    names = {pol.RetryPolicy.RETRY: "RETRY", pol.RetryPolicy.RETHROW: "RETHROW",
             pol.RetryPolicy.IGNORE: "IGNORE", pol.RetryPolicy.RETRY_NEXT_HOST: "RETRY_NEXT_HOST"}
    kind = names.get(d[0], repr(d[0]))
    clname = "None" if d[1] is None else CL.value_to_name.get(d[1], repr(d[1]))
    return {"kind": kind, "cl": clname}


def compare_state(policies, st):
    ev = st["ev"]
    if ev["kind"] == "none":
        return None
    exp = dict(st["dec"])
    retried = exp["kind"] in ("RETRY", "RETRY_NEXT_HOST")
    retry_num = st["retries"] - (1 if retried else 0)
    got = evaluate(policies, st["policy"], ev, retry_num)
    if got == exp:
        return False
    r = {"policy": st["policy"], "event": dict(ev), "retry_num": retry_num, "spec": exp, "code": got}
    # The property bounds retrying from above ("retry only as documented", "at most once", "never retries", "never
    # downgrades ..."): a policy that does NOT retry where the documentation allows a retry still satisfies it, and the
    # property says nothing about RETHROW versus IGNORE.  Only a retry the documentation does not have - or one at
    # another consistency level than documented - is a violation; other differences are recorded as observations.
    if got["kind"] in ("RETHROW", "IGNORE"):
        r["observation"] = True
    return r


def run(ctx):
    consts = {"MaxCount": 5 if ctx.quick else 7, "MaxRetries": 2 if ctx.quick else 3}
    cfg = tlc.write_cfg(os.path.join(ctx.scratch, "Retry.cfg"), constants=consts, invariants=INVARIANTS,
                        constraints=["Bounded"], deadlock=False)
    res, states = tlc.enumerate_states("Retry", cfg, ctx.scratch, timeout=600 if ctx.quick else 3000)
    ctx.add_tlc(res, "exhaustive")
    ctx.note("constants", consts)
    ctx.note("exhaustive", True)
    if res.violation:
        ctx.violation("TLC: invariant %s violated in Retry.tla (the documented decision tables themselves "
                      "break the property)" % res.invariant, replay={"trace": [s for _, s in res.trace()]},
                      signature="spec:" + str(res.invariant))
        return
    # vacuity witnesses: each must be VIOLATED (i.e. the interesting antecedent is reachable)
    for w in ("Witness_Downgrade", "Witness_SecondFailure"):
        wcfg = tlc.write_cfg(os.path.join(ctx.scratch, w + ".cfg"), constants=consts, invariants=[w],
                             constraints=["Bounded"], deadlock=False)
        wres = tlc.check_model("Retry", wcfg, ctx.scratch, timeout=600)
        if wres.invariant != w:
            raise tlc.MachineryError("vacuity witness %s was not reached" % w)
    ctx.note("vacuity_witnesses_reached", 2)

    policies = real_policies()
    mismatches = 0
    observations = []
    for st in states:
        r = compare_state(policies, st)
        if r is None:
            continue
        ctx.evaluations += 1
        ctx.traces_validated += 1
        ev = st["ev"]
        if st["dec"]["kind"] != "RETHROW" or st["retries"] > 0:
            ctx.nontrivial((st["policy"], tuple(sorted(ev.items())), st["retries"]))
        if ctx.evaluations % 5000 == 1:
            ctx.sample({"policy": st["policy"], "event": ev, "retries_after": st["retries"], "decision": st["dec"]})
        if r and r.get("observation"):
            observations.append(r)
        elif r:
            mismatches += 1
            ctx.violation("policy %(policy)s on %(event)s retry_num=%(retry_num)s: spec says %(spec)s, code says %(code)s" % r,
                          replay=r, signature="%s:%s" % (r["policy"], r["event"]["kind"]))
    ctx.note("decisions_that_retry_less_than_documented_or_differ_in_rethrow_vs_ignore",
             {"count": len(observations), "first": observations[:3]})
    # binding self-test: a corrupted expectation must be noticed
    probe = next(s for s in states if s["ev"]["kind"] == "unavailable" and s["policy"] == "Default" and s["retries"] == 1)
    bad = dict(probe)
    bad["dec"] = {"kind": "RETHROW", "cl": "None"}
    bad["retries"] = 0
    bad_r = compare_state(policies, bad)
    if not bad_r or bad_r.get("observation"):
        raise tlc.MachineryError("binding self-test failed: corrupted expectation not detected")
    ctx.note("binding_selftest", {"corrupted_rejected": 1})
    ctx.assumptions += ["failure descriptions restricted to what a coordinator can report (Feasible in Retry.tla)",
                        "replica counts bounded by MaxCount"]


def replay(ctx, r):
    got = evaluate(real_policies(), r["policy"], r["event"], r["retry_num"])
    print("policy=%s event=%s retry_num=%s spec=%s code=%s" % (r["policy"], r["event"], r["retry_num"], r["spec"], got))
    if got != r["spec"] and got["kind"] not in ("RETHROW", "IGNORE"):
        ctx.violation("replayed: still retries where / at a level the documentation does not", replay=r)
