"""C33 - driver collection types behave as their mathematical models.

Spec: spec/Collections.tla.  State = the mathematical model only (Kind="set": a subset S of 1..N under the integer
      order; Kind="map": a sequence M of <<key, value>> with distinct keys).  One action per operation of
      cassandra.util.SortedSet / OrderedMap / OrderedMapSerializedKey; `act` = [name, arg, res, exc] records the
      observable outcome the intended semantics prescribe (set algebra, ascending iteration, KeyError / IndexError,
      insertion order kept on overwrite, ...).
      A set-valued call (copy(), zero-operand union() / intersection() / difference(), the one-operand calls with {}
      and with the receiver's own contents) hands out a SECOND object R; probes then change R (S must stay) or S
      (R must stay), and `result is not s` is part of the projected state.  The model operand T of a binary
      operation is a set; on the real side it is also given as a list / tuple that REPEATS elements of T.
TLC : one run per data type.  Every sequence of <= MaxSteps mutating operations, each followed by any observer;
      invariants IterationSorted, SetAlgebra, SetResults, MapWellFormed, MapResults, action property MapOrderStable;
      coverage guard (every named action taken) and Witness_* reachability predicates that must be violated.
      A further run with Interleave=TRUE explores every sequence of <= 3 operations of both sorts.
Bind: the state graph is dumped and EVERY edge is replayed on the real classes (harness/replay/collections.py) under
      every instantiation and, per edge, every operand form the class offers: SortedSet over ints, tuples and
      unhashable lists with the other operand given as SortedSet / set / frozenset / list (methods, operators,
      reflected operators, variadic calls, aliased operand s op= s); OrderedMap over int, tuple, list and dict keys;
      OrderedMapSerializedKey over list<int> keys where [1,2] and (1,2) (same CQL encoding) denote one key and every
      key-taking edge is executed with both.  After every call the result (or exception class) and the projected
      state (list(s), len; list(m.items()), len, lookups of every key) must equal the specification's.  The graph
      is walked depth-first, branching the live object by a structural copy of its __dict__; in addition random
      maximal walks are replayed from scratch on fresh objects.
"""
import os
import time

from harness import tlc
from harness.replay import collections as rc

META = {
    "property_id": "C33",
    "engine": "Collections",
    "technique": "TLA+ model of SortedSet / OrderedMap as sequential objects checked by TLC; every edge of the "
                 "state graph replayed on the real classes under ints / tuples / unhashable instantiations",
    "level": "model_checking",
    "level_text": "TLC explores every sequence of mutating operations up to the depth bound over a 4-element domain "
                  "(all 16 subsets are reached; maps over 3-4 keys x 2 values) with every observer offered in every "
                  "state, checks the model's own algebra as invariants, and the dumped state graph is replayed edge "
                  "by edge on the real classes: each call's result / exception and the object's full contents must "
                  "equal the model's, for hashable and unhashable element types and for keys aliased by their CQL "
                  "encoding. Exhaustive over the bounded domain and depth; not a proof for longer histories or "
                  "other element types.",
    "level_note": "Trusted: TLC, the transcription of the intended semantics into Collections.tla, the concrete "
                  "instantiations (elements of one totally ordered type). Bounds: 4 elements, depth 4 (quick) / 5 "
                  "(thorough), operand subsets 6 (quick) / 16 (thorough); observers are terminal in the TLC graph "
                  "and fired by the replayer on the live object (full interleaving only to depth 3).",
    "design_ref": "5.6 C33",
}

SET_ACTIONS = ["SNew", "SAdd", "SRemove", "SPop", "SClear", "SUpdate", "SIOr", "SIAnd", "SISub", "SIXor", "SDelItem",
               "SDelSlice", "SContains", "SLen", "SIter", "SReversed", "SCopy", "SGetItem", "SGetSlice", "SUnion",
               "SInter", "SDiff", "SRDiff", "SSymDiff", "SIsSubset", "SIsSuperset", "SIsDisjoint", "SLe", "SLt", "SGe",
               "SGt", "SEq", "SNe", "SDerive", "SMutR", "SMutS"]
MAP_ACTIONS = ["MNew", "MSetItem", "MDelItem", "MPopItem", "MGetItem", "MGet", "MContains", "MLen", "MKeys", "MValues",
               "MItems", "MEqMap", "MNeMap", "MEqDict", "MNeDict", "MCopy", "CGetItem", "CGet", "CContains", "CLen",
               "CItems", "CSetItem", "CDelItem", "CPopItem", "SrcSetItem", "SrcDelItem"]
WITNESSES = {"set": ["Witness_RemoveAbsent", "Witness_ResultClearedOriginalKept", "Witness_OriginalClearedResultKept",
                     "Witness_XorOverlap", "Witness_PopLeavesSmaller"],
             "map": ["Witness_CopyOverwritePresent", "Witness_OverwriteNotLast", "Witness_DeleteNotLast", "Witness_PopItemEmpty"]}

ALL16 = [frozenset(x) for x in ((), (1,), (2,), (3,), (4,), (1, 2), (1, 3), (1, 4), (2, 3), (2, 4), (3, 4), (1, 2, 3),
                                (1, 2, 4), (1, 3, 4), (2, 3, 4), (1, 2, 3, 4))]
QUICK6 = [frozenset(x) for x in ((), (1,), (2, 3), (1, 4), (2, 3, 4), (1, 2, 3, 4))]
SMALL4 = [frozenset(x) for x in ((), (2,), (1, 3), (2, 3, 4))]


def constants(kind, n, operands, steps, interleave=False, max_new=2, full_map_ops=False, observe_at=None):
    return {"Kind": '"%s"' % kind, "N": n, "Operands": set(operands), "Vals": {1, 2}, "MaxNew": max_new,
            "FullMapOps": full_map_ops, "MaxSteps": steps, "Interleave": interleave,
            "ObserveAt": set(range(steps + 1)) if observe_at is None else set(observe_at)}


def plans(ctx):
    """(label, constants, with_property) per TLC run whose graph is replayed."""
    if ctx.quick:
        return [("set N=4 operands=6 depth=4", constants("set", 4, QUICK6, 4, observe_at=(0, 1, 4))),
                ("map N=3 depth=4", constants("map", 3, [], 4, observe_at=(0, 1, 4))),
                ("set interleaved N=4 operands=4 depth=2", constants("set", 4, SMALL4, 2, interleave=True))]
    return [("set N=4 operands=16 depth=5", constants("set", 4, ALL16, 5, observe_at=(0, 1, 2, 5))),
            ("map N=3 depth=5 more-operands", constants("map", 3, [], 5, max_new=3, full_map_ops=True, observe_at=(0, 1, 5))),
            ("map N=4 depth=4", constants("map", 4, [], 4, observe_at=(0, 1, 4))),
            ("set interleaved N=4 operands=4 depth=3", constants("set", 4, SMALL4, 3, interleave=True)),
            ("map interleaved N=3 depth=3", constants("map", 3, [], 3, interleave=True))]


DUPS_TAIL = ":operand-with-repeated-elements"


def _kind(consts):
    return consts["Kind"].strip('"')


def _json_act(act):
    return rc.jsonable(rc.plain(dict(act)))


def signature_of(kind, d):
    cls = "SortedSet" if kind == "set" else rc.MAP_INSTS[d["inst"]].cls
    obs = d["observed"]
    tail = ""
    if isinstance(obs, dict) and "exc" in obs and d["what"] == "result":
        tail = ":" + obs["exc"]
    op = d["op"]
    if str(d.get("form", "")).endswith("dups"):
        # operand given as a list / tuple with repeated elements.  issuperset / >= / > / < all take len(other) for
        # the number of distinct elements of the operand: one root cause, one signature
        if op in ("issuperset", "ge", "gt", "lt") and d["what"] == "result":
            return "SortedSet.issuperset:result:operand-with-repeated-elements"
        tail += DUPS_TAIL
    if kind == "map" and op == "copy":
        op = "copy(%s)" % (d["action"]["arg"],)                # ctor: OrderedMap(m); assign: item by item
    if op in ("derive", "mut_result", "mut_original"):       # name the call / probe, not only the action
        arg = d["action"]["arg"]
        op = "%s(%s)" % (op, arg[0])
        if d["what"] == "result" and isinstance(obs, dict) and obs.get("same_object"):
            tail = ":returns-self"
    return "%s.%s:%s%s" % (cls, op, d["what"], tail)


class Reporter:
    """One ctx.violation per distinct signature (first occurrence, minimised); the rest is counted."""

    def __init__(self, ctx, kind, n, reported):
        self.ctx, self.kind, self.n = ctx, kind, n
        self.counts = {}
        self.by_op = {}
        self.reported = reported                              # signatures already reported by earlier runs

    def __call__(self, d, history):
        sig = signature_of(self.kind, d)
        if sig.endswith(DUPS_TAIL):
            # the same operation already diverges with ordinary operands: not a matter of repeated elements
            base = signature_of(self.kind, dict(d, form="list"))
            if base in self.counts or base in self.reported:
                sig = base
        self.counts[sig] = self.counts.get(sig, 0) + 1
        ops = self.by_op.setdefault(sig, {})
        ops[d["op"]] = ops.get(d["op"], 0) + 1
        if self.counts[sig] > 1 or sig in self.reported:
            return
        self.reported.add(sig)
        inst = d["inst"]
        b = rc.make_binding(self.kind, inst, None, self.n)
        ops = [h for h in history[:-1] if b.is_mutator(h[0]["name"])] + [history[-1]]
        r = rc.run_sequence(self.kind, inst, self.n, ops)
        if not (r and r[0] == len(ops) - 1 and r[1]["what"] == d["what"]):
            ops = list(history)                              # the observers in between matter: keep everything
        obj = {"kind": self.kind, "inst": inst, "n": self.n,
               "ops": [{"act": _json_act(a), "state": rc.jsonable(e), "form": f} for a, e, f in ops],
               "divergence": rc.jsonable(d)}
        cls = "SortedSet" if self.kind == "set" else rc.MAP_INSTS[inst].cls
        self.ctx.violation(
            "%s (%s, operand form %s): after %d operations, %s [%s] gives %s, the model says %s (%s)" % (
                cls, inst, d["form"], len(ops) - 1, d["op"], d["style"], d["observed"], d["expected"], d["what"]),
            replay=obj, signature=sig)


def check_spec(ctx, label, consts, actions):
    kind = _kind(consts)
    invs = ["Invariants"]
    cfg = tlc.write_cfg(os.path.join(ctx.scratch, "col_%d.cfg" % len(ctx.extra.get("tlc_runs", []))), constants=consts,
                        invariants=invs, deadlock=False)
    res, nodes, edges, init = tlc.state_graph("Collections", cfg, ctx.scratch, coverage=True,
                                              timeout=600 if ctx.quick else 3000)
    ctx.add_tlc(res, label)
    if res.violation:
        ctx.violation("TLC: %s violated on Collections.tla (%s)" % (res.invariant, label),
                      replay={"trace": [rc.plain(dict(s.get("act", {}))) for _, s in res.trace()]},
                      signature="spec:%s" % res.invariant)
        return None
    cov = res.coverage()
    missing = [a for a in actions if a not in cov]
    if missing:
        raise tlc.MachineryError("coverage output lacks actions %s" % missing)
    zero = [a for a in actions if cov[a][1] == 0]
    if zero:
        raise tlc.MachineryError("actions never taken in %s: %s" % (label, zero))
    other = [a for a in (MAP_ACTIONS if kind == "set" else SET_ACTIONS) if cov.get(a, (0, 0))[1]]
    if other:
        raise tlc.MachineryError("actions of the other data type taken in %s: %s" % (label, other))
    return nodes, edges, init


def check_map_property(ctx, consts, label):
    """The action property (writes never move other entries) needs TLC's temporal machinery: separate, smaller run."""
    cfg = tlc.write_cfg(os.path.join(ctx.scratch, "mapprop.cfg"), constants=consts, invariants=["Invariants"],
                        properties=["MapOrderStable"], deadlock=False)
    res = tlc.check_model("Collections", cfg, ctx.scratch, timeout=1200)
    ctx.add_tlc(res, label)
    if res.violation:
        ctx.violation("TLC: %s violated on Collections.tla (%s)" % (res.invariant, label),
                      replay={"trace": [rc.plain(dict(s.get("act", {}))) for _, s in res.trace()]},
                      signature="spec:%s" % res.invariant)
        return False
    return True


def witnesses(ctx, kind, consts, names):
    for w in names:
        wcfg = tlc.write_cfg(os.path.join(ctx.scratch, w + ".cfg"), constants=consts, invariants=[w], deadlock=False)
        wres = tlc.check_model("Collections", wcfg, ctx.scratch, timeout=600)
        if wres.invariant != w:
            raise tlc.MachineryError("vacuity witness %s not reachable" % w)
    ctx.count("vacuity_witnesses_reached", len(names))


def nontrivial_key(nodes, walk, kind):
    """Rule: the behaviour contains an operation that raised, or an in-place binary operation whose operand
    overlaps the current contents without being equal to it / an overwrite or delete of a present key."""
    hit = False
    key = []
    for a, b in zip(walk, walk[1:]):
        act = nodes[b]["act"]
        key.append((act["name"], repr(act["arg"])))
        if act["exc"]:
            hit = True
        elif kind == "set" and act["name"] in ("ior", "iand", "isub", "ixor", "update"):
            pre = nodes[a]["S"]
            if (pre & act["arg"]) and pre != act["arg"]:
                hit = True
        elif kind == "map" and act["name"] in ("setitem", "delitem"):
            k = act["arg"][0] if act["name"] == "setitem" else act["arg"]
            if any(p[0] == k for p in nodes[a]["M"]):
                hit = True
    return tuple(key) if hit else None


def selftest(ctx, kind, n, nodes, walk, obs_out):
    """Corrupt one expected result / one expected state and require the replayer to notice."""
    inst = rc.instantiations(kind)[0]
    b = rc.make_binding(kind, inst, None, n)
    ops = []
    for nid in walk[1:]:
        ops.append((nodes[nid]["act"], b.expected_state(nodes[nid]), b.forms_for(nodes[nid]["act"])[0]))
    last = walk[-1]
    leaf = next((l for l in obs_out.get(last, ()) if nodes[l]["act"]["name"] == "len"), None)
    if leaf is not None:
        ops.append((nodes[leaf]["act"], b.expected_state(nodes[last]), "*"))
    if len(ops) < 2 or rc.run_sequence(kind, inst, n, ops) is not None:
        return None                                          # the code under test diverges here anyway: no self-test
    out = {}

    def bad_result(expect, st):
        if isinstance(expect, dict):
            return "None", st
        if isinstance(expect, bool):
            return (not expect), st
        if isinstance(expect, int):
            return expect + 1, st
        return {"exc": "KeyError"}, st

    def bad_state(expect, st):
        st = dict(st)
        st["items"] = list(st["items"]) + [st["items"][0] if st["items"] else ([1, 1] if kind == "map" else 1)]
        return expect, st

    i = len(ops) - 1
    r = rc.run_sequence(kind, inst, n, ops, corrupt_at=i, corrupt=bad_result)
    if not (r and r[0] == i and r[1]["what"] == "result"):
        raise tlc.MachineryError("binding self-test failed (%s): corrupted expected result accepted" % kind)
    out["corrupted_result_rejected"] = 1
    r = rc.run_sequence(kind, inst, n, ops, corrupt_at=1, corrupt=bad_state)
    if not (r and r[0] == 1 and r[1]["what"] == "state"):
        raise tlc.MachineryError("binding self-test failed (%s): corrupted expected state accepted" % kind)
    out["corrupted_state_rejected"] = 1
    return out


def replay_plan(ctx, label, consts, graph, summary, reported):
    nodes, edges, init = graph
    kind, n = _kind(consts), consts["N"]
    t0 = time.time()
    for st in nodes.values():                               # plain Python values once
        st["act"] = rc.plain(dict(st["act"]))
    leaf = {nid for nid, st in nodes.items() if st["done"]}
    succ, obs_out = {}, {}
    for s, d, _ in edges:
        (obs_out if d in leaf else succ).setdefault(s, []).append(d)
    mut_edges = [e for e in edges if e[1] not in leaf]
    all_edges = set((s, d) for s, d, _ in edges)
    # from-scratch behaviours (no cloning): random maximal walks through the mutator graph
    n_walks = 1000 if ctx.quick else 3000
    walks = tlc.graph_walks(nodes, mut_edges, init, rng=ctx.rng, max_walks=n_walks, max_len=consts["MaxSteps"] + 1,
                            cover_edges=False)
    rep = Reporter(ctx, kind, n, reported)
    per_inst = {}
    exhaustive = True
    for inst in rc.instantiations(kind):
        t1 = time.time()
        stats, covered = rc.replay_dfs(kind, inst, n, nodes, succ, obs_out, init, rep)
        wst = rc.replay_walks(kind, inst, n, nodes, walks, rep)
        per_inst[inst] = {"edges_replayed": stats["edges"], "executions": stats["edge_executions"],
                          "behaviours": stats["behaviours"], "clean_behaviours": stats["clean_behaviours"],
                          "from_scratch_walks": wst["walks"], "clean_walks": wst["clean_walks"],
                          "calls": stats["calls"] + wst["calls"], "wall_s": round(time.time() - t1, 1)}
        if covered != all_edges and not stats["desynced"]:
            raise tlc.MachineryError("replay of %s under %s covered %d of %d edges" % (
                label, inst, len(covered), len(all_edges)))
        exhaustive = exhaustive and covered == all_edges
        ctx.traces_validated += stats["clean_behaviours"] + wst["clean_walks"]
        ctx.evaluations += stats["calls"] + wst["calls"]
    for w in walks:
        k = nontrivial_key(nodes, w, kind)
        if k:
            ctx.nontrivial((label,) + k)
    for w in walks[:2]:
        ctx.sample(rc.jsonable({"run": label, "behaviour": [{"act": nodes[x]["act"], "S": nodes[x]["S"], "M": nodes[x]["M"],
                                                             "R": nodes[x].get("R", ()), "C": nodes[x].get("C", ())} for x in w[1:]]}))
    st = selftest(ctx, kind, n, nodes, max(walks, key=len), obs_out)
    summary.append({"run": label, "graph_nodes": len(nodes), "graph_edges": len(all_edges),
                    "mutator_edges": len(mut_edges), "exhaustive": exhaustive,
                    "instantiations": per_inst, "divergences": dict(rep.counts), "divergences_by_operation": dict(rep.by_op), "binding_selftest": st,
                    "replay_wall_s": round(time.time() - t0, 1)})
    return exhaustive, st


def run(ctx):
    # operand form "dups" (list / tuple repeating elements): ints only in the quick tier, every instantiation in thorough
    rc.DUP_FORM_INSTS = {"ints"} if ctx.quick else {"ints", "tuples", "lists"}
    ctx.note("repeated_element_operands", sorted(rc.DUP_FORM_INSTS))
    summary = []
    exhaustive = True
    selftests = {}
    done_w = set()
    reported = set()
    for label, consts in plans(ctx):
        kind = _kind(consts)
        graph = check_spec(ctx, label, consts, SET_ACTIONS if kind == "set" else MAP_ACTIONS)
        if graph is None:
            return
        if kind not in done_w:                               # vacuity witnesses once per data type
            done_w.add(kind)
            witnesses(ctx, kind, consts, WITNESSES[kind][:1] if ctx.quick else WITNESSES[kind][:3])
            if kind == "map":
                small = dict(consts, MaxSteps=3, FullMapOps=False, ObserveAt={3},
                             MaxNew=1 if ctx.quick else 2)
                if not check_map_property(ctx, small, "map action property MapOrderStable"):
                    return
        ex, st = replay_plan(ctx, label, consts, graph, summary, reported)
        exhaustive = exhaustive and ex
        if st:
            for k, v in st.items():
                selftests[kind + "_" + k] = selftests.get(kind + "_" + k, 0) + v
    if not ctx.violations and not ("set_corrupted_result_rejected" in selftests and "map_corrupted_state_rejected" in selftests):
        raise tlc.MachineryError("binding self-test did not run for both data types: %s" % selftests)
    ctx.note("binding_selftest", selftests)
    ctx.note("exhaustive", exhaustive)
    ctx.note("runs", summary)
    ctx.note("graph_edges", sum(r["graph_edges"] for r in summary))
    ctx.note("graph_edges_replayed", sum(min(p["edges_replayed"] for p in r["instantiations"].values()) for r in summary))
    ctx.note("instantiations", {"SortedSet": {i.name: {"elements": [repr(v) for v in i.values[:4]], "operand_forms": i.forms}
                                              for i in rc.SET_INSTS.values()},
                                "maps": {i.name: {"class": i.cls, "keys": [repr(r) for r in i.reps[:4]], "values": [repr(v) for v in i.vals]}
                                         for i in rc.MAP_INSTS.values()}})
    ctx.assumptions += [
        "SortedSet elements are of one totally ordered type (ints, tuples, lists); dicts and nested SortedSets are not "
        "totally ordered by `<` and are outside the claim (the TypeError fallback of _find_insertion is not exercised); "
        "frozenset elements are only partially ordered by `<` and are outside too: the instantiations use ints, tuples "
        "and lists only",
        "a plain list / tuple given as the other operand is read as the set of its elements, also when it repeats some "
        "(operand form 'dups': issubset / issuperset / isdisjoint, union / intersection / difference and reflected "
        "difference as methods and operators, <= < >= >, update, |= &= -=, the constructor); equality with a list that "
        "repeats elements is left out (== / != with a non-SortedSet compares len(), and a builtin set never equals a "
        "list); s.symmetric_difference(list) / s ^ list / s ^= list are not offered by the class (it calls "
        "other.difference) and are left out; results need only iterate in ascending order (their type is not demanded)",
        "keys of the pickle-identified OrderedMap are built the same way each time (equal keys whose pickles differ - "
        "dicts with another insertion order, values sharing sub-objects - are outside 'identified by their encoding')",
        "OrderedMap == OrderedMap compares stored keys with Python's ==, so the operand is written with the key "
        "representations the object currently holds ([1,2] vs (1,2) under OrderedMapSerializedKey are one key for "
        "lookup / overwrite / delete, which is what is demanded); equality with a dict only for hashable keys",
        "small scope: 4 elements / 3-4 keys x 2 values, depth <= 5; observers are terminal in the TLC graph and are fired "
        "by the replayer on the live object after checking that each leaves the state unchanged",
    ]


def replay(ctx, obj):
    """Re-execute a replay file: the operations on a fresh object of the recorded instantiation."""
    if "ops" not in obj:
        for a in obj.get("trace", []):
            print(a)
        return
    kind, inst, n = obj["kind"], obj["inst"], obj["n"]
    rc.DUP_FORM_INSTS = {"ints", "tuples", "lists"}
    b = rc.make_binding(kind, inst, None, n)
    midx = 0
    for i, o in enumerate(obj["ops"]):
        act, exp, form = o["act"], o["state"], o.get("form", "*")
        mut = b.is_mutator(act["name"])
        if mut:
            midx += 1
        forms = b.forms_for(act) if form == "*" else [form]
        print("%2d %-22s arg=%-18s forms=%s  spec: res=%s exc=%r state=%s" % (
            i, act["name"], act["arg"], forms[:1] if mut else forms, act["res"], act["exc"], exp.get("items")))
        for f in (forms[:1] if mut else forms):
            b.form = f
            d = rc.step(b, act, exp, midx)
            if d:
                print("   real object now: %r" % (b.obj,))
                print("   DIVERGENCE (%s) style %s form %s: observed %s, expected %s" % (
                    d["what"], d["style"], f, d["observed"], d["expected"]))
                ctx.violations += 1
                return
        print("   real object now: %r" % (b.obj,))
    print("no divergence")
