"""C08 - partition tokens equal those of Cassandra's partitioners (on the enumerated keys; see level_note).

Spec: spec/Tokens.tla - Cassandra's MurmurHash.hash3_x64_128 (seed 0, first word; sign-extended TAIL bytes) and
      Murmur3Partitioner.normalize written in TLA+ on 64-bit words represented as 8 little-endian byte limbs (Add64, Mul64
      schoolbook on bytes, Xor64 through Bitwise ^^, Rotl64, logical Shr64, Shl64, FromBytesLE, SignExtend, ToSigned =
      signed decimal by long division); RandomPartitioner's rule abs(BigInteger(digest)) on a GIVEN 16-byte digest (MD5
      itself is not specified); ByteOrderedPartitioner (token = key, unsigned lexicographic order).
      The definition is ANCHORED before anything is enumerated (ASSUMEs evaluated by TLC at start-up): the five
      input/token pairs of tests/unit/test_metadata.py (two of them have negative tail bytes and separate Cassandra's
      variant from canonical MurmurHash3 - also asserted), the published canonical vectors x64_128('The quick brown fox
      jumps over the lazy dog') = e34bbc7bbc071b6c7a433ca9c49a9347 and mmh3.hash64('foo') (they pin h2 and the k2 half
      of the tail), the empty key, the two MD5 tokens of test_metadata.py, -1 -> 1, -2^127 -> 2^127, and arithmetic lemmas
      on words whose value is evident.  TLC also checks on every case: the token is never Long.MIN_VALUE and is the hash
      otherwise (NeverMinimum), the sign-extending switch equals a second, limb-wise derivation (TailSigns: a limb is the
      tail byte, inverted iff an odd number of lower positions hold a negative byte), RPRange, BOPOrder, TypeOK.
TLC : a case = one state; the hash is evaluated in the single Compute step so that the workers share the work.
      Measured: one hash costs TLC 6 ms (tail only) .. 20 ms (4 blocks) CPU on one worker (a Mul64 is 36 byte products).
      quick   : lengths 0..47 (every tail size 0..15 with 0, 1, 2 full blocks) x {0x00, 0x01, 0x7f, 0x80, 0xff} repeated;
                one byte 0x80 / 0xff on a background 0x7f at every tail position and at the first / last byte of each
                8-byte word of the blocks; every subset of negative positions of a tail of 1..7 bytes (0 and 2 blocks in front);
                3 LCG keys per length; the 7 anchor keys; normalize on 8 hash values incl. -2^63; 20 digests; 6 RFC 1321
                keys; 17 x 17 byte-ordered pairs (2,326 states computed, 2,003 of them hashes).
      thorough: lengths 0..79 (0..4 blocks), the marked byte at EVERY position on backgrounds 0x00 and 0x7f, sign subsets of tails of 1..10 bytes x 3
                byte pairs x 0..2 blocks, 40 LCG keys per length; second run: every subset of negative positions of EVERY
                tail size 1..15 (65,534 keys) (100,518 states computed, 100,195 of them hashes).
Bind: every computed state is evaluated on the real code of the working tree: cassandra.murmur3._murmur3(key),
      Murmur3Token.hash_fn(key), Murmur3Token.from_key(key).value; the MIN_LONG mapping through Murmur3Token.hash_fn with
      cassandra.metadata.murmur3 replaced by a function answering the given hash value; MD5Token.hash_fn / from_key with
      cassandra.metadata.md5 replaced by a stand-in answering the given digest (and unreplaced on the RFC 1321 keys);
      BytesToken.from_key(key).value and the order of BytesToken objects (from_key and from_string).  In the thorough tier
      the same states are also run in a subprocess on the COMPILED build of the current tree (checks/c07.build_compiled:
      cassandra.cmurmur3 and the token code that then uses it); skipped with a note when the build is unavailable.
"""
import concurrent.futures
import time

from harness import tlc
from harness.replay import tokens
from checks import _tokens

META = {
    "property_id": "C08",
    "engine": "Tokens",
    "technique": "TLA+ reference definition of Cassandra's Murmur3 token on byte limbs (anchored on known vectors by TLC), of "
                 "RandomPartitioner's rule on a given digest and of the byte order; TLC enumerates keys by tail size, block "
                 "count and sign pattern as states; every state is evaluated on the real token code (pure Python, and the "
                 "compiled cmurmur3 in the thorough tier)",
    "level": "model_checking",
    "level_text": "TLC first establishes the specification on independent known vectors (Cassandra-produced tokens of "
                  "test_metadata.py incl. negative tail bytes, published canonical MurmurHash3_x64_128 vectors, MD5 tokens, "
                  "arithmetic lemmas), then exhaustively enumerates the configured key space - every tail size 0..15 with "
                  "0..2 (thorough 0..4) full blocks over the byte alphabet {00, 01, 7f, 80, ff}, a sign-bit byte at every "
                  "tail position, every subset of negative tail positions (tails to 7 bytes; thorough: all 2^t subsets for "
                  "every t <= 15), pseudo-random keys per length, the MIN_VALUE mapping, digests with sign bit set / clear / "
                  "most negative, byte-ordered pairs - checks the token invariants on the specification and hands every "
                  "case to the real _murmur3 / Murmur3Token / MD5Token / BytesToken (thorough: also the compiled cmurmur3 "
                  "build), requiring the specification's value. Exhaustive over the enumerated keys only.",
    "level_note": "NOT covered: arbitrary keys between the enumerated ones (the property quantifies over all byte strings; a "
                  "hash has no case structure beyond length / tail / sign pattern, so agreement on other byte VALUES is "
                  "evidence by sampling, not proof); keys longer than 47 (thorough 79) bytes; MD5 itself (the rule is bound "
                  "on given digests; 6 RFC 1321 / test-suite digests are quoted as facts and hashlib is trusted); a key that "
                  "actually hashes to -2^63 (none is known; the mapping is checked on the value -2^63 handed to "
                  "Murmur3Token.hash_fn through the replaced hash function); big-endian platforms for cmurmur3 (blocks are "
                  "read in native byte order); str keys. The empty byte string is not a partition key (Cassandra answers "
                  "its ring minimum for it and refuses it as a key): only the hash function's value on it is compared, not "
                  "the token. Negative bytes at tail positions 8..14 are anchored by no published vector: they go through "
                  "the same SignExtend / Shl64 / TailWord operators as positions 0..7, which are. Trusted: TLC; the "
                  "transcription of Cassandra's MurmurHash / partitioners into Tokens.tla and the quoted vectors; the "
                  "harness (harness/replay/tokens.py) incl. the replacement of cassandra.metadata.murmur3 / md5 for the "
                  "separable cases; checks/c07's build recipe for the compiled tier.",
    "design_ref": "5.7 C08",
}


def run(ctx):
    states = []
    max_blocks = 0
    main_consts = dict(_tokens.tiers(ctx))["main"]
    # the vacuity witnesses only look at initial states (cheap, one worker each): run them beside the main TLC run
    pool = concurrent.futures.ThreadPoolExecutor(max_workers=1)
    wfuture = pool.submit(_tokens.witnesses, main_consts, ctx)
    try:
        _run(ctx, states, max_blocks, main_consts, wfuture)
    finally:
        pool.shutdown(wait=True)


def _run(ctx, states, max_blocks, main_consts, wfuture):
    for label, consts in _tokens.tiers(ctx):
        res, done, cases = _tokens.enumerate_done(label, consts, ctx)
        ctx.add_tlc(res, label)
        if res.violation:
            ctx.violation("TLC: invariant %s violated in Tokens.tla (the reference definition contradicts itself)" % res.invariant,
                          replay={"trace": [s for _, s in res.trace()]}, signature="spec:" + str(res.invariant))
            return
        if len(done) != cases or not done:
            raise tlc.MachineryError("run %s: %d initial states but %d computed states" % (label, cases, len(done)))
        ctx.count("hashes_per_run_" + label, sum(1 for s in done if s["fam"] == "m3"))
        states += done
        if label == "main":
            max_blocks = consts["MaxBlocks"]
    ctx.note("constants", {label: {k: (sorted(v) if isinstance(v, (set, frozenset)) else v) for k, v in c.items()}
                           for label, c in _tokens.tiers(ctx)})
    ctx.note("exhaustive", True)
    ctx.note("exhaustive_scope", "the configured finite key set is enumerated completely; keys outside it are not covered (see level_note)")
    ctx.note("anchors", "ASSUME Vector_* / Lemma_Words of Tokens.tla evaluated by TLC in every run: 5 Cassandra tokens of "
                        "test_metadata.py, 2 published canonical MurmurHash3_x64_128 vectors, empty key, 6 RandomPartitioner "
                        "values, 4 byte-order facts")
    for st in states:
        try:
            tokens.check_facts(st)
        except ValueError as ex:
            raise tlc.MachineryError(str(ex))
    cov = _tokens.require_coverage(states, max_blocks)
    ctx.note("census", cov)
    ctx.note("vacuity_witnesses_reached", wfuture.result())

    impl = tokens.Impl.pure()
    seams = tokens.bindable(impl)
    if not all(seams.values()):
        raise tlc.MachineryError("cannot bind the separable cases: cassandra.metadata lacks %s"
                                 % [k for k, v in seams.items() if not v])
    if impl.md.murmur3 is not impl.hash_fn:
        ctx.note("in_process_murmur3", "cassandra.metadata.murmur3 is %r, not the pure-Python _murmur3 (an extension is present "
                                       "in the working tree); _murmur3 is still called directly" % (impl.md.murmur3,))
    out = tokens.run_states(impl, states)
    ctx.evaluations += out["evaluations"]
    ctx.traces_validated += len(states)
    devs = list(out["devs"])
    ctx.note("binding_selftest", {"corrupted_rejected": _tokens.selftest(impl, states)})

    if not ctx.quick:
        build_dir, binfo = _tokens.compiled_build(ctx)
        if build_dir is None:
            ctx.note("compiled", "SKIPPED - " + binfo)
            print("note: compiled cmurmur3 not checked (%s)" % binfo)
        else:
            t0 = time.time()
            cout = _tokens.run_compiled(ctx, build_dir, states)
            ctx.note("compiled", {"build": binfo, "info": cout["info"], "run_s": round(time.time() - t0, 1),
                                  "evaluations": cout["evaluations"]})
            ctx.evaluations += cout["evaluations"]
            ctx.traces_validated += len(states)
            devs += cout["devs"]
            # self-test of the subprocess path: a corrupted expectation must come back as a deviation
            probe = next(s for s in states if s["fam"] == "m3" and tokens.features(s)["neg_tail"])
            bad = dict(probe, res=dict(probe["res"], h=dict(probe["res"]["h"], neg=not probe["res"]["h"]["neg"])))
            if len(_tokens.run_compiled(ctx, build_dir, [bad])["devs"]) <= len(_tokens.run_compiled(ctx, build_dir, [probe])["devs"]):
                raise tlc.MachineryError("binding self-test failed: the compiled-build subprocess did not notice a corrupted expectation")
    else:
        ctx.note("compiled", "not run in the quick tier")

    for st in states:
        if st["fam"] == "m3":
            f = tokens.features(st)
            if f["neg_tail"] or f["blocks"]:
                ctx.nontrivial((st["fam"], bytes(st["key"]).hex()))
        elif st["fam"] != "bop" or st["res"]["cmp"] != "eq":
            ctx.nontrivial((st["fam"], bytes(st["key"]).hex(), bytes(st["aux"]).hex()))
    picks = [next(s for s in states if s["fam"] == "m3" and len(tokens.features(s)["neg_tail"]) > 1 and tokens.features(s)["blocks"] >= 1),
             next(s for s in states if s["fam"] == "minmap" and tokens.word(s["key"]) == -2 ** 63),
             next(s for s in states if s["fam"] == "rp" and s["key"][0] >= 128),
             next(s for s in states if s["fam"] == "bop" and s["res"]["cmp"] == "lt" and len(s["key"]) > 1)]
    for st in picks:
        ctx.sample(tokens.describe(st))
    ctx.note("rule", "one case = one computed TLC state (family, key bytes [, second operand]); evaluations = calls of the real "
                     "functions compared with the specification's value; non-trivial = an m3 key with a full block or a negative "
                     "tail byte, any normalize / digest case, a byte-ordered pair of different keys")
    empty = next((s for s in states if s["fam"] == "m3" and not s["key"]), None)
    if empty is not None:
        r = tokens.call(lambda: impl.md.Murmur3Token.from_key(b"").value)
        ctx.note("empty_key", "hash compared (0); token not compared: Cassandra's getToken answers its ring minimum -2^63 for "
                              "the empty byte string, which is not a legal partition key; the driver answers %s" % tokens.show(r))
    _tokens.report(ctx, states, devs)
    ctx.assumptions += ["keys restricted to the enumerated set (lengths, byte alphabets, sign patterns, LCG keys)",
                        "MD5 not specified: digests given; hashlib trusted for the 6 quoted RFC 1321 / test-suite digests",
                        "the empty byte string is not a partition key: its token is not compared",
                        "cmurmur3 judged on this (little-endian) platform only"]


def replay(ctx, obj):
    st = obj["state"]
    print("case: %s" % tokens.describe(st))
    impl = tokens.Impl.pure()
    n, devs = tokens.evaluate(impl, st)
    for d in devs:
        d["impl"] = "pure"
    if obj.get("impl") == "compiled":
        build_dir, binfo = _tokens.compiled_build(ctx)
        if build_dir is None:
            raise tlc.MachineryError("cannot replay on the compiled build: %s" % binfo)
        devs += _tokens.run_compiled(ctx, build_dir, [st])["devs"]
    for d in devs:
        print("  %s [%s]: specification %s, code %s" % (d["what"], d["impl"], d["expected"], d["got"]))
    if devs:
        ctx.violation("replayed: still differs: %s" % sorted({d["what"] for d in devs}), replay=obj)
    else:
        print("  no difference")
