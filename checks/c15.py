"""C15 - requests with a timeout finish in bounded time (spec/Request.tla)."""
from checks import _request

META = {
    "property_id": "C15",
    "engine": "Request",
    "technique": 'TLA+ spec of one ResponseFuture with its timer (speculative / timeout / stale) over two page epochs, TLC invariants + liveness under timer fairness; every graph edge replayed on the real objects and every incomplete behaviour drained under virtual time to the deadline',
    "level": "model_checking",
    "level_text": "TLC checks in every reachable state of the execution and of the page fetch started by start_fetching_next_page that an incomplete future owns a live (not cancelled, not fired) timer, and, under weak fairness of the timer callbacks, that every execution and page fetch completes. On the real objects every edge is replayed comparing the liveness/kind of fut._timer, and at the end of every behaviour that leaves the future incomplete all nodes stay silent, the virtual clock is advanced to start+timeout firing the future's timers as they fall due, and the future must be complete with OperationTimedOut by then (first page and next page).",
    "level_note": "Trusted: TLC; the SimConnection/FakeNode/SimExecutor doubles and the independent codec; atomicity of "
                  "loop-thread callbacks, of execute_async/start_fetching_next_page and of each _retry_task; small scope "
                  "(one future, <=4 hosts, <=2 speculative executions, <=2-3 retries, <=2 pages; next page only when no "
                  "attempt of the previous page is outstanding). Where the pinned code deviates the spec keeps the intended "
                  "behaviour and the replay / trace validation reports the deviation.",
    "design_ref": "5.3 C15",
}


def run(ctx):
    _request.run(ctx, "C15")


def replay(ctx, obj):
    _request.replay(ctx, "C15", obj)
